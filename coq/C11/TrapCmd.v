(* C11 — the `trap` built-in's operand handling as a function from the operand
   list to the TrapSet operations it performs and its exit status.

     yash-builtin/src/trap/syntax.rs  interpret: the first operand is the action
                                      unless it is a non-negative integer;
                                      parse_condition for every other operand
                                      (0 / EXIT, a known signal number, a name
                                      str2sig knows: upper case, no SIG prefix);
                                      any unknown operand: nothing is done
                                      ("soft" failure, exit status 1); an action
                                      without condition: error (exit status 2);
                                      no operand: print the traps
     yash-builtin/src/trap.rs         Command::execute, SetAction: one
                                      TrapSet::set_action per condition, in
                                      order, the errors are collected and the
                                      loop goes on; override_ignore = interactive;
                                      main: InitiallyIgnored errors are dropped
                                      (silent), any other error: exit status 1

   Operands are classified by what the lexical tests of the code see. *)
From Yv Require Import Common.Base C11.Model.

Inductive word :=
| WNum (n : N)        (* all ASCII digits *)
| WName (c : N)       (* EXIT (c = 0) or a signal name known to str2sig *)
| WOther              (* any other non-empty word: unknown name, SIGINT, int, ... *)
| WDash               (* - *)
| WEmpty              (* the empty word *)
| WCmd (id : N).      (* the command text `hit ID` *)

Definition is_action_word (w : word) : bool :=
  match w with WNum _ => false | _ => true end.

(* a name or other word used as the action is a command text; commands that
   are not `hit ID` get the identifier 0 *)
Definition action_of (w : word) : action :=
  match w with
  | WDash => ADefault
  | WEmpty => AIgnore
  | WCmd id => ACommand id
  | WName _ | WOther => ACommand 0
  | WNum _ => ADefault
  end.

Section Known.
  (* Signals::to_signal_number: is this number a signal of the system? *)
  Variable known : N -> bool.

  Definition parse_cond (w : word) : option N :=
    match w with
    | WNum n => if N.eqb n 0 then Some 0%N else if known n then Some n else None
    | WName c => Some c
    | _ => None
    end.

  Definition split_action (ws : list word) : option word * list word :=
    match ws with
    | w :: r => if is_action_word w then (Some w, r) else (None, ws)
    | [] => (None, [])
    end.

  Inductive tcmd :=
  | TPrintAll
  | TSyntaxError (soft : bool)
  | TSet (a : action) (conds : list N).

  (* `partition_result` of the parsed operands *)
  Fixpoint partition (l : list (option N)) : list N * nat :=
    match l with
    | [] => ([], O)
    | Some c :: l => let '(cs, e) := partition l in (c :: cs, e)
    | None :: l => let '(cs, e) := partition l in (cs, S e)
    end.

  Definition interpret (ws : list word) : tcmd :=
    let '(act, rest) := split_action ws in
    let '(conds, errors) := partition (map parse_cond rest) in
    match errors with
    | S _ => TSyntaxError true
    | O =>
        match conds, act with
        | [], None => TPrintAll
        | [], Some _ => TSyntaxError false
        | _, _ => TSet (match act with Some w => action_of w | None => ADefault end) conds
        end
    end.

  (* Command::execute: the loop over the conditions never stops early *)
  Definition trap_builtin_ops (inter : bool) (ws : list word) : list op :=
    match interpret ws with
    | TSet a conds => map (fun c => OSetAction c a 0 inter) conds
    | _ => []
    end.

  Definition hard_res (r : res) : bool :=
    match r with RErrKill | RErrStop => true | _ => false end.

  (* exit status, given what set_action returned for each operation *)
  Definition trap_builtin_status (ws : list word) (rs : list res) : N :=
    match interpret ws with
    | TPrintAll => 0
    | TSyntaxError soft => if soft then 1 else 2
    | TSet _ _ => if existsb hard_res rs then 1 else 0
    end.

  (* ---- the specification, operand by operand --------------------------------------------- *)
  (* every operand after the action names a condition *)
  Definition all_conditions (rest : list word) : Prop :=
    forall w, In w rest -> parse_cond w <> None.

  Definition chosen_action (act : option word) : action :=
    match act with Some w => action_of w | None => ADefault end.

  (* one operation per condition operand, in order, none skipped, all with the
     same action and the override flag of an interactive shell *)
  Definition ops_match (inter : bool) (a : action) (rest : list word) (ops : list op) : Prop :=
    Forall2 (fun w o => exists c, parse_cond w = Some c /\ o = OSetAction c a 0 inter) rest ops.
End Known.
