(* C11 — lemmas, part G: the interactive shell may trap what a non-interactive
   one may not; an observation about subshell entry. *)
From Yv Require Import Common.Base C11.Model C11.Spec C11.Proofs.
Local Arguments N.eqb : simpl never.

(* override (interactive shell): the trap command is accepted whatever the
   state, and the new action is merged with the internal disposition *)
Lemma override_allowed_thm c init ops a tag :
  c <> EXIT -> c <> SIGKILL -> c <> SIGSTOP -> init <> Catch ->
  let st := run c init ops in
  let x := step c (OSetAction c a tag true) st in
  o_res x = ROk /\
  exists e, s_ent (o_st x) = Some e /\ e_cur e = mkT a (User tag) false /\
            e_parent e = None /\
            e_internal e = match s_ent st with Some e0 => e_internal e0 | None => Default end /\
            s_disp (o_st x) = dmax (e_internal e) (disp_of a).
Proof.
  intros Hc Hk Hs Hi st x.
  pose proof (disp_inv_step c init (OSetAction c a tag true) st Hc Hi (disp_inv_run c init ops Hc Hi))
    as [Hd _].
  fold st in Hd. unfold step_st in Hd. fold x in Hd.
  pose proof (is_signal_true c Hc) as Hsig.
  subst x. revert Hd. clearbody st.
  apply N.eqb_neq in Hk, Hs.
  destruct st as [[[[a0 og p] par int]|] d b]; unfold merged;
  unfold_step; rewrite Hk, Hs, N.eqb_refl; cbn; unfold is_signal in Hsig; rewrite ?Hsig; cbn.
  - destruct (disp_eqb (dmax int (disp_of a0)) (dmax int (disp_of a))); cbn; intros Hd;
      (split; [reflexivity|]); eexists; repeat split; exact Hd.
  - intros Hd. split; [reflexivity|]. eexists. repeat split. exact Hd.
Qed.

(* a signal that was not ignored on entry to the shell can always be trapped,
   whatever happened before (internal dispositions, read-only looks by
   `trap -p`, subshell entries that make the shell ignore it) *)
Definition FreeInv (st : sigst) : Prop :=
  match s_ent st with
  | None => s_disp st = Default
  | Some e => t_action (e_cur e) = AIgnore -> t_origin (e_cur e) <> Inherited
  end.

Lemma free_step c o st : FreeInv st -> FreeInv (step_st c st o).
Proof.
  intros H.
  destruct st as [[[[a og p] par int]|] d b]; unfold FreeInv in *; cbn in H;
  destruct o as [c' a' tag ovr | c' | c' d' | [|] [|] | c' | c'];
  unfold_step; unfold is_signal; cbn in *; split_goal; cbn; intros; finish;
  try (intros E; apply H; [reflexivity | exact E]).
Qed.

Lemma free_run c ops : FreeInv (run c Default ops).
Proof.
  induction ops as [|o ops IH] using rev_ind; [reflexivity|].
  rewrite run_snoc. apply free_step. exact IH.
Qed.

Lemma trappable_thm c ops a tag ovr :
  c <> SIGKILL -> c <> SIGSTOP ->
  o_res (step c (OSetAction c a tag ovr) (run c Default ops)) = ROk.
Proof.
  intros Hk Hs. pose proof (free_run c ops) as H. revert H.
  generalize (run c Default ops) as st. intros st H.
  apply N.eqb_neq in Hk, Hs.
  destruct st as [[[[a0 og p] par int]|] d b]; unfold FreeInv in H; cbn in H;
  unfold_step; rewrite Hk, Hs, N.eqb_refl; cbn.
  - destruct (negb ovr && action_eqb a0 AIgnore && origin_eqb og Inherited) eqn:E.
    + exfalso. apply andb_true_iff in E. destruct E as [E E2]. apply andb_true_iff in E.
      destruct E as [_ E1]. apply action_eqb_eq in E1. apply origin_eqb_eq in E2.
      apply (H E1 E2).
    + split_goal; reflexivity.
  - subst d. unfold is_signal. split_goal; reflexivity.
Qed.

(* the replay of the repaired defect: with or without an earlier read-only look
   at the trap, a non-interactive asynchronous subshell can trap SIGINT *)
Lemma subshell_trap_accepted_thm :
  o_res (step SIGINT (OSetAction SIGINT (ACommand 1) 1 false)
           (run SIGINT Default [OPeek SIGINT; OEnterSubshell true false])) = ROk
  /\ o_res (step SIGINT (OSetAction SIGINT (ACommand 1) 1 false)
              (run SIGINT Default [OEnterSubshell true false])) = ROk.
Proof. split; reflexivity. Qed.
