(* C11 — the `trap` built-in's operand loop against its operand-by-operand
   specification. *)
From Coq Require Import Lia.
From Yv Require Import Common.Base C11.Model C11.TrapCmd.

Section Known.
  Variable known : N -> bool.

  Lemma partition_ok rest cs :
    partition (map (parse_cond known) rest) = (cs, O) ->
    Forall2 (fun w c => parse_cond known w = Some c) rest cs.
  Proof.
    revert cs. induction rest as [|w rest IH]; intros cs H; cbn in H.
    - inversion H. constructor.
    - destruct (parse_cond known w) as [c|] eqn:Hp;
        destruct (partition (map (parse_cond known) rest)) as [cs' e] eqn:Hq;
        inversion H; subst.
      constructor; [exact Hp|]. apply IH. reflexivity.
  Qed.

  Lemma partition_err rest cs e :
    partition (map (parse_cond known) rest) = (cs, S e) ->
    exists w, In w rest /\ parse_cond known w = None.
  Proof.
    revert cs e. induction rest as [|w rest IH]; intros cs e H; cbn in H.
    - inversion H.
    - destruct (parse_cond known w) as [c|] eqn:Hp;
        destruct (partition (map (parse_cond known) rest)) as [cs' e'] eqn:Hq;
        inversion H; subst.
      + destruct (IH _ _ eq_refl) as [x [Hx Hn]]. exists x. split; [right; exact Hx|exact Hn].
      + exists w. split; [left; reflexivity|exact Hp].
  Qed.

  Lemma partition_noerr rest :
    all_conditions known rest -> exists cs, partition (map (parse_cond known) rest) = (cs, O).
  Proof.
    intros H. destruct (partition (map (parse_cond known) rest)) as [cs [|e]] eqn:Hq.
    - exists cs. reflexivity.
    - destruct (partition_err _ _ _ Hq) as [w [Hw Hn]]. exfalso. exact (H w Hw Hn).
  Qed.

  (* all or nothing on the operands; every condition gets its operation *)
  Theorem trap_builtin_loop_spec_proof inter ws :
    let '(act, rest) := split_action ws in
    ((exists w, In w rest /\ parse_cond known w = None) -> trap_builtin_ops known inter ws = []) /\
    (all_conditions known rest ->
     ops_match known inter (chosen_action act) rest (trap_builtin_ops known inter ws)).
  Proof.
    unfold trap_builtin_ops, interpret.
    destruct (split_action ws) as [act rest] eqn:Hs. split.
    - intros [w [Hw Hn]].
      destruct (partition (map (parse_cond known) rest)) as [cs [|e]] eqn:Hq; [|reflexivity].
      exfalso. pose proof (partition_ok _ _ Hq) as HF.
      clear Hq Hs. induction HF as [|x c rest' cs' Hx HF IH]; [destruct Hw|].
      destruct Hw as [->|Hw]; [congruence|auto].
    - intros Hall. destruct (partition_noerr _ Hall) as [cs Hq]. rewrite Hq.
      pose proof (partition_ok _ _ Hq) as HF. unfold ops_match.
      assert (HG : Forall2 (fun w o => exists c, parse_cond known w = Some c /\
                                      o = OSetAction c (chosen_action act) 0 inter)
                           rest (map (fun c => OSetAction c (chosen_action act) 0 inter) cs)).
      { clear Hq Hs Hall. induction HF as [|x c rest' cs' Hx HF IH]; cbn; constructor; eauto. }
      destruct cs as [|c cs].
      + inversion HF; subst. destruct act; constructor.
      + destruct act; exact HG.
  Qed.

  (* exit status 0 exactly when the operands were accepted and no operation was
     refused for KILL/STOP; a refusal for a signal ignored on entry is silent *)
  Theorem trap_builtin_status_spec_proof ws rs :
    trap_builtin_status known ws rs = 0%N <->
    (interpret known ws = TPrintAll \/
     exists a conds, interpret known ws = TSet a conds /\
                     Forall (fun r => r <> RErrKill /\ r <> RErrStop) rs).
  Proof.
    unfold trap_builtin_status. destruct (interpret known ws) as [|soft|a conds] eqn:Hi.
    - split; auto.
    - split.
      + destruct soft; discriminate.
      + intros [H|(a & conds & H & _)]; discriminate.
    - split.
      + destruct (existsb hard_res rs) eqn:He; [discriminate|]. intros _. right.
        exists a, conds. split; [reflexivity|]. apply Forall_forall. intros r Hr.
        assert (hard_res r = false).
        { destruct (hard_res r) eqn:E; [|reflexivity].
          assert (existsb hard_res rs = true) by (apply existsb_exists; eauto). congruence. }
        destruct r; cbn in H; try discriminate; split; discriminate.
      + intros [H|(a' & conds' & _ & HF)]; [discriminate|].
        destruct (existsb hard_res rs) eqn:He; [|reflexivity].
        apply existsb_exists in He. destruct He as [r [Hr Hh]].
        rewrite Forall_forall in HF. destruct (HF r Hr) as [H1 H2].
        destruct r; cbn in Hh; try discriminate; congruence.
  Qed.

  (* a numeric first operand is a condition: the action is the default one *)
  Theorem trap_numeric_first_resets_proof inter n rest :
    all_conditions known (WNum n :: rest) ->
    ops_match known inter ADefault (WNum n :: rest) (trap_builtin_ops known inter (WNum n :: rest)).
  Proof.
    intros H. pose proof (trap_builtin_loop_spec_proof inter (WNum n :: rest)) as T.
    cbn [split_action is_action_word] in T. destruct T as [_ T]. exact (T H).
  Qed.
End Known.

(* ---- non-vacuity ---------------------------------------------------------------------------- *)
Definition ex_known (n : N) : bool := N.ltb n 200.

Example ex_trap_ops :
  trap_builtin_ops ex_known false [WCmd 1; WName 2; WNum 9; WName 15; WNum 0]%N
  = [OSetAction 2 (ACommand 1) 0 false; OSetAction 9 (ACommand 1) 0 false;
     OSetAction 15 (ACommand 1) 0 false; OSetAction 0 (ACommand 1) 0 false]%N
  /\ trap_builtin_status ex_known [WCmd 1; WName 2; WNum 9; WName 15; WNum 0]%N
       [RErrIgnored; RErrKill; ROk; ROk] = 1%N
  /\ trap_builtin_status ex_known [WCmd 1; WName 2; WName 15]%N [RErrIgnored; ROk] = 0%N
  /\ trap_builtin_ops ex_known true [WNum 2; WName 15]%N
     = [OSetAction 2 ADefault 0 true; OSetAction 15 ADefault 0 true]%N
  /\ trap_builtin_ops ex_known false [WDash; WName 2; WOther; WName 15]%N = []
  /\ trap_builtin_status ex_known [WDash; WName 2; WOther; WName 15]%N [] = 1%N
  /\ trap_builtin_status ex_known [WCmd 1]%N [] = 2%N
  /\ trap_builtin_status ex_known [] [] = 0%N.
Proof. vm_compute. repeat split. Qed.
