(* C11, second half — the property as a MONITOR over the trace recorded by
   the instrumented built-ins.  It never looks at the program that produced the
   trace (its control flow is irrelevant): it only needs the table of trap
   actions, and checks, event by event,

     - a trap action starts only for a signal that is trapped with that action
       and has a delivery outstanding; the delivery is then consumed (run
       once);
     - outside a trap action, no other command runs while a delivery to a
       trapped signal is outstanding (the action runs at the next command
       boundary); inside a trap action deliveries are deferred;
     - the action runs to its end, in order;
     - $? seen by the first command of the action is the $? left by the
       interrupted command sequence, and the command after the action sees it
       again (preserved);
     - after the default action of a signal killed a process, the process does
       nothing more; a subshell starts with the command traps reset.

   [strict] fixes what happens to a delivery outstanding for a signal whose trap
   is replaced by another command before the action ran (only possible from
   inside another trap action): strictly read, the property makes the action
   now in force run (exactly once per delivery); with [strict = false] the
   outcome is left open ("unknown").  yash-rs forgets such a delivery, so the
   theorem is proved for [strict = false], the strict reading is refuted on the
   model, and the run-time check uses the strict reading. *)
From Yv Require Import Common.Base C11.ScriptModel.

Inductive tri3 := ONo | OYes | OUnknown.

Inductive mode :=
| MMain
| MBody (rest : list bcmd) (saved : N).

Record mon := mkMon {
  m_cur : list (N * tact);     (* trap table as announced by the mark events *)
  m_owed : list (N * tri3);    (* deliveries outstanding *)
  m_last : N;                  (* $? the next command must see *)
  m_mode : mode;
  m_dead : option N            (* killed by this signal *)
}.

Fixpoint owed_of (l : list (N * tri3)) (sg : N) : tri3 :=
  match l with
  | [] => ONo
  | (s, o) :: l => if N.eqb s sg then o else owed_of l sg
  end.

Fixpoint set_owed (l : list (N * tri3)) (sg : N) (o : tri3) : list (N * tri3) :=
  match l with
  | [] => [(sg, o)]
  | (s, x) :: l => if N.eqb s sg then (s, o) :: l else (s, x) :: set_owed l sg o
  end.

Definition is_body (a : tact) : bool := match a with TBody _ => true | _ => false end.

(* some trapped signal certainly has a delivery outstanding *)
Definition some_owed (m : mon) : bool :=
  existsb (fun p => match owed_of (m_owed m) (fst p) with
                    | OYes => is_body (trap_of (m_cur m) (fst p))
                    | _ => false
                    end) (m_owed m).

Definition ev_before (e : ev) : N :=
  match e with EProbe _ b _ | ERaise _ b _ | EMark _ _ b => b end.

(* does the event come from this command? *)
Definition ev_matches (b : bcmd) (e : ev) : bool :=
  match b, e with
  | BProbe k st, EProbe k' _ st' => N.eqb k k' && N.eqb st st'
  | BRaise sg st, ERaise sg' _ st' => N.eqb sg sg' && N.eqb st st'
  | BTrap sg a, EMark sg' a' _ => N.eqb sg sg' && tact_eqb a a'
  | _, _ => false
  end.

(* what an event does to the bookkeeping *)
Definition effect (strict : bool) (m : mon) (e : ev) (md : mode) : mon :=
  match e with
  | EProbe _ _ arg => mkMon (m_cur m) (m_owed m) arg md (m_dead m)
  | ERaise sg _ arg =>
      match trap_of (m_cur m) sg with
      | TBody _ => mkMon (m_cur m) (set_owed (m_owed m) sg OYes) arg md (m_dead m)
      | TIgnore => mkMon (m_cur m) (m_owed m) arg md (m_dead m)
      | TDefault => mkMon (m_cur m) (m_owed m) arg md (Some sg)
      end
  | EMark sg a _ =>
      mkMon (set_trap (m_cur m) sg a)
            (match owed_of (m_owed m) sg with
             | OYes => if strict && is_body a then m_owed m else set_owed (m_owed m) sg OUnknown
             | _ => m_owed m
             end)
            0 md (m_dead m)
  end.

(* trap actions are recognised by their first command: `p (1000 + id) _` *)
Definition BODY_KEY : N := 1000.

Definition starts_body (e : ev) : option N :=
  match e with
  | EProbe k _ _ => if N.leb BODY_KEY k then Some (k - BODY_KEY)%N else None
  | _ => None
  end.

(* a signal trapped with action [id] whose delivery is (or may be) outstanding:
   certain ones first, the lowest number among several *)
Definition min_sig (f : N -> bool) (l : list (N * tact)) : option N :=
  fold_left (fun acc p =>
               if f (fst p)
               then match acc with None => Some (fst p) | Some a => Some (N.min a (fst p)) end
               else acc) l None.

Definition owed_signal (m : mon) (id : N) : option N :=
  let trapped sg := tact_eqb (trap_of (m_cur m) sg) (TBody id) in
  match min_sig (fun sg => trapped sg
                           && match owed_of (m_owed m) sg with OYes => true | _ => false end)
                (m_cur m) with
  | Some sg => Some sg
  | None =>
      min_sig (fun sg => trapped sg
                         && match owed_of (m_owed m) sg with OUnknown => true | _ => false end)
              (m_cur m)
  end.

(* rejection reasons (verdict 20 + k) *)
Definition R_AFTER_DEATH : N := 0.    (* a killed process went on *)
Definition R_STATUS : N := 1.         (* $? not preserved / not what the previous command left *)
Definition R_BODY : N := 2.           (* a trap action did not run to its end in order *)
Definition R_SPURIOUS : N := 3.       (* a trap action ran without an outstanding delivery *)
Definition R_LATE : N := 4.           (* a command ran while a delivery to a trapped signal was outstanding *)
Definition R_LOST : N := 5.           (* the process ended with a delivery outstanding / inside an action *)
Definition R_PROC : N := 6.           (* subshell bookkeeping (unexpected process, unfinished parent) *)
Definition R_END : N := 7.            (* the shell's end (killed or not) does not fit the trace *)

Definition next_mode (rest : list bcmd) (saved : N) (m : mon) : mon :=
  match rest with
  | [] => mkMon (m_cur m) (m_owed m) saved MMain (m_dead m)     (* $? restored *)
  | _ => mkMon (m_cur m) (m_owed m) (m_last m) (MBody rest saved) (m_dead m)
  end.

Definition in_body (strict : bool) (tbl : table) (m : mon) (e : ev) (rest : list bcmd) (saved : N) : mon + N :=
  match rest with
  | [] => inr R_BODY
  | b :: rest' =>
      if negb (ev_matches b e) then inr R_BODY
      else if negb (N.eqb (ev_before e) (m_last m)) then inr R_STATUS
      else
        let m1 := effect strict m e (MBody rest' saved) in
        match m_dead m1 with
        | Some _ => inl m1
        | None => inl (next_mode rest' saved m1)
        end
  end.

(* one event of one process *)
Definition mon_event (strict : bool) (tbl : table) (m : mon) (e : ev) : mon + N :=
  match m_dead m with
  | Some _ => inr R_AFTER_DEATH
  | None =>
      match m_mode m with
      | MBody rest saved => in_body strict tbl m e rest saved
      | MMain =>
          match starts_body e with
          | Some id =>
              match owed_signal m id with
              | None => inr R_SPURIOUS
              | Some sg =>
                  let m0 := mkMon (m_cur m) (set_owed (m_owed m) sg ONo) (m_last m) MMain None in
                  in_body strict tbl m0 e (body_of tbl id) (m_last m)
              end
          | None =>
              if some_owed m then inr R_LATE
              else if negb (N.eqb (ev_before e) (m_last m)) then inr R_STATUS
              else inl (effect strict m e MMain)
          end
      end
  end.

(* a process may end here (normally) *)
Definition mon_finished (m : mon) : bool :=
  match m_mode m with MMain => negb (some_owed m) | _ => false end.

Record top := mkTop {
  t_par : mon;
  t_child : option (N * mon);
  t_next : N
}.

Definition reset_cur (l : list (N * tact)) : list (N * tact) :=
  map (fun p => (fst p, match snd p with TBody _ => TDefault | a => a end)) l.

(* the subshell is over: the parent's $? is its exit status *)
Definition finish_child (t : top) : top + N :=
  match t_child t with
  | None => inl t
  | Some (_, cm) =>
      let p := t_par t in
      match m_dead cm with
      | Some sg => inl (mkTop (mkMon (m_cur p) (m_owed p) (384 + sg) (m_mode p) (m_dead p)) None (t_next t))
      | None =>
          if mon_finished cm
          then inl (mkTop (mkMon (m_cur p) (m_owed p) (m_last cm) (m_mode p) (m_dead p)) None (t_next t))
          else inr R_LOST
      end
  end.

Definition top_event (strict : bool) (tbl : table) (t : top) (x : event) : top + N :=
  let '(p, e) := x in
  if N.eqb p 0 then
    match finish_child t with
    | inr k => inr k
    | inl t1 =>
        match mon_event strict tbl (t_par t1) e with
        | inl m => inl (mkTop m None (t_next t1))
        | inr k => inr k
        end
    end
  else
    let continue_child (t : top) (cm : mon) :=
      match mon_event strict tbl cm e with
      | inl cm' => inl (mkTop (t_par t) (Some (p, cm')) (t_next t))
      | inr k => inr k
      end in
    let start_child (t : top) :=
      let par := t_par t in
      if negb (N.eqb p (t_next t)) then inr R_PROC
      else match m_dead par with
           | Some _ => inr R_AFTER_DEATH
           | None =>
               if negb (mon_finished par) then inr R_PROC
               else continue_child (mkTop par None (p + 1))
                      (mkMon (reset_cur (m_cur par)) [] (m_last par) MMain None)
           end in
    match t_child t with
    | Some (q, cm) =>
        if N.eqb q p then continue_child t cm
        else match finish_child t with
             | inr k => inr k
             | inl t1 => start_child t1
             end
    | None => start_child t
    end.

Fixpoint top_run (strict : bool) (tbl : table) (t : top) (l : list event) : top + N :=
  match l with
  | [] => inl t
  | x :: l =>
      match top_event strict tbl t x with inl t' => top_run strict tbl t' l | inr k => inr k end
  end.

Definition top_init : top := mkTop (mkMon [] [] 0 MMain None) None 1.

(* the whole trace; [dead] = the main shell did not reach the end of the script *)
Definition monitor (strict : bool) (tbl : table) (trace : list event) (dead : bool) : option N :=
  match top_run strict tbl top_init trace with
  | inr k => Some k
  | inl t =>
      match finish_child t with
      | inr k => Some k
      | inl t1 =>
          let m := t_par t1 in
          match m_dead m, dead with
          | Some _, true => None
          | None, false => if mon_finished m then None else Some R_LOST
          | _, _ => Some R_END
          end
      end
  end.

(* ---- the scripts the check covers -------------------------------------------------- *)
(* every trap action starts with its own marker probe; no other probe uses a
   key in the marker range *)
Definition bcmd_plain (b : bcmd) : bool :=
  match b with BProbe k _ => N.ltb k BODY_KEY | _ => true end.

Definition body_ok (p : N * list bcmd) : bool :=
  match snd p with
  | BProbe k _ :: rest => N.eqb k (BODY_KEY + fst p)%N && forallb bcmd_plain rest
  | _ => false
  end.

Definition nonempty {A} (l : list A) : bool := match l with [] => false | _ => true end.

(* plain probes only, and no empty command list (every compound command
   records at least one event) *)
Fixpoint cmd_plain (c : cmd) : bool :=
  match c with
  | CB b => bcmd_plain b
  | CBrace l => nonempty l && forallb cmd_plain l
  | CSub l => nonempty l && forallb cmd_plain l
  | CIf c t e =>
      nonempty c && nonempty t && nonempty e
      && forallb cmd_plain c && forallb cmd_plain t && forallb cmd_plain e
  end.

Fixpoint no_sub (c : cmd) : bool :=
  match c with
  | CB _ => true
  | CBrace l => forallb no_sub l
  | CSub _ => false
  | CIf c t e => forallb no_sub c && forallb no_sub t && forallb no_sub e
  end.

(* subshells are not nested (the trace identifies processes by order of
   appearance only) *)
Fixpoint subs_ok (c : cmd) : bool :=
  match c with
  | CB _ => true
  | CBrace l => forallb subs_ok l
  | CSub l => forallb no_sub l
  | CIf c t e => forallb subs_ok c && forallb subs_ok t && forallb subs_ok e
  end.

(* every action that a trap command names is in the table *)
Definition bcmd_ids_ok (tbl : table) (b : bcmd) : bool :=
  match b with
  | BTrap _ (TBody id) => existsb (fun p => N.eqb (fst p) id) tbl
  | _ => true
  end.

Fixpoint cmd_ids_ok (tbl : table) (c : cmd) : bool :=
  match c with
  | CB b => bcmd_ids_ok tbl b
  | CBrace l => forallb (cmd_ids_ok tbl) l
  | CSub l => forallb (cmd_ids_ok tbl) l
  | CIf c t e =>
      forallb (cmd_ids_ok tbl) c && forallb (cmd_ids_ok tbl) t && forallb (cmd_ids_ok tbl) e
  end.

Definition script_ok (tbl : table) (main : list cmd) : bool :=
  forallb body_ok tbl && forallb (fun p => forallb (bcmd_ids_ok tbl) (snd p)) tbl
  && forallb cmd_plain main && forallb subs_ok main && forallb (cmd_ids_ok tbl) main.

(* ---- the class of the known finding C11-retrap-pending, on traces --------------------- *)
(* the event gives a new command to a signal that has a delivery outstanding *)
Definition retrap_ev (m : mon) (e : ev) : bool :=
  match e with
  | EMark sg a _ =>
      is_body a && match owed_of (m_owed m) sg with OYes => true | _ => false end
  | _ => false
  end.

(* the bookkeeping of the process that the next event belongs to (a subshell
   that starts with this event has nothing outstanding) *)
Definition event_mon (t : top) (p : N) : option mon :=
  if N.eqb p 0 then
    match finish_child t with inl t1 => Some (t_par t1) | inr _ => None end
  else
    match t_child t with
    | Some (q, cm) => if N.eqb q p then Some cm else None
    | None => None
    end.

Fixpoint retrap_free_from (tbl : table) (t : top) (l : list event) : bool :=
  match l with
  | [] => true
  | (p, e) :: l =>
      negb (match event_mon t p with Some m => retrap_ev m e | None => false end)
      && match top_event false tbl t (p, e) with
         | inl t' => retrap_free_from tbl t' l
         | inr _ => true
         end
  end.

(* no event of the trace is of that class *)
Definition trace_retrap_free (tbl : table) (trace : list event) : bool :=
  retrap_free_from tbl top_init trace.
