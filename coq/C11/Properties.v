(* C11 — property theorems only.  Each is closed by [exact] of a lemma from
   the Proofs files; the driver pins the statements with [Check] and prints
   the assumptions on every run.  [c] is a condition number (0 = EXIT,
   n = signal n), [run c init ops] the state of condition c after the
   per-condition history [ops] from the initial disposition [init];
   [global_projection] shows that every history of TrapSet API calls is such a
   history for each condition in play. *)
From Coq Require Import Sorted.
From Yv Require Import Common.Base C11.Model C11.Spec C11.Proofs C11.ProofsB C11.ProofsC
  C11.ProofsD C11.ProofsE C11.ProofsF C11.ProofsG C11.ScriptModel C11.ScriptSpec C11.ScriptProofs C11.ScriptTerm C11.Examples
  C11.WaitModel C11.WaitSpec C11.WaitProofs C11.TrapCmd C11.TrapCmdProofs.

(* every history of API operations acts on each condition as a per-condition history *)
Theorem global_projection : forall univ gops,
  exists ops,
    (Forall (fun o => gop_ok (map fst univ) o = true) gops ->
     Forall (fun x => op_ok x = true) ops) /\
    grun univ gops = map (fun p => (fst p, run (fst p) (snd p) ops)) univ.
Proof. exact global_projection_thm. Qed.

(* the installed disposition is always the merge of the internal disposition
   and the user's action, and a signal is blocked iff it is caught *)
Theorem disposition_inv : forall c init ops,
  c <> EXIT -> init <> Catch -> DispInv init (run c init ops).
Proof. exact disp_inv_run. Qed.

Theorem disposition_inv_global : forall univ gops c st,
  In (c, st) (grun univ gops) -> c <> EXIT ->
  (forall d, In (c, d) univ -> d <> Catch) ->
  exists d, In (c, d) univ /\ DispInv d st.
Proof. exact disp_inv_global_thm. Qed.

(* KILL and STOP: every trap command is refused, no system call is ever made
   for them, their entry (if peeked) stays the inherited one *)
Theorem kill_stop_never_trapped : forall c init ops,
  (c = SIGKILL \/ c = SIGSTOP) -> init <> Catch -> Forall (fun o => op_ok o = true) ops ->
  calls_of c (init_st init) ops = [] /\
  s_disp (run c init ops) = init /\
  (forall e, s_ent (run c init ops) = Some e ->
             e_cur e = from_initial init /\ e_internal e = Default) /\
  (forall a tag ovr,
     step c (OSetAction c a tag ovr) (run c init ops)
     = (run c init ops, [], if N.eqb c SIGKILL then RErrKill else RErrStop)).
Proof. exact kill_stop_thm. Qed.

(* non-interactive shell, signal ignored on entry: never reset to Default,
   never given a command, caught only for the shell's own needs, and every
   trap command on it is refused without changing the disposition *)
Theorem initially_ignored_immutable : forall c ops,
  c <> EXIT -> Forall (fun o => noninteractive o = true) ops ->
  let st := run c Ignore ops in
  s_disp st <> Default /\
  (forall e, s_ent st = Some e ->
             t_action (e_cur e) = AIgnore /\ t_origin (e_cur e) = Inherited) /\
  (s_disp st = Catch -> exists e, s_ent st = Some e /\ e_internal e = Catch) /\
  (forall a tag, c <> SIGKILL -> c <> SIGSTOP ->
     o_res (step c (OSetAction c a tag false) st) = RErrIgnored /\
     s_disp (step_st c st (OSetAction c a tag false)) = s_disp st).
Proof. exact locked_thm. Qed.

Example initially_ignored_immutable_nonvacuous :
  Forall (fun o => noninteractive o = true) ex_ops /\
  s_disp (run SIGINT Ignore [OSetAction SIGINT (ACommand 1) 1 false; OInternal SIGINT Catch]) = Catch
  /\ o_res (step SIGINT (OSetAction SIGINT (ACommand 1) 1 false) (init_st Ignore)) = RErrIgnored.
Proof. exact (conj ex_noninteractive ex_locked_state). Qed.

(* the complement: an interactive shell (override) may set any trap, also on a
   signal ignored on entry; the action is merged with the internal disposition *)
Theorem interactive_override_allowed : forall c init ops a tag,
  c <> EXIT -> c <> SIGKILL -> c <> SIGSTOP -> init <> Catch ->
  let st := run c init ops in
  let x := step c (OSetAction c a tag true) st in
  o_res x = ROk /\
  exists e, s_ent (o_st x) = Some e /\ e_cur e = mkT a (User tag) false /\
            e_parent e = None /\
            e_internal e = match s_ent st with Some e0 => e_internal e0 | None => Default end /\
            s_disp (o_st x) = dmax (e_internal e) (disp_of a).
Proof. exact override_allowed_thm. Qed.

(* and a signal that was not ignored on entry can always be trapped, whatever
   happened before (internal dispositions, `trap -p`, subshell entries that make
   the shell ignore it) *)
Theorem not_ignored_on_entry_trappable : forall c ops a tag ovr,
  c <> SIGKILL -> c <> SIGSTOP ->
  o_res (step c (OSetAction c a tag ovr) (run c Default ops)) = ROk.
Proof. exact trappable_thm. Qed.

(* replay of the defect repaired by /repo b8d5cfe: with or without an earlier
   read-only look (`trap -p INT`), an asynchronous subshell can trap SIGINT *)
Theorem subshell_trap_accepted :
  o_res (step SIGINT (OSetAction SIGINT (ACommand 1) 1 false)
           (run SIGINT Default [OPeek SIGINT; OEnterSubshell true false])) = ROk
  /\ o_res (step SIGINT (OSetAction SIGINT (ACommand 1) 1 false)
              (run SIGINT Default [OEnterSubshell true false])) = ROk.
Proof. exact subshell_trap_accepted_thm. Qed.

(* entering a subshell: command traps reset (and remembered as parent state,
   the caught flag dropped), ignored ones kept, internal dispositions cleared
   except SIGCHLD's, INT/QUIT resp. the stoppers forced to Ignore on request *)
Theorem enter_subshell_spec : forall c init ops ign keep,
  c <> EXIT -> init <> Catch ->
  let st := run c init ops in
  let st' := step_st c st (OEnterSubshell ign keep) in
  match s_ent st with
  | None =>
      if ign && is_int_quit c
      then s_disp st' = Ignore /\
           exists e', s_ent st' = Some e' /\ t_action (e_cur e') = AIgnore /\
                      e_parent e' = None /\ e_internal e' = Default
      else st' = st
  | Some e =>
      exists e', s_ent st' = Some e' /\
        t_action (e_cur e') =
          (if forced_ignore c ign keep (e_internal e) then AIgnore
           else if is_command (t_action (e_cur e)) then ADefault
           else t_action (e_cur e)) /\
        e_parent e' = (if is_command (t_action (e_cur e)) then Some (e_cur e) else None) /\
        e_internal e' = (if N.eqb c SIGCHLD then e_internal e else Default) /\
        (is_command (t_action (e_cur e)) = true -> t_pending (e_cur e') = false) /\
        s_disp st' = dmax (e_internal e') (disp_of (t_action (e_cur e')))
  end.
Proof. exact enter_subshell_thm. Qed.

(* a system call is made only when the disposition changes; only a condition
   without an entry may be probed (set to Ignore to learn what it was) *)
Theorem syscall_only_on_change : forall c init ops o,
  c <> EXIT -> init <> Catch ->
  let st := run c init ops in
  let calls := o_calls (step c o st) in
  let st' := step_st c st o in
  match s_ent st with
  | Some _ =>
      (calls = [] /\ s_disp st' = s_disp st)
      \/ (exists d, calls = [d] /\ d <> s_disp st /\ s_disp st' = d)
  | None =>
      (calls = [] /\ s_disp st' = s_disp st)
      \/ (exists d, calls = [d] /\ s_disp st' = d)
      \/ (exists d, calls = [Ignore; d] /\ d <> Ignore /\ s_disp st' = d)
  end.
Proof. exact syscall_thm. Qed.

Theorem exit_condition_no_syscall : forall o st,
  op_ok o = true -> o_calls (step EXIT o st) = [].
Proof. exact exit_no_syscall. Qed.

Example subshell_and_syscall_nonvacuous :
  let st := run SIGUSR1 Default [OSetAction SIGUSR1 (ACommand 1) 1 false; ODeliver SIGUSR1] in
  pending st = true /\ s_disp st = Catch
  /\ s_disp (step_st SIGUSR1 st (OEnterSubshell false false)) = Default
  /\ o_calls (step SIGUSR1 (OEnterSubshell false false) st) = [Default]
  /\ pending (step_st SIGUSR1 st (OEnterSubshell false false)) = false.
Proof. exact ex_subshell. Qed.

(* the caught flag: set only by the delivery of a caught signal, always set by
   it; handed out once by take; cleared only by take, a new trap, or a subshell *)
Theorem pending_set_only_by_delivery : forall c o st,
  pending st = false -> pending (step_st c st o) = true ->
  o = ODeliver c /\ s_disp st = Catch.
Proof. exact pending_set_thm. Qed.

Theorem pending_set_by_delivery : forall c init ops,
  c <> EXIT -> init <> Catch ->
  let st := run c init ops in
  s_disp st = Catch -> pending (step_st c st (ODeliver c)) = true.
Proof. exact pending_deliver_thm. Qed.

Theorem pending_cleared_once : forall c st,
  c <> EXIT ->
  let x := step c (OTakeSig c) st in
  pending (o_st x) = false /\
  o_calls x = [] /\
  (pending st = true ->
     exists e, s_ent st = Some e /\
       o_res x = RTaken c (mkT (t_action (e_cur e)) (t_origin (e_cur e)) false)) /\
  (pending st = false -> o_res x = RNone /\ o_st x = st) /\
  o_res (step c (OTakeSig c) (o_st x)) = RNone.
Proof. exact pending_take_thm. Qed.

Theorem pending_cleared_only_by : forall c o st,
  pending st = true -> pending (step_st c st o) = false ->
  o = OTakeSig c
  \/ (exists a tag ovr, o = OSetAction c a tag ovr /\ o_res (step c o st) = ROk)
  \/ (exists ign keep e, o = OEnterSubshell ign keep /\ s_ent st = Some e
                         /\ is_command (t_action (e_cur e)) = true).
Proof. exact pending_cleared_thm. Qed.

(* The model refines the reference state machine of Spec.v and passes every
   clause of the oracle on every history: the run-time oracle never demands
   more than the theorems give - for the lenient reading of "exactly once"
   ([strict = false]: when the trap of a signal is replaced by another command
   while a delivery of it is caught but not yet run, the outcome is left open).

   Full statement (the oracle as evaluated at run time, [strict = true]):
     forall univ gops, univ_ok univ = true ->
       Forall (fun o => gop_ok (map fst univ) o = true) gops ->
       oracle_hist true (spec_inits univ) (obs_inits univ)
                   (model_trace (ginit univ) gops) = None
   is FALSE of the faithful model: see oracle_sound_refuted. *)
Theorem oracle_sound_partial : forall univ gops,
  univ_ok univ = true ->
  Forall (fun o => gop_ok (map fst univ) o = true) gops ->
  oracle_hist false (spec_inits univ) (obs_inits univ) (model_trace (ginit univ) gops) = None.
Proof. exact oracle_sound_thm. Qed.

Example oracle_sound_nonvacuous :
  univ_ok ex_univ = true /\
  Forall (fun o => gop_ok (map fst ex_univ) o = true) ex_gops.
Proof. exact (conj ex_univ_ok ex_gops_ok). Qed.

(* trap set, signal caught, trap replaced by another command, take: the model
   (as TrapSet::set_action, which resets the pending flag) hands out nothing:
   clause 9 of the strict oracle fails, the lenient one accepts *)
Theorem oracle_sound_refuted : exists univ gops,
  univ_ok univ = true /\
  Forall (fun o => gop_ok (map fst univ) o = true) gops /\
  oracle_hist true (spec_inits univ) (obs_inits univ) (model_trace (ginit univ) gops) = Some 9%N /\
  oracle_hist false (spec_inits univ) (obs_inits univ) (model_trace (ginit univ) gops) = None.
Proof. exists refute_univ, refute_gops. exact refute_trapset. Qed.

(* The strict oracle (as evaluated at run time) accepts every history of the
   model that is outside the class of the known finding C11-retrap-pending: no
   step gives a new command to a condition that has a command and whose caught
   flag is set. *)
Theorem oracle_sound_outside_known_finding : forall univ gops,
  univ_ok univ = true ->
  Forall (fun o => gop_ok (map fst univ) o = true) gops ->
  retrap_class_free (ginit univ) gops = true ->
  oracle_hist true (spec_inits univ) (obs_inits univ) (model_trace (ginit univ) gops) = None.
Proof. exact oracle_strict_thm. Qed.

Example known_finding_class_nonvacuous :
  retrap_class_free (ginit ex_univ) ex_gops = true /\
  retrap_class_free (ginit refute_univ) refute_gops = false /\
  trace_retrap_free ex_tbl ex_trace = true /\
  trace_retrap_free refute_tbl refute_trace = false.
Proof. exact ex_class. Qed.

(* Second half of the property, on the model of trap execution around commands
   (ScriptModel.v): for every table of trap actions and every script of the
   command language (simple instrumented commands, brace groups, subshells,
   if), whatever the fuel, the trace of the run is accepted by the monitor of
   ScriptSpec.v: a trap action starts only for a trapped signal with a delivery
   outstanding and consumes it (exactly once per delivery, deliveries before a
   boundary coalescing); outside an action no command runs while a delivery is
   outstanding (the action runs at the next command boundary); inside an
   action deliveries are deferred; the action runs to its end; $? is handed to
   the action and restored after it; a killed process does nothing more; a
   subshell starts with the command traps reset. *)
(* Proved for the lenient monitor ([strict = false], see ScriptSpec.v).  The
   full statement, with [monitor true], is FALSE of the faithful model: see
   trap_runs_once_per_delivery_at_boundary_refuted. *)
Theorem trap_runs_once_per_delivery_at_boundary_partial : forall tbl bf main trace dead,
  script_ok tbl main = true ->
  run_script tbl bf main = Some (trace, dead) ->
  monitor false tbl trace dead = None.
Proof. exact script_monitor_sound_thm. Qed.

(* USR1's action delivers USR2 and then sets another command for USR2: neither
   the old nor the new action of USR2 ever runs (in the model as in yash-rs);
   the strict monitor reports the next command as running while a delivery is
   outstanding *)
Theorem trap_runs_once_per_delivery_at_boundary_refuted : exists tbl bf main trace,
  script_ok tbl main = true /\
  run_script tbl bf main = Some (trace, false) /\
  monitor true tbl trace false = Some R_LATE /\
  monitor false tbl trace false = None.
Proof. exists refute_tbl, 8%nat, refute_main, refute_trace. exact refute_script. Qed.

(* The strict monitor (as evaluated at run time) accepts every trace of the
   model in which no `trap` gives a new command to a signal with a delivery
   outstanding (the class of the known finding C11-retrap-pending). *)
Theorem trap_runs_once_per_delivery_at_boundary_outside_known_finding :
  forall tbl bf main trace dead,
  script_ok tbl main = true ->
  run_script tbl bf main = Some (trace, dead) ->
  trace_retrap_free tbl trace = true ->
  monitor true tbl trace dead = None.
Proof. exact script_monitor_strict_thm. Qed.

(* Termination of the loop that runs the traps of caught signals: if every
   trap command of the script (also those inside actions) installs, for a
   signal sg, an action that raises only signals numbered above sg, the model
   never runs out of fuel (fuel >= number of raise commands in the table + 2).
   Without the condition the real shell can loop forever (an action raising its
   own signal); the model then answers OutOfFuel, outside the domain. *)
Theorem trap_loop_terminates : forall tbl main bf,
  rank_ok tbl main = true -> (enough_fuel tbl <= bf)%nat ->
  run_script tbl bf main <> None.
Proof. exact trap_loop_terminates_thm. Qed.

Example trap_loop_terminates_nonvacuous :
  rank_ok ex_tbl ex_main = true /\
  script_ok loop_tbl loop_main = true /\ rank_ok loop_tbl loop_main = false /\
  run_script loop_tbl 200 loop_main = None.
Proof. exact ex_rank. Qed.

Example trap_runs_nonvacuous :
  script_ok ex_tbl ex_main = true /\
  run_script ex_tbl 8 ex_main = Some (ex_trace, false) /\
  monitor false ex_tbl ex_trace false = None.
Proof. exact (conj ex_script_ok (conj ex_script_runs ex_monitor_accepts)). Qed.

(* ---- `wait` interrupted by a trapped signal (WaitModel / WaitSpec) ---------------------- *)
(* the loop of the wait built-in (model) computes what the declarative specification says, for every trap table, target, job list and history of events *)
Theorem wait_model_meets_spec : forall traps t js evs, wait_loop traps t js evs = wait_spec traps t js evs.
Proof. exact wait_model_meets_spec_proof. Qed.

(* whole scripts: the trace and end of the shell of the model equal those of the specification *)
Theorem wait_script_meets_spec : forall atbl cs evs, wrun wait_loop atbl cs evs = wrun wait_spec atbl cs evs.
Proof. exact wait_script_meets_spec_proof. Qed.

(* the run-time oracle of stream D accepts the model's output for every script and history *)
Theorem wait_oracle_sound : forall atbl cs evs, let '(e, tr) := wrun wait_loop atbl cs evs in wait_oracle atbl cs evs tr (wend_eqb e EndKilled) = None.
Proof. exact wait_oracle_sound_proof. Qed.

(* wait returns 384+sg exactly when sg is the first signal with a command trap of an event that arrives before the awaited jobs have finished, all earlier events being quiet *)
Theorem wait_interrupted_iff : forall traps t js evs sg, w_out (wait_loop traps t js evs) = WIntr sg <-> exists q e r c js', evs = q ++ e :: r /\ forallb (quiet traps) q = true /\ scan_done t js q = inr js' /\ classify traps e = Intr sg c.
Proof. exact wait_interrupted_iff_proof. Qed.

(* ignored signals (and SIGCHLD without a command) never interrupt wait *)
Theorem wait_quiet_never_interrupts : forall traps t js evs, forallb (quiet traps) evs = true -> forall sg, w_out (wait_loop traps t js evs) <> WIntr sg.
Proof. exact quiet_never_interrupts_proof. Qed.

(* a batch of signals is quiet exactly when all of them are ignored *)
Theorem wait_quiet_sigs_iff : forall traps j l, quiet traps (WSigs j l) = true <-> forall sg, In sg l -> trap_of traps sg = TIgnore.
Proof. exact quiet_sigs_iff_proof. Qed.

(* after an interrupted wait the caught flags left are exactly the other command-trapped signals of the interrupting event, each once, in increasing signal number *)
Theorem wait_interrupt_leaves_each_once_in_order : forall traps t js evs sg, w_out (wait_loop traps t js evs) = WIntr sg -> exists q e, w_used (wait_loop traps t js evs) = q ++ [e] /\ body_sig traps sg = true /\ StronglySorted N.lt (w_pend (wait_loop traps t js evs)) /\ forall x, In x (w_pend (wait_loop traps t js evs)) <-> x <> sg /\ body_sig traps x = true /\ match e with WSigs _ l => In x l | WChild _ _ => x = WCHLD end.
Proof. exact wait_interrupt_leaves_proof. Qed.

(* an interrupted wait records: the interrupting signal's action once with the $? of before the wait, then $? = 384+sg, then the actions of the signals left caught in that order, each once, $? preserved for the next command *)
Theorem wait_interrupt_trace : forall core atbl t cs s sg js pend used rest, core (w_traps s) t (w_jobs s) (w_evs s) = (WIntr sg, js, pend, used, rest) -> wexec core atbl (WcWait t :: cs) s = wexec core atbl cs (mkW (w_traps s) (sig_status sg) js rest (rev (flat_map ev_trace used ++ act_probe atbl (w_traps s) (w_status s) sg ++ flat_map (act_probe atbl (w_traps s) (sig_status sg)) pend) ++ w_tr s)).
Proof. exact wait_interrupt_trace_proof. Qed.

(* wait uses up a prefix of the events; none is lost or reordered *)
Theorem wait_events_in_order : forall traps t js evs, w_used (wait_loop traps t js evs) ++ w_rest (wait_loop traps t js evs) = evs.
Proof. exact wait_used_rest_proof. Qed.

(* ---- the `trap` built-in's operand loop (TrapCmd) ------------------------------------------ *)
(* the trap built-in: if any operand after the action names no condition nothing is done; otherwise every condition operand gets exactly one set_action, in order, none skipped after a failing one, all with the same action and the interactive override *)
Theorem trap_builtin_loop_spec : forall known inter ws, let '(act, rest) := split_action ws in ((exists w, In w rest /\ parse_cond known w = None) -> trap_builtin_ops known inter ws = []) /\ (all_conditions known rest -> ops_match known inter (chosen_action act) rest (trap_builtin_ops known inter ws)).
Proof. exact trap_builtin_loop_spec_proof. Qed.

(* exit status 0 exactly when the operands were accepted and no set_action was refused for KILL/STOP (a refusal for a signal ignored on entry is silent) *)
Theorem trap_builtin_status_spec : forall known ws rs, trap_builtin_status known ws rs = 0%N <-> (interpret known ws = TPrintAll \/ exists a conds, interpret known ws = TSet a conds /\ Forall (fun r => r <> RErrKill /\ r <> RErrStop) rs).
Proof. exact trap_builtin_status_spec_proof. Qed.

(* a numeric first operand is a condition: all conditions named are reset to the default action *)
Theorem trap_numeric_first_resets : forall known inter n rest, all_conditions known (WNum n :: rest) -> ops_match known inter ADefault (WNum n :: rest) (trap_builtin_ops known inter (WNum n :: rest)).
Proof. exact trap_numeric_first_resets_proof. Qed.

Print Assumptions global_projection.
Print Assumptions disposition_inv.
Print Assumptions disposition_inv_global.
Print Assumptions kill_stop_never_trapped.
Print Assumptions initially_ignored_immutable.
Print Assumptions interactive_override_allowed.
Print Assumptions not_ignored_on_entry_trappable.
Print Assumptions subshell_trap_accepted.
Print Assumptions enter_subshell_spec.
Print Assumptions syscall_only_on_change.
Print Assumptions exit_condition_no_syscall.
Print Assumptions pending_set_only_by_delivery.
Print Assumptions pending_set_by_delivery.
Print Assumptions pending_cleared_once.
Print Assumptions pending_cleared_only_by.
Print Assumptions oracle_sound_partial.
Print Assumptions oracle_sound_refuted.
Print Assumptions oracle_sound_outside_known_finding.
Print Assumptions trap_runs_once_per_delivery_at_boundary_outside_known_finding.
Print Assumptions trap_runs_once_per_delivery_at_boundary_partial.
Print Assumptions trap_runs_once_per_delivery_at_boundary_refuted.
Print Assumptions trap_loop_terminates.
Print Assumptions wait_model_meets_spec.
Print Assumptions wait_script_meets_spec.
Print Assumptions wait_oracle_sound.
Print Assumptions wait_interrupted_iff.
Print Assumptions wait_quiet_never_interrupts.
Print Assumptions wait_quiet_sigs_iff.
Print Assumptions wait_interrupt_leaves_each_once_in_order.
Print Assumptions wait_interrupt_trace.
Print Assumptions wait_events_in_order.
Print Assumptions trap_builtin_loop_spec.
Print Assumptions trap_builtin_status_spec.
Print Assumptions trap_numeric_first_resets.
