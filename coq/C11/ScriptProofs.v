(* C11, second half — the model of trap execution satisfies the monitor: every
   trace the model can produce is accepted (for every script of the language,
   every table of trap actions, every fuel). *)
From Coq Require Import Sorting.Sorted.
From Yv Require Import Common.Base C11.ScriptModel C11.ScriptSpec.

(* ---- the monitor on the events of one process ------------------------------------ *)
Fixpoint mon_run (tbl : table) (m : mon) (l : list ev) : mon + N :=
  match l with
  | [] => inl m
  | e :: l => match mon_event false tbl m e with inl m' => mon_run tbl m' l | inr k => inr k end
  end.

Lemma mon_run_app tbl l1 l2 m :
  mon_run tbl m (l1 ++ l2) =
  match mon_run tbl m l1 with inl m' => mon_run tbl m' l2 | inr k => inr k end.
Proof.
  revert m. induction l1 as [|e l1 IH]; intros m; cbn; [reflexivity|].
  destruct (mon_event false tbl m e); [apply IH | reflexivity].
Qed.

(* ---- small facts about the tables --------------------------------------------------- *)
Lemma tact_eqb_eq a b : tact_eqb a b = true <-> a = b.
Proof.
  destruct a, b; cbn; split; try congruence.
  - intros H; apply N.eqb_eq in H; congruence.
  - intros H; inversion H; apply N.eqb_refl.
Qed.

Lemma trap_of_set traps sg a sg' :
  trap_of (set_trap traps sg a) sg' = if N.eqb sg sg' then a else trap_of traps sg'.
Proof.
  induction traps as [|[s x] traps IH]; cbn.
  - destruct (N.eqb sg sg'); reflexivity.
  - destruct (N.eqb s sg) eqn:E; cbn.
    + apply N.eqb_eq in E. subst s. destruct (N.eqb sg sg'); reflexivity.
    + destruct (N.eqb s sg') eqn:E'.
      * apply N.eqb_eq in E'. subst s. rewrite N.eqb_sym, E. reflexivity.
      * exact IH.
Qed.

Lemma owed_of_set l sg o sg' :
  owed_of (set_owed l sg o) sg' = if N.eqb sg sg' then o else owed_of l sg'.
Proof.
  induction l as [|[s x] l IH]; cbn.
  - destruct (N.eqb sg sg'); reflexivity.
  - destruct (N.eqb s sg) eqn:E; cbn.
    + apply N.eqb_eq in E. subst s. destruct (N.eqb sg sg'); reflexivity.
    + destruct (N.eqb s sg') eqn:E'.
      * apply N.eqb_eq in E'. subst s. rewrite N.eqb_sym, E. reflexivity.
      * exact IH.
Qed.

Lemma in_insert_sig sg l x : In x (insert_sig sg l) <-> x = sg \/ In x l.
Proof.
  induction l as [|y l IH]; cbn.
  - intuition.
  - destruct (N.ltb sg y) eqn:E1; cbn; [intuition|].
    destruct (N.eqb sg y) eqn:E2; cbn.
    + apply N.eqb_eq in E2. subst. intuition.
    + rewrite IH. intuition.
Qed.

Lemma in_remove_sig sg l x : In x (remove_sig sg l) <-> In x l /\ x <> sg.
Proof.
  unfold remove_sig. rewrite filter_In, negb_true_iff, N.eqb_neq. reflexivity.
Qed.

Lemma sorted_insert sg l : StronglySorted N.lt l -> StronglySorted N.lt (insert_sig sg l).
Proof.
  induction 1 as [|y l Hs IH Hy]; cbn.
  - repeat constructor.
  - destruct (N.ltb sg y) eqn:E1.
    + apply N.ltb_lt in E1. constructor; [constructor; assumption|].
      constructor; [exact E1|]. eapply Forall_impl; [|exact Hy]. intros; lia.
    + destruct (N.eqb sg y) eqn:E2; [constructor; assumption|].
      apply N.ltb_ge in E1. apply N.eqb_neq in E2.
      constructor; [exact IH|]. apply Forall_forall. intros x Hx.
      apply in_insert_sig in Hx. destruct Hx as [->|Hx]; [lia|].
      rewrite Forall_forall in Hy. apply Hy. exact Hx.
Qed.

Lemma sorted_remove sg l : StronglySorted N.lt l -> StronglySorted N.lt (remove_sig sg l).
Proof.
  unfold remove_sig. induction 1 as [|y l Hs IH Hy]; cbn; [constructor|].
  destruct (negb (N.eqb y sg)); [|exact IH].
  constructor; [exact IH|]. apply Forall_forall. intros x Hx. apply filter_In in Hx.
  rewrite Forall_forall in Hy. apply Hy. tauto.
Qed.

(* ---- the relation between an interpreter state and a monitor state ------------------- *)
Record Core (s : sh) (m : mon) : Prop := {
  c_cur : m_cur m = traps s;
  c_dead : m_dead m = None;
  c_owed : forall sg, owed_of (m_owed m) sg = OYes <-> In sg (pend s);
  c_sorted : StronglySorted N.lt (pend s);
  c_body : forall sg, In sg (pend s) -> is_body (trap_of (traps s) sg) = true;
  c_last : m_last m = status s
}.

(* the actions named by the trap table exist *)
Definition TrapsOk (tbl : table) (s : sh) : Prop :=
  forall sg id, trap_of (traps s) sg = TBody id -> existsb (fun p => N.eqb (fst p) id) tbl = true.

(* what the built-in for [b] records in state [s] *)
Definition ev_of (b : bcmd) (s : sh) : ev :=
  match b with
  | BProbe k st => EProbe k (status s) st
  | BRaise sg st => ERaise sg (status s) st
  | BTrap sg a => EMark sg a (status s)
  end.

(* s' extends s by these events of the same process *)
Definition events (s s' : sh) (l : list ev) : Prop :=
  tr s' = map (fun e => (pid s, e)) (rev l) ++ tr s /\ pid s' = pid s /\ nextpid s' = nextpid s.

Lemma events_nil s : events s s [].
Proof. repeat split. Qed.

Lemma events_trans s1 s2 s3 l1 l2 :
  events s1 s2 l1 -> events s2 s3 l2 -> events s1 s3 (l1 ++ l2).
Proof.
  intros (H1 & H2 & H3) (H4 & H5 & H6). repeat split; try congruence.
  rewrite H4, H1, H2, rev_app_distr, map_app, app_assoc. reflexivity.
Qed.

Lemma do_b_events b s :
  match do_b b s with
  | SOk s' => events s s' [ev_of b s]
  | SDead _ s' => events s s' [ev_of b s]
  | SFuel => True
  end.
Proof.
  destruct b; cbn; try (repeat split).
  destruct (trap_of (traps s) sg); repeat split.
Qed.

Lemma ev_matches_self b s : ev_matches b (ev_of b s) = true.
Proof.
  destruct b; cbn; rewrite ?N.eqb_refl; try reflexivity.
  cbn. apply tact_eqb_eq. reflexivity.
Qed.

Lemma ev_before_self b s : ev_before (ev_of b s) = status s.
Proof. destruct b; reflexivity. Qed.

(* the bookkeeping of the monitor follows the interpreter *)
Lemma effect_core tbl b s m md :
  Core s m -> TrapsOk tbl s -> bcmd_ids_ok tbl b = true ->
  match do_b b s with
  | SOk s' => Core s' (effect false m (ev_of b s) md) /\ m_mode (effect false m (ev_of b s) md) = md
              /\ TrapsOk tbl s'
  | SDead sg s' => m_dead (effect false m (ev_of b s) md) = Some sg
  | SFuel => True
  end.
Proof.
  intros [Hc Hd Ho Hs Hb Hl] Hok Hid. destruct b as [k st | sg st | sg a]; cbn.
  - split; [|split; [reflexivity | exact Hok]]. constructor; cbn; auto.
  - rewrite Hc. destruct (trap_of (traps s) sg) eqn:Et; cbn.
    + reflexivity.
    + split; [|split; [reflexivity | exact Hok]]. constructor; cbn; auto.
    + split; [|split; [reflexivity | exact Hok]]. constructor; cbn; auto.
      * intros sg'. rewrite owed_of_set, in_insert_sig.
        destruct (N.eqb sg sg') eqn:E.
        -- apply N.eqb_eq in E. subst. intuition.
        -- apply N.eqb_neq in E. rewrite Ho. intuition congruence.
      * apply sorted_insert. exact Hs.
      * intros sg' Hin. apply in_insert_sig in Hin. destruct Hin as [->|Hin].
        -- rewrite Et. reflexivity.
        -- apply Hb. exact Hin.
  - split; [|split; [reflexivity|]].
    + constructor; cbn; auto.
      * rewrite Hc. reflexivity.
      * intros sg'. rewrite in_remove_sig.
        destruct (owed_of (m_owed m) sg) eqn:E0.
        -- rewrite Ho. split; [|tauto]. intros H. split; [exact H|].
           intros ->. apply Ho in H. congruence.
        -- rewrite owed_of_set. destruct (N.eqb sg sg') eqn:E.
           ++ apply N.eqb_eq in E. subst. split; [discriminate | tauto].
           ++ apply N.eqb_neq in E. rewrite Ho. intuition congruence.
        -- rewrite Ho. split; [|tauto]. intros H. split; [exact H|].
           intros ->. apply Ho in H. congruence.
      * apply sorted_remove. exact Hs.
      * intros sg' Hin. apply in_remove_sig in Hin. destruct Hin as [Hin Hne].
        rewrite trap_of_set. apply N.eqb_neq in Hne. rewrite N.eqb_sym in Hne. rewrite Hne.
        apply Hb. exact Hin.
    + intros sg' id. cbn. rewrite trap_of_set. destruct (N.eqb sg sg').
      * intros ->. exact Hid.
      * apply Hok.
Qed.

(* ---- a trap action, command by command ------------------------------------------------ *)
(* the monitor's step on the event of [b], when [b] is the next command of the
   action being run *)
Lemma in_body_step tbl b rest saved s m :
  Core s m ->
  in_body false tbl m (ev_of b s) (b :: rest) saved =
    let m1 := effect false m (ev_of b s) (MBody rest saved) in
    match m_dead m1 with
    | Some _ => inl m1
    | None => inl (next_mode rest saved m1)
    end.
Proof.
  intros HC. unfold in_body. rewrite ev_matches_self, ev_before_self, (c_last _ _ HC), N.eqb_refl.
  reflexivity.
Qed.

(* the events a run of these commands records *)
Fixpoint body_events (l : list bcmd) (s : sh) : list ev :=
  match l with
  | [] => []
  | b :: l => ev_of b s :: match do_b b s with SOk s' => body_events l s' | _ => [] end
  end.

Lemma run_body_events l : forall s,
  match run_body l s with
  | SOk s' => events s s' (body_events l s)
  | SDead _ s' => events s s' (body_events l s)
  | SFuel => True
  end.
Proof.
  induction l as [|b l IH]; intros s; cbn; [apply events_nil|].
  pose proof (do_b_events b s) as Hb. destruct (do_b b s) as [s1|sg s1|]; [|exact Hb|exact I].
  specialize (IH s1). destruct (run_body l s1) as [s'|sg s'|]; [| |exact I].
  - apply (events_trans s s1 s' [ev_of b s] _ Hb IH).
  - apply (events_trans s s1 s' [ev_of b s] _ Hb IH).
Qed.

(* [m1] is the monitor after the event of [b], the first command of what is
   left of the action; the rest of the events are then accepted one by one *)
Lemma body_sim tbl l : forall b s m saved,
  Core s m -> TrapsOk tbl s -> forallb (bcmd_ids_ok tbl) (b :: l) = true ->
  exists m1, in_body false tbl m (ev_of b s) (b :: l) saved = inl m1 /\
    match do_b b s with
    | SOk s1 =>
        match run_body l s1 with
        | SOk s' =>
            exists m', mon_run tbl m1 (body_events l s1) = inl m' /\
                       Core (with_status s' saved) m' /\ m_mode m' = MMain /\ TrapsOk tbl s'
        | SDead sg s' =>
            exists m', mon_run tbl m1 (body_events l s1) = inl m' /\ m_dead m' = Some sg
        | SFuel => True
        end
    | SDead sg s1 => m_dead m1 = Some sg
    | SFuel => True
    end.
Proof.
  induction l as [|b2 rest IH]; intros b s m saved HC HT Hids;
    cbn [forallb] in Hids; apply andb_true_iff in Hids; destruct Hids as [Hid Hids].
  - (* last command of the action *)
    rewrite (in_body_step tbl b [] saved s m HC); cbn zeta.
    pose proof (effect_core tbl b s m (MBody [] saved) HC HT Hid) as He.
    destruct (do_b b s) as [s1|sg s1|].
    + destruct He as (HC1 & Hm1 & HT1). rewrite (c_dead _ _ HC1).
      eexists; split; [reflexivity|]. cbn [run_body body_events mon_run].
      eexists; split; [reflexivity|]. split; [|split; [reflexivity | exact HT1]].
      destruct HC1 as [H1 H2 H3 H4 H5 H6]. constructor; cbn; auto.
    + rewrite He. eexists; split; [reflexivity | exact He].
    + destruct (m_dead (effect false m (ev_of b s) (MBody [] saved))); eexists; split; reflexivity || exact I.
  - rewrite (in_body_step tbl b (b2 :: rest) saved s m HC); cbn zeta.
    pose proof (effect_core tbl b s m (MBody (b2 :: rest) saved) HC HT Hid) as He.
    destruct (do_b b s) as [s1|sg s1|].
    + destruct He as (HC1 & Hm1 & HT1). rewrite (c_dead _ _ HC1).
      eexists; split; [reflexivity|].
      set (m1 := next_mode (b2 :: rest) saved (effect false m (ev_of b s) (MBody (b2 :: rest) saved))).
      assert (HC1' : Core s1 m1).
      { destruct HC1 as [H1 H2 H3 H4 H5 H6]. constructor; cbn; auto. }
      destruct (IH b2 s1 m1 saved HC1' HT1 Hids) as (m2 & E2 & Hrun).
      assert (Estep : mon_event false tbl m1 (ev_of b2 s1) = inl m2).
      { unfold mon_event. rewrite (c_dead _ _ HC1'). cbn [m_mode m1 next_mode]. exact E2. }
      cbn [run_body body_events mon_run]. rewrite Estep.
      destruct (do_b b2 s1) as [s2|sg s2|]; [| |exact I].
      * destruct (run_body rest s2) as [s'|sg s'|]; [exact Hrun | exact Hrun | exact I].
      * cbn [mon_run]. eexists; split; [reflexivity | exact Hrun].
    + rewrite He. eexists; split; [reflexivity | exact He].
    + destruct (m_dead (effect false m (ev_of b s) (MBody (b2 :: rest) saved))); eexists; split; reflexivity || exact I.
Qed.

(* ---- the table of actions ----------------------------------------------------------------- *)
Lemma body_of_in tbl id :
  existsb (fun p => N.eqb (fst p) id) tbl = true -> In (id, body_of tbl id) tbl.
Proof.
  induction tbl as [|[i b] tbl IH]; cbn; [discriminate|].
  destruct (N.eqb i id) eqn:E; cbn.
  - intros _. apply N.eqb_eq in E. subst. left; reflexivity.
  - intros H. right. apply IH. exact H.
Qed.

Definition TblOk (tbl : table) : Prop :=
  forallb body_ok tbl = true /\
  forallb (fun p => forallb (bcmd_ids_ok tbl) (snd p)) tbl = true.

Lemma body_of_ok tbl id :
  TblOk tbl -> existsb (fun p => N.eqb (fst p) id) tbl = true ->
  exists st tail, body_of tbl id = BProbe (BODY_KEY + id) st :: tail
                  /\ forallb (bcmd_ids_ok tbl) (body_of tbl id) = true.
Proof.
  intros [H1 H2] Hin. apply body_of_in in Hin.
  rewrite forallb_forall in H1, H2. specialize (H1 _ Hin). specialize (H2 _ Hin).
  cbn in H2. unfold body_ok in H1. cbn in H1.
  destruct (body_of tbl id) as [|[k st| |] tail]; try discriminate.
  apply andb_true_iff in H1. destruct H1 as [Hk _]. apply N.eqb_eq in Hk. subst k.
  exists st, tail. split; [reflexivity | exact H2].
Qed.

(* ---- choosing the signal whose action starts ------------------------------------------------ *)
Lemma min_sig_gen (f : N -> bool) sg (l : list (N * tact)) : forall acc,
  f sg = true ->
  (forall x, In x (map fst l) -> f x = true -> (sg <= x)%N) ->
  (match acc with None => In sg (map fst l) | Some a => a = sg \/ ((sg <= a)%N /\ In sg (map fst l)) end) ->
  fold_left (fun acc p =>
               if f (fst p)
               then match acc with None => Some (fst p) | Some a => Some (N.min a (fst p)) end
               else acc) l acc = Some sg.
Proof.
  induction l as [|[x a0] l IH]; intros acc Hf Hmin Hacc; cbn.
  - destruct acc as [a|]; [|destruct Hacc]. destruct Hacc as [->|[_ []]]. reflexivity.
  - apply IH; auto.
    + intros y Hy. apply Hmin. right; exact Hy.
    + cbn [fst]. destruct (f x) eqn:Efx.
      * assert (Hsx : (sg <= x)%N) by (apply Hmin; [left; reflexivity | exact Efx]).
        destruct acc as [a|].
        -- destruct Hacc as [->|[Ha [E|Hin]]].
           ++ left. lia.
           ++ cbn in E. subst x. left. lia.
           ++ destruct (N.eq_dec (N.min a x) sg) as [E|E]; [left; exact E|].
              right. split; [lia | exact Hin].
        -- destruct Hacc as [E|Hin]; [cbn in E; subst x; left; reflexivity|].
           destruct (N.eq_dec x sg) as [E|E]; [left; exact E|]. right. split; [exact Hsx | exact Hin].
      * destruct acc as [a|].
        -- destruct Hacc as [->|[Ha [E|Hin]]]; [left; reflexivity | | right; split; assumption].
           cbn in E. subst x. congruence.
        -- destruct Hacc as [E|Hin]; [cbn in E; subst x; congruence | exact Hin].
Qed.

Lemma trap_of_in l sg id : trap_of l sg = TBody id -> In sg (map fst l).
Proof.
  induction l as [|[s a] l IH]; cbn; [discriminate|].
  destruct (N.eqb s sg) eqn:E.
  - apply N.eqb_eq in E. intros _. left; exact E.
  - intros H. right. apply IH. exact H.
Qed.

Lemma min_sig_spec (f : N -> bool) sg (l : list (N * tact)) :
  f sg = true -> In sg (map fst l) ->
  (forall x, In x (map fst l) -> f x = true -> (sg <= x)%N) ->
  min_sig f l = Some sg.
Proof. intros H1 H2 H3. unfold min_sig. apply min_sig_gen; assumption. Qed.

Lemma owed_signal_head s m sg rest id :
  Core s m -> pend s = sg :: rest -> trap_of (traps s) sg = TBody id ->
  owed_signal m id = Some sg.
Proof.
  intros HC Hp Ht. unfold owed_signal. cbv zeta.
  rewrite (min_sig_spec _ sg (m_cur m)); [reflexivity| | |].
  - rewrite (c_cur _ _ HC), Ht. cbn. rewrite N.eqb_refl. cbn.
    assert (H : owed_of (m_owed m) sg = OYes).
    { apply (c_owed _ _ HC). rewrite Hp. left; reflexivity. }
    rewrite H. reflexivity.
  - rewrite (c_cur _ _ HC). eapply trap_of_in. exact Ht.
  - intros x _ Hx. apply andb_true_iff in Hx. destruct Hx as [_ Hx].
    assert (H : owed_of (m_owed m) x = OYes) by (destruct (owed_of (m_owed m) x); congruence).
    apply (c_owed _ _ HC) in H. rewrite Hp in H. destruct H as [->|H]; [lia|].
    pose proof (c_sorted _ _ HC) as Hs. rewrite Hp in Hs. inversion Hs as [|? ? _ Hall]; subst.
    rewrite Forall_forall in Hall. specialize (Hall x H). lia.
Qed.

Lemma some_owed_false s m : Core s m -> pend s = [] -> some_owed m = false.
Proof.
  intros HC Hp. unfold some_owed.
  destruct (existsb _ (m_owed m)) eqn:E; [|reflexivity].
  apply existsb_exists in E. destruct E as ([sg o] & Hin & H). cbn [fst] in H.
  destruct (owed_of (m_owed m) sg) eqn:Eo; try discriminate.
  apply (c_owed _ _ HC) in Eo. rewrite Hp in Eo. destruct Eo.
Qed.

(* ---- the loop that runs the traps of caught signals ---------------------------------------------- *)
Definition Main (tbl : table) (s : sh) (m : mon) : Prop :=
  Core s m /\ m_mode m = MMain /\ TrapsOk tbl s.

Definition same_io (a b : sh) : Prop := tr a = tr b /\ pid a = pid b /\ nextpid a = nextpid b.

Lemma events_same_l a a' b l : same_io a a' -> events a' b l -> events a b l.
Proof.
  intros (H1 & H2 & H3) (H4 & H5 & H6). unfold events. rewrite H1, H2, H3. repeat split; assumption.
Qed.

Lemma events_same_r a b b' l : same_io b b' -> events a b l -> events a b' l.
Proof.
  intros (H1 & H2 & H3) (H4 & H5 & H6). unfold events. rewrite <- H1, <- H2, <- H3.
  repeat split; assumption.
Qed.

Lemma starts_body_marker id b a : starts_body (EProbe (BODY_KEY + id) b a) = Some id.
Proof.
  unfold starts_body, BODY_KEY.
  assert (H : N.leb 1000 (1000 + id) = true) by (apply N.leb_le; lia).
  rewrite H. f_equal. lia.
Qed.

Lemma boundary_sim tbl : TblOk tbl -> forall fuel s m, Main tbl s m ->
  match boundary tbl fuel s with
  | SOk s' =>
      exists evs m', events s s' evs /\ mon_run tbl m evs = inl m' /\ Main tbl s' m'
                     /\ pend s' = [] /\ status s' = status s
  | SDead sg s' =>
      exists evs m', events s s' evs /\ mon_run tbl m evs = inl m' /\ m_dead m' = Some sg
  | SFuel => True
  end.
Proof.
  intros Htbl. induction fuel as [|f IH]; intros s m (HC & Hmode & HT).
  - cbn. destruct (pend s) eqn:Hp; [|exact I].
    exists [], m. split; [apply events_nil | split; [reflexivity|]].
    split; [split; [exact HC | split; [exact Hmode | exact HT]] | split; [exact Hp | reflexivity]].
  - cbn [boundary]. destruct (pend s) as [|sg rest] eqn:Hp.
    + exists [], m. split; [apply events_nil | split; [reflexivity|]].
      split; [split; [exact HC | split; [exact Hmode | exact HT]] | split; [exact Hp | reflexivity]].
    + set (s1 := mkSh (traps s) rest (status s) (pid s) (nextpid s) (tr s)).
      assert (Hb : is_body (trap_of (traps s) sg) = true).
      { apply (c_body _ _ HC). rewrite Hp. left; reflexivity. }
      destruct (trap_of (traps s) sg) as [| |id] eqn:Et; try discriminate. clear Hb.
      destruct (body_of_ok tbl id Htbl (HT sg id Et)) as (st & tail & Ebody & Hids).
      rewrite Ebody in *.
      set (m0 := mkMon (m_cur m) (set_owed (m_owed m) sg ONo) (m_last m) MMain None).
      assert (Hnotin : ~ In sg rest).
      { pose proof (c_sorted _ _ HC) as Hs. rewrite Hp in Hs. inversion Hs as [|? ? _ Hall]; subst.
        rewrite Forall_forall in Hall. intros Hin. specialize (Hall sg Hin). lia. }
      assert (HC0 : Core s1 m0).
      { destruct HC as [H1 H2 H3 H4 H5 H6]. constructor; cbn; auto.
        - intros x. rewrite owed_of_set. destruct (N.eqb sg x) eqn:E.
          + apply N.eqb_eq in E. subst x. split; [discriminate | tauto].
          + apply N.eqb_neq in E. rewrite H3, Hp. cbn. intuition congruence.
        - rewrite Hp in H4. inversion H4; assumption.
        - intros x Hx. apply H5. rewrite Hp. right; exact Hx. }
      assert (HT1 : TrapsOk tbl s1) by exact HT.
      destruct (body_sim tbl tail (BProbe (BODY_KEY + id) st) s1 m0 (m_last m) HC0 HT1 Hids)
        as (m1 & Ein & Hrun).
      assert (Estep : mon_event false tbl m (ev_of (BProbe (BODY_KEY + id) st) s1) = inl m1).
      { unfold mon_event. rewrite (c_dead _ _ HC), Hmode. cbn [ev_of].
        rewrite starts_body_marker.
        rewrite (owed_signal_head s m sg rest id HC Hp Et). fold m0.
        rewrite Ebody. exact Ein. }
      cbn [run_body do_b] in *.
      set (s1' := mkSh (traps s1) (pend s1) st (pid s1) (nextpid s1)
                       (emit (EProbe (BODY_KEY + id) (status s1) st) s1)) in *.
      pose proof (run_body_events tail s1') as Hevs.
      assert (Hev0 : events s s1' [ev_of (BProbe (BODY_KEY + id) st) s1]) by (repeat split).
      destruct (run_body tail s1') as [s2|sg2 s2|]; [| |exact I].
      * destruct Hrun as (m' & Hmr & HC' & Hmode' & HT').
        assert (HM : Main tbl (with_status s2 (status s)) m').
        { rewrite (c_last _ _ HC) in HC'. split; [exact HC' | split; [exact Hmode' | exact HT']]. }
        specialize (IH (with_status s2 (status s)) m' HM).
        destruct (boundary tbl f (with_status s2 (status s))) as [s'|sg' s'|]; [| |exact I].
        -- destruct IH as (evs2 & m'' & Hev2 & Hmr2 & HM2 & Hp2 & Hst2).
           exists ((ev_of (BProbe (BODY_KEY + id) st) s1 :: body_events tail s1') ++ evs2), m''.
           split; [|split; [|split; [exact HM2 | split; [exact Hp2 | exact Hst2]]]].
           ++ apply (events_trans s (with_status s2 (status s)) s'); [|exact Hev2].
              apply (events_same_r s s2); [repeat split|].
              apply (events_trans s s1' s2 [_] _ Hev0 Hevs).
           ++ rewrite mon_run_app. cbn [mon_run]. rewrite Estep, Hmr. exact Hmr2.
        -- destruct IH as (evs2 & m'' & Hev2 & Hmr2 & Hd2).
           exists ((ev_of (BProbe (BODY_KEY + id) st) s1 :: body_events tail s1') ++ evs2), m''.
           split; [|split; [|exact Hd2]].
           ++ apply (events_trans s (with_status s2 (status s)) s'); [|exact Hev2].
              apply (events_same_r s s2); [repeat split|].
              apply (events_trans s s1' s2 [_] _ Hev0 Hevs).
           ++ rewrite mon_run_app. cbn [mon_run]. rewrite Estep, Hmr. exact Hmr2.
      * destruct Hrun as (m' & Hmr & Hd).
        exists (ev_of (BProbe (BODY_KEY + id) st) s1 :: body_events tail s1'), m'.
        split; [apply (events_trans s s1' s2 [_] _ Hev0 Hevs)|]. split; [|exact Hd].
        cbn [mon_run]. rewrite Estep. exact Hmr.
Qed.

(* ---- induction over commands (lists of commands nested in commands) ------------------------- *)
Section CmdInd.
  Variable P : cmd -> Prop.
  Variable Q : list cmd -> Prop.
  Hypothesis HB : forall b, P (CB b).
  Hypothesis HBrace : forall l, Q l -> P (CBrace l).
  Hypothesis HSub : forall l, Q l -> P (CSub l).
  Hypothesis HIf : forall c t e, Q c -> Q t -> Q e -> P (CIf c t e).
  Hypothesis Hnil : Q [].
  Hypothesis Hcons : forall c l, P c -> Q l -> Q (c :: l).

  Fixpoint cmd_ind2 (c : cmd) : P c :=
    let list_ind2 :=
      fix go (l : list cmd) : Q l :=
        match l with
        | [] => Hnil
        | c :: l => Hcons c l (cmd_ind2 c) (go l)
        end in
    match c with
    | CB b => HB b
    | CBrace l => HBrace l (list_ind2 l)
    | CSub l => HSub l (list_ind2 l)
    | CIf c t e => HIf c t e (list_ind2 c) (list_ind2 t) (list_ind2 e)
    end.
End CmdInd.

(* ---- one process, no subshell ------------------------------------------------------------------ *)
Definition cmd_good (tbl : table) (c : cmd) : bool := cmd_plain c && cmd_ids_ok tbl c.

Definition SimP (tbl : table) (bf : nat) (r : sres) (s : sh) (m : mon) : Prop :=
  match r with
  | SOk s' =>
      exists evs m', events s s' evs /\ mon_run tbl m evs = inl m' /\ Main tbl s' m'
                     /\ pend s' = []
  | SDead sg s' =>
      exists evs m', events s s' evs /\ mon_run tbl m evs = inl m' /\ m_dead m' = Some sg
  | SFuel => True
  end.

Lemma plain_not_marker b s : bcmd_plain b = true -> starts_body (ev_of b s) = None.
Proof.
  destruct b as [k st| |]; cbn; try reflexivity. intros H. apply N.ltb_lt in H.
  unfold BODY_KEY in *. destruct (N.leb 1000 k) eqn:E; [apply N.leb_le in E; lia | reflexivity].
Qed.

(* a simple command outside any trap action, nothing outstanding *)
Lemma leaf_sim tbl bf b s m :
  TblOk tbl -> Main tbl s m -> pend s = [] ->
  bcmd_plain b = true -> bcmd_ids_ok tbl b = true ->
  SimP tbl bf (match do_b b s with SOk s' => boundary tbl bf s'
               | SDead sg s0 => SDead sg s0 | SFuel => SFuel end) s m.
Proof.
  intros Htbl (HC & Hmode & HT) Hp Hplain Hid.
  assert (Estep : mon_event false tbl m (ev_of b s) = inl (effect false m (ev_of b s) MMain)).
  { unfold mon_event. rewrite (c_dead _ _ HC), Hmode, (plain_not_marker b s Hplain).
    rewrite (some_owed_false s m HC Hp), ev_before_self, (c_last _ _ HC), N.eqb_refl. reflexivity. }
  pose proof (effect_core tbl b s m MMain HC HT Hid) as He.
  pose proof (do_b_events b s) as Hev.
  destruct (do_b b s) as [s1|sg s1|]; [| |exact I].
  - destruct He as (HC1 & Hm1 & HT1).
    pose proof (boundary_sim tbl Htbl bf s1 _ (conj HC1 (conj Hm1 HT1))) as Hb.
    destruct (boundary tbl bf s1) as [s'|sg s'|]; [| |exact I].
    + destruct Hb as (evs & m' & Hevs & Hmr & HM & Hp' & _).
      exists (ev_of b s :: evs), m'. split; [apply (events_trans s s1 s' [_] evs Hev Hevs)|].
      split; [cbn [mon_run]; rewrite Estep; exact Hmr | split; [exact HM | exact Hp']].
    + destruct Hb as (evs & m' & Hevs & Hmr & Hd).
      exists (ev_of b s :: evs), m'. split; [apply (events_trans s s1 s' [_] evs Hev Hevs)|].
      split; [cbn [mon_run]; rewrite Estep; exact Hmr | exact Hd].
  - exists [ev_of b s]. eexists. split; [exact Hev|]. split; [cbn [mon_run]; rewrite Estep; reflexivity|].
    exact He.
Qed.

(* sequencing *)
Lemma simp_seq tbl bf s m r1 (k : sh -> sres) :
  SimP tbl bf r1 s m ->
  (forall s1 m1, Main tbl s1 m1 -> pend s1 = [] -> SimP tbl bf (k s1) s1 m1) ->
  SimP tbl bf (match r1 with SOk s1 => k s1 | SDead sg s0 => SDead sg s0 | SFuel => SFuel end) s m.
Proof.
  intros H1 H2. destruct r1 as [s1|sg s1|]; [|exact H1|exact I].
  destruct H1 as (evs & m1 & Hevs & Hmr & HM & Hp). specialize (H2 s1 m1 HM Hp).
  destruct (k s1) as [s2|sg s2|]; [| |exact I].
  - destruct H2 as (evs2 & m2 & Hevs2 & Hmr2 & HM2 & Hp2).
    exists (evs ++ evs2), m2. split; [apply (events_trans s s1 s2 evs evs2 Hevs Hevs2)|].
    split; [rewrite mon_run_app, Hmr; exact Hmr2 | split; assumption].
  - destruct H2 as (evs2 & m2 & Hevs2 & Hmr2 & Hd).
    exists (evs ++ evs2), m2. split; [apply (events_trans s s1 s2 evs evs2 Hevs Hevs2)|].
    split; [rewrite mon_run_app, Hmr; exact Hmr2 | exact Hd].
Qed.

Lemma simp_id tbl bf s m : Main tbl s m -> pend s = [] -> SimP tbl bf (SOk s) s m.
Proof. intros HM Hp. exists [], m. split; [apply events_nil | split; [reflexivity | split; assumption]]. Qed.

(* run_traps_for_caught_signals with nothing caught *)
Lemma boundary_idle tbl bf s : pend s = [] -> boundary tbl bf s = SOk s.
Proof. intros H. destruct bf; cbn; rewrite H; reflexivity. Qed.

Definition NoSubOk (tbl : table) (bf : nat) (c : cmd) : Prop :=
  no_sub c = true -> cmd_good tbl c = true ->
  forall s m, Main tbl s m -> pend s = [] -> SimP tbl bf (exec tbl bf c s) s m.

Definition NoSubOkL (tbl : table) (bf : nat) (l : list cmd) : Prop :=
  forallb no_sub l = true -> forallb (cmd_good tbl) l = true ->
  forall s m, Main tbl s m -> pend s = [] -> SimP tbl bf (exec_list tbl bf l s) s m.

Lemma good_lists tbl l :
  forallb cmd_plain l && forallb (cmd_ids_ok tbl) l = forallb (cmd_good tbl) l.
Proof.
  induction l as [|c l IH]; cbn; [reflexivity|]. unfold cmd_good at 1. rewrite <- IH.
  destruct (cmd_plain c), (cmd_ids_ok tbl c), (forallb cmd_plain l); reflexivity.
Qed.

Lemma exec_nosub tbl bf : TblOk tbl -> forall c, NoSubOk tbl bf c.
Proof.
  intros Htbl. apply (cmd_ind2 (NoSubOk tbl bf) (NoSubOkL tbl bf)).
  - (* simple command *)
    intros b _ Hg s m HM Hp. unfold cmd_good in Hg. cbn in Hg. apply andb_true_iff in Hg.
    destruct Hg as [H1 H2]. cbn [exec]. apply leaf_sim; assumption.
  - (* brace group *)
    intros l IH Hns Hg s m HM Hp. cbn [exec]. fold (exec_list tbl bf).
    unfold cmd_good in Hg. cbn in Hns, Hg. apply andb_true_iff in Hg. destruct Hg as [H1 H2].
    apply andb_true_iff in H1. destruct H1 as [_ H1].
    apply (simp_seq tbl bf s m (exec_list tbl bf l s) (fun s' => boundary tbl bf s')).
    + apply IH; auto. rewrite <- good_lists, H1, H2. reflexivity.
    + intros s1 m1 HM1 Hp1. rewrite (boundary_idle tbl bf s1 Hp1). apply simp_id; assumption.
  - (* subshell: excluded *)
    intros l _ Hns. discriminate.
  - (* if *)
    intros c t e IHc IHt IHe Hns Hg s m HM Hp. cbn [exec]. fold (exec_list tbl bf).
    unfold cmd_good in Hg. cbn in Hns, Hg.
    apply andb_true_iff in Hns. destruct Hns as [Hns Hne]. apply andb_true_iff in Hns.
    destruct Hns as [Hnc Hnt].
    apply andb_true_iff in Hg. destruct Hg as [H1 H2].
    repeat (apply andb_true_iff in H1; destruct H1 as [H1 ?]).
    repeat (apply andb_true_iff in H2; destruct H2 as [H2 ?]).
    apply (simp_seq tbl bf s m (exec_list tbl bf c s)
             (fun s1 => match (if N.eqb (status s1) 0 then exec_list tbl bf t s1
                               else exec_list tbl bf e s1) with
                        | SOk s2 => boundary tbl bf s2
                        | SDead sg s0 => SDead sg s0 | SFuel => SFuel end)).
    + apply IHc; auto. rewrite <- good_lists. apply andb_true_iff; split; assumption.
    + intros s1 m1 HM1 Hp1. 
      assert (Hbr : SimP tbl bf (if N.eqb (status s1) 0 then exec_list tbl bf t s1
                                 else exec_list tbl bf e s1) s1 m1).
      { destruct (N.eqb (status s1) 0).
        - apply IHt; auto. rewrite <- good_lists. apply andb_true_iff; split; assumption.
        - apply IHe; auto. rewrite <- good_lists. apply andb_true_iff; split; assumption. }
      apply (simp_seq tbl bf s1 m1 _ (fun s2 => boundary tbl bf s2) Hbr).
      intros s2 m2 HM2 Hp2. rewrite (boundary_idle tbl bf s2 Hp2). apply simp_id; assumption.
  - intros _ _ s m HM Hp. apply simp_id; assumption.
  - intros c l IHc IHl Hns Hg s m HM Hp. cbn in Hns, Hg.
    apply andb_true_iff in Hns. destruct Hns as [Hn1 Hn2].
    apply andb_true_iff in Hg. destruct Hg as [Hg1 Hg2].
    unfold exec_list. cbn [exec_list_with]. fold (exec_list tbl bf).
    apply (simp_seq tbl bf s m (exec tbl bf c s) (fun s1 => exec_list tbl bf l s1)).
    + apply IHc; assumption.
    + intros s1 m1 HM1 Hp1. apply IHl; assumption.
Qed.

Lemma exec_nosub_list tbl bf : TblOk tbl -> forall l, NoSubOkL tbl bf l.
Proof.
  intros Htbl. induction l as [|c l IH]; intros Hns Hg s m HM Hp.
  - apply simp_id; assumption.
  - cbn in Hns, Hg. apply andb_true_iff in Hns. destruct Hns as [Hn1 Hn2].
    apply andb_true_iff in Hg. destruct Hg as [Hg1 Hg2].
    unfold exec_list. cbn [exec_list_with]. fold (exec_list tbl bf).
    apply (simp_seq tbl bf s m (exec tbl bf c s) (fun s1 => exec_list tbl bf l s1)).
    + apply exec_nosub; assumption.
    + intros s1 m1 HM1 Hp1. apply IH; assumption.
Qed.

(* ---- every command records at least one event ---------------------------------------------------- *)
Definition grows (strict : bool) (s : sh) (r : sres) : Prop :=
  match r with
  | SOk s' | SDead _ s' =>
      if strict then (length (tr s) < length (tr s'))%nat else (length (tr s) <= length (tr s'))%nat
  | SFuel => True
  end.

Lemma do_b_grows b s : grows true s (do_b b s).
Proof.
  destruct b; cbn; try lia. destruct (trap_of (traps s) sg); cbn; lia.
Qed.

Lemma run_body_grows l : forall s, grows false s (run_body l s).
Proof.
  induction l as [|b l IH]; intros s; cbn; [lia|].
  pose proof (do_b_grows b s) as H. destruct (do_b b s) as [s1|sg s1|]; cbn in *; try lia.
  specialize (IH s1). destruct (run_body l s1); cbn in *; lia.
Qed.

Lemma boundary_grows tbl fuel : forall s, grows false s (boundary tbl fuel s).
Proof.
  induction fuel as [|f IH]; intros s; cbn; destruct (pend s) as [|sg rest]; cbn; try lia.
  destruct (trap_of (traps s) sg) as [| |id].
  - specialize (IH (mkSh (traps s) rest (status s) (pid s) (nextpid s) (tr s))).
    destruct (boundary tbl f _); cbn in *; lia.
  - specialize (IH (mkSh (traps s) rest (status s) (pid s) (nextpid s) (tr s))).
    destruct (boundary tbl f _); cbn in *; lia.
  - pose proof (run_body_grows (body_of tbl id)
                  (mkSh (traps s) rest (status s) (pid s) (nextpid s) (tr s))) as H.
    destruct (run_body (body_of tbl id) _) as [s2|sg2 s2|]; cbn in *; try lia.
    specialize (IH (with_status s2 (status s))).
    destruct (boundary tbl f _); cbn in *; lia.
Qed.

Lemma grows_then strict s r1 (k : sh -> sres) :
  grows strict s r1 -> (forall s1, grows false s1 (k s1)) ->
  grows strict s (match r1 with SOk s1 => k s1 | SDead sg s0 => SDead sg s0 | SFuel => SFuel end).
Proof.
  intros H1 H2. destruct r1 as [s1|sg s1|]; cbn in *; auto.
  specialize (H2 s1). destruct (k s1); cbn in *; destruct strict; lia.
Qed.

Lemma grows_weaken s r : grows true s r -> grows false s r.
Proof. destruct r; cbn; lia. Qed.

Lemma exec_grows tbl bf : forall c, cmd_plain c = true -> forall s, grows true s (exec tbl bf c s).
Proof.
  apply (cmd_ind2 (fun c => cmd_plain c = true -> forall s, grows true s (exec tbl bf c s))
                  (fun l => forallb cmd_plain l = true ->
                            forall s, grows false s (exec_list tbl bf l s) /\
                                      (l <> [] -> grows true s (exec_list tbl bf l s)))).
  - intros b _ s. cbn [exec].
    apply (grows_then true s (do_b b s) (fun s' => boundary tbl bf s')).
    + apply do_b_grows.
    + intros s1. apply boundary_grows.
  - intros l IH Hp s. cbn in Hp. apply andb_true_iff in Hp. destruct Hp as [Hne Hp].
    cbn [exec]. fold (exec_list tbl bf).
    apply (grows_then true s (exec_list tbl bf l s) (fun s' => boundary tbl bf s')).
    + apply IH; auto. destruct l; [discriminate | discriminate].
    + intros s1. apply boundary_grows.
  - intros l IH Hp s. cbn in Hp. apply andb_true_iff in Hp. destruct Hp as [Hne Hp].
    cbn [exec]. fold (exec_list tbl bf).
    set (child := mkSh (reset_traps (traps s)) [] (status s) (nextpid s) (nextpid s + 1) (tr s)).
    assert (Hc : grows true child (exec_list tbl bf l child)).
    { apply IH; auto. destruct l; [discriminate | discriminate]. }
    destruct (exec_list tbl bf l child) as [c'|sg c'|]; cbn in Hc |- *; [| |exact I].
    + pose proof (boundary_grows tbl bf
                    (mkSh (traps s) (pend s) (status c') (pid s) (nextpid c') (tr c'))) as Hb.
      destruct (boundary tbl bf _); cbn in *; lia.
    + pose proof (boundary_grows tbl bf
                    (mkSh (traps s) (pend s) (384 + sg) (pid s) (nextpid c') (tr c'))) as Hb.
      destruct (boundary tbl bf _); cbn in *; lia.
  - intros c t e IHc IHt IHe Hp s. cbn in Hp.
    repeat (apply andb_true_iff in Hp; destruct Hp as [Hp ?]).
    cbn [exec]. fold (exec_list tbl bf).
    apply (grows_then true s (exec_list tbl bf c s)
             (fun s1 => match (if N.eqb (status s1) 0 then exec_list tbl bf t s1
                               else exec_list tbl bf e s1) with
                        | SOk s2 => boundary tbl bf s2
                        | SDead sg s0 => SDead sg s0 | SFuel => SFuel end)).
    + apply IHc; auto. destruct c; [discriminate | discriminate].
    + intros s1.
      apply (grows_then false s1 _ (fun s2 => boundary tbl bf s2)).
      * destruct (N.eqb (status s1) 0); [apply IHt | apply IHe]; auto.
      * intros s2. apply boundary_grows.
  - intros _ s. split; [cbn; lia | congruence].
  - intros c l IHc IHl Hp s. cbn in Hp. apply andb_true_iff in Hp. destruct Hp as [Hc Hl].
    unfold exec_list. cbn [exec_list_with]. fold (exec_list tbl bf).
    assert (H : grows true s (match exec tbl bf c s with
                              | SOk s1 => exec_list tbl bf l s1
                              | SDead sg s0 => SDead sg s0 | SFuel => SFuel end)).
    { apply (grows_then true s (exec tbl bf c s) (fun s1 => exec_list tbl bf l s1)).
      - apply IHc; assumption.
      - intros s1. apply IHl; assumption. }
    split; [apply grows_weaken; exact H | intros _; exact H].
Qed.

(* ---- the whole shell: the main process and its subshells ----------------------------------------- *)
Definition tevents (s s' : sh) (l : list event) : Prop := tr s' = rev l ++ tr s.

Lemma tevents_nil s : tevents s s [].
Proof. reflexivity. Qed.

Lemma tevents_trans s1 s2 s3 l1 l2 : tevents s1 s2 l1 -> tevents s2 s3 l2 -> tevents s1 s3 (l1 ++ l2).
Proof. unfold tevents. intros H1 H2. rewrite H2, H1, rev_app_distr, app_assoc. reflexivity. Qed.

Lemma events_tevents s s' evs : events s s' evs -> tevents s s' (map (fun e => (pid s, e)) evs).
Proof. intros (H & _). unfold tevents. rewrite H, map_rev. reflexivity. Qed.

Fixpoint top_run_app tbl l1 l2 t {struct l1} :
  top_run false tbl t (l1 ++ l2) =
  match top_run false tbl t l1 with inl t' => top_run false tbl t' l2 | inr k => inr k end.
Proof.
  destruct l1 as [|x l1]; cbn; [reflexivity|].
  destruct (top_event false tbl t x); [apply top_run_app | reflexivity].
Qed.

Definition lift (r : mon + N) (n : N) : top + N :=
  match r with inl m => inl (mkTop m None n) | inr k => inr k end.

(* events of the main process when no subshell is open *)
Lemma top_run_main tbl evs : forall m n,
  top_run false tbl (mkTop m None n) (map (fun e => (0%N, e)) evs) = lift (mon_run tbl m evs) n.
Proof.
  induction evs as [|e evs IH]; intros m n; cbn; [reflexivity|].
  destruct (mon_event false tbl m e) as [m'|k]; cbn; [apply IH | reflexivity].
Qed.

(* ... and when the last subshell has not been closed yet *)
Lemma top_run_main_first tbl t t1 e evs :
  finish_child t = inl t1 -> t_child t1 = None ->
  top_run false tbl t (map (fun e => (0%N, e)) (e :: evs)) =
  lift (mon_run tbl (t_par t1) (e :: evs)) (t_next t1).
Proof.
  intros Hf Hc. cbn. rewrite Hf.
  destruct (mon_event false tbl (t_par t1) e) as [m'|k]; cbn; [apply top_run_main | reflexivity].
Qed.

(* events of the subshell that is open *)
Lemma top_run_child tbl q evs : forall par cm n, q <> 0%N ->
  top_run false tbl (mkTop par (Some (q, cm)) n) (map (fun e => (q, e)) evs) =
  match mon_run tbl cm evs with
  | inl cm' => inl (mkTop par (Some (q, cm')) n)
  | inr k => inr k
  end.
Proof.
  induction evs as [|e evs IH]; intros par cm n Hq; cbn; [reflexivity|].
  apply N.eqb_neq in Hq. rewrite Hq. cbn. rewrite N.eqb_refl.
  destruct (mon_event false tbl cm e) as [cm'|k]; cbn; [apply IH; apply N.eqb_neq; exact Hq | reflexivity].
Qed.

Definition TopRel (tbl : table) (s : sh) (t : top) : Prop :=
  pid s = 0%N /\ (1 <= nextpid s)%N /\ pend s = [] /\
  (match t_child t with Some (q, _) => q <> 0%N /\ (q < t_next t)%N | None => True end) /\
  exists t1, finish_child t = inl t1 /\ t_child t1 = None /\ Main tbl s (t_par t1)
             /\ t_next t1 = nextpid s.

Definition TopSim (tbl : table) (r : sres) (s : sh) (t : top) : Prop :=
  match r with
  | SOk s' =>
      exists l t', tevents s s' l /\ top_run false tbl t l = inl t' /\ TopRel tbl s' t'
  | SDead sg s' =>
      exists l t', tevents s s' l /\ top_run false tbl t l = inl t' /\
                   exists t1, finish_child t' = inl t1 /\ m_dead (t_par t1) = Some sg
  | SFuel => True
  end.

Lemma finish_child_next t t1 : finish_child t = inl t1 -> t_next t1 = t_next t.
Proof.
  unfold finish_child. destruct (t_child t) as [[q cm]|]; [|intros H; inversion H; reflexivity].
  destruct (m_dead cm); [intros H; inversion H; reflexivity|].
  destruct (mon_finished cm); [intros H; inversion H; reflexivity | discriminate].
Qed.

(* what one process does, seen by the whole monitor *)
Lemma lift_main tbl bf r s t :
  TopRel tbl s t ->
  (forall m, Main tbl s m -> SimP tbl bf r s m) ->
  TopSim tbl r s t.
Proof.
  intros (Hpid & Hn & Hp & Hch & t1 & Hf & Hc1 & HM & Hnext) Hsim.
  specialize (Hsim (t_par t1) HM).
  destruct r as [s'|sg s'|]; [| |exact I].
  - destruct Hsim as (evs & m' & Hevs & Hmr & HM' & Hp').
    pose proof (events_tevents s s' evs Hevs) as Hte. rewrite Hpid in Hte.
    destruct Hevs as (_ & Hpid' & Hnp').
    destruct evs as [|e evs].
    + exists [], t. split; [exact Hte | split; [reflexivity|]].
      cbn in Hmr. inversion Hmr; subst m'.
      split; [congruence | split; [congruence | split; [exact Hp' | split; [exact Hch|]]]].
      exists t1. split; [exact Hf | split; [exact Hc1 | split; [exact HM' | congruence]]].
    + exists (map (fun e => (0%N, e)) (e :: evs)), (mkTop m' None (t_next t1)).
      split; [exact Hte|]. split; [rewrite (top_run_main_first tbl t t1 e evs Hf Hc1), Hmr; reflexivity|].
      split; [congruence | split; [congruence | split; [exact Hp' | split; [exact I|]]]].
      exists (mkTop m' None (t_next t1)). split; [reflexivity | split; [reflexivity | split; [exact HM' | cbn; congruence]]].
  - destruct Hsim as (evs & m' & Hevs & Hmr & Hd).
    pose proof (events_tevents s s' evs Hevs) as Hte. rewrite Hpid in Hte.
    destruct evs as [|e evs].
    + cbn in Hmr. inversion Hmr; subst m'. destruct HM as (HC & _). rewrite (c_dead _ _ HC) in Hd.
      discriminate.
    + exists (map (fun e => (0%N, e)) (e :: evs)), (mkTop m' None (t_next t1)).
      split; [exact Hte|]. split; [rewrite (top_run_main_first tbl t t1 e evs Hf Hc1), Hmr; reflexivity|].
      exists (mkTop m' None (t_next t1)). split; [reflexivity | exact Hd].
Qed.

Lemma topsim_seq tbl s t r1 (k : sh -> sres) :
  TopSim tbl r1 s t ->
  (forall s1 t1, TopRel tbl s1 t1 -> TopSim tbl (k s1) s1 t1) ->
  TopSim tbl (match r1 with SOk s1 => k s1 | SDead sg s0 => SDead sg s0 | SFuel => SFuel end) s t.
Proof.
  intros H1 H2. destruct r1 as [s1|sg s1|]; [|exact H1|exact I].
  destruct H1 as (l & t1 & Hl & Hrun & HR). specialize (H2 s1 t1 HR).
  destruct (k s1) as [s2|sg s2|]; [| |exact I].
  - destruct H2 as (l2 & t2 & Hl2 & Hrun2 & HR2).
    exists (l ++ l2), t2. split; [apply (tevents_trans s s1 s2 l l2 Hl Hl2)|].
    split; [rewrite top_run_app, Hrun; exact Hrun2 | exact HR2].
  - destruct H2 as (l2 & t2 & Hl2 & Hrun2 & Hd).
    exists (l ++ l2), t2. split; [apply (tevents_trans s s1 s2 l l2 Hl Hl2)|].
    split; [rewrite top_run_app, Hrun; exact Hrun2 | exact Hd].
Qed.

Lemma topsim_id tbl s t : TopRel tbl s t -> TopSim tbl (SOk s) s t.
Proof. intros H. exists [], t. split; [apply tevents_nil | split; [reflexivity | exact H]]. Qed.

Lemma reset_no_body l sg id : trap_of (reset_traps l) sg <> TBody id.
Proof.
  induction l as [|[s a] l IH]; cbn; [discriminate|].
  destruct (N.eqb s sg); [destruct a; discriminate | exact IH].
Qed.

Lemma reset_cur_eq l : reset_cur l = reset_traps l.
Proof. reflexivity. Qed.

Lemma core_with_last s s2 m st :
  Core s m -> traps s2 = traps s -> pend s2 = pend s -> status s2 = st ->
  Core s2 (mkMon (m_cur m) (m_owed m) st (m_mode m) (m_dead m)).
Proof.
  intros [H1 H2 H3 H4 H5 H6] E1 E2 E3. constructor; cbn; rewrite ?E1, ?E2, ?E3; auto.
Qed.

Lemma mon_finished_main s m : Core s m -> m_mode m = MMain -> pend s = [] -> mon_finished m = true.
Proof.
  intros HC Hm Hp. unfold mon_finished. rewrite Hm, (some_owed_false s m HC Hp). reflexivity.
Qed.

(* the first event of a new subshell *)
Lemma top_event_start tbl t t1 q e s :
  finish_child t = inl t1 -> t_child t1 = None ->
  Main tbl s (t_par t1) -> pend s = [] -> t_next t1 = q -> q <> 0%N ->
  (match t_child t with Some (q', _) => q' <> 0%N /\ (q' < t_next t)%N | None => True end) ->
  top_event false tbl t (q, e) =
  match mon_event false tbl (mkMon (reset_cur (m_cur (t_par t1))) [] (m_last (t_par t1)) MMain None) e with
  | inl cm' => inl (mkTop (t_par t1) (Some (q, cm')) (q + 1))
  | inr k => inr k
  end.
Proof.
  intros Hf Hc1 (HC & Hmode & _) Hp Hnext Hq Hch.
  assert (Hstart :
    (let par := t_par t1 in
     if negb (N.eqb q (t_next t1)) then inr R_PROC
     else match m_dead par with
          | Some _ => inr R_AFTER_DEATH
          | None =>
              if negb (mon_finished par) then inr R_PROC
              else match mon_event false tbl (mkMon (reset_cur (m_cur par)) [] (m_last par) MMain None) e with
                   | inl cm' => inl (mkTop (t_par (mkTop par None (q + 1))) (Some (q, cm'))
                                           (t_next (mkTop par None (q + 1))))
                   | inr k => inr k
                   end
          end) =
    match mon_event false tbl (mkMon (reset_cur (m_cur (t_par t1))) [] (m_last (t_par t1)) MMain None) e with
    | inl cm' => inl (mkTop (t_par t1) (Some (q, cm')) (q + 1))
    | inr k => inr k
    end).
  { cbn zeta. rewrite Hnext, N.eqb_refl, (c_dead _ _ HC), (mon_finished_main s _ HC Hmode Hp).
    cbn. reflexivity. }
  unfold top_event. apply N.eqb_neq in Hq. rewrite Hq.
  pose proof (finish_child_next t t1 Hf) as Hn.
  destruct (t_child t) as [[q' cm]|] eqn:Ech.
  - destruct Hch as [_ Hlt]. assert (Hne : N.eqb q' q = false) by (apply N.eqb_neq; lia).
    rewrite Hne, Hf. exact Hstart.
  - unfold finish_child in Hf. rewrite Ech in Hf. inversion Hf; subst t1. exact Hstart.
Qed.

Lemma exec_list_grows tbl bf l :
  forallb cmd_plain l = true -> l <> [] -> forall s, grows true s (exec_list tbl bf l s).
Proof.
  induction l as [|c l IH]; intros Hpl Hne s; [congruence|].
  cbn in Hpl. apply andb_true_iff in Hpl. destruct Hpl as [Hc Hl].
  unfold exec_list. cbn [exec_list_with]. fold (exec_list tbl bf).
  apply (grows_then true s (exec tbl bf c s) (fun s1 => exec_list tbl bf l s1)).
  - apply exec_grows. exact Hc.
  - intros s1. destruct l as [|c2 l2]; [cbn; lia|].
    apply grows_weaken. apply IH; [exact Hl | discriminate].
Qed.

Lemma sub_sim tbl bf l s t :
  TblOk tbl -> TopRel tbl s t ->
  forallb no_sub l = true -> forallb (cmd_good tbl) l = true -> l <> [] ->
  TopSim tbl (exec tbl bf (CSub l) s) s t.
Proof.
  intros Htbl (Hpid & Hn & Hp & Hch & t1 & Hf & Hc1 & HM & Hnext) Hns Hg Hne.
  cbn [exec]. fold (exec_list tbl bf).
  set (q := nextpid s) in *.
  set (child := mkSh (reset_traps (traps s)) [] (status s) q (q + 1) (tr s)).
  set (par := t_par t1) in *.
  set (cm0 := mkMon (reset_cur (m_cur par)) [] (m_last par) MMain None).
  assert (Hq : q <> 0%N) by lia.
  destruct HM as (HC & Hmode & HT).
  assert (HMc : Main tbl child cm0).
  { split; [|split; [reflexivity|]].
    - constructor; cbn.
      + rewrite (c_cur _ _ HC). reflexivity.
      + reflexivity.
      + intros sg. split; [discriminate | intros []].
      + constructor.
      + intros sg [].
      + apply (c_last _ _ HC).
    - intros sg id H. cbn in H. exfalso. eapply reset_no_body. exact H. }
  pose proof (exec_nosub_list tbl bf Htbl l Hns Hg child cm0 HMc eq_refl) as Hsim.
  assert (Hgrow : grows true child (exec_list tbl bf l child)).
  { apply exec_list_grows; [|exact Hne].
    rewrite <- good_lists in Hg. apply andb_true_iff in Hg. tauto. }
  assert (Hfirst : forall e evs cm',
            mon_run tbl cm0 (e :: evs) = inl cm' ->
            top_run false tbl t (map (fun x => (q, x)) (e :: evs)) = inl (mkTop par (Some (q, cm')) (q + 1))).
  { intros e evs cm' Hmr. cbn [map top_run].
    rewrite (top_event_start tbl t t1 q e s Hf Hc1 (conj HC (conj Hmode HT)) Hp Hnext Hq Hch).
    fold par. fold cm0. cbn [mon_run] in Hmr.
    destruct (mon_event false tbl cm0 e) as [cm1|k]; [|discriminate].
    rewrite (top_run_child tbl q evs par cm1 (q + 1) Hq), Hmr. reflexivity. }
  destruct (exec_list tbl bf l child) as [c'|sg c'|]; [| |exact I].
  - destruct Hsim as (evs & cm' & Hevs & Hmr & (HCc & Hmodec & HTc) & Hpc).
    pose proof (events_tevents child c' evs Hevs) as Hte.
    destruct Hevs as (Htr & Hpidc & Hnpc). cbn in Hgrow.
    destruct evs as [|e evs]; [cbn in Htr; rewrite Htr in Hgrow; cbn in Hgrow; lia|].
    rewrite boundary_idle by exact Hp.
    exists (map (fun x => (q, x)) (e :: evs)), (mkTop par (Some (q, cm')) (q + 1)).
    split; [exact Hte | split; [apply Hfirst; exact Hmr|]].
    split; [exact Hpid | split; [cbn; rewrite Hnpc; cbn; lia | split; [exact Hp|]]].
    split; [cbn; split; [exact Hq | lia]|].
    unfold finish_child. cbn [t_child t_par t_next].
    rewrite (c_dead _ _ HCc), (mon_finished_main c' cm' HCc Hmodec Hpc).
    eexists. split; [reflexivity|]. split; [reflexivity|]. cbn [t_par t_next nextpid].
    split; [|rewrite Hnpc; reflexivity].
    split; [|split; [exact Hmode | exact HT]].
    rewrite (c_last _ _ HCc). apply (core_with_last s _ par (status c') HC); reflexivity.
  - destruct Hsim as (evs & cm' & Hevs & Hmr & Hd).
    pose proof (events_tevents child c' evs Hevs) as Hte.
    destruct Hevs as (Htr & Hpidc & Hnpc). cbn in Hgrow.
    destruct evs as [|e evs]; [cbn in Htr; rewrite Htr in Hgrow; cbn in Hgrow; lia|].
    rewrite boundary_idle by exact Hp.
    exists (map (fun x => (q, x)) (e :: evs)), (mkTop par (Some (q, cm')) (q + 1)).
    split; [exact Hte | split; [apply Hfirst; exact Hmr|]].
    split; [exact Hpid | split; [cbn; rewrite Hnpc; cbn; lia | split; [exact Hp|]]].
    split; [cbn; split; [exact Hq | lia]|].
    unfold finish_child. cbn [t_child t_par t_next]. rewrite Hd.
    eexists. split; [reflexivity|]. split; [reflexivity|]. cbn [t_par t_next nextpid].
    split; [|rewrite Hnpc; reflexivity].
    split; [|split; [exact Hmode | exact HT]].
    apply (core_with_last s _ par (384 + sg) HC); reflexivity.
Qed.

Definition TopOk (tbl : table) (bf : nat) (c : cmd) : Prop :=
  subs_ok c = true -> cmd_good tbl c = true ->
  forall s t, TopRel tbl s t -> TopSim tbl (exec tbl bf c s) s t.

Definition TopOkL (tbl : table) (bf : nat) (l : list cmd) : Prop :=
  forallb subs_ok l = true -> forallb (cmd_good tbl) l = true ->
  forall s t, TopRel tbl s t -> TopSim tbl (exec_list tbl bf l s) s t.

Lemma toprel_pend tbl s t : TopRel tbl s t -> pend s = [].
Proof. intros (_ & _ & H & _). exact H. Qed.

Lemma exec_top tbl bf : TblOk tbl -> forall c, TopOk tbl bf c.
Proof.
  intros Htbl. apply (cmd_ind2 (TopOk tbl bf) (TopOkL tbl bf)).
  - (* simple command *)
    intros b _ Hg s t HR. unfold cmd_good in Hg. cbn in Hg. apply andb_true_iff in Hg.
    destruct Hg as [H1 H2]. cbn [exec]. apply (lift_main tbl bf _ s t HR).
    intros m HM. apply leaf_sim; auto. apply (toprel_pend tbl s t HR).
  - (* brace group *)
    intros l IH Hs Hg s t HR. cbn [exec]. fold (exec_list tbl bf).
    unfold cmd_good in Hg. cbn in Hs, Hg. apply andb_true_iff in Hg. destruct Hg as [H1 H2].
    apply andb_true_iff in H1. destruct H1 as [_ H1].
    apply (topsim_seq tbl s t (exec_list tbl bf l s) (fun s' => boundary tbl bf s')).
    + apply IH; auto. rewrite <- good_lists, H1, H2. reflexivity.
    + intros s1 t1 HR1. rewrite (boundary_idle tbl bf s1 (toprel_pend tbl s1 t1 HR1)).
      apply topsim_id. exact HR1.
  - (* subshell *)
    intros l _ Hs Hg s t HR. unfold cmd_good in Hg. cbn in Hs, Hg.
    apply andb_true_iff in Hg. destruct Hg as [H1 H2].
    apply andb_true_iff in H1. destruct H1 as [Hne H1].
    apply sub_sim; auto.
    + rewrite <- good_lists, H1, H2. reflexivity.
    + destruct l; [discriminate | discriminate].
  - (* if *)
    intros c th el IHc IHt IHe Hs Hg s t HR. cbn [exec]. fold (exec_list tbl bf).
    unfold cmd_good in Hg. cbn in Hs, Hg.
    apply andb_true_iff in Hs. destruct Hs as [Hs Hse]. apply andb_true_iff in Hs.
    destruct Hs as [Hsc Hst].
    apply andb_true_iff in Hg. destruct Hg as [H1 H2].
    repeat (apply andb_true_iff in H1; destruct H1 as [H1 ?]).
    repeat (apply andb_true_iff in H2; destruct H2 as [H2 ?]).
    apply (topsim_seq tbl s t (exec_list tbl bf c s)
             (fun s1 => match (if N.eqb (status s1) 0 then exec_list tbl bf th s1
                               else exec_list tbl bf el s1) with
                        | SOk s2 => boundary tbl bf s2
                        | SDead sg s0 => SDead sg s0 | SFuel => SFuel end)).
    + apply IHc; auto. rewrite <- good_lists. apply andb_true_iff; split; assumption.
    + intros s1 t1 HR1.
      assert (Hbr : TopSim tbl (if N.eqb (status s1) 0 then exec_list tbl bf th s1
                                else exec_list tbl bf el s1) s1 t1).
      { destruct (N.eqb (status s1) 0).
        - apply IHt; auto. rewrite <- good_lists. apply andb_true_iff; split; assumption.
        - apply IHe; auto. rewrite <- good_lists. apply andb_true_iff; split; assumption. }
      apply (topsim_seq tbl s1 t1 _ (fun s2 => boundary tbl bf s2) Hbr).
      intros s2 t2 HR2. rewrite (boundary_idle tbl bf s2 (toprel_pend tbl s2 t2 HR2)).
      apply topsim_id. exact HR2.
  - intros _ _ s t HR. apply topsim_id. exact HR.
  - intros c l IHc IHl Hs Hg s t HR. cbn in Hs, Hg.
    apply andb_true_iff in Hs. destruct Hs as [Hs1 Hs2].
    apply andb_true_iff in Hg. destruct Hg as [Hg1 Hg2].
    unfold exec_list. cbn [exec_list_with]. fold (exec_list tbl bf).
    apply (topsim_seq tbl s t (exec tbl bf c s) (fun s1 => exec_list tbl bf l s1)).
    + apply IHc; assumption.
    + intros s1 t1 HR1. apply IHl; assumption.
Qed.

Lemma exec_top_list tbl bf : TblOk tbl -> forall l, TopOkL tbl bf l.
Proof.
  intros Htbl. induction l as [|c l IH]; intros Hs Hg s t HR.
  - apply topsim_id. exact HR.
  - cbn in Hs, Hg. apply andb_true_iff in Hs. destruct Hs as [Hs1 Hs2].
    apply andb_true_iff in Hg. destruct Hg as [Hg1 Hg2].
    unfold exec_list. cbn [exec_list_with]. fold (exec_list tbl bf).
    apply (topsim_seq tbl s t (exec tbl bf c s) (fun s1 => exec_list tbl bf l s1)).
    + apply exec_top; assumption.
    + intros s1 t1 HR1. apply IH; assumption.
Qed.

(* ---- the theorem ---------------------------------------------------------------------------------- *)
Lemma toprel_init tbl : TopRel tbl init_sh top_init.
Proof.
  split; [reflexivity|]. split; [cbn; lia|]. split; [reflexivity|]. split; [exact I|].
  exists top_init. split; [reflexivity|]. split; [reflexivity|]. split; [|reflexivity].
  split; [|split; [reflexivity|]].
  - constructor; cbn; auto; try (intros sg; split; [discriminate | intros []]);
      try constructor; try (intros sg []).
  - intros sg id H. cbn in H. discriminate.
Qed.

Lemma script_monitor_sound_thm tbl bf main trace dead :
  script_ok tbl main = true ->
  run_script tbl bf main = Some (trace, dead) ->
  monitor false tbl trace dead = None.
Proof.
  intros Hok Hrun. unfold script_ok in Hok.
  repeat (apply andb_true_iff in Hok; destruct Hok as [Hok ?]).
  assert (Htbl : TblOk tbl) by (split; assumption).
  assert (Hg : forallb (cmd_good tbl) main = true).
  { rewrite <- good_lists. apply andb_true_iff; split; assumption. }
  pose proof (exec_top_list tbl bf Htbl main H0 Hg init_sh top_init (toprel_init tbl)) as Hsim.
  unfold run_script in Hrun. unfold monitor.
  destruct (exec_list tbl bf main init_sh) as [s'|sg s'|]; [| |discriminate].
  - inversion Hrun; subst trace dead.
    destruct Hsim as (l & t' & Hl & Htr & (_ & _ & Hp & _ & t1 & Hf & Hc1 & (HC & Hmode & _) & _)).
    unfold tevents in Hl. cbn in Hl. rewrite app_nil_r in Hl. rewrite Hl, rev_involutive, Htr, Hf.
    rewrite (c_dead _ _ HC), (mon_finished_main s' _ HC Hmode Hp). reflexivity.
  - inversion Hrun; subst trace dead.
    destruct Hsim as (l & t' & Hl & Htr & t1 & Hf & Hd).
    unfold tevents in Hl. cbn in Hl. rewrite app_nil_r in Hl. rewrite Hl, rev_involutive, Htr, Hf, Hd.
    reflexivity.
Qed.

(* ---- outside the class of the known finding the strict monitor is the lenient one ------ *)
Lemma effect_strict_eq m e md : retrap_ev m e = false -> effect true m e md = effect false m e md.
Proof.
  destruct e as [k b a | sg b a | sg a b]; try reflexivity.
  cbn. destruct (owed_of (m_owed m) sg); try reflexivity.
  rewrite andb_true_r. intros ->. reflexivity.
Qed.

Lemma in_body_strict_eq tbl m e rest saved :
  retrap_ev m e = false -> in_body true tbl m e rest saved = in_body false tbl m e rest saved.
Proof.
  intros H. unfold in_body. destruct rest as [|b rest']; [reflexivity|].
  rewrite (effect_strict_eq m e (MBody rest' saved) H). reflexivity.
Qed.

Lemma mon_event_strict_eq tbl m e :
  retrap_ev m e = false -> mon_event true tbl m e = mon_event false tbl m e.
Proof.
  intros H. unfold mon_event. destruct (m_dead m); [reflexivity|].
  destruct (m_mode m) as [|rest saved]; [|apply in_body_strict_eq; exact H].
  destruct (starts_body e) as [id|] eqn:Es.
  - destruct (owed_signal m id); [|reflexivity].
    apply in_body_strict_eq. destruct e; try discriminate. reflexivity.
  - rewrite (effect_strict_eq m e MMain H). reflexivity.
Qed.

Lemma retrap_ev_fresh cur last e : retrap_ev (mkMon cur [] last MMain None) e = false.
Proof. destruct e; try reflexivity. cbn. apply andb_false_r. Qed.

Lemma top_event_strict_eq tbl t p e :
  match event_mon t p with Some m => retrap_ev m e | None => false end = false ->
  top_event true tbl t (p, e) = top_event false tbl t (p, e).
Proof.
  unfold event_mon, top_event. destruct (N.eqb p 0).
  - destruct (finish_child t) as [t1|k]; [|reflexivity].
    intros H. rewrite (mon_event_strict_eq tbl (t_par t1) e H). reflexivity.
  - assert (Hstart : forall t0 : top,
      (if negb (N.eqb p (t_next t0)) then inr R_PROC
       else match m_dead (t_par t0) with
            | Some _ => inr R_AFTER_DEATH
            | None =>
                if negb (mon_finished (t_par t0)) then inr R_PROC
                else match mon_event true tbl
                             (mkMon (reset_cur (m_cur (t_par t0))) [] (m_last (t_par t0)) MMain None) e with
                     | inl cm' => inl (mkTop (t_par (mkTop (t_par t0) None (p + 1))) (Some (p, cm'))
                                             (t_next (mkTop (t_par t0) None (p + 1))))
                     | inr k => inr k
                     end
            end) =
      (if negb (N.eqb p (t_next t0)) then inr R_PROC
       else match m_dead (t_par t0) with
            | Some _ => inr R_AFTER_DEATH
            | None =>
                if negb (mon_finished (t_par t0)) then inr R_PROC
                else match mon_event false tbl
                             (mkMon (reset_cur (m_cur (t_par t0))) [] (m_last (t_par t0)) MMain None) e with
                     | inl cm' => inl (mkTop (t_par (mkTop (t_par t0) None (p + 1))) (Some (p, cm'))
                                             (t_next (mkTop (t_par t0) None (p + 1))))
                     | inr k => inr k
                     end
            end)).
    { intros t0. rewrite (mon_event_strict_eq tbl _ e (retrap_ev_fresh _ _ e)). reflexivity. }
    destruct (t_child t) as [[q cm]|].
    + destruct (N.eqb q p).
      * intros H. rewrite (mon_event_strict_eq tbl cm e H). reflexivity.
      * intros _. destruct (finish_child t) as [t1|k]; [apply Hstart | reflexivity].
    + intros _. apply Hstart.
Qed.

Lemma top_run_strict_eq tbl l : forall t,
  retrap_free_from tbl t l = true -> top_run true tbl t l = top_run false tbl t l.
Proof.
  induction l as [|[p e] l IH]; intros t H; [reflexivity|].
  cbn [retrap_free_from] in H. apply andb_true_iff in H. destruct H as [H1 H2].
  apply negb_true_iff in H1. cbn [top_run].
  rewrite (top_event_strict_eq tbl t p e H1).
  destruct (top_event false tbl t (p, e)) as [t'|k]; [apply IH; exact H2 | reflexivity].
Qed.

Lemma script_monitor_strict_thm tbl bf main trace dead :
  script_ok tbl main = true ->
  run_script tbl bf main = Some (trace, dead) ->
  trace_retrap_free tbl trace = true ->
  monitor true tbl trace dead = None.
Proof.
  intros Hok Hrun Hfree.
  pose proof (script_monitor_sound_thm tbl bf main trace dead Hok Hrun) as H.
  unfold monitor in *. unfold trace_retrap_free in Hfree.
  rewrite (top_run_strict_eq tbl trace top_init Hfree). exact H.
Qed.
