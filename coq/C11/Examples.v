(* C11 — concrete instances showing that the hypotheses of the property
   theorems are satisfiable by non-trivial histories (non-vacuity), all by
   computation. *)
From Yv Require Import Common.Base C11.Model C11.Spec.

Definition SIGUSR1 : N := 124.

(* a non-interactive history on a signal ignored on entry: trap attempts, an
   internal handler, a subshell *)
Definition ex_ops : list op :=
  [OSetAction SIGINT (ACommand 1) 1 false; OInternal SIGINT Catch;
   OSetAction SIGINT ADefault 2 false; OEnterSubshell true false; ODeliver SIGINT;
   OTakeSig SIGINT; OPeek SIGINT].

Lemma ex_noninteractive : Forall (fun o => noninteractive o = true) ex_ops.
Proof. repeat constructor. Qed.

Lemma ex_ops_ok : Forall (fun o => op_ok o = true) ex_ops.
Proof. repeat constructor. Qed.

(* the internal handler really gets installed over the inherited Ignore *)
Lemma ex_locked_state :
  s_disp (run SIGINT Ignore [OSetAction SIGINT (ACommand 1) 1 false; OInternal SIGINT Catch]) = Catch
  /\ o_res (step SIGINT (OSetAction SIGINT (ACommand 1) 1 false) (init_st Ignore)) = RErrIgnored.
Proof. split; reflexivity. Qed.

(* a global history over five conditions inside the domain of oracle_sound *)
Definition ex_univ : list (N * disp) :=
  [(EXIT, Default); (SIGINT, Ignore); (SIGQUIT, Default); (SIGTERM, Default); (SIGUSR1, Default)].

Definition ex_gops : list gop :=
  [GOp (OSetAction SIGUSR1 (ACommand 1) 1 false); GEnableTerm;
   GOp (OSetAction SIGINT (ACommand 2) 2 false); GOp (ODeliver SIGUSR1);
   GOp (OSetAction EXIT (ACommand 3) 3 false);
   GOp (OEnterSubshell true false); GTakeAny; GOp (OSetAction SIGTERM AIgnore 4 true);
   GDisableTerm; GOp (OPeek SIGUSR1)].

Lemma ex_univ_ok : univ_ok ex_univ = true.
Proof. reflexivity. Qed.

Lemma ex_gops_ok : Forall (fun o => gop_ok (map fst ex_univ) o = true) ex_gops.
Proof. repeat constructor. Qed.

(* the history is not trivial: a trap was set, a signal caught, dispositions changed *)
Lemma ex_trace_nontrivial :
  map (fun p => ob_disp (snd p))
      (map (fun p => (fst p, observe (snd p)))
           (grun ex_univ [GOp (OSetAction SIGUSR1 (ACommand 1) 1 false); GEnableTerm;
                          GOp (ODeliver SIGUSR1)]))
  = [Default; Catch; Ignore; Ignore; Catch]
  /\ first_pending (grun ex_univ [GOp (OSetAction SIGUSR1 (ACommand 1) 1 false);
                                  GOp (ODeliver SIGUSR1)]) = Some SIGUSR1.
Proof. split; reflexivity. Qed.

(* a state with an entry, reached by a history, for enter_subshell_spec and
   syscall_only_on_change *)
Lemma ex_subshell :
  let st := run SIGUSR1 Default [OSetAction SIGUSR1 (ACommand 1) 1 false; ODeliver SIGUSR1] in
  pending st = true /\ s_disp st = Catch
  /\ s_disp (step_st SIGUSR1 st (OEnterSubshell false false)) = Default
  /\ o_calls (step SIGUSR1 (OEnterSubshell false false) st) = [Default]
  /\ pending (step_st SIGUSR1 st (OEnterSubshell false false)) = false.
Proof. repeat split; reflexivity. Qed.
