(* C11 — concrete instances showing that the hypotheses of the property
   theorems are satisfiable by non-trivial histories (non-vacuity), all by
   computation. *)
From Yv Require Import Common.Base C11.Model C11.Spec C11.ScriptModel C11.ScriptSpec C11.ScriptTerm.

Definition SIGUSR1 : N := 124.

(* a non-interactive history on a signal ignored on entry: trap attempts, an
   internal handler, a subshell *)
Definition ex_ops : list op :=
  [OSetAction SIGINT (ACommand 1) 1 false; OInternal SIGINT Catch;
   OSetAction SIGINT ADefault 2 false; OEnterSubshell true false; ODeliver SIGINT;
   OTakeSig SIGINT; OPeek SIGINT].

Lemma ex_noninteractive : Forall (fun o => noninteractive o = true) ex_ops.
Proof. repeat constructor. Qed.

Lemma ex_ops_ok : Forall (fun o => op_ok o = true) ex_ops.
Proof. repeat constructor. Qed.

(* the internal handler really gets installed over the inherited Ignore *)
Lemma ex_locked_state :
  s_disp (run SIGINT Ignore [OSetAction SIGINT (ACommand 1) 1 false; OInternal SIGINT Catch]) = Catch
  /\ o_res (step SIGINT (OSetAction SIGINT (ACommand 1) 1 false) (init_st Ignore)) = RErrIgnored.
Proof. split; reflexivity. Qed.

(* a global history over five conditions inside the domain of oracle_sound *)
Definition ex_univ : list (N * disp) :=
  [(EXIT, Default); (SIGINT, Ignore); (SIGQUIT, Default); (SIGTERM, Default); (SIGUSR1, Default)].

Definition ex_gops : list gop :=
  [GOp (OSetAction SIGUSR1 (ACommand 1) 1 false); GEnableTerm;
   GOp (OSetAction SIGINT (ACommand 2) 2 false); GOp (ODeliver SIGUSR1);
   GOp (OSetAction EXIT (ACommand 3) 3 false);
   GOp (OEnterSubshell true false); GTakeAny; GOp (OSetAction SIGTERM AIgnore 4 true);
   GDisableTerm; GOp (OPeek SIGUSR1)].

Lemma ex_univ_ok : univ_ok ex_univ = true.
Proof. reflexivity. Qed.

Lemma ex_gops_ok : Forall (fun o => gop_ok (map fst ex_univ) o = true) ex_gops.
Proof. repeat constructor. Qed.

(* the history is not trivial: a trap was set, a signal caught, dispositions changed *)
Lemma ex_trace_nontrivial :
  map (fun p => ob_disp (snd p))
      (map (fun p => (fst p, observe (snd p)))
           (grun ex_univ [GOp (OSetAction SIGUSR1 (ACommand 1) 1 false); GEnableTerm;
                          GOp (ODeliver SIGUSR1)]))
  = [Default; Catch; Ignore; Ignore; Catch]
  /\ first_pending (grun ex_univ [GOp (OSetAction SIGUSR1 (ACommand 1) 1 false);
                                  GOp (ODeliver SIGUSR1)]) = Some SIGUSR1.
Proof. split; reflexivity. Qed.

(* a state with an entry, reached by a history, for enter_subshell_spec and
   syscall_only_on_change *)
Lemma ex_subshell :
  let st := run SIGUSR1 Default [OSetAction SIGUSR1 (ACommand 1) 1 false; ODeliver SIGUSR1] in
  pending st = true /\ s_disp st = Catch
  /\ s_disp (step_st SIGUSR1 st (OEnterSubshell false false)) = Default
  /\ o_calls (step SIGUSR1 (OEnterSubshell false false) st) = [Default]
  /\ pending (step_st SIGUSR1 st (OEnterSubshell false false)) = false.
Proof. repeat split; reflexivity. Qed.

(* ---- scripts ------------------------------------------------------------------------------- *)
Definition USR1 : N := 124.
Definition USR2 : N := 125.

(* USR1's action delivers USR2 twice and replaces nothing; USR2's action is a
   probe; the script delivers USR1 with $? = 42, in the main shell and in a
   subshell (where the trap is reset and the signal kills the subshell) *)
Definition ex_tbl : table :=
  [(1, [BProbe 1001 1; BRaise USR2 2; BRaise USR2 3; BProbe 11 4]);
   (2, [BProbe 1002 9])]%N.

Definition ex_main : list cmd :=
  [CB (BTrap USR1 (TBody 1)); CB (BTrap USR2 (TBody 2));
   CB (BRaise USR1 42); CB (BProbe 1 0);
   CSub [CB (BProbe 2 5); CB (BRaise USR1 0); CB (BProbe 3 0)];
   CIf [CB (BRaise USR2 1)] [CB (BProbe 4 0)] [CB (BProbe 5 0)]]%N.

Lemma ex_script_ok : script_ok ex_tbl ex_main = true.
Proof. reflexivity. Qed.

Definition ex_trace : list event :=
  [(0, EMark USR1 (TBody 1) 0); (0, EMark USR2 (TBody 2) 0);
   (0, ERaise USR1 0 42);
   (0, EProbe 1001 42 1); (0, ERaise USR2 1 2); (0, ERaise USR2 2 3); (0, EProbe 11 3 4);
   (0, EProbe 1002 42 9);
   (0, EProbe 1 42 0);
   (1, EProbe 2 0 5); (1, ERaise USR1 5 0);
   (0, ERaise USR2 508 1); (0, EProbe 1002 1 9);
   (0, EProbe 5 1 0)]%N.

Lemma ex_script_runs : run_script ex_tbl 8 ex_main = Some (ex_trace, false).
Proof. vm_compute. reflexivity. Qed.

Lemma ex_monitor_accepts : monitor false ex_tbl ex_trace false = None.
Proof. vm_compute. reflexivity. Qed.

(* the monitor is not vacuous: it rejects a lost run, a duplicated run, a run
   that comes one command late, and a $? that is not restored *)
Definition tr_prefix : list event :=
  [(0, EMark USR2 (TBody 2) 0); (0, ERaise USR2 0 7)]%N.

Lemma ex_monitor_rejects :
  monitor false ex_tbl (tr_prefix ++ [(0, EProbe 1002 7 9); (0, EProbe 1 7 0)])%N false = None
  /\ monitor false ex_tbl (tr_prefix ++ [(0, EProbe 1 7 0)])%N false = Some R_LATE
  /\ monitor false ex_tbl tr_prefix false = Some R_LOST
  /\ monitor false ex_tbl (tr_prefix ++ [(0, EProbe 1002 7 9); (0, EProbe 1002 7 9)])%N false
     = Some R_SPURIOUS
  /\ monitor false ex_tbl (tr_prefix ++ [(0, EProbe 1002 7 9); (0, EProbe 1 9 0)])%N false
     = Some R_STATUS
  /\ monitor false ex_tbl (tr_prefix ++ [(0, EProbe 1002 0 9); (0, EProbe 1 7 0)])%N false
     = Some R_STATUS.
Proof. vm_compute. repeat split. Qed.

(* ---- the strict reading of "exactly once" fails on the model --------------------------------- *)
(* TrapSet level: trap set, signal caught, trap replaced by another command,
   take_caught_signal: the model (like yash-rs) reports no caught signal *)
Definition refute_univ : list (N * disp) := [(SIGUSR1, Default)].
Definition refute_gops : list gop :=
  [GOp (OSetAction SIGUSR1 (ACommand 1) 1 false); GOp (ODeliver SIGUSR1);
   GOp (OSetAction SIGUSR1 (ACommand 2) 2 false); GTakeAny].

Lemma refute_trapset :
  univ_ok refute_univ = true /\
  Forall (fun o => gop_ok (map fst refute_univ) o = true) refute_gops /\
  oracle_hist true (spec_inits refute_univ) (obs_inits refute_univ)
              (model_trace (ginit refute_univ) refute_gops) = Some 9%N /\
  oracle_hist false (spec_inits refute_univ) (obs_inits refute_univ)
              (model_trace (ginit refute_univ) refute_gops) = None.
Proof. split; [reflexivity|]. split; [repeat constructor|]. split; vm_compute; reflexivity. Qed.

(* script level: USR1's action delivers USR2 and then replaces USR2's trap by
   another command; neither the old nor the new action of USR2 runs *)
Definition refute_tbl : table :=
  [(1, [BProbe 1001 0; BRaise USR2 1; BTrap USR2 (TBody 3); BProbe 12 2]);
   (2, [BProbe 1002 0]);
   (3, [BProbe 1003 0])]%N.
Definition refute_main : list cmd :=
  [CB (BTrap USR1 (TBody 1)); CB (BTrap USR2 (TBody 2)); CB (BRaise USR1 4); CB (BProbe 1 0)]%N.
Definition refute_trace : list event :=
  [(0, EMark USR1 (TBody 1) 0); (0, EMark USR2 (TBody 2) 0); (0, ERaise USR1 0 4);
   (0, EProbe 1001 4 0); (0, ERaise USR2 0 1); (0, EMark USR2 (TBody 3) 1); (0, EProbe 12 0 2);
   (0, EProbe 1 4 0)]%N.

Lemma refute_script :
  script_ok refute_tbl refute_main = true /\
  run_script refute_tbl 8 refute_main = Some (refute_trace, false) /\
  monitor true refute_tbl refute_trace false = Some R_LATE /\
  monitor false refute_tbl refute_trace false = None.
Proof. repeat split; vm_compute; reflexivity. Qed.

(* ---- the class of the known finding: the witnesses above are in it, the other
   examples are not ------------------------------------------------------------------------------ *)
Lemma ex_class :
  retrap_class_free (ginit ex_univ) ex_gops = true /\
  retrap_class_free (ginit refute_univ) refute_gops = false /\
  trace_retrap_free ex_tbl ex_trace = true /\
  trace_retrap_free refute_tbl refute_trace = false.
Proof. repeat split; vm_compute; reflexivity. Qed.

(* ---- termination of the trap loop -------------------------------------------------------- *)
(* the example script satisfies the rank condition; an action that raises its
   own signal does not, and the model runs out of any fuel tried *)
Definition loop_tbl : table := [(1, [BProbe 1001 0; BRaise USR1 0])]%N.
Definition loop_main : list cmd := [CB (BTrap USR1 (TBody 1)); CB (BRaise USR1 0)]%N.

Lemma ex_rank :
  rank_ok ex_tbl ex_main = true /\
  script_ok loop_tbl loop_main = true /\ rank_ok loop_tbl loop_main = false /\
  run_script loop_tbl 200 loop_main = None.
Proof. repeat split; vm_compute; reflexivity. Qed.
