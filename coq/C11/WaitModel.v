(* C11, "or on interrupting `wait`" — executable model of the `wait` built-in
   being interrupted by a trapped signal.

     yash-builtin/src/wait.rs          Command::execute / await_jobs: exit status
                                       ExitStatus::from(signal) = 384 + signo when
                                       the core reports Error::Trapped
     yash-builtin/src/wait/status.rs   wait_while_running (check, then wait for one
                                       event), job_status (a finished job is removed
                                       from the job list when reported; an unknown
                                       job is 127), any_job_is_running
                                       (`(0..=max).all(..)`: stops at the first job
                                       still running, the finished ones before it
                                       are already removed)
     yash-builtin/src/wait/core.rs     wait_for_any_job_or_trap: `system.wait`, else
                                       `env.wait_for_signals()`, then
                                       `for signal in signals { run_trap_if_caught }`
                                       returning at the first signal whose trap is a
                                       command
     yash-env/src/lib.rs               Env::wait_for_signals: catch_signal for every
                                       signal of the list
     yash-semantics/src/trap/signal.rs run_trap_if_caught (take_signal_if_caught,
                                       action must be a command), then, after the
                                       built-in returned, run_traps_for_caught_signals
                                       (lowest signal number first)
     yash-semantics/src/trap.rs        run_trap: $? saved before, restored after

   The shell's own commands take no virtual time, so everything the children do
   (signals sent to the shell, termination) reaches the shell while it is
   blocked in `wait`: the input is the script plus the list of events in the
   order of virtual time.  One event is what one child does at one instant:
   send a batch of signals to the shell (they arrive before the shell runs
   again, so it sees them as one SignalList, in the order sent), or terminate
   (SIGCHLD).  Trap actions are single probes `p (1000+ID) ARG`. *)
From Yv Require Import Common.Base C11.ScriptModel.

Definition WCHLD : N := 102.
Definition sig_status (sg : N) : N := 384 + sg.
Definition NOT_FOUND : N := 127.

Inductive wev :=
| WSigs (j : N) (l : list N)          (* child j sends these signals, in this order *)
| WChild (j st : N).                  (* child j exits with status st *)

Inductive wtgt := WAll | WJob (j : N).

Inductive wcmd :=
| WcP (k st : N)                      (* p K ST *)
| WcTrap (sg : N) (a : tact)          (* mark SG A; trap ... SG *)
| WcSpawn (j : N)                     (* { child j; } &  pj=$! *)
| WcWait (t : wtgt).                  (* wait / wait $pj *)

(* what the instrumented built-ins record *)
Inductive wevt :=
| TP (k before arg : N)               (* main shell: p (also the trap actions) *)
| TMark (sg : N) (a : tact) (before : N)
| TTell (j sg : N)                    (* child j sent sg to the main shell *)
| TBye (j st : N).                    (* child j is about to exit with st *)

Definition wevt_eqb (a b : wevt) : bool :=
  match a, b with
  | TP k x y, TP k' x' y' => N.eqb k k' && N.eqb x x' && N.eqb y y'
  | TMark s a x, TMark s' a' x' => N.eqb s s' && tact_eqb a a' && N.eqb x x'
  | TTell j s, TTell j' s' => N.eqb j j' && N.eqb s s'
  | TBye j s, TBye j' s' => N.eqb j j' && N.eqb s s'
  | _, _ => false
  end.

(* ---- the job list: (job, Some status when it has terminated) in index order ---- *)
Definition jobs := list (N * option N).

Fixpoint jlookup (js : jobs) (j : N) : option (option N) :=
  match js with
  | [] => None
  | (i, x) :: js => if N.eqb i j then Some x else jlookup js j
  end.

Fixpoint jfinish (js : jobs) (j st : N) : jobs :=
  match js with
  | [] => []
  | (i, x) :: js => if N.eqb i j then (i, Some st) :: js else (i, x) :: jfinish js j st
  end.

Definition jremove (js : jobs) (j : N) : jobs :=
  filter (fun p => negb (N.eqb (fst p) j)) js.

(* status.rs job_status: Break with the status (and the job removed), or Continue *)
Definition job_break (js : jobs) (j : N) : option (N * jobs) :=
  match jlookup js j with
  | None => Some (NOT_FOUND, js)
  | Some (Some st) => Some (st, jremove js j)
  | Some None => None
  end.

(* status.rs any_job_is_running: `all` stops at the first job still running *)
Fixpoint all_break (idx : list N) (js : jobs) : bool * jobs :=
  match idx with
  | [] => (true, js)
  | j :: idx =>
      match job_break js j with
      | Some (_, js') => all_break idx js'
      | None => (false, js)
      end
  end.

(* the check at the head of wait_while_running *)
Definition tgt_check (t : wtgt) (js : jobs) : option N * jobs :=
  match t with
  | WJob j => match job_break js j with
              | Some (st, js') => (Some st, js')
              | None => (None, js)
              end
  | WAll => let '(b, js') := all_break (map fst js) js in
            (if b then Some 0%N else None, js')
  end.

(* ---- signals ------------------------------------------------------------------------- *)
Definition body_sig (traps : list (N * tact)) (sg : N) : bool :=
  match trap_of traps sg with TBody _ => true | _ => false end.

(* a signal sent by a child kills the shell when its trap is the default *)
Definition lethal_sig (traps : list (N * tact)) (sg : N) : bool :=
  match trap_of traps sg with TDefault => true | _ => false end.

Definition memN (x : N) (l : list N) : bool := existsb (N.eqb x) l.

(* core.rs: `for signal in signals.iter() { if let Some(r) = run_trap_if_caught(..) { return } }`
   with run_trap_if_caught = take_signal_if_caught, then the action must be a command *)
Fixpoint first_trap (traps : list (N * tact)) (pend : list N) (l : list N) : option N * list N :=
  match l with
  | [] => (None, pend)
  | sg :: l =>
      if memN sg pend then
        let pend' := remove_sig sg pend in
        if body_sig traps sg then (Some sg, pend') else first_trap traps pend' l
      else first_trap traps pend l
  end.

(* Env::wait_for_signals: every signal of the list gets its caught flag *)
Definition catch_all (l : list N) (pend : list N) : list N :=
  fold_left (fun p sg => insert_sig sg p) l pend.

Inductive wout :=
| WDone (st : N)
| WIntr (sg : N)
| WKilled                 (* a signal with the default action arrived *)
| WStuck.                 (* no event left while a job is awaited: outside the domain *)

(* result: outcome, job list, caught flags left, events used, events left *)
Definition wresult := (wout * jobs * list N * list wev * list wev)%type.

Definition consume (e : wev) (r : wresult) : wresult :=
  let '(o, js, p, used, rest) := r in (o, js, p, e :: used, rest).

(* wait_while_running + wait_for_any_job_or_trap.  The simulated kernel
   discards a signal the shell ignores and puts the caught ones into the
   SignalList; SIGCHLD is caught while `wait` runs (internal disposition). *)
Fixpoint wait_loop (traps : list (N * tact)) (t : wtgt) (js : jobs) (evs : list wev) : wresult :=
  match tgt_check t js with
  | (Some st, js') => (WDone st, js', [], [], evs)
  | (None, js') =>
      match evs with
      | [] => (WStuck, js', [], [], [])
      | WSigs j l :: evs' =>
          if existsb (lethal_sig traps) l then (WKilled, js', [], [WSigs j l], evs')
          else
            let sl := filter (body_sig traps) l in
            match first_trap traps (catch_all sl []) sl with
            | (Some sg, pend) => (WIntr sg, js', pend, [WSigs j l], evs')
            | (None, _) => consume (WSigs j l) (wait_loop traps t js' evs')
            end
      | WChild j st :: evs' =>
          let js2 := jfinish js' j st in
          match first_trap traps (catch_all [WCHLD] []) [WCHLD] with
          | (Some sg, pend) => (WIntr sg, js2, pend, [WChild j st], evs')
          | (None, _) => consume (WChild j st) (wait_loop traps t js2 evs')
          end
      end
  end.

(* ---- the script around it ------------------------------------------------------------ *)
Record wst := mkW {
  w_traps : list (N * tact);
  w_status : N;
  w_jobs : jobs;
  w_evs : list wev;
  w_tr : list wevt          (* most recent first *)
}.

Definition ev_trace (e : wev) : list wevt :=
  match e with
  | WSigs j l => map (TTell j) l
  | WChild j st => [TBye j st]
  end.

Fixpoint arg_of (atbl : list (N * N)) (id : N) : N :=
  match atbl with
  | [] => 0
  | (i, a) :: atbl => if N.eqb i id then a else arg_of atbl id
  end.

(* the action of sg, run with $? = before (run_trap restores $? afterwards) *)
Definition act_probe (atbl : list (N * N)) (traps : list (N * tact)) (before sg : N) : list wevt :=
  match trap_of traps sg with
  | TBody id => [TP (1000 + id) before (arg_of atbl id)]
  | _ => []
  end.

Inductive wend := EndOk | EndKilled | EndStuck.

Definition wend_eqb (a b : wend) : bool :=
  match a, b with
  | EndOk, EndOk | EndKilled, EndKilled | EndStuck, EndStuck => true
  | _, _ => false
  end.

Section Script.
  (* the `wait` built-in: the model is [wait_loop], the specification
     [WaitSpec.wait_spec] *)
  Variable core : list (N * tact) -> wtgt -> jobs -> list wev -> wresult.
  Variable atbl : list (N * N).

  Fixpoint wexec (cs : list wcmd) (s : wst) : wend * wst :=
    match cs with
    | [] => (EndOk, s)
    | WcP k st :: cs =>
        wexec cs (mkW (w_traps s) st (w_jobs s) (w_evs s) (TP k (w_status s) st :: w_tr s))
    | WcTrap sg a :: cs =>
        wexec cs (mkW (set_trap (w_traps s) sg a) 0 (w_jobs s) (w_evs s)
                      (TMark sg a (w_status s) :: w_tr s))
    | WcSpawn j :: cs =>
        wexec cs (mkW (w_traps s) 0 (w_jobs s ++ [(j, None)]) (w_evs s) (w_tr s))
    | WcWait t :: cs =>
        let '(o, js, pend, used, rest) := core (w_traps s) t (w_jobs s) (w_evs s) in
        let tr1 := rev (flat_map ev_trace used) ++ w_tr s in
        match o with
        | WDone st => wexec cs (mkW (w_traps s) st js rest tr1)
        | WIntr sg =>
            (* the action runs inside the built-in with the $? of before the
               `wait`; the built-in returns 384+sg; the other signals caught run
               their actions after the built-in, lowest number first *)
            let tr2 := rev (act_probe atbl (w_traps s) (w_status s) sg) ++ tr1 in
            let tr3 := rev (flat_map (act_probe atbl (w_traps s) (sig_status sg)) pend) ++ tr2 in
            wexec cs (mkW (w_traps s) (sig_status sg) js rest tr3)
        | WKilled =>
            (* the children go on without the shell *)
            (EndKilled, mkW (w_traps s) (w_status s) js [] (rev (flat_map ev_trace rest) ++ tr1))
        | WStuck => (EndStuck, mkW (w_traps s) (w_status s) js rest tr1)
        end
    end.

  Definition wrun (cs : list wcmd) (evs : list wev) : wend * list wevt :=
    let '(e, s) := wexec cs (mkW [] 0 [] evs []) in (e, rev (w_tr s)).
End Script.
