(* C11 — lemmas, part D: every clause of the oracle holds of the model. *)
From Yv Require Import Common.Base C11.Model C11.Spec C11.Proofs C11.ProofsB C11.ProofsC.
Local Arguments N.eqb : simpl never.

(* ---- the clauses of the oracle hold of the model --------------------------------- *)
Lemma refines_expected c init st sp :
  Good c init st sp -> c <> EXIT -> s_disp st = expected sp.
Proof.
  intros (Hi & _ & Hinv & HR) Hc. destruct (Hinv Hc) as [Hd _].
  destruct sp as [ua un ul up].
  destruct st as [[[[a og p] par int]|] d b]; unfold merged in Hd; cbn in Hd;
  use_refines HR; unfold expected; cbn; subst.
  - reflexivity.
  - destruct init; cbn; congruence.
Qed.

Lemma refines_shown init st sp : Refines init st sp -> cl_shown sp (observe st) = true.
Proof.
  destruct sp as [ua un ul up].
  destruct st as [[[[a og p] par int]|] d b]; intros HR; use_refines HR;
  unfold cl_shown; cbn; [apply action_eqb_refl | reflexivity].
Qed.

Lemma calls_ok c init st o :
  init <> Catch -> (c <> EXIT -> DispInv init st) -> op_ok o = true ->
  cl_calls c (observe st) (observe (step_st c st o)) (o_calls (step c o st)) = true.
Proof.
  intros Hi Hinv Hok.
  destruct (N.eqb c EXIT) eqn:Ec.
  - apply N.eqb_eq in Ec. subst c. unfold cl_calls. cbn.
    rewrite (exit_no_syscall o st Hok). reflexivity.
  - apply N.eqb_neq in Ec. destruct (Hinv Ec) as [Hd _].
    pose proof (is_signal_true c Ec) as Hs.
    unfold cl_calls. rewrite Hs. cbn [negb].
    destruct st as [[[[a og p] par int]|] d b]; unfold merged in Hd; cbn in Hd; subst;
    destruct o as [c' a' tag ovr | c' | c' d' | [|] [|] | c' | c'];
    unfold observe; unfold_step; cbn; rewrite ?Hs; cbn; split_goal; cbn;
    rewrite ?disp_eqb_refl; cbn; try reflexivity; mid;
    all_disps; all_actions; cbn in *; congruence.
Qed.

Lemma kill_stop_ok c o st : cl_kill_stop c o (o_res (step c o st)) = true.
Proof.
  destruct o as [c' a' tag ovr | c' | c' d' | ign keep | c' | c']; try reflexivity.
  destruct st as [[[[a og p] par int]|] d b];
  unfold cl_kill_stop; unfold_step; cbn; split_goal; cbn; try reflexivity; finish.
Qed.

(* clauses 3, 4, 6, 8 *)
Lemma other_clauses_ok c init st sp o r :
  Good c init st sp -> op_ok o = true -> ResOk c o st r ->
  cl_locked c sp o r = true /\ cl_refusal c sp o r = true /\ cl_take c sp o r = true /\
  cl_parent c sp o r (observe (step_st c st o)) = true.
Proof.
  intros (Hi & H0 & Hinv & HR) Hok [Hr1 Hr2].
  destruct sp as [ua un ul up].
  destruct o as [c' a' tag ovr | c' | c' d' | ign keep | c' | c'];
    try (repeat split; reflexivity).
  - (* set_action *)
    destruct (N.eqb c c') eqn:E0.
    + apply N.eqb_eq in E0; subst c'. rewrite (Hr1 eq_refl). clear Hr1 Hr2.
      destruct st as [[[[a og p] par int]|] d b]; use_refines HR;
      unfold_spec; unfold_step; cbn; rewrite ?N.eqb_refl; cbn; split_goal; cbn;
      rewrite ?action_eqb_refl; cbn; cheap; mid; try tail Hl; finish;
      exfalso;
      first [ match goal with H : ?c <> 0%N |- _ =>
                destruct (Hinv H) as [Hd _]; cbn in Hd; unfold merged in Hd; cbn in Hd;
                all_disps; cbn in *; congruence end
            | match goal with H : _ = 0%N -> _ |- _ =>
                specialize (H eq_refl); all_disps; cbn in *; congruence end ].
    + clear Hr1. assert (Hks : cl_kill_stop c (OSetAction c' a' tag ovr) r = true).
      { apply Hr2. cbn. intros H; inversion H; subst. rewrite N.eqb_refl in E0. discriminate. }
      clear Hr2. unfold cl_kill_stop in Hks.
      destruct st as [[[[a og p] par int]|] d b];
      unfold_spec; unfold_step; cbn; rewrite E0; cbn;
      (repeat split; try reflexivity);
      destruct r; try reflexivity;
      destruct (N.eqb c' SIGKILL); try discriminate;
      destruct (N.eqb c' SIGSTOP); try discriminate; reflexivity.
  - (* enter_subshell *)
    repeat split; try reflexivity.
    clear Hr1 Hr2 Hinv H0.
    destruct st as [[[[a og p] par int]|] d b]; use_refines HR; try destruct a;
    unfold_spec; unfold_step; destruct ign, keep; cbn; split_goal; cbn;
    rewrite ?N.eqb_refl; cbn; try reflexivity; finish.
  - (* take *)
    destruct (N.eqb c c') eqn:E0.
    + apply N.eqb_eq in E0; subst c'. rewrite (Hr1 eq_refl). clear Hr1 Hr2.
      destruct st as [[[[a og p] par int]|] d b]; use_refines HR;
      unfold_spec; unfold_step; cbn; rewrite ?N.eqb_refl; cbn; rewrite ?action_eqb_refl;
      split_goal; cbn;
      rewrite ?N.eqb_refl, ?action_eqb_refl; cbn; cheap; mid;
      try match goal with H : action_eqb ?x ?x = false |- _ =>
            rewrite action_eqb_refl in H; discriminate H end;
      try (exfalso; first [specialize (Hp2 eq_refl eq_refl) | specialize (Hp1 eq_refl)]; discriminate);
      repeat split; rewrite ?orb_true_r; try reflexivity; destruct a; try reflexivity;
      exfalso; specialize (Hp2 eq_refl eq_refl); discriminate.
    + unfold_spec. cbn. rewrite E0. repeat split.
Qed.
