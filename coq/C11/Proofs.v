(* C11 — lemmas about the per-condition model. *)
From Yv Require Import Common.Base C11.Model C11.Spec.

Local Arguments N.eqb : simpl never.

(* ---- small facts ---------------------------------------------------------- *)
Lemma disp_eqb_eq a b : disp_eqb a b = true <-> a = b.
Proof. destruct a, b; cbn; split; congruence. Qed.

Lemma disp_eqb_refl a : disp_eqb a a = true.
Proof. destruct a; reflexivity. Qed.

Lemma disp_eqb_neq a b : disp_eqb a b = false <-> a <> b.
Proof. destruct a, b; cbn; split; congruence. Qed.

Lemma action_eqb_eq a b : action_eqb a b = true <-> a = b.
Proof.
  destruct a, b; cbn; split; try congruence.
  - intros H; apply N.eqb_eq in H; congruence.
  - intros H; inversion H; apply N.eqb_refl.
Qed.

Lemma action_eqb_refl a : action_eqb a a = true.
Proof. apply action_eqb_eq; reflexivity. Qed.

Lemma origin_eqb_eq a b : origin_eqb a b = true <-> a = b.
Proof.
  destruct a, b; cbn; split; try congruence.
  - intros H; apply N.eqb_eq in H; congruence.
  - intros H; inversion H; apply N.eqb_refl.
Qed.

Lemma tstate_eqb_eq a b : tstate_eqb a b = true <-> a = b.
Proof.
  destruct a as [a1 o1 p1], b as [a2 o2 p2]; unfold tstate_eqb; cbn.
  rewrite !andb_true_iff, action_eqb_eq, origin_eqb_eq, Bool.eqb_true_iff.
  split; [intros [[-> ->] ->]; reflexivity | intros H; inversion H; auto].
Qed.

Lemma res_eqb_eq a b : res_eqb a b = true <-> a = b.
Proof.
  destruct a, b; cbn; split; try congruence.
  - rewrite andb_true_iff, N.eqb_eq, tstate_eqb_eq. intros [-> ->]; reflexivity.
  - intros H; inversion H; subst. rewrite N.eqb_refl. cbn. apply tstate_eqb_eq; reflexivity.
  - rewrite tstate_eqb_eq. congruence.
  - intros H; inversion H; subst. apply tstate_eqb_eq; reflexivity.
Qed.

Lemma res_eqb_refl a : res_eqb a a = true.
Proof. apply res_eqb_eq; reflexivity. Qed.

Lemma dmax_default_l d : dmax Default d = d.
Proof. destruct d; reflexivity. Qed.

Lemma dmax_default_r d : dmax d Default = d.
Proof. destruct d; reflexivity. Qed.

(* turn boolean tests on condition numbers into (dis)equalities *)
Ltac neqs :=
  repeat match goal with
  | H : N.eqb _ _ = true |- _ => apply N.eqb_eq in H
  | H : N.eqb _ _ = false |- _ => apply N.eqb_neq in H
  | H : disp_eqb _ _ = true |- _ => apply disp_eqb_eq in H
  | H : disp_eqb _ _ = false |- _ => apply disp_eqb_neq in H
  | H : action_eqb _ _ = true |- _ => apply action_eqb_eq in H
  | H : origin_eqb _ _ = true |- _ => apply origin_eqb_eq in H
  end.

(* split on every scrutinee in the goal, simplest scrutinees first *)
Ltac split_goal :=
  repeat (cbn; match goal with
  | |- context [N.eqb ?a ?b] => destruct (N.eqb a b) eqn:?
  | |- context [negb ?x] => is_var x; destruct x
  | |- context [if ?x then _ else _] => is_var x; destruct x
  | |- context [match ?x with _ => _ end] => is_var x; destruct x
  | |- context [action_eqb ?a ?b] => destruct (action_eqb a b) eqn:?
  | |- context [origin_eqb ?a ?b] => destruct (origin_eqb a b) eqn:?
  | |- context [disp_eqb ?a ?b] => destruct (disp_eqb a b) eqn:?
  | |- context [match ?x with _ => _ end] => destruct x eqn:?
  | |- context [if ?x then _ else _] => destruct x eqn:?
  end).

Ltac done :=
  cbn in *; neqs; subst; cbn in *;
  try solve [ congruence | discriminate | tauto | intuition congruence
            | exfalso; unfold EXIT, SIGINT, SIGQUIT, SIGKILL, SIGTERM, SIGCHLD, SIGSTOP,
                SIGTSTP, SIGTTIN, SIGTTOU in *; congruence ].

(* ---- the disposition invariant is inductive ---------------------------------- *)
Lemma disp_inv_init d : d <> Catch -> DispInv d (init_st d).
Proof. destruct d; intros H; split; try reflexivity; congruence. Qed.

Lemma clear_parent_disp st : s_disp (clear_parent st) = s_disp st.
Proof. unfold clear_parent; destruct (s_ent st); reflexivity. Qed.

Lemma clear_parent_inv init st : DispInv init st -> DispInv init (clear_parent st).
Proof.
  unfold DispInv, merged, clear_parent. destruct st as [[e|] d b]; cbn; auto.
Qed.

Ltac unfold_step :=
  unfold step_st, step, o_st, o_calls, o_res, gs_set_action, clear_parent, ts_peek,
    gs_set_internal, ts_enter_subshell, gs_enter_subshell, gs_ignore, ts_deliver, ts_catch,
    ts_take, with_ent, sys_set, from_initial, es_option, is_int_quit, is_stopper, op_ok,
    internal_ok, is_signal in *.

Ltac all_disps :=
  repeat match goal with x : disp |- _ => destruct x end.
Ltac all_actions :=
  repeat match goal with x : action |- _ => destruct x end.

Lemma is_signal_true c : c <> EXIT -> is_signal c = true.
Proof. intros H. unfold is_signal. apply negb_true_iff, N.eqb_neq. exact H. Qed.

Lemma disp_inv_step c init o st :
  c <> EXIT -> init <> Catch -> DispInv init st -> DispInv init (step_st c st o).
Proof.
  intros Hc Hi [Hd Hb]. pose proof (is_signal_true c Hc) as Hs.
  destruct st as [[[[a og p] par int]|] d b]; unfold merged in Hd; cbn in Hd, Hb; subst;
  destruct o as [c' a' tag ovr | c' | c' d' | [|] [|] | c' | c'];
  unfold_step; cbn; rewrite ?Hs; cbn;
  split_goal; unfold DispInv, merged; cbn;
  all_disps; all_actions; cbn in *; try congruence; auto.
Qed.

Lemma run_app c d ops1 ops2 :
  run c d (ops1 ++ ops2) = fold_left (step_st c) ops2 (run c d ops1).
Proof. unfold run. apply fold_left_app. Qed.

Lemma run_snoc c d ops o : run c d (ops ++ [o]) = step_st c (run c d ops) o.
Proof. rewrite run_app. reflexivity. Qed.

Lemma disp_inv_run c init ops :
  c <> EXIT -> init <> Catch -> DispInv init (run c init ops).
Proof.
  intros Hc Hi. induction ops as [|o ops IH] using rev_ind.
  - apply disp_inv_init; assumption.
  - rewrite run_snoc. apply disp_inv_step; assumption.
Qed.

(* ---- KILL and STOP ------------------------------------------------------------ *)
Definition KSInv (init : disp) (st : sigst) : Prop :=
  s_disp st = init /\ s_blocked st = false /\
  match s_ent st with
  | None => True
  | Some e => e_cur e = from_initial init /\ e_internal e = Default
  end.

Ltac inv_somes :=
  repeat match goal with
  | H : Some _ = Some _ |- _ => inversion H; clear H; subst
  | H : Some _ = None |- _ => discriminate H
  | H : None = Some _ |- _ => discriminate H
  end.

Ltac consts :=
  unfold EXIT, SIGINT, SIGQUIT, SIGKILL, SIGTERM, SIGCHLD, SIGSTOP, SIGTSTP, SIGTTIN, SIGTTOU in *.

Ltac finish :=
  cbn in *; neqs; subst; inv_somes; cbn in *; consts;
  try solve [ congruence | discriminate | tauto | intuition congruence
            | repeat split; congruence
            | match goal with H : _ = _ |- _ => solve [vm_compute in H; discriminate H] end ].

Lemma ks_step c init o st :
  (c = SIGKILL \/ c = SIGSTOP) -> init <> Catch -> op_ok o = true ->
  KSInv init st -> KSInv init (step_st c st o) /\ o_calls (step c o st) = [].
Proof.
  intros Hc Hi Hok (Hd & Hb & He).
  destruct st as [[[[a og p] par int]|] d b]; cbn in Hd, Hb, He;
  [destruct He as [He1 He2]; inversion He1; subst | subst];
  destruct Hc as [Hc|Hc];
  destruct o as [c' a' tag ovr | c' | c' d' | [|] [|] | c' | c'];
  unfold_step; unfold KSInv; cbn in *;
  split_goal; cbn; all_disps; finish.
Qed.

Lemma ks_run c init ops :
  (c = SIGKILL \/ c = SIGSTOP) -> init <> Catch -> Forall (fun o => op_ok o = true) ops ->
  KSInv init (run c init ops) /\ calls_of c (init_st init) ops = [].
Proof.
  intros Hc Hi. unfold run.
  assert (H0 : KSInv init (init_st init)) by (repeat split).
  revert H0. generalize (init_st init) as st.
  induction ops as [|o ops IH]; intros st H0 Hok; cbn.
  - split; [exact H0 | reflexivity].
  - inversion Hok as [|? ? Ho Hops]; subst.
    destruct (ks_step c init o st Hc Hi Ho H0) as [H1 H2].
    destruct (IH (step_st c st o) H1 Hops) as [H3 H4].
    split; [exact H3|]. rewrite H2, H4. reflexivity.
Qed.

Lemma kill_stop_refused c a tag ovr st :
  (c = SIGKILL \/ c = SIGSTOP) ->
  step c (OSetAction c a tag ovr) st = (st, [], if N.eqb c SIGKILL then RErrKill else RErrStop).
Proof. intros [-> | ->]; reflexivity. Qed.

Lemma kill_stop_thm c init ops :
  (c = SIGKILL \/ c = SIGSTOP) -> init <> Catch -> Forall (fun o => op_ok o = true) ops ->
  calls_of c (init_st init) ops = [] /\
  s_disp (run c init ops) = init /\
  (forall e, s_ent (run c init ops) = Some e ->
             e_cur e = from_initial init /\ e_internal e = Default) /\
  (forall a tag ovr,
     step c (OSetAction c a tag ovr) (run c init ops)
     = (run c init ops, [], if N.eqb c SIGKILL then RErrKill else RErrStop)).
Proof.
  intros Hc Hi Hok. destruct (ks_run c init ops Hc Hi Hok) as [(Hd & Hb & He) Hcalls].
  repeat split; auto.
  - destruct (s_ent (run c init ops)); [|discriminate].
    intros; destruct He; congruence.
  - destruct (s_ent (run c init ops)); [|discriminate].
    intros; destruct He; congruence.
  - intros. apply kill_stop_refused. exact Hc.
Qed.

(* ---- ignored on entry, non-interactive shell ---------------------------------- *)
Definition LockedInv (st : sigst) : Prop :=
  match s_ent st with
  | None => s_disp st = Ignore
  | Some e => t_action (e_cur e) = AIgnore /\ t_origin (e_cur e) = Inherited
  end.

Lemma locked_step c o st :
  c <> EXIT -> noninteractive o = true -> LockedInv st -> LockedInv (step_st c st o).
Proof.
  intros Hc Hn H. pose proof (is_signal_true c Hc) as Hs.
  destruct st as [[[[a og p] par int]|] d b]; unfold LockedInv in *; cbn in H;
  [destruct H; subst | subst];
  destruct o as [c' a' tag ovr | c' | c' d' | [|] [|] | c' | c'];
  unfold_step; cbn in *; rewrite ?Hs; cbn;
  split_goal; cbn; finish.
Qed.

Lemma locked_run c ops :
  c <> EXIT -> Forall (fun o => noninteractive o = true) ops -> LockedInv (run c Ignore ops).
Proof.
  intros Hc Hn. induction ops as [|o ops IH] using rev_ind.
  - reflexivity.
  - rewrite run_snoc. apply Forall_app in Hn. destruct Hn as [Hn1 Hn2].
    inversion Hn2; subst. apply locked_step; auto.
Qed.

Lemma locked_thm c ops :
  c <> EXIT -> Forall (fun o => noninteractive o = true) ops ->
  let st := run c Ignore ops in
  s_disp st <> Default /\
  (forall e, s_ent st = Some e ->
             t_action (e_cur e) = AIgnore /\ t_origin (e_cur e) = Inherited) /\
  (s_disp st = Catch -> exists e, s_ent st = Some e /\ e_internal e = Catch) /\
  (forall a tag, c <> SIGKILL -> c <> SIGSTOP ->
     o_res (step c (OSetAction c a tag false) st) = RErrIgnored /\
     s_disp (step_st c st (OSetAction c a tag false)) = s_disp st).
Proof.
  intros Hc Hn st.
  pose proof (locked_run c ops Hc Hn) as HL.
  assert (Hi : Ignore <> Catch) by discriminate.
  pose proof (disp_inv_run c Ignore ops Hc Hi) as [Hd Hb].
  pose proof (is_signal_true c Hc) as Hs.
  fold st in HL, Hd, Hb. clearbody st.
  destruct st as [[[[a og p] par int]|] d b]; unfold LockedInv, merged in *; cbn in *.
  - destruct HL; subst. repeat split.
    + destruct int; discriminate.
    + inversion H; subst; reflexivity.
    + inversion H; subst; reflexivity.
    + intros H. eexists; split; [reflexivity|]. destruct int; cbn in *; congruence.
    + unfold_step. apply N.eqb_neq in H, H0. rewrite H, H0, N.eqb_refl. reflexivity.
    + unfold_step. apply N.eqb_neq in H, H0. rewrite H, H0, N.eqb_refl. reflexivity.
  - subst. repeat split; try discriminate.
    + unfold_step. apply N.eqb_neq in H, H0. rewrite H, H0, N.eqb_refl, Hs. reflexivity.
    + unfold_step. apply N.eqb_neq in H, H0. rewrite H, H0, N.eqb_refl, Hs. reflexivity.
Qed.

