(* C11 — what the correspondence check evaluates on every case. *)
From Yv Require Export Common.Base C11.Model C11.Spec C11.ScriptModel C11.ScriptSpec.

(* One case: the conditions in play with their initial dispositions (sorted
   by number), and the history of (operation, what the implementation did). *)
Inductive case :=
| CTrap (univ : list (N * disp)) (hist : list step_obs)
(* a script of instrumented commands with its table of trap actions, the trace
   the built-ins recorded, and whether the main shell was killed *)
| CScript (tbl : table) (main : list cmd) (trace : list event) (dead : bool)
(* the implementation panicked (or the shell hung) on the input described in
   the case's JSON *)
| CPanic (stream : N).

Fixpoint olookup (l : list (N * sobs)) (c : N) : option sobs :=
  match l with
  | [] => None
  | (c', x) :: l => if N.eqb c' c then Some x else olookup l c
  end.

(* The generator must stay inside the model's domain: every condition an
   operation can touch is in play; a signal is only delivered while it cannot
   act on the process itself. *)
Definition in_domain (keys : list N) (prev : list (N * sobs)) (ops : list op)
    (new : list (N * sobs)) (log : list (N * disp)) : bool :=
  list_eqb N.eqb (map fst new) keys
  && forallb (fun c => mem c keys) (ops_signals ops)
  && forallb (fun p => mem (fst p) keys) log
  && forallb (fun o => op_ok o &&
                match o with
                | ODeliver c =>
                    (* KILL and STOP always act on the process *)
                    negb (N.eqb c SIGKILL) && negb (N.eqb c SIGSTOP) &&
                    match olookup prev c with
                    | Some p => negb (disp_eqb (ob_disp p) Default) || N.eqb c SIGCHLD
                    | None => false
                    end
                | _ => true
                end) ops.

Fixpoint domain_hist (keys : list N) (prev : list (N * sobs)) (h : list step_obs) : bool :=
  match h with
  | [] => true
  | (o, r, new, log) :: h =>
      in_domain keys prev (resolve o r) new log && domain_hist keys new h
  end.

(* model side of one step *)
Definition model_agrees (g : gstate) (o : gop) (r : res)
    (new : list (N * sobs)) (log : list (N * disp)) : bool :=
  let ops := expand g o in
  res_eqb (gresult g o) r
  && list_eqb (pair_eqb N.eqb sobs_eqb)
       (map (fun p => (fst p, observe (snd p))) (gstep g o)) new
  && forallb (fun p => list_eqb disp_eqb (calls_of (fst p) (snd p) ops)
                         (calls_for (fst p) log)) g.

Fixpoint model_hist (g : gstate) (h : list step_obs) : bool :=
  match h with
  | [] => true
  | (o, r, new, log) :: h => model_agrees g o r new log && model_hist (gstep g o) h
  end.

Definition run_trap_case (univ : list (N * disp)) (hist : list step_obs) : verdict :=
  if negb (univ_ok univ && domain_hist (map fst univ) (obs_inits univ) hist) then 99%N
  else
    (* oracle first: only the implementation's outputs are used *)
    match oracle_hist true (spec_inits univ) (obs_inits univ) hist with
    | Some k => (2 + k)%N
    | None => if model_hist (ginit univ) hist then 0%N else 1%N
    end.

(* enough for the generator's scripts: the trap actions of a script never
   re-raise the signal they serve, directly or through each other *)
Definition BFUEL : nat := 64.

Definition run_script_case (tbl : table) (main : list cmd) (trace : list event) (dead : bool)
    : verdict :=
  if negb (script_ok tbl main) then 99%N
  else
    (* oracle first: the monitor sees only the recorded trace *)
    match monitor true tbl trace dead with
    | Some k => (20 + k)%N
    | None =>
        match run_script tbl BFUEL main with
        | Some (t, d) =>
            if list_eqb (pair_eqb N.eqb ev_eqb) t trace && Bool.eqb d dead then 0%N else 1%N
        | None => 99%N
        end
    end.

Definition run_case (c : case) : verdict :=
  match c with
  | CTrap univ hist => run_trap_case univ hist
  | CScript tbl main trace dead => run_script_case tbl main trace dead
  | CPanic _ => 12%N
  end.

Definition run_cases := run_cases_with run_case.
