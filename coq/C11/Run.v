(* C11 — what the correspondence check evaluates on every case. *)
From Yv Require Export Common.Base C11.Model C11.Spec C11.ScriptModel C11.ScriptSpec
  C11.WaitModel C11.WaitSpec C11.TrapCmd.

(* One case: the conditions in play with their initial dispositions (sorted
   by number), and the history of (operation, what the implementation did). *)
(* One command of a script of stream C, with what was observed right after it
   (TrapSet::get_state, disposition and mask of every condition in play):
   - `trap ACTION COND...` through yash-builtin/src/trap.rs in a non-interactive
     shell; [valid] = every operand names a condition (otherwise the built-in
     fails before touching anything); [status_ok] = it returned 0;
   - a signal sent by the shell to itself, then the list of actions run at the
     following command boundary (each action is `hit ID`). *)
Inductive bstep :=
| BTrapCmd (conds : list N) (a : action) (valid : bool) (status_ok : bool)
           (obs : list (N * sobs))
(* `command trap WORD...` given by its operands as the built-in's lexical
   tests see them (TrapCmd.v), with the exact exit status *)
| BTrapWords (ws : list word) (status : N) (obs : list (N * sobs))
| BDeliver (c : N) (hits : list N) (obs : list (N * sobs)).

Inductive case :=
| CTrap (univ : list (N * disp)) (hist : list step_obs)
(* a script of instrumented commands with its table of trap actions, the trace
   the built-ins recorded, and whether the main shell was killed *)
| CScript (tbl : table) (main : list cmd) (trace : list event) (dead : bool)
(* a hand-written script outside the command language of ScriptModel.v (e.g. a
   subshell inside a trap action): only the monitor judges its trace; [tbl]
   lists the recorded events of each trap action *)
| CMonitor (tbl : table) (trace : list event) (dead : bool)
(* `trap` built-in commands naming several conditions, run by the real shell
   (non-interactive, or interactive `-i` with job control: then the trap
   commands override and the shell has installed its internal dispositions for
   INT/TERM/QUIT and TSTP/TTIN/TTOU at startup) entered with some signals
   ignored; see [bstep] *)
| CBuiltin (interactive : bool) (univ : list (N * disp)) (steps : list bstep) (complete : bool)
(* stream D: the `wait` built-in interrupted by trapped signals: the table of
   action arguments, the script, the events of the children in the order of
   virtual time, the recorded trace, and whether the main shell was killed *)
| CWait (atbl : list (N * N)) (cs : list wcmd) (evs : list wev) (trace : list wevt) (dead : bool)
(* the implementation panicked (or the shell hung) on the input described in
   the case's JSON *)
| CPanic (stream : N).

Fixpoint olookup (l : list (N * sobs)) (c : N) : option sobs :=
  match l with
  | [] => None
  | (c', x) :: l => if N.eqb c' c then Some x else olookup l c
  end.

(* The generator must stay inside the model's domain: every condition an
   operation can touch is in play; a signal is only delivered while it cannot
   act on the process itself. *)
Definition in_domain (keys : list N) (prev : list (N * sobs)) (ops : list op)
    (new : list (N * sobs)) (log : list (N * disp)) : bool :=
  list_eqb N.eqb (map fst new) keys
  && forallb (fun c => mem c keys) (ops_signals ops)
  && forallb (fun p => mem (fst p) keys) log
  && forallb (fun o => op_ok o &&
                match o with
                | ODeliver c =>
                    (* KILL and STOP always act on the process *)
                    negb (N.eqb c SIGKILL) && negb (N.eqb c SIGSTOP) &&
                    match olookup prev c with
                    | Some p => negb (disp_eqb (ob_disp p) Default) || N.eqb c SIGCHLD
                    | None => false
                    end
                | _ => true
                end) ops.

Fixpoint domain_hist (keys : list N) (prev : list (N * sobs)) (h : list step_obs) : bool :=
  match h with
  | [] => true
  | (o, r, new, log) :: h =>
      in_domain keys prev (resolve o r) new log && domain_hist keys new h
  end.

(* model side of one step *)
Definition model_agrees (g : gstate) (o : gop) (r : res)
    (new : list (N * sobs)) (log : list (N * disp)) : bool :=
  let ops := expand g o in
  res_eqb (gresult g o) r
  && list_eqb (pair_eqb N.eqb sobs_eqb)
       (map (fun p => (fst p, observe (snd p))) (gstep g o)) new
  && forallb (fun p => list_eqb disp_eqb (calls_of (fst p) (snd p) ops)
                         (calls_for (fst p) log)) g.

Fixpoint model_hist (g : gstate) (h : list step_obs) : bool :=
  match h with
  | [] => true
  | (o, r, new, log) :: h => model_agrees g o r new log && model_hist (gstep g o) h
  end.

Definition run_trap_case (univ : list (N * disp)) (hist : list step_obs) : verdict :=
  if negb (univ_ok univ && domain_hist (map fst univ) (obs_inits univ) hist) then 99%N
  else
    (* oracle first: only the implementation's outputs are used *)
    match oracle_hist true (spec_inits univ) (obs_inits univ) hist with
    | Some k => (2 + k)%N
    | None => if model_hist (ginit univ) hist then 0%N else 1%N
    end.

(* enough for the generator's scripts: the trap actions of a script never
   re-raise the signal they serve, directly or through each other *)
Definition BFUEL : nat := 64.

Definition run_script_case (tbl : table) (main : list cmd) (trace : list event) (dead : bool)
    : verdict :=
  if negb (script_ok tbl main) then 99%N
  else
    (* oracle first: the monitor sees only the recorded trace *)
    match monitor true tbl trace dead with
    | Some k => (20 + k)%N
    | None =>
        match run_script tbl BFUEL main with
        | Some (t, d) =>
            if list_eqb (pair_eqb N.eqb ev_eqb) t trace && Bool.eqb d dead then 0%N else 1%N
        | None => 99%N
        end
    end.

(* ---- stream C: the trap built-in ------------------------------------------------------ *)
Fixpoint slookup (l : list (N * spec)) (c : N) : option spec :=
  match l with
  | [] => None
  | (c', x) :: l => if N.eqb c' c then Some x else slookup l c
  end.

(* the reference: each named condition is processed on its own; KILL and STOP
   are refused, a signal ignored on entry is silently left alone *)
Definition spec_result (inter : bool) (c : N) (sp : spec) : res :=
  if N.eqb c SIGKILL then RErrKill
  else if N.eqb c SIGSTOP then RErrStop
  else if negb inter && u_locked sp && is_signal c then RErrIgnored
  else ROk.

Definition spec_apply (inter : bool) (sps : list (N * spec)) (o : op) (c : N) : list (N * spec) :=
  map (fun p =>
         let r := match slookup sps c with Some sp => spec_result inter c sp | None => ROk end in
         (fst p, spec_step true (fst p) (snd p) o r)) sps.

Definition final_clauses (c : N) (sp : spec) (n : sobs) : option N :=
  first_failing
    [ (0, negb (is_signal c) || disp_eqb (ob_disp n) (expected sp));
      (1, negb (is_signal c) || Bool.eqb (ob_blocked n) (disp_eqb (ob_disp n) Catch));
      (7, cl_shown sp n) ]%N.

Fixpoint final_check (sps : list (N * spec)) (new : list (N * sobs)) : option N :=
  match sps, new with
  | (c, sp) :: sps, (_, n) :: new =>
      match final_clauses c sp n with Some k => Some k | None => final_check sps new end
  | _, _ => None
  end.

(* the model: the TrapSet operations the built-in performs, in order *)
Definition trap_ops (inter : bool) (conds : list N) (a : action) (valid : bool) : list op :=
  if valid then map (fun c => OSetAction c a 0 inter) conds else [].

Fixpoint gapply_results (g : gstate) (ops : list op) : gstate * list res :=
  match ops with
  | [] => (g, [])
  | o :: ops =>
      let r := gresult g (GOp o) in
      let '(g', rs) := gapply_results (gapply o g) ops in
      (g', r :: rs)
  end.

Definition hard_error (r : res) : bool :=
  match r with RErrKill | RErrStop => true | _ => false end.

(* the action (if any) run at the boundary after a delivery *)
Definition hit_of (a : action) : list N := match a with ACommand id => [id] | _ => [] end.

Fixpoint run_bsteps (inter : bool) (keys : list N) (g : gstate) (sps : list (N * spec))
    (prev : list (N * sobs)) (steps : list bstep) (mismatch : bool) : verdict :=
  match steps with
  | [] => if mismatch then 1%N else 0%N
  | BTrapCmd conds a valid ok new :: steps =>
      let ops := trap_ops inter conds a valid in
      if negb (list_eqb N.eqb (map fst new) keys && forallb (fun c => mem c keys) conds) then 99%N
      else
        (* oracle *)
        let sps' := fold_left (fun s o => match o with
                                          | OSetAction c _ _ _ => spec_apply inter s o c
                                          | _ => s end) ops sps in
        let ok_spec := valid && negb (existsb (fun c => N.eqb c SIGKILL || N.eqb c SIGSTOP) conds) in
        match final_check sps' new with
        | Some k => (2 + k)%N
        | None =>
            if negb (Bool.eqb ok ok_spec) then 13%N
            else
              let '(g', rs) := gapply_results g ops in
              let agree :=
                list_eqb (pair_eqb N.eqb sobs_eqb)
                         (map (fun p => (fst p, observe (snd p))) g') new
                && Bool.eqb ok (valid && negb (existsb hard_error rs)) in
              run_bsteps inter keys g' sps' new steps (mismatch || negb agree)
        end
  | BTrapWords _ _ _ :: _ => 99%N      (* lowered to BTrapCmd before *)
  | BDeliver c hits new :: steps =>
      let deliverable :=
        negb (N.eqb c SIGKILL) && negb (N.eqb c SIGSTOP) && is_signal c &&
        negb (inter && N.eqb c SIGINT) &&
        match olookup prev c with
        | Some p => negb (disp_eqb (ob_disp p) Default)
        | None => false
        end in
      if negb (list_eqb N.eqb (map fst new) keys && deliverable) then 99%N
      else
        let expected_hits :=
          match slookup sps c with
          | Some sp => if disp_eqb (expected sp) Catch then hit_of (u_act sp) else []
          | None => []
          end in
        let sps' := map (fun p => (fst p, spec_step true (fst p)
                                            (spec_step true (fst p) (snd p) (ODeliver c) ROk)
                                            (OTakeSig c) ROk)) sps in
        if negb (list_eqb N.eqb hits expected_hits) then 8%N
        else
          match final_check sps' new with
          | Some k => (2 + k)%N
          | None =>
              let g1 := gapply (ODeliver c) g in
              let '(g2, mhits) :=
                match first_pending g1 with
                | Some c' =>
                    (gapply (OTakeSig c') g1,
                     match glookup g1 c' with
                     | Some st => match s_ent st with
                                  | Some e => hit_of (t_action (e_cur e))
                                  | None => []
                                  end
                     | None => []
                     end)
                | None => (g1, [])
                end in
              let agree :=
                list_eqb (pair_eqb N.eqb sobs_eqb)
                         (map (fun p => (fst p, observe (snd p))) g2) new
                && list_eqb N.eqb mhits hits in
              run_bsteps inter keys g2 sps' new steps (mismatch || negb agree)
          end
  end.

(* ---- `trap` given by its operand words: interpreted by TrapCmd.interpret ------------------- *)
(* numbers used as operands: a condition in play, or 9999 (no such signal) *)
Definition words_ok (keys : list N) (ws : list word) : bool :=
  forallb (fun w => match w with
                    | WNum n => mem n keys || N.eqb n 9999
                    | WName c => mem c keys
                    | _ => true
                    end) ws
  && match ws with WName _ :: _ | WOther :: _ => false | _ => true end.

(* the step as a BTrapCmd, whether its exit status has the right shape, and
   whether it is inside the domain *)
Definition lower_step (keys : list N) (s : bstep) : bstep * bool * bool :=
  match s with
  | BTrapWords ws st new =>
      let known := fun n => mem n keys in
      match interpret known ws with
      (* printing also reads (and so creates) every condition's entry: not generated *)
      | TPrintAll => (BTrapCmd [] ADefault true (N.eqb st 0) new, N.eqb st 0, false)
      | TSyntaxError soft =>
          (BTrapCmd [] ADefault false (N.eqb st 0) new, N.eqb st (if soft then 1 else 2), words_ok keys ws)
      | TSet a conds =>
          (BTrapCmd conds a true (N.eqb st 0) new, N.eqb st 0 || N.eqb st 1, words_ok keys ws)
      end
  | _ => (s, true, true)
  end.

(* what an interactive shell with job control installs at startup
   (yash-cli/src/startup.rs configure_environment) *)
Definition startup_gops (inter : bool) : list gop :=
  if inter then [GEnableTerm; GEnableStop] else [].

Definition run_builtin_case (inter : bool) (univ : list (N * disp)) (steps : list bstep)
    (complete : bool) : verdict :=
  let keys := map fst univ in
  if negb (univ_ok univ
           && forallb (fun o => gop_ok keys o) (startup_gops inter)) then 99%N
  else if negb complete then 14%N
  else
    let g0 := fold_left gstep (startup_gops inter) (ginit univ) in
    let ops0 := flat_map (fun o => resolve o ROk) (startup_gops inter) in
    let sps0 := map (fun p => (fst p, spec_steps true (fst p) (snd p) ops0 ROk)) (spec_inits univ) in
    let lowered := map (lower_step keys) steps in
    if negb (forallb (fun x => snd x) lowered) then 99%N
    else
      match run_bsteps inter keys g0 sps0 (map (fun p => (fst p, observe (snd p))) g0)
                       (map (fun x => fst (fst x)) lowered) false with
      | 0%N => if forallb (fun x => snd (fst x)) lowered then 0%N else 13%N
      | 1%N => if forallb (fun x => snd (fst x)) lowered then 1%N else 13%N
      | v => v
      end.

(* ---- stream D: `wait` interrupted by trapped signals -------------------------------- *)
Definition run_wait_case (atbl : list (N * N)) (cs : list wcmd) (evs : list wev)
    (trace : list wevt) (dead : bool) : verdict :=
  if negb (wait_case_ok cs evs) then 99%N
  else
    (* oracle first: the specification against the recorded trace *)
    match wait_oracle atbl cs evs trace dead with
    | Some k => (30 + k)%N
    | None =>
        let '(e, t) := wrun wait_loop atbl cs evs in
        match e with
        | EndStuck => 99%N
        | _ => if list_eqb wevt_eqb t trace && Bool.eqb dead (wend_eqb e EndKilled) then 0%N else 1%N
        end
    end.

Definition run_case (c : case) : verdict :=
  match c with
  | CTrap univ hist => run_trap_case univ hist
  | CScript tbl main trace dead => run_script_case tbl main trace dead
  | CMonitor tbl trace dead =>
      if negb (forallb body_ok tbl) then 99%N
      else match monitor true tbl trace dead with Some k => (20 + k)%N | None => 0%N end
  | CBuiltin inter univ steps complete => run_builtin_case inter univ steps complete
  | CWait atbl cs evs trace dead => run_wait_case atbl cs evs trace dead
  | CPanic _ => 12%N
  end.

Definition run_cases := run_cases_with run_case.
