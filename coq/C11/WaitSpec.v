(* C11 — specification of "`wait` interrupted by a trapped signal" (POSIX XCU
   2.11 / wait: "when the shell is waiting by means of the wait utility for
   asynchronous commands to complete, the reception of a signal for which a
   trap has been set shall cause the wait utility to return immediately with an
   exit status >128, immediately after which the trap associated with that
   signal shall be taken"), written without the loop of the implementation:

   1. every event is classified on its own (given the traps, which cannot
      change while the shell is blocked): quiet (nothing the shell reacts to:
      the signals are ignored, or a child ends and SIGCHLD has no command),
      lethal (a signal with the default action), or interrupting (the first
      signal of the event that has a command trap);
   2. the events are split at the first one that is not quiet;
   3. `wait` completes iff the awaited jobs are all finished after some prefix
      of the quiet events (the shortest such prefix is used up); otherwise the
      first non-quiet event decides: the shell dies, or `wait` returns
      384 + the interrupting signal, and the signals of that event with a
      command trap, the interrupting one excepted, are left caught, each once,
      in increasing order. *)
From Yv Require Import Common.Base C11.ScriptModel C11.WaitModel.

Inductive ecls := Quiet | Lethal | Intr (sg : N) (caught : list N).

Definition classify (traps : list (N * tact)) (e : wev) : ecls :=
  match e with
  | WSigs _ l =>
      if existsb (lethal_sig traps) l then Lethal
      else match filter (body_sig traps) l with
           | [] => Quiet
           | sg :: c => Intr sg (sg :: c)
           end
  | WChild _ _ => if body_sig traps WCHLD then Intr WCHLD [WCHLD] else Quiet
  end.

Definition quiet (traps : list (N * tact)) (e : wev) : bool :=
  match classify traps e with Quiet => true | _ => false end.

Fixpoint span_quiet (traps : list (N * tact)) (evs : list wev) : list wev * list wev :=
  match evs with
  | [] => ([], [])
  | e :: evs' =>
      if quiet traps e then let '(q, r) := span_quiet traps evs' in (e :: q, r)
      else ([], evs)
  end.

(* the job list after an event *)
Definition jafter (js : jobs) (e : wev) : jobs :=
  match e with WChild j st => jfinish js j st | WSigs _ _ => js end.

(* the shortest prefix of [q] after which the target is complete:
   (status, jobs, prefix, what is left of q), or the job list at the end *)
Fixpoint scan_done (t : wtgt) (js : jobs) (q : list wev)
    : (N * jobs * list wev * list wev) + jobs :=
  match tgt_check t js with
  | (Some st, js') => inl (st, js', [], q)
  | (None, js') =>
      match q with
      | [] => inr js'
      | e :: q' =>
          match scan_done t (jafter js' e) q' with
          | inl (st, js2, used, lft) => inl (st, js2, e :: used, lft)
          | inr js2 => inr js2
          end
      end
  end.

(* strictly increasing list of the members of c *)
Definition sort_dedup (c : list N) : list N := catch_all c [].

Definition wait_spec (traps : list (N * tact)) (t : wtgt) (js : jobs) (evs : list wev) : wresult :=
  let '(q, r) := span_quiet traps evs in
  match scan_done t js q with
  | inl (st, js', used, lft) => (WDone st, js', [], used, lft ++ r)
  | inr js' =>
      match r with
      | [] => (WStuck, js', [], q, [])
      | e :: r' =>
          match classify traps e with
          | Lethal => (WKilled, js', [], q ++ [e], r')
          | Intr sg c => (WIntr sg, jafter js' e, remove_sig sg (sort_dedup c), q ++ [e], r')
          | Quiet => (WStuck, js', [], q, r)      (* cannot happen: r starts with a non-quiet event *)
          end
      end
  end.

(* components of a result *)
Definition w_out (r : wresult) : wout := let '(o, _, _, _, _) := r in o.
Definition w_pend (r : wresult) : list N := let '(_, _, p, _, _) := r in p.
Definition w_used (r : wresult) : list wev := let '(_, _, _, u, _) := r in u.
Definition w_rest (r : wresult) : list wev := let '(_, _, _, _, x) := r in x.

(* ---- the oracle: the recorded trace against the specification ---------------------------- *)
(* first difference between the recorded trace and the expected one *)
Definition R_WAIT_STATUS : N := 0.   (* $? after a `wait` (seen by the next command) *)
Definition R_ACTION : N := 1.        (* a trap action missing, extra, out of order or with the wrong $? *)
Definition R_OTHER : N := 2.         (* anything else (children's records, end of the shell) *)

Definition is_action (e : wevt) : bool :=
  match e with TP k _ _ => N.leb 1000 k | _ => false end.

Fixpoint first_diff (exp got : list wevt) : option N :=
  match exp, got with
  | [], [] => None
  | e :: exp, g :: got =>
      if wevt_eqb e g then first_diff exp got
      else if is_action e || is_action g then Some R_ACTION
      else match e, g with
           | TP k _ a, TP k' _ a' => if N.eqb k k' && N.eqb a a' then Some R_WAIT_STATUS else Some R_OTHER
           | TMark s x _, TMark s' x' _ => if N.eqb s s' && tact_eqb x x' then Some R_WAIT_STATUS else Some R_OTHER
           | _, _ => Some R_OTHER
           end
  | e :: _, [] => if is_action e then Some R_ACTION else Some R_OTHER
  | [], g :: _ => if is_action g then Some R_ACTION else Some R_OTHER
  end.

Definition wait_oracle (atbl : list (N * N)) (cs : list wcmd) (evs : list wev)
    (trace : list wevt) (dead : bool) : option N :=
  let '(e, exp) := wrun wait_spec atbl cs evs in
  match first_diff exp trace with
  | Some k => Some k
  | None => if Bool.eqb dead (wend_eqb e EndKilled) then None else Some R_OTHER
  end.

(* the generator's side conditions: children are numbered in the order they
   are started, each has exactly one termination event after all its other
   events, all are started before the first `wait`; only the four signals of
   the script stream are sent *)
Definition tell_sig_ok (sg : N) : bool :=
  N.eqb sg 1 || N.eqb sg 15 || N.eqb sg 124 || N.eqb sg 125.

Definition trap_sig_ok (sg : N) : bool := tell_sig_ok sg || N.eqb sg WCHLD.

Fixpoint spawned (cs : list wcmd) : list N :=
  match cs with
  | [] => []
  | WcSpawn j :: cs => j :: spawned cs
  | _ :: cs => spawned cs
  end.

Fixpoint spawn_before_wait (cs : list wcmd) (waited : bool) : bool :=
  match cs with
  | [] => true
  | WcSpawn _ :: cs => negb waited && spawn_before_wait cs waited
  | WcWait _ :: cs => spawn_before_wait cs true
  | _ :: cs => spawn_before_wait cs waited
  end.

Fixpoint exits_of (evs : list wev) : list N :=
  match evs with
  | [] => []
  | WChild j _ :: evs => j :: exits_of evs
  | _ :: evs => exits_of evs
  end.

(* no event of a child after its termination *)
Fixpoint no_event_after_exit (evs : list wev) : bool :=
  match evs with
  | [] => true
  | WChild j _ :: evs' =>
      forallb (fun e => match e with WSigs j' _ | WChild j' _ => negb (N.eqb j j') end) evs'
      && no_event_after_exit evs'
  | _ :: evs' => no_event_after_exit evs'
  end.

Definition seqN (n : nat) : list N := map N.of_nat (seq 0 n).

Definition wait_case_ok (cs : list wcmd) (evs : list wev) : bool :=
  let sp := spawned cs in
  list_eqb N.eqb sp (seqN (length sp))
  && spawn_before_wait cs false
  && forallb (fun j => memN j (exits_of evs)) sp
  && forallb (fun e => match e with
                       | WSigs j l => memN j sp && forallb tell_sig_ok l && negb (match l with [] => true | _ => false end)
                       | WChild j st => memN j sp && N.ltb st 126
                       end) evs
  && no_event_after_exit evs
  && forallb (fun c => match c with
                       | WcTrap sg _ => trap_sig_ok sg
                       | WcP k _ => N.ltb k 1000
                       | _ => true
                       end) cs.
