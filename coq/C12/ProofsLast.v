(* C12 — proofs about Last.v: only set_last_async_pid changes `$!`; the lifted
   operations are the old ones on the job-table component. *)
From Yv Require Import Common.Base C12.Model C12.Spec C12.Last C12.Proofs.

Lemma lifted_step_agrees_l s o : tbl (lstep s (LOp o)) = step (tbl s) o.
Proof. destruct o; reflexivity. Qed.

Lemma set_last_keeps_table_l s p : tbl (lstep s (OSetLast p)) = tbl s.
Proof. reflexivity. Qed.

Lemma last_step_l s o : last (lstep s o) = last_expected (last s) o.
Proof. destruct o as [o|p]; [destruct o|]; reflexivity. Qed.

Lemma last_ok_sound_l s o : last_ok (last s) o (last (lstep s o)) = true.
Proof. unfold last_ok. rewrite last_step_l. apply Z.eqb_refl. Qed.

Lemma jl_fold ops : forall s, tbl (fold_left lstep ops s) = fold_left step (strip ops) (tbl s).
Proof.
  induction ops as [|o ops IH]; intros s; [reflexivity|].
  destruct o as [o|p]; cbn [fold_left strip]; rewrite IH.
  - now rewrite lifted_step_agrees_l.
  - reflexivity.
Qed.

Lemma lifted_run_agrees_l ops : tbl (lrun ops) = run (strip ops).
Proof. unfold lrun, run. now rewrite jl_fold. Qed.

Lemma last_fold_noset ops : forall s,
  forallb (fun o => negb (is_set o)) ops = true -> last (fold_left lstep ops s) = last s.
Proof.
  induction ops as [|o ops IH]; intros s H; [reflexivity|].
  cbn [forallb] in H. apply andb_true_iff in H. destruct H as [Ho H].
  cbn [fold_left]. rewrite (IH _ H), last_step_l.
  destruct o; [reflexivity|discriminate].
Qed.

Lemma last_is_most_recent_set_l ops p : most_recent_set ops p -> last (lrun ops) = p.
Proof.
  unfold lrun. intros [[H ->]|[a [b [-> H]]]].
  - now rewrite last_fold_noset.
  - rewrite fold_left_app. cbn [fold_left]. now rewrite last_fold_noset.
Qed.

(* the specification is total: every history has a most recent operand *)
Lemma most_recent_set_total_l ops : exists p, most_recent_set ops p.
Proof.
  induction ops as [|o ops [p IH]] using rev_ind.
  - exists 0%Z. left. split; reflexivity.
  - destruct o as [o|q].
    + exists p. destruct IH as [[H ->]|[a [b [-> H]]]].
      * left. split; [|reflexivity]. rewrite forallb_app, H. reflexivity.
      * right. exists a, (b ++ [LOp o]). split.
        -- now rewrite <- app_assoc.
        -- rewrite forallb_app, H. reflexivity.
    + exists q. right. exists ops, []. split; reflexivity.
Qed.

Lemma lifted_inv_reachable_l ops : ops_ok empty (strip ops) = true -> Inv (tbl (lrun ops)).
Proof. intros H. rewrite lifted_run_agrees_l. now apply inv_reachable_l. Qed.

(* non-vacuity / the seeded defect class: `$!` survives a removal that empties
   the table *)
Lemma last_survives_emptying_l :
  let ops := [OSetLast 11; LOp (OInsert 10 Running []); LOp (ORemove 0)]%Z in
  len (tbl (lrun ops)) = 0 /\ last (lrun ops) = 11%Z /\ most_recent_set ops 11%Z.
Proof.
  cbv zeta. split; [vm_compute; reflexivity|]. split; [vm_compute; reflexivity|].
  right. exists [], [LOp (OInsert 10 Running []); LOp (ORemove 0)]. split; reflexivity.
Qed.
