(* C12 — property theorems only.  Each is closed by [exact] of a lemma from
   Proofs.v; the driver pins the statements with [Check] and prints the
   assumptions on every run. *)
From Yv Require Import Common.Base C12.Model C12.Spec C12.Proofs.

Theorem inv_init : Inv empty.
Proof. exact inv_empty. Qed.
