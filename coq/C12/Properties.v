(* C12 — property theorems only.  Each is closed by [exact] of a lemma from
   Proofs.v; the driver pins the statements with [Check] and prints the
   assumptions on every run. *)
From Yv Require Import Common.Base C12.Model C12.Spec C12.Proofs.

Theorem inv_init : Inv empty.
Proof. exact inv_empty. Qed.

(* every operation keeps the job-table invariant *)
Theorem inv_step : forall s o, Inv s -> op_ok s o = true -> Inv (step s o).
Proof. exact inv_step_l. Qed.

(* hence it holds after every history that respects the precondition *)
Theorem inv_reachable : forall ops, ops_ok empty ops = true -> Inv (run ops).
Proof. exact inv_reachable_l. Qed.

(* the Rust panic sites of insert / update_status are never reached *)
Theorem step_no_panic : forall s o, Inv s -> op_ok s o = true -> step_panics s o = false.
Proof. exact step_no_panic_l. Qed.

(* a job's index never changes while its pid designates a job *)
Theorem job_number_stable : forall s o i j i',
  Inv s -> op_ok s o = true -> get s i = Some j ->
  find_by_pid (step s o) (jpid j) = Some i' -> i' = i.
Proof. exact job_number_stable_l. Qed.

(* a process ID designates at most one job *)
Theorem pid_designates_one_job : forall s i1 i2 j1 j2,
  Inv s -> get s i1 = Some j1 -> get s i2 = Some j2 -> jpid j1 = jpid j2 -> i1 = i2.
Proof. exact pid_designates_one_job_l. Qed.

(* the run-time oracle asks no more than the invariant gives *)
Theorem inv_obs_sound : forall s pids, Inv s -> inv_obs (observe pids s) = true.
Proof. exact inv_obs_sound_l. Qed.

(* current job exists in a non-empty table; with two jobs a distinct previous job *)
Theorem current_previous_spec : forall s, Inv s ->
  (len s >= 1 -> exists c j, current_job s = Some c /\ get s c = Some j) /\
  (len s >= 2 -> exists p j, previous_job s = Some p /\ get s p = Some j /\
                             current_job s <> Some p).
Proof. exact current_previous_spec_l. Qed.

(* without the precondition (inserting a pid whose job is still alive) the
   observable invariant fails: the table has two jobs but no previous job *)
Example insert_live_pid_breaks_inv :
  inv_obs (observe [10; 11]%Z
             (run [OInsert 10 Running; OInsert 11 (Stopped 19); OInsert 11 (Stopped 19)]))
  = false.
Proof. exact insert_live_pid_breaks_inv_l. Qed.

Print Assumptions inv_init.
Print Assumptions inv_step.
Print Assumptions inv_reachable.
Print Assumptions step_no_panic.
Print Assumptions job_number_stable.
Print Assumptions pid_designates_one_job.
Print Assumptions inv_obs_sound.
Print Assumptions current_previous_spec.
Print Assumptions insert_live_pid_breaks_inv.
