(* C12 — property theorems only.  Each is closed by [exact] of a lemma from
   Proofs*.v; the driver pins the statements with [Check] and prints the
   assumptions on every run. *)
From Yv Require Import Common.Base C12.Model C12.Spec C12.Script.
From Yv Require Import C12.Proofs C12.ProofsId C12.ProofsScript.
From Yv Require Import C12.Last C12.ProofsLast C12.ProofsIdExt.

Theorem inv_init : Inv empty.
Proof. exact inv_empty. Qed.

(* every operation keeps the job-table invariant *)
Theorem inv_step : forall s o, Inv s -> op_ok s o = true -> Inv (step s o).
Proof. exact inv_step_l. Qed.

(* hence it holds after every history that respects the precondition *)
Theorem inv_reachable : forall ops, ops_ok empty ops = true -> Inv (run ops).
Proof. exact inv_reachable_l. Qed.

(* the Rust panic sites of insert / update_status are never reached *)
Theorem step_no_panic : forall s o, Inv s -> op_ok s o = true -> step_panics s o = false.
Proof. exact step_no_panic_l. Qed.

(* a job's index never changes while its pid designates a job *)
Theorem job_number_stable : forall s o i j i',
  Inv s -> op_ok s o = true -> get s i = Some j ->
  find_by_pid (step s o) (jpid j) = Some i' -> i' = i.
Proof. exact job_number_stable_l. Qed.

(* a process ID designates at most one job *)
Theorem pid_designates_one_job : forall s i1 i2 j1 j2,
  Inv s -> get s i1 = Some j1 -> get s i2 = Some j2 -> jpid j1 = jpid j2 -> i1 = i2.
Proof. exact pid_designates_one_job_l. Qed.

(* the run-time oracle asks no more than the invariant gives (this includes
   the job-ID clauses: resolution and parsing) *)
Theorem inv_obs_sound : forall s pids ids, Inv s -> inv_obs (observe pids ids s) = true.
Proof. exact inv_obs_sound_l. Qed.

(* current job exists in a non-empty table; with two jobs a distinct previous job *)
Theorem current_previous_spec : forall s, Inv s ->
  (len s >= 1 -> exists c j, current_job s = Some c /\ get s c = Some j) /\
  (len s >= 2 -> exists p j, previous_job s = Some p /\ get s p = Some j /\
                             current_job s <> Some p).
Proof. exact current_previous_spec_l. Qed.

(* JobId::find: in every state satisfying the invariant, % %% %+ designate the
   current job (which exists iff the table is non-empty), %- the previous job
   (which exists iff there are two jobs, and is not the current one), %n the
   job in slot n-1 iff that slot is occupied, %name / %?name the unique job
   whose name starts with / contains the text, NotFound if there is none and
   Ambiguous if there are two *)
Theorem jobid_resolution : forall s id, Inv s -> designates s id (find_job s id).
Proof. exact find_job_designates. Qed.

(* ... hence after every history *)
Theorem jobid_resolution_reachable : forall ops id,
  ops_ok empty ops = true -> designates (run ops) id (find_job (run ops) id).
Proof. exact jobid_resolution_reachable_l. Qed.

(* %n keeps designating the same process across every operation (removals of
   other jobs included) for as long as that process has a job *)
Theorem jobid_number_stable : forall s o i j i',
  Inv s -> op_ok s o = true -> get s i = Some j ->
  find_by_pid (step s o) (jpid j) = Some i' ->
  find_job (step s o) (IdNumber (N.of_nat (S i))) = Found i /\
  exists j', get (step s o) i = Some j' /\ jpid j' = jpid j.
Proof. exact jobid_number_stable_l. Qed.

(* parse_tail: what the text after '%' is parsed to satisfies the documented
   relation (the oracle's clause 9) *)
Theorem parse_tail_sound : forall t, parse_rel t (parse_tail t) = true.
Proof. exact parse_rel_sound_l. Qed.

(* the name tests of the model are prefix / substring *)
Theorem name_tests_spec : forall p n,
  (starts_with p n = true <-> exists r, n = p ++ r) /\
  (str_contains p n = true <-> exists a b, n = a ++ p ++ b).
Proof. exact name_tests_spec_l. Qed.

(* the oracle's own resolution of a job ID on an observed table is the model's *)
Theorem resolve_obs_sound : forall pids ids s id,
  resolve_obs (observe pids ids s) id = find_job s id.
Proof. exact resolve_obs_observe. Qed.

(* scripts: the operations a command induces on the model keep the invariant *)
Theorem script_step_inv : forall cmd a tgt s,
  Inv s -> async_ok cmd a s = true -> Inv (structural cmd a tgt s).
Proof. exact structural_inv_l. Qed.

(* without the precondition (inserting a pid whose job is still alive) the
   observable invariant fails: the table has two jobs but no previous job *)
Example insert_live_pid_breaks_inv :
  inv_obs (observe [10; 11]%Z []
             (run [OInsert 10 Running []; OInsert 11 (Stopped 19) []; OInsert 11 (Stopped 19) []]))
  = false.
Proof. exact insert_live_pid_breaks_inv_l. Qed.

(* non-vacuity of the job-ID theorems, and the gap scenario: jobs 1, 2, 3
   exist, job 1 is removed; %2 and %3 still designate slots 1 and 2 *)
Example jobid_gap_example :
  let ops := [OInsert 10 Running [97]; OInsert 11 Running [97; 98];
              OInsert 12 (Stopped 19) [99; 97]; ORemove 0]%N in
  ops_ok empty ops = true /\
  find_job (run ops) (IdNumber 1) = NotFound /\
  find_job (run ops) (IdNumber 2) = Found 1 /\
  find_job (run ops) (IdNumber 3) = Found 2 /\
  find_job (run ops) (parse_tail [ch_plus; 51]%N) = Found 2 /\
  find_job (run ops) (IdPrefix [97]%N) = Found 1 /\
  find_job (run ops) (IdSubstr [97]%N) = Ambiguous /\
  find_job (run ops) (IdPrefix [98]%N) = NotFound /\
  find_job (run ops) IdCurrent = Found 2 /\
  find_job (run ops) IdPrevious = Found 1.
Proof. exact jobid_gap_example_l. Qed.

(* --- `$!` (JobList::last_async_pid), Last.v ----------------------------- *)

(* after every history, `$!` is the operand of the most recent
   set_last_async_pid (0 if there was none): no other operation changes it *)
Theorem last_is_most_recent_set : forall ops p, most_recent_set ops p -> last (lrun ops) = p.
Proof. exact last_is_most_recent_set_l. Qed.

(* ... and every history has one (the theorem above is never vacuous) *)
Theorem most_recent_set_total : forall ops, exists p, most_recent_set ops p.
Proof. exact most_recent_set_total_l. Qed.

(* per operation, in every state (no invariant needed) *)
Theorem last_step : forall s o, last (lstep s o) = last_expected (last s) o.
Proof. exact last_step_l. Qed.

(* the lifted operations are the old ones on the job table, and
   set_last_async_pid leaves the table alone: all theorems above carry over *)
Theorem lifted_step_agrees : forall s o, tbl (lstep s (LOp o)) = step (tbl s) o.
Proof. exact lifted_step_agrees_l. Qed.
Theorem set_last_keeps_table : forall s p, tbl (lstep s (OSetLast p)) = tbl s.
Proof. exact set_last_keeps_table_l. Qed.
Theorem lifted_run_agrees : forall ops, tbl (lrun ops) = run (strip ops).
Proof. exact lifted_run_agrees_l. Qed.
Theorem lifted_inv_reachable : forall ops, ops_ok empty (strip ops) = true -> Inv (tbl (lrun ops)).
Proof. exact lifted_inv_reachable_l. Qed.

(* the run-time oracle clause (code 20) never rejects the model *)
Theorem last_ok_sound : forall s o, last_ok (last s) o (last (lstep s o)) = true.
Proof. exact last_ok_sound_l. Qed.

(* non-vacuity, and the scenario of the seeded defect: a removal that empties
   the table does not reset `$!` *)
Example last_survives_emptying :
  let ops := [OSetLast 11; LOp (OInsert 10 Running []); LOp (ORemove 0)]%Z in
  len (tbl (lrun ops)) = 0 /\ last (lrun ops) = 11%Z /\ most_recent_set ops 11%Z.
Proof. exact last_survives_emptying_l. Qed.

(* --- job IDs: the outcome is pinned in every table ---------------------- *)

(* [designates] admits exactly one outcome (a job, NotFound or Ambiguous) in
   ANY table, with or without the invariant *)
Theorem designates_functional : forall s id r1 r2,
  designates s id r1 -> designates s id r2 -> r1 = r2.
Proof. exact designates_functional_l. Qed.

(* so JobId::find returns the prescribed outcome and no other *)
Theorem jobid_resolution_complete : forall s id r,
  Inv s -> (designates s id r <-> find_job s id = r).
Proof. exact find_job_complete_l. Qed.

(* %name / %?name: not found iff no job's name matches, ambiguous iff two jobs'
   names match, job i iff i is the only job whose name matches *)
Theorem name_id_outcomes : forall s id,
  Inv s -> (match id with IdPrefix _ | IdSubstr _ => True | _ => False end) ->
  (find_job s id = NotFound <-> forall i j, get s i = Some j -> ~ name_matches id j) /\
  (find_job s id = Ambiguous <->
     exists i1 i2 j1 j2, i1 <> i2 /\ get s i1 = Some j1 /\ get s i2 = Some j2 /\
                         name_matches id j1 /\ name_matches id j2) /\
  (forall i, find_job s id = Found i <->
     exists j, get s i = Some j /\ name_matches id j /\
               forall i' j', get s i' = Some j' -> name_matches id j' -> i' = i).
Proof. exact name_id_outcomes_l. Qed.

Print Assumptions inv_init.
Print Assumptions inv_step.
Print Assumptions inv_reachable.
Print Assumptions step_no_panic.
Print Assumptions job_number_stable.
Print Assumptions pid_designates_one_job.
Print Assumptions inv_obs_sound.
Print Assumptions current_previous_spec.
Print Assumptions jobid_resolution.
Print Assumptions jobid_resolution_reachable.
Print Assumptions jobid_number_stable.
Print Assumptions parse_tail_sound.
Print Assumptions name_tests_spec.
Print Assumptions resolve_obs_sound.
Print Assumptions script_step_inv.
Print Assumptions insert_live_pid_breaks_inv.
Print Assumptions jobid_gap_example.
Print Assumptions last_is_most_recent_set.
Print Assumptions most_recent_set_total.
Print Assumptions last_step.
Print Assumptions lifted_step_agrees.
Print Assumptions set_last_keeps_table.
Print Assumptions lifted_run_agrees.
Print Assumptions lifted_inv_reachable.
Print Assumptions last_ok_sound.
Print Assumptions last_survives_emptying.
Print Assumptions designates_functional.
Print Assumptions jobid_resolution_complete.
Print Assumptions name_id_outcomes.
