(* C12 — executable model of yash-env/src/job.rs `JobList`.

   Mirrors the Rust code operation by operation:
     - `Slab<Job>` is a list of optional entries plus the LIFO chain of vacant
       keys (slab 0.4: `remove k` pushes k on the chain, `insert` pops it or
       appends; `clear` forgets the chain),
     - `pids_to_indices: HashMap<Pid, usize>` is an association list,
     - `current_job_index` / `previous_job_index` are plain numbers that may be
       stale, exactly as in the code; `current_job` / `previous_job` validate
       them on every read.
   Rust panic sites (`self.jobs[index]`, `.unwrap()`) are made explicit by the
   [*_panics] predicates; Properties.v proves they are never reached. *)
From Yv Require Import Common.Base.

Inductive pstate :=
| Running
| Stopped (sig : N)
| Exited (status : N)
| Signaled (sig : N) (core : bool).

Definition is_stopped (s : pstate) : bool :=
  match s with Stopped _ => true | _ => false end.
Definition is_alive (s : pstate) : bool :=
  match s with Running | Stopped _ => true | _ => false end.

Definition pstate_eqb (a b : pstate) : bool :=
  match a, b with
  | Running, Running => true
  | Stopped x, Stopped y => N.eqb x y
  | Exited x, Exited y => N.eqb x y
  | Signaled x c, Signaled y d => N.eqb x y && Bool.eqb c d
  | _, _ => false
  end.

Record job := mkJob {
  jpid : Z;
  jstate : pstate;
  jexpected : option pstate;
  jchanged : bool;
  jowned : bool;
  jname : str                   (* Job::name, what %name / %?name match *)
}.

(* Job::new(pid) followed by `job.state = st; job.name = name` as the callers do *)
Definition new_job (pid : Z) (st : pstate) (name : str) : job :=
  mkJob pid st None true true name.

Definition suspended (j : job) : bool := is_stopped (jstate j).

Record joblist := mkJL {
  slots : list (option job);
  free : list nat;              (* slab's chain of vacant keys, head = next *)
  pidx : list (Z * nat);        (* pids_to_indices *)
  cur : nat;
  prev : nat
}.

Definition empty : joblist := mkJL [] [] [] 0 0.

Definition get (s : joblist) (i : nat) : option job :=
  match nth_error (slots s) i with Some (Some j) => Some j | _ => None end.

Definition contains (s : joblist) (i : nat) : bool :=
  match get s i with Some _ => true | None => false end.

Fixpoint assoc (l : list (Z * nat)) (p : Z) : option nat :=
  match l with
  | [] => None
  | (q, i) :: l => if Z.eqb q p then Some i else assoc l p
  end.

Definition find_by_pid (s : joblist) (p : Z) : option nat := assoc (pidx s) p.

Definition current_job (s : joblist) : option nat :=
  if contains s (cur s) then Some (cur s) else None.

Definition previous_job (s : joblist) : option nat :=
  if negb (Nat.eqb (prev s) (cur s)) && contains s (prev s) then Some (prev s) else None.

(* jobs in index order, as `iter()` yields them *)
Fixpoint iter_from (i : nat) (l : list (option job)) : list (nat * job) :=
  match l with
  | [] => []
  | Some j :: l => (i, j) :: iter_from (S i) l
  | None :: l => iter_from (S i) l
  end.
Definition iter (s : joblist) : list (nat * job) := iter_from 0 (slots s).
Definition len (s : joblist) : nat := length (iter s).

Definition find_first (f : nat -> job -> bool) (s : joblist) : option nat :=
  match filter (fun p => f (fst p) (snd p)) (iter s) with
  | [] => None
  | (i, _) :: _ => Some i
  end.

Definition any_suspended_job_but_current (s : joblist) : option nat :=
  find_first (fun i j => negb (Nat.eqb i (cur s)) && suspended j) s.
Definition any_job_but_current (s : joblist) : option nat :=
  find_first (fun i _ => negb (Nat.eqb i (cur s))) s.

Fixpoint set_slot (l : list (option job)) (i : nat) (v : option job) : list (option job) :=
  match l, i with
  | [], _ => []
  | _ :: l, O => v :: l
  | x :: l, S i => x :: set_slot l i v
  end.

Definition with_cur (s : joblist) (c : nat) : joblist :=
  mkJL (slots s) (free s) (pidx s) c (prev s).
Definition with_prev (s : joblist) (p : nat) : joblist :=
  mkJL (slots s) (free s) (pidx s) (cur s) p.

(* set_current_job: result code 0 = Ok, 1 = NoSuchJob, 2 = NotSuspended *)
Definition set_current_job (s : joblist) (index : nat) : joblist * N :=
  match get s index with
  | None => (s, 1%N)
  | Some j =>
      if negb (suspended j) && existsb (fun p => suspended (snd p)) (iter s)
      then (s, 2%N)
      else if Nat.eqb index (cur s) then (s, 0%N)
      else (mkJL (slots s) (free s) (pidx s) index (cur s), 0%N)
  end.

(* --- insert --------------------------------------------------------- *)

Definition slab_insert (sl : list (option job)) (fr : list nat) (j : job)
  : list (option job) * list nat * nat :=
  match fr with
  | f :: fr' => (set_slot sl f (Some j), fr', f)
  | [] => (sl ++ [Some j], [], length sl)
  end.

Definition opt_susp (s : joblist) (o : option nat) : option bool :=
  match o with
  | None => None
  | Some i => match get s i with Some j => Some (suspended j) | None => Some false end
  end.

(* first half of `insert`: place the job in the slab and the pid index *)
Definition insert_place (s : joblist) (j : job) : joblist * nat :=
  match find_by_pid s (jpid j) with
  | None =>
      let '(sl, fr, index) := slab_insert (slots s) (free s) j in
      (mkJL sl fr ((jpid j, index) :: pidx s) (cur s) (prev s), index)
  | Some index =>
      (mkJL (set_slot (slots s) index (Some j)) (free s) (pidx s) (cur s) (prev s), index)
  end.

Definition insert (s : joblist) (j : job) : joblist * nat :=
  let new_susp := suspended j in
  let exc := opt_susp s (current_job s) in
  let exp := opt_susp s (previous_job s) in
  let '(s1, index) := insert_place s j in
  let s2 :=
    match exc with
    | None => with_cur s1 index
    | Some false =>
        if new_susp then fst (set_current_job s1 index)
        else match exp with
             | None => with_prev s1 index
             | Some _ => s1
             end
    | Some true =>
        match exp with
        | None => with_prev s1 index
        | Some false => if new_susp then with_prev s1 index else s1
        | Some true => s1
        end
    end in
  (s2, index).

(* The Rust code would panic in `insert` iff the occupied branch indexes a
   vacant slot or `set_current_job(index).unwrap()` gets an error. *)
Definition insert_panics (s : joblist) (j : job) : bool :=
  match find_by_pid s (jpid j) with
  | Some index => negb (contains s index)
  | None => false
  end
  || match opt_susp s (current_job s) with
     | Some false =>
         suspended j &&
         negb (N.eqb (snd (set_current_job (fst (insert_place s j)) (snd (insert_place s j)))) 0)
     | _ => false
     end.

(* --- remove --------------------------------------------------------- *)

Fixpoint remove_assoc (l : list (Z * nat)) (p : Z) : list (Z * nat) :=
  match l with
  | [] => []
  | (q, i) :: l => if Z.eqb q p then remove_assoc l p else (q, i) :: remove_assoc l p
  end.

Definition all_vacant (l : list (option job)) : bool :=
  forallb (fun o => match o with None => true | Some _ => false end) l.

Definition remove (s : joblist) (index : nat) : joblist * option job :=
  match get s index with
  | None => (s, None)
  | Some j =>
      let sl := set_slot (slots s) index None in
      let px := remove_assoc (pidx s) (jpid j) in
      let '(sl', fr') := if all_vacant sl then ([], []) else (sl, index :: free s) in
      let pbc := Nat.eqb index (cur s) in
      let c' := if pbc then prev s else cur s in
      let s1 := mkJL sl' fr' px c' (prev s) in
      let p' :=
        if pbc || Nat.eqb index (prev s) then
          match any_suspended_job_but_current s1 with
          | Some i => i
          | None => match any_job_but_current s1 with Some i => i | None => 0 end
          end
        else prev s in
      (mkJL sl' fr' px c' p', Some j)
  end.

(* extract_if / remove_if: visits the indices 0,1,2,... until as many jobs as
   were present at the start have been seen. *)
Fixpoint extract_loop (p : nat -> job -> bool) (s : joblist) (next : nat)
    (remaining : nat) (fuel : nat) : joblist :=
  match fuel with
  | O => s
  | S fuel =>
      match remaining with
      | O => s
      | S r =>
          match get s next with
          | Some j =>
              if p next j then extract_loop p (fst (remove s next)) (S next) r fuel
              else extract_loop p s (S next) r fuel
          | None => extract_loop p s (S next) remaining fuel
          end
      end
  end.

Definition remove_if (p : nat -> job -> bool) (s : joblist) : joblist :=
  extract_loop p s 0 (len s) (length (slots s)).

(* --- update_status --------------------------------------------------- *)

Definition update_status (s : joblist) (pid : Z) (st : pstate) : joblist * option nat :=
  match find_by_pid s pid with
  | None => (s, None)
  | Some index =>
      match get s index with
      | None => (s, Some index)  (* unreachable: see update_panics *)
      | Some j =>
          let was := suspended j in
          let j' := mkJob (jpid j) st None
                      (jchanged j || negb (option_eqb pstate_eqb (jexpected j) (Some st)))
                      (jowned j) (jname j) in
          let s1 := mkJL (set_slot (slots s) index (Some j')) (free s) (pidx s) (cur s) (prev s) in
          let now := is_stopped st in
          if negb was && now then
            (if Nat.eqb index (cur s1) then s1
             else mkJL (slots s1) (free s1) (pidx s1) index (cur s1), Some index)
          else if was && negb now then
            match previous_job s1 with
            | None => (s1, Some index)
            | Some prev_index =>
                let pbc := Nat.eqb index (cur s1)
                           && match get s1 prev_index with Some pj => suspended pj | None => false end in
                let s2 := if pbc then with_cur s1 prev_index else s1 in
                let s3 :=
                  if pbc || Nat.eqb index prev_index then
                    with_prev s2 (match any_suspended_job_but_current s2 with
                                  | Some i => i | None => index end)
                  else s2 in
                (s3, Some index)
            end
          else (s1, Some index)
      end
  end.

Definition update_panics (s : joblist) (pid : Z) : bool :=
  match find_by_pid s pid with
  | Some index => negb (contains s index)
  | None => false
  end.

Definition disown_all (s : joblist) : joblist :=
  mkJL (map (option_map (fun j => mkJob (jpid j) (jstate j) (jexpected j) (jchanged j) false (jname j)))
            (slots s))
       (free s) (pidx s) (cur s) (prev s).

(* JobRefMut::expect / state_reported through get_mut *)
Definition expect (s : joblist) (i : nat) (st : option pstate) : joblist :=
  match get s i with
  | None => s
  | Some j =>
      mkJL (set_slot (slots s) i
              (Some (mkJob (jpid j) (jstate j) st (jchanged j) (jowned j) (jname j))))
           (free s) (pidx s) (cur s) (prev s)
  end.
Definition state_reported (s : joblist) (i : nat) : joblist :=
  match get s i with
  | None => s
  | Some j =>
      mkJL (set_slot (slots s) i
              (Some (mkJob (jpid j) (jstate j) (jexpected j) false (jowned j) (jname j))))
           (free s) (pidx s) (cur s) (prev s)
  end.

(* --- operations and observations ------------------------------------- *)

Inductive op :=
| OInsert (pid : Z) (st : pstate) (name : str)
| ORemove (i : nat)
| ORemoveIdxs (l : list nat)        (* remove_if (|i, _| l.contains(i)) *)
| ORemoveFinished                   (* remove_if (|_, j| !j.state.is_alive()) *)
| OUpdate (pid : Z) (st : pstate)
| OSetCurrent (i : nat)
| ODisownAll
| OExpect (i : nat) (st : option pstate)
| OReported (i : nat).

Definition step (s : joblist) (o : op) : joblist :=
  match o with
  | OInsert pid st name => fst (insert s (new_job pid st name))
  | ORemove i => fst (remove s i)
  | ORemoveIdxs l => remove_if (fun i _ => existsb (Nat.eqb i) l) s
  | ORemoveFinished => remove_if (fun _ j => negb (is_alive (jstate j))) s
  | OUpdate pid st => fst (update_status s pid st)
  | OSetCurrent i => fst (set_current_job s i)
  | ODisownAll => disown_all s
  | OExpect i st => expect s i st
  | OReported i => state_reported s i
  end.

(* The only precondition (from the property: "a process ID designates at most
   one job" – a pid can only be reused after its job has finished). *)
Definition op_ok (s : joblist) (o : op) : bool :=
  match o with
  | OInsert pid _ _ =>
      match find_by_pid s pid with
      | None => true
      | Some i => match get s i with Some j => negb (is_alive (jstate j)) | None => true end
      end
  | _ => true
  end.

Definition run (ops : list op) : joblist := fold_left step ops empty.
