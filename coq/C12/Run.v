(* C12 — what the correspondence check evaluates on every case. *)
From Yv Require Export Common.Base C12.Model C12.Spec C12.Script C12.Last.

(* CApi: the pids and ID texts in play, and the history as (operation,
   observation the implementation made after it: the table through its public
   API and what `last_async_pid()` returned).
   CScript: a script run on the simulated OS: the first snapshot (empty table),
   then (command, snapshot after it). *)
Inductive case :=
| CApi (pids : list Z) (ids : list str) (h : list (lop * (obs * Z)))
| CScript (pids : list Z) (ids : list str) (init : snap) (steps : list (scmd * snap)).

Definition reused_pid (o : lop) : option Z :=
  match o with LOp (OInsert p _ _) => Some p | _ => None end.

(* [last] / [lastz]: the implementation's previous observation *)
Fixpoint run_hist (pids : list Z) (ids : list str) (s : jlist) (last : obs) (lastz : Z)
    (h : list (lop * (obs * Z))) : verdict :=
  match h with
  | [] => 0%N
  | (o, (ob, z)) :: h =>
      (* oracle first: evaluated on the implementation's observations only *)
      match first_false 0 (inv_obs_clauses ob) with
      | Some k => (2 + k)%N
      | None =>
          if negb (stable_obs (reused_pid o) last ob) then 10%N
          else if negb (last_ok lastz o z) then 20%N
          else
            let s' := lstep s o in
            if negb (lop_ok s o) then 99%N      (* generator broke the precondition *)
            else if obs_eqb (observe pids ids (tbl s')) ob && Z.eqb (last_async_pid s') z
            then run_hist pids ids s' ob z h
            else
              (* correspondence broken; keep looking for an oracle failure *)
              match run_hist pids ids s' ob z h with
              | 0%N => 1%N
              | v => v
              end
      end
  end.

(* scripts, pass 1: the oracles, on the implementation's snapshots only *)
Fixpoint oracle_steps (st : sstate) (b : snap) (steps : list (scmd * snap)) : option N :=
  match steps with
  | [] => None
  | (cmd, a) :: rest =>
      match first_false 0 (inv_obs_clauses (sn_obs a)) with
      | Some k => Some (2 + k)%N
      | None =>
          let reused := match cmd with SAsync _ _ => sn_bang a | _ => None end in
          if negb (stable_obs reused (sn_obs b) (sn_obs a)) then Some 10%N
          else match step_oracle st cmd b a with
               | Some c => Some c
               | None => oracle_steps (next_state st cmd b a) a rest
               end
      end
  end.

(* scripts, pass 2: the model in lock step *)
Fixpoint model_steps (pids : list Z) (ids : list str) (s : joblist) (b : snap)
    (steps : list (scmd * snap)) : verdict :=
  match steps with
  | [] => 0%N
  | (cmd, a) :: rest =>
      match model_step pids ids s cmd b a with
      | Some s' => model_steps pids ids s' a rest
      | None => 1%N
      end
  end.

Definition run_case (c : case) : verdict :=
  match c with
  | CApi pids ids h => run_hist pids ids lempty (observe pids ids empty) 0%Z h
  | CScript pids ids init steps =>
      match first_false 0 (inv_obs_clauses (sn_obs init)) with
      | Some k => (2 + k)%N
      | None =>
          match oracle_steps ss0 init steps with
          | Some c => c
          | None =>
              if obs_eqb (observe pids ids empty) (sn_obs init)
              then model_steps pids ids empty init steps
              else 1%N
          end
      end
  end.

Definition run_cases := run_cases_with run_case.
