(* C12 — what the correspondence check evaluates on every case. *)
From Yv Require Export Common.Base C12.Model C12.Spec.

(* One case: the pids in play, and the history as (operation, observation the
   implementation made after it). *)
Definition case := (list Z * list (op * obs))%type.

Definition reused_pid (o : op) : option Z :=
  match o with OInsert p _ => Some p | _ => None end.

Fixpoint run_hist (pids : list Z) (s : joblist) (last : obs) (h : list (op * obs)) : verdict :=
  match h with
  | [] => 0%N
  | (o, ob) :: h =>
      (* oracle first: evaluated on the implementation's observation only *)
      match first_false 0 (inv_obs_clauses ob) with
      | Some k => (2 + k)%N
      | None =>
          if negb (stable_obs (reused_pid o) last ob) then 10%N
          else
            let s' := step s o in
            if negb (op_ok s o) then 99%N       (* generator broke the precondition *)
            else if obs_eqb (observe pids s') ob then run_hist pids s' ob h
            else
              (* correspondence broken; keep looking for an oracle failure *)
              match run_hist pids s' ob h with
              | 0%N => 1%N
              | v => v
              end
      end
  end.

Definition run_case (c : case) : verdict :=
  run_hist (fst c) empty (observe (fst c) empty) (snd c).

Definition run_cases := run_cases_with run_case.
