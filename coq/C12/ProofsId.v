(* C12 — job IDs: what parse_tail / JobId::find (Spec.v [parse_tail],
   [find_job]) return is what the documentation says ([designates],
   [parse_rel]), and the ID clauses of the run-time oracle are sound. *)
From Yv Require Import Common.Base C12.Model C12.Spec.
From Yv Require Import C12.ProofsCur C12.ProofsBase C12.ProofsOps C12.Proofs.

(* ---- strings ---------------------------------------------------------------- *)

Lemma str_eqb_refl (a : str) : str_eqb a a = true.
Proof. apply str_eqb_eq. reflexivity. Qed.

Lemma starts_with_spec p : forall n, starts_with p n = true <-> exists r, n = p ++ r.
Proof.
  induction p as [|a p IH]; intros n; cbn.
  - split; [intros _; exists n; reflexivity | reflexivity].
  - destruct n as [|b n].
    + split; [discriminate | intros [r E]; discriminate].
    + rewrite andb_true_iff, IH, N.eqb_eq. split.
      * intros [-> [r ->]]. exists r. reflexivity.
      * intros [r E]. inversion E; subst. split; eauto.
Qed.

Lemma str_contains_spec p : forall n, str_contains p n = true <-> exists a b, n = a ++ p ++ b.
Proof.
  induction n as [|c n IH]; cbn [str_contains].
  - rewrite orb_false_r, starts_with_spec. split.
    + intros [r E]. exists [], r. exact E.
    + intros [a [b E]]. destruct a as [|x a]; [|discriminate]. exists b. exact E.
  - rewrite orb_true_iff, starts_with_spec, IH. split.
    + intros [[r E] | [a [b E]]].
      * exists [], r. exact E.
      * exists (c :: a), b. cbn. rewrite E. reflexivity.
    + intros [a [b E]]. destruct a as [|x a].
      * left. exists b. exact E.
      * right. cbn in E. inversion E; subst. eauto.
Qed.

Lemma o_prefix_eq p : forall n, o_prefix p n = starts_with p n.
Proof.
  unfold o_prefix, str_eqb. induction p as [|a p IH]; intros n; cbn.
  - reflexivity.
  - destruct n as [|b n]; cbn; [reflexivity|]. rewrite IH. reflexivity.
Qed.

Lemma existsb_map {A B} (f : B -> bool) (g : A -> B) l :
  existsb f (map g l) = existsb (fun x => f (g x)) l.
Proof. induction l as [|x l IH]; cbn; [reflexivity|]. rewrite IH. reflexivity. Qed.

Lemma o_substr_eq p : forall n, o_substr p n = str_contains p n.
Proof.
  unfold o_substr. induction n as [|c n IH].
  - cbn. rewrite o_prefix_eq. reflexivity.
  - cbn [length str_contains]. change (seq 0 (S (S (length n)))) with (0 :: seq 1 (S (length n))).
    cbn [existsb]. rewrite <- seq_shift, existsb_map.
    cbn [skipn]. rewrite o_prefix_eq. f_equal. exact IH.
Qed.

Lemma name_tests_spec_l p n :
  (starts_with p n = true <-> exists r, n = p ++ r) /\
  (str_contains p n = true <-> exists a b, n = a ++ p ++ b).
Proof. split; [apply starts_with_spec | apply str_contains_spec]. Qed.

(* ---- find_one ---------------------------------------------------------------- *)

Lemma len_zero_get s i : len s = 0 -> get s i = None.
Proof.
  unfold len. intros H. destruct (get s i) as [j|] eqn:G; auto.
  apply in_iter in G. destruct (iter s); [destruct G | discriminate].
Qed.

Lemma two_in_length {A} (L : list A) x y : In x L -> In y L -> x <> y -> 2 <= length L.
Proof.
  destruct L as [|a [|b L]]; cbn.
  - intros [].
  - intros [<-|[]] [<-|[]] N. congruence.
  - intros _ _ _. lia.
Qed.

Lemma two_get_len s i1 i2 j1 j2 :
  i1 <> i2 -> get s i1 = Some j1 -> get s i2 = Some j2 -> 2 <= len s.
Proof.
  intros N G1 G2. apply in_iter in G1. apply in_iter in G2. unfold len.
  apply (two_in_length _ (i1, j1) (i2, j2)); auto. intros E; inversion E; contradiction.
Qed.

Lemma find_one_spec (pred : job -> bool) s :
  (exists i j, get s i = Some j /\ pred j = true /\ find_one pred s = Found i /\
               forall i' j', get s i' = Some j' -> pred j' = true -> i' = i) \/
  ((forall i j, get s i = Some j -> pred j = false) /\ find_one pred s = NotFound) \/
  ((exists i1 i2 j1 j2, i1 <> i2 /\ get s i1 = Some j1 /\ get s i2 = Some j2 /\
                        pred j1 = true /\ pred j2 = true) /\ find_one pred s = Ambiguous).
Proof.
  unfold find_one.
  pose proof (nodup_fst_filter (fun p => pred (snd p)) _ (nodup_iter s)) as ND.
  destruct (filter (fun p => pred (snd p)) (iter s)) as [|[i j] [|[i2 j2] L]] eqn:E.
  - right. left. split; auto. intros i j G. apply in_iter in G.
    apply (filter_nil _ _ E _ G).
  - left. exists i, j.
    assert (Hin : In (i, j) (filter (fun p => pred (snd p)) (iter s))) by (rewrite E; left; auto).
    apply filter_In in Hin. destruct Hin as [Hin P]. apply in_iter in Hin. cbn in P.
    repeat split; auto. intros i' j' G' P'.
    assert (H : In (i', j') (filter (fun p => pred (snd p)) (iter s))).
    { apply filter_In. split; [apply in_iter; auto | exact P']. }
    rewrite E in H. destruct H as [H|[]]. congruence.
  - right. right. split; auto. exists i, i2, j, j2.
    assert (H1 : In (i, j) (filter (fun p => pred (snd p)) (iter s))) by (rewrite E; left; auto).
    assert (H2 : In (i2, j2) (filter (fun p => pred (snd p)) (iter s)))
      by (rewrite E; right; left; auto).
    apply filter_In in H1. destruct H1 as [H1 P1]. apply in_iter in H1.
    apply filter_In in H2. destruct H2 as [H2 P2]. apply in_iter in H2.
    cbn in ND. inversion ND as [|? ? Hn _]; subst.
    repeat split; auto. intros ->. apply Hn. left. reflexivity.
Qed.

(* ---- find_job gives what the documentation says ------------------------------ *)

Lemma designates_number s n : designates s (IdNumber n) (find_job s (IdNumber n)).
Proof.
  cbn [designates find_job].
  destruct (N.eqb_spec n 0) as [E|E].
  - right. split; auto. intros i j _. lia.
  - destruct (N.ltb_spec (N.pred n) (N.of_nat (length (slots s)))) as [L|L].
    + unfold contains. destruct (get s (N.to_nat (N.pred n))) as [j|] eqn:G.
      * left. exists (N.to_nat (N.pred n)), j. repeat split; auto. lia.
      * right. split; auto. intros i j G' En.
        assert (i = N.to_nat (N.pred n)) by lia. subst i. congruence.
    + right. split; auto. intros i j G En. rewrite get_getL in G. apply getL_lt in G. lia.
Qed.

Lemma designates_current s : Inv s -> designates s IdCurrent (find_job s IdCurrent).
Proof.
  intros I. cbn [designates find_job].
  destruct (Nat.eq_dec (len s) 0) as [E|E].
  - left. split; auto. unfold current_job, contains. rewrite (len_zero_get s _ E). reflexivity.
  - right. destruct (len_one s) as [i [j G]]; [lia|].
    destruct (cur_exists _ _ _ I G) as [C [jc Gc]]. rewrite C. cbn.
    split; [lia|]. split; eauto.
Qed.

Lemma designates_previous s : Inv s -> designates s IdPrevious (find_job s IdPrevious).
Proof.
  intros I. cbn [designates find_job].
  destruct (le_lt_dec (len s) 1) as [E|E].
  - left. split; auto. unfold previous_job.
    destruct (negb (Nat.eqb (prev s) (cur s)) && contains s (prev s)) eqn:X; auto.
    apply andb_true_iff in X. destruct X as [X1 X2].
    apply negb_true_iff, Nat.eqb_neq in X1.
    unfold contains in X2. destruct (get s (prev s)) as [jp|] eqn:Gp; [|discriminate].
    destruct (cur_exists _ _ _ I Gp) as [_ [jc Gc]].
    pose proof (two_get_len s _ _ _ _ X1 Gp Gc). lia.
  - right. destruct (len_two s E) as (i1 & i2 & j1 & j2 & N & G1 & G2).
    destruct (prev_exists _ _ _ _ _ I N G1 G2) as (P & Ne & jp & Gp).
    rewrite P. cbn. split; [lia|]. split; auto. split; eauto.
Qed.

Lemma designates_name s id pred :
  (forall j, pred j = true <-> name_matches id j) ->
  match id with IdPrefix _ | IdSubstr _ => True | _ => False end ->
  find_job s id = find_one pred s ->
  designates s id (find_job s id).
Proof.
  intros P K E. rewrite E.
  assert (D : (exists i j, get s i = Some j /\ name_matches id j /\ find_one pred s = Found i /\
                 forall i' j', get s i' = Some j' -> name_matches id j' -> i' = i) \/
              ((forall i j, get s i = Some j -> ~ name_matches id j) /\ find_one pred s = NotFound) \/
              ((exists i1 i2 j1 j2, i1 <> i2 /\ get s i1 = Some j1 /\ get s i2 = Some j2 /\
                   name_matches id j1 /\ name_matches id j2) /\ find_one pred s = Ambiguous)).
  { destruct (find_one_spec pred s) as [(i & j & G & Pj & F & U) | [[A F] | [(i1 & i2 & j1 & j2 & N & G1 & G2 & P1 & P2) F]]].
    - left. exists i, j. repeat split; auto. { apply P; auto. }
      intros i' j' G' M. apply (U i' j' G'). apply P. exact M.
    - right. left. split; auto. intros i j G M. apply P in M. rewrite (A i j G) in M. discriminate.
    - right. right. split; auto. exists i1, i2, j1, j2. repeat split; auto; apply P; auto. }
  destruct id; try contradiction; exact D.
Qed.

Lemma find_job_designates s id : Inv s -> designates s id (find_job s id).
Proof.
  intros I. destruct id as [| |n|p|p].
  - apply designates_current; auto.
  - apply designates_previous; auto.
  - apply designates_number.
  - apply (designates_name s (IdPrefix p) (fun j => starts_with p (jname j))); cbn; auto.
    intros j. apply starts_with_spec.
  - apply (designates_name s (IdSubstr p) (fun j => str_contains p (jname j))); cbn; auto.
    intros j. apply str_contains_spec.
Qed.

Lemma jobid_resolution_reachable_l ops id :
  ops_ok empty ops = true -> designates (run ops) id (find_job (run ops) id).
Proof. intros H. apply find_job_designates. apply inv_reachable_l. exact H. Qed.

(* %n keeps designating the same process across every operation *)
Lemma jobid_number_stable_l s o i j i' :
  Inv s -> op_ok s o = true -> get s i = Some j ->
  find_by_pid (step s o) (jpid j) = Some i' ->
  find_job (step s o) (IdNumber (N.of_nat (S i))) = Found i /\
  exists j', get (step s o) i = Some j' /\ jpid j' = jpid j.
Proof.
  intros I H G F.
  assert (i' = i) by (eapply job_number_stable_l; eauto). subst i'.
  pose proof (inv_step_l s o I H) as I'.
  destruct (inv_job_of_pid _ I' _ _ F) as [j' [G' Ep]].
  split; [|eauto].
  cbn [find_job]. destruct (N.eqb_spec (N.of_nat (S i)) 0) as [E|_]; [lia|].
  replace (N.pred (N.of_nat (S i))) with (N.of_nat i) by lia.
  pose proof G' as L. rewrite get_getL in L. apply getL_lt in L.
  destruct (N.ltb_spec (N.of_nat i) (N.of_nat (length (slots (step s o))))) as [_|X]; [|lia].
  rewrite Nat2N.id. unfold contains. rewrite G'. reflexivity.
Qed.

(* ---- parse_tail ----------------------------------------------------------------- *)

Definition dstep (acc c : N) : N := (acc * 10 + (c - 48))%N.

Lemma fold_dstep_mono l : forall acc, (acc <= fold_left dstep l acc)%N.
Proof.
  induction l as [|c l IH]; intros acc; cbn; [lia|].
  specialize (IH (dstep acc c)). unfold dstep in *. lia.
Qed.

Lemma digits_value_some l : forall acc v,
  digits_value acc l = Some v ->
  all_digits l = true /\ v = fold_left dstep l acc /\ ((acc < usize_limit)%N -> (v < usize_limit)%N).
Proof.
  induction l as [|c l IH]; intros acc v H; cbn in *.
  - inversion H; subst. auto.
  - destruct (is_digit c); [|discriminate].
    destruct (N.ltb_spec (acc * 10 + (c - 48)) usize_limit) as [L|L]; [|discriminate].
    destruct (IH _ _ H) as (A & B & C). cbn. repeat split; auto.
Qed.

Lemma digits_value_none l : forall acc,
  digits_value acc l = None ->
  all_digits l = false \/ (usize_limit <= fold_left dstep l acc)%N.
Proof.
  induction l as [|c l IH]; intros acc H; cbn in *; [discriminate|].
  destruct (is_digit c); [|left; reflexivity]. cbn.
  destruct (N.ltb_spec (acc * 10 + (c - 48)) usize_limit) as [L|L].
  - apply IH. exact H.
  - right. pose proof (fold_dstep_mono l (dstep acc c)). unfold dstep in *. lia.
Qed.

Lemma dec_value_fold l : dec_value l = fold_left dstep l 0%N.
Proof. reflexivity. Qed.

Lemma parse_usize_some t n :
  parse_usize t = Some n ->
  is_number_text t = N.ltb 0 n /\ n = dec_value (strip_plus t).
Proof.
  unfold parse_usize, is_number_text. fold (strip_plus t).
  destruct (strip_plus t) as [|c b] eqn:B; [discriminate|]. intros H.
  destruct (digits_value_some _ _ _ H) as (A & V & L).
  rewrite dec_value_fold, <- V, A. cbn [str_eqb list_eqb negb andb].
  assert (X : (n < usize_limit)%N) by (apply L; reflexivity).
  apply N.ltb_lt in X. rewrite X, andb_true_r. auto.
Qed.

Lemma parse_usize_none t : parse_usize t = None -> is_number_text t = false.
Proof.
  unfold parse_usize, is_number_text. fold (strip_plus t).
  destruct (strip_plus t) as [|c b] eqn:B; [reflexivity|]. intros H.
  apply digits_value_none in H. rewrite dec_value_fold. destruct H as [H|H].
  - rewrite H. cbn. reflexivity.
  - apply N.ltb_ge in H. rewrite H. rewrite !andb_false_r. reflexivity.
Qed.

Lemma parse_rel_sound_l t : parse_rel t (parse_tail t) = true.
Proof.
  unfold parse_tail.
  destruct (str_eqb t [] || str_eqb t [ch_percent] || str_eqb t [ch_plus]) eqn:E1.
  { cbn [parse_rel]. exact E1. }
  destruct (str_eqb t [ch_minus]) eqn:E2.
  { cbn [parse_rel]. exact E2. }
  assert (SP : special_tail t = false) by (unfold special_tail; rewrite E1, E2; reflexivity).
  destruct t as [|c r]; [cbn in E1; discriminate|].
  destruct (N.eqb_spec c ch_quest) as [Q|Q].
  { subst c. cbn [parse_rel]. rewrite SP, str_eqb_refl. reflexivity. }
  assert (SQ : starts_with [ch_quest] (c :: r) = false).
  { cbn [starts_with]. apply andb_false_iff. left. apply N.eqb_neq. congruence. }
  destruct (parse_usize (c :: r)) as [n|] eqn:P.
  - destruct (parse_usize_some _ _ P) as [T V].
    destruct (N.eqb_spec n 0) as [Z|Z]; cbn [parse_rel]; rewrite SP, SQ, T.
    + rewrite Z. change (0 <? 0)%N with false. cbn [negb andb]. apply str_eqb_refl.
    + assert (X : N.ltb 0 n = true) by (apply N.ltb_lt; lia). rewrite X. cbn [negb andb].
      apply N.eqb_eq. exact V.
  - cbn [parse_rel]. rewrite SP, SQ, (parse_usize_none _ P). cbn [negb andb]. apply str_eqb_refl.
Qed.

(* ---- the ID clauses of the oracle ---------------------------------------------- *)

Lemma by_name_match (L : list (nat * job)) :
  match map fst L with [] => NotFound | [i] => Found i | _ => Ambiguous end =
  match L with [] => NotFound | [(i, _)] => Found i | (i, _) :: _ :: _ => Ambiguous end.
Proof. destruct L as [|[i j] [|[i2 j2] L]]; reflexivity. Qed.

Lemma filter_ext_eq {A} (f g : A -> bool) L : (forall x, f x = g x) -> filter f L = filter g L.
Proof. intros H. induction L as [|x L IH]; cbn; [reflexivity|]. rewrite H, IH. reflexivity. Qed.

Lemma resolve_by_name pids ids s (f : str -> bool) (g : str -> bool) :
  (forall n, f n = g n) ->
  match map fst (filter (fun p => f (v_name (snd p))) (o_jobs (observe pids ids s))) with
  | [] => NotFound | [i] => Found i | _ => Ambiguous end =
  find_one (fun j => g (jname j)) s.
Proof.
  intros H. rewrite o_jobs_observe, filter_map, map_map. unfold find_one.
  cbn [vw fst snd job_view v_name].
  rewrite (filter_ext_eq _ (fun p => g (jname (snd p)))) by (intros x; apply H).
  change (map (fun x : nat * job => fst x)) with (@map (nat * job) nat fst).
  apply by_name_match.
Qed.

Lemma resolve_obs_observe pids ids s id :
  resolve_obs (observe pids ids s) id = find_job s id.
Proof.
  destruct id as [| |n|p|p]; cbn [resolve_obs find_job]; try reflexivity.
  - rewrite o_jobs_observe, filter_map.
    destruct (filter (fun x => N.eqb (N.of_nat (S (fst (vw x)))) n) (iter s)) as [|[i j] L] eqn:E.
    + cbn [map].
      destruct (N.eqb_spec n 0) as [Z|Z]; auto.
      destruct (N.ltb_spec (N.pred n) (N.of_nat (length (slots s)))) as [Lt|Lt]; auto.
      unfold contains. destruct (get s (N.to_nat (N.pred n))) as [j|] eqn:G; auto.
      apply in_iter in G. pose proof (filter_nil _ _ E _ G) as X. cbn [vw fst] in X.
      apply N.eqb_neq in X. lia.
    + cbn [map vw fst]. apply filter_head in E. destruct E as [Hin X]. cbn [vw fst] in X.
      apply N.eqb_eq in X. apply in_iter in Hin.
      destruct (N.eqb_spec n 0) as [Z|Z]; [lia|].
      pose proof Hin as L0. rewrite get_getL in L0. apply getL_lt in L0.
      destruct (N.ltb_spec (N.pred n) (N.of_nat (length (slots s)))) as [Lt|Lt]; [|lia].
      replace (N.to_nat (N.pred n)) with i by lia.
      unfold contains. rewrite Hin. reflexivity.
  - apply resolve_by_name. intros n. apply o_prefix_eq.
  - apply resolve_by_name. intros n. apply o_substr_eq.
Qed.

Lemma fres_eqb_refl r : fres_eqb r r = true.
Proof. destruct r; cbn; auto. apply Nat.eqb_refl. Qed.

Lemma clause6 s pids ids :
  forallb (fun q => match q with (_, id, r) => fres_eqb r (resolve_obs (observe pids ids s) id) end)
          (o_ids (observe pids ids s)) = true.
Proof.
  apply forallb_forall. intros q Hq. cbn [o_ids observe] in Hq.
  apply in_map_iff in Hq. destruct Hq as [t [<- _]].
  rewrite resolve_obs_observe. apply fres_eqb_refl.
Qed.

Lemma clause9 s pids ids :
  forallb (fun q => match q with (t, id, _) => parse_rel t id end)
          (o_ids (observe pids ids s)) = true.
Proof.
  apply forallb_forall. intros q Hq. cbn [o_ids observe] in Hq.
  apply in_map_iff in Hq. destruct Hq as [t [<- _]]. apply parse_rel_sound_l.
Qed.

Lemma inv_obs_sound_s s pids ids (I : Inv s) : inv_obs (observe pids ids s) = true.
Proof.
  unfold inv_obs. rewrite first_false_all; auto.
  unfold inv_obs_clauses. cbv zeta. cbn [forallb].
  rewrite (clause0 s pids ids I), (clause1 s pids ids I), (clause4 s pids ids I),
    (clause5 s pids ids I), (clause6 s pids ids), (clause7 s pids ids I), (clause9 s pids ids).
  fold (nsusp_of (observe pids ids s)). rewrite (clause2 s pids ids I), (clause3 s pids ids I).
  reflexivity.
Qed.

Lemma inv_obs_sound_l s pids ids : Inv s -> inv_obs (observe pids ids s) = true.
Proof. intros I. apply inv_obs_sound_s. exact I. Qed.

(* ---- why the precondition on insert is there --------------------------------- *)

Lemma insert_live_pid_breaks_inv_l :
  inv_obs (observe [10; 11]%Z []
             (run [OInsert 10 Running []; OInsert 11 (Stopped 19) []; OInsert 11 (Stopped 19) []]))
  = false.
Proof. vm_compute. reflexivity. Qed.
