(* C12 — every operation of the job list preserves [Inv]. *)
From Yv Require Import Common.Base C12.Model C12.Spec C12.ProofsCur C12.ProofsBase.

Lemma upd_svL sl sl' k v :
  (forall i, getL sl' i = if Nat.eqb i k then v else getL sl i) ->
  upd (svL sl) (svL sl') k (option_map suspended v).
Proof.
  intros G. split.
  - unfold svL. rewrite G, Nat.eqb_refl. reflexivity.
  - intros i N. unfold svL. rewrite G. apply Nat.eqb_neq in N. rewrite N. reflexivity.
Qed.

(* ---- replacing a job by one with the same pid and suspension ------------- *)

Lemma replace_inv s k j j' :
  Inv s -> get s k = Some j -> jpid j' = jpid j -> suspended j' = suspended j ->
  Inv (mkJL (set_slot (slots s) k (Some j')) (free s) (pidx s) (cur s) (prev s)).
Proof.
  intros I G Ep Es. apply Inv_elim in I. destruct I as (S & P & C).
  rewrite get_getL in G.
  destruct (slab_replace_spec _ _ _ _ j' S G) as [S1 G1].
  apply Inv_intro; cbn [slots free pidx cur prev].
  - exact S1.
  - eapply pid_replace; eauto.
  - pose proof (upd_svL _ _ _ _ G1) as U. cbn [option_map] in U.
    eapply CI_ext; [|exact C]. eapply upd_same; [|exact U].
    unfold svL. rewrite G. cbn. rewrite Es. reflexivity.
Qed.

Lemma expect_inv s i st : Inv s -> Inv (expect s i st).
Proof.
  intros I. unfold expect. destruct (get s i) as [j|] eqn:G; auto.
  eapply replace_inv; eauto.
Qed.

Lemma reported_inv s i : Inv s -> Inv (state_reported s i).
Proof.
  intros I. unfold state_reported. destruct (get s i) as [j|] eqn:G; auto.
  eapply replace_inv; eauto.
Qed.

Lemma disown_inv s : Inv s -> Inv (disown_all s).
Proof.
  intros I. apply Inv_elim in I. destruct I as (S & P & C).
  unfold disown_all. apply Inv_intro; cbn [slots free pidx cur prev].
  - apply slab_map. exact S.
  - eapply pid_map; [exact P| |intros i; apply getL_map]. reflexivity.
  - eapply CI_ext; [|exact C]. intros i. unfold svL. rewrite getL_map.
    destruct (getL (slots s) i); reflexivity.
Qed.

(* ---- set_current_job -------------------------------------------------------- *)

Lemma set_current_inv s i : Inv s -> Inv (fst (set_current_job s i)).
Proof.
  intros I. unfold set_current_job. destruct (get s i) as [j|] eqn:G; auto.
  destruct (negb (suspended j) && existsb (fun p => suspended (snd p)) (iter s)) eqn:C; auto.
  destruct (Nat.eqb_spec i (cur s)) as [E|E]; auto.
  cbn [fst]. apply Inv_elim in I. destruct I as (S & P & CC).
  apply Inv_intro; cbn [slots free pidx cur prev]; auto.
  apply (ci_setcur _ _ _ _ (suspended j) CC (svL_get _ _ _ G)); auto.
  apply andb_false_iff in C. destruct C as [C|C].
  - left. apply negb_false_iff in C. exact C.
  - right. apply exists_susp_false. exact C.
Qed.

(* ---- insert ------------------------------------------------------------------- *)

Definition reuse_ok (s : joblist) (j : job) : Prop :=
  forall i j0, find_by_pid s (jpid j) = Some i -> get s i = Some j0 -> suspended j0 = false.

Lemma insert_place_spec s j s1 k :
  Inv s -> reuse_ok s j -> insert_place s j = (s1, k) ->
  SlabInv (slots s1) (free s1) /\ PidInv (getL (slots s1)) (pidx s1) /\
  (forall i, getL (slots s1) i = if Nat.eqb i k then Some j else getL (slots s) i) /\
  cur s1 = cur s /\ prev s1 = prev s /\ svL (slots s) k <> Some true.
Proof.
  intros I R E. apply Inv_elim in I. destruct I as (S & P & C).
  unfold insert_place in E. destruct (find_by_pid s (jpid j)) as [index|] eqn:F.
  - inversion E; subst; clear E. cbn [slots free pidx cur prev].
    destruct P as [P1 P2]. destruct (P2 _ _ F) as [j0 [G0 E0]].
    destruct (slab_replace_spec _ _ _ _ j S G0) as [S1 G1].
    split; [exact S1|]. split; [exact (pid_replace _ _ _ _ _ _ (conj P1 P2) G0 (eq_sym E0) G1)|].
    split; [exact G1|]. split; [reflexivity|]. split; [reflexivity|].
    unfold svL. rewrite G0. cbn. rewrite (R _ _ F G0). discriminate.
  - destruct (slab_insert (slots s) (free s) j) as [[sl fr] idx] eqn:SI.
    inversion E; subst; clear E. cbn [slots free pidx cur prev].
    destruct (slab_insert_spec _ _ _ _ _ _ S SI) as (S1 & Gk & G1).
    split; [exact S1|]. split; [eapply pid_insert_new; eauto|].
    split; [exact G1|]. split; [reflexivity|]. split; [reflexivity|].
    unfold svL. rewrite Gk. discriminate.
Qed.

Lemma insert_inv s j : Inv s -> reuse_ok s j -> Inv (fst (insert s j)).
Proof.
  intros I R. unfold insert. destruct (insert_place s j) as [s1 k] eqn:E.
  destruct (insert_place_spec _ _ _ _ I R E) as (S1 & P1 & G1 & Hc & Hp & Hk).
  pose proof (upd_svL _ _ _ _ G1) as U. cbn [option_map] in U.
  apply Inv_elim in I. destruct I as (S & P & C).
  assert (Gk : get s1 k = Some j) by (rewrite get_getL, G1, Nat.eqb_refl; reflexivity).
  rewrite opt_susp_cur, opt_susp_prev. cbn [fst].
  destruct (svL (slots s) (cur s)) as [[|]|] eqn:Ec.
  - (* current job suspended *)
    destruct (negb (Nat.eqb (prev s) (cur s)) && contains s (prev s)) eqn:Epv.
    + apply andb_true_iff in Epv. destruct Epv as [Ne Ct].
      apply negb_true_iff, Nat.eqb_neq in Ne. apply contains_svL in Ct.
      destruct (svL (slots s) (prev s)) as [[|]|] eqn:Ep; [| |congruence].
      * apply Inv_intro; auto. rewrite Hc, Hp. eapply ci_ins_H; eauto.
      * destruct (suspended j) eqn:Sj.
        -- apply Inv_intro; cbn [with_prev slots free pidx cur prev]; auto.
           rewrite Hc. eapply ci_ins_F; eauto.
        -- apply Inv_intro; auto. rewrite Hc, Hp. eapply ci_ins_G; eauto.
    + apply Inv_intro; cbn [with_prev slots free pidx cur prev]; auto.
      rewrite Hc. eapply ci_ins_E; eauto.
      apply andb_false_iff in Epv. destruct Epv as [Epv|Epv].
      * left. apply negb_false_iff, Nat.eqb_eq in Epv. exact Epv.
      * right. apply contains_false_svL. exact Epv.
  - (* current job not suspended *)
    destruct (suspended j) eqn:Sj.
    + unfold set_current_job. rewrite Gk, Sj. cbn [negb andb].
      destruct (Nat.eqb_spec k (cur s1)) as [Ek|Ek]; cbn [fst].
      * assert (Ek' : k = cur s) by congruence. clear Ek. subst k.
        apply Inv_intro; auto. rewrite Hc, Hp. eapply ci_ins_Beq; eauto.
      * apply Inv_intro; cbn [slots free pidx cur prev]; auto.
        rewrite Hc in *. eapply ci_ins_Bne; eauto.
    + destruct (negb (Nat.eqb (prev s) (cur s)) && contains s (prev s)) eqn:Epv.
      * apply andb_true_iff in Epv. destruct Epv as [Ne Ct].
        apply negb_true_iff, Nat.eqb_neq in Ne. apply contains_svL in Ct.
        destruct (svL (slots s) (prev s)) as [b|] eqn:Ep; [|congruence].
        apply Inv_intro; auto. rewrite Hc, Hp. eapply ci_ins_D; eauto. congruence.
      * apply Inv_intro; cbn [with_prev slots free pidx cur prev]; auto.
        rewrite Hc. eapply ci_ins_C; eauto.
        apply andb_false_iff in Epv. destruct Epv as [Epv|Epv].
        -- left. apply negb_false_iff, Nat.eqb_eq in Epv. exact Epv.
        -- right. apply contains_false_svL. exact Epv.
  - (* empty table *)
    apply Inv_intro; cbn [with_cur slots free pidx cur prev]; auto.
    rewrite Hp. eapply ci_ins_A; eauto.
Qed.

(* ---- remove -------------------------------------------------------------------- *)

Lemma remove_inv s k : Inv s -> Inv (fst (remove s k)).
Proof.
  intros I. unfold remove. destruct (get s k) as [j|] eqn:G; auto.
  apply Inv_elim in I. destruct I as (S & P & C). rewrite get_getL in G.
  destruct (if all_vacant (set_slot (slots s) k None) then ([], [])
            else (set_slot (slots s) k None, k :: free s)) as [sl' fr'] eqn:E.
  destruct (slab_remove_spec _ _ _ _ _ _ S G E) as [S1 G1].
  pose proof (upd_svL _ _ _ _ G1) as U. cbn [option_map] in U.
  assert (Hk : svL (slots s) k <> None) by (unfold svL; rewrite G; discriminate).
  pose proof (ci_rem_cur _ _ _ _ _ C Hk U) as Cc.
  cbn [fst]. apply Inv_intro; cbn [slots free pidx cur prev].
  - exact S1.
  - eapply pid_remove; eauto.
  - destruct (Nat.eqb k (cur s) || Nat.eqb k (prev s)) eqn:Ecp.
    + set (s1 := mkJL sl' fr' (remove_assoc (pidx s) (jpid j))
                   (if Nat.eqb k (cur s) then prev s else cur s) (prev s)).
      pose proof (any_susp_spec s1) as A1. pose proof (any_job_spec s1) as A2.
      cbn [s1 slots cur] in A1, A2.
      exact (ci_pick _ _ _ _ Cc A1 A2).
    + apply orb_false_iff in Ecp. destruct Ecp as [E1 E2]. rewrite E1.
      apply Nat.eqb_neq in E1. apply Nat.eqb_neq in E2.
      eapply ci_rem_keep; eauto.
Qed.

Lemma extract_loop_inv p fuel : forall s next rem,
  Inv s -> Inv (extract_loop p s next rem fuel).
Proof.
  induction fuel as [|fuel IH]; intros s next rem I; cbn [extract_loop]; auto.
  destruct rem as [|r]; auto.
  destruct (get s next) as [j|]; auto.
  destruct (p next j); auto. apply IH. apply remove_inv. exact I.
Qed.

Lemma remove_if_inv p s : Inv s -> Inv (remove_if p s).
Proof. intros I. unfold remove_if. apply extract_loop_inv. exact I. Qed.

(* ---- update_status --------------------------------------------------------------- *)

Lemma update_inv s pid st : Inv s -> Inv (fst (update_status s pid st)).
Proof.
  intros I. unfold update_status.
  destruct (find_by_pid s pid) as [k|] eqn:F; auto.
  destruct (get s k) as [j|] eqn:G; auto.
  set (j' := mkJob (jpid j) st None
               (jchanged j || negb (option_eqb pstate_eqb (jexpected j) (Some st))) (jowned j) (jname j)).
  destruct (Bool.bool_dec (suspended j) (is_stopped st)) as [Same|Diff].
  { (* suspension unchanged: the table looks the same *)
    assert (I1 : Inv (mkJL (set_slot (slots s) k (Some j')) (free s) (pidx s) (cur s) (prev s)))
      by (eapply replace_inv; eauto).
    rewrite Same. destruct (is_stopped st); cbn [negb andb fst]; exact I1. }
  pose proof I as I0.
  apply Inv_elim in I. destruct I as (S & P & C).
  pose proof G as GL. rewrite get_getL in GL.
  destruct (slab_replace_spec _ _ _ _ j' S GL) as [S1 G1].
  assert (P1 : PidInv (getL (set_slot (slots s) k (Some j'))) (pidx s))
    by (exact (pid_replace _ _ _ _ _ j' P GL eq_refl G1)).
  pose proof (upd_svL _ _ _ _ G1) as U. cbn [option_map] in U.
  change (suspended j') with (is_stopped st) in U.
  pose proof (svL_get _ _ _ G) as Hk.
  set (sl1 := set_slot (slots s) k (Some j')) in *.
  destruct (suspended j) eqn:W; destruct (is_stopped st) eqn:Nw; try congruence;
    cbn [negb andb slots free pidx cur prev].
  - (* a suspended job resumes or finishes *)
    unfold previous_job. cbn [cur prev].
    destruct (negb (Nat.eqb (prev s) (cur s)) && contains (mkJL sl1 (free s) (pidx s) (cur s) (prev s)) (prev s)) eqn:Epv.
    + apply andb_true_iff in Epv. destruct Epv as [Ne Ct].
      apply negb_true_iff, Nat.eqb_neq in Ne. apply contains_svL in Ct. cbn [slots] in Ct.
      destruct (Nat.eqb_spec k (cur s)) as [Ekc|Ekc].
      * subst k. cbn [andb orb].
        destruct (get (mkJL sl1 (free s) (pidx s) (cur s) (prev s)) (prev s)) as [pj|] eqn:Gp.
        2:{ apply svL_none in Gp. cbn [slots] in Gp. congruence. }
        apply svL_get in Gp. cbn [slots] in Gp.
        destruct (suspended pj) eqn:Sp.
        -- cbn [orb fst with_cur with_prev slots free pidx cur prev].
           destruct (ci_res_cur_ps _ _ _ _ C Hk U Ne Gp) as [Cc Hc].
           apply Inv_intro; cbn [slots free pidx cur prev]; auto.
           set (s2 := mkJL sl1 (free s) (pidx s) (prev s) (prev s)).
           pose proof (any_susp_spec s2) as A1. cbn [s2 slots cur] in A1.
           apply (ci_pick_or _ _ _ _ Cc A1); auto.
        -- cbn [orb]. assert (Ecp : Nat.eqb (cur s) (prev s) = false)
             by (apply Nat.eqb_neq; auto).
           rewrite Ecp. cbn [fst].
           apply Inv_intro; cbn [slots free pidx cur prev]; auto.
           eapply ci_res_cur_pn; eauto. congruence.
      * cbn [andb orb]. destruct (Nat.eqb_spec k (prev s)) as [Ekp|Ekp].
        -- subst k. cbn [fst with_prev slots free pidx cur prev].
           destruct (ci_res_prev _ _ _ _ C Hk U Ne) as [Cc Hc].
           apply Inv_intro; cbn [slots free pidx cur prev]; auto.
           set (s2 := mkJL sl1 (free s) (pidx s) (cur s) (prev s)).
           pose proof (any_susp_spec s2) as A1. cbn [s2 slots cur] in A1.
           apply (ci_pick_or _ _ _ _ Cc A1); auto.
        -- cbn [fst]. apply Inv_intro; cbn [slots free pidx cur prev]; auto.
           eapply ci_res_other; eauto.
    + cbn [fst]. apply Inv_intro; cbn [slots free pidx cur prev]; auto.
      eapply ci_res_none; eauto.
      apply andb_false_iff in Epv. destruct Epv as [Epv|Epv].
      * left. apply negb_false_iff, Nat.eqb_eq in Epv. exact Epv.
      * right. apply contains_false_svL in Epv. exact Epv.
  - (* a job becomes suspended *)
    destruct (Nat.eqb_spec k (cur s)) as [Ekc|Ekc]; cbn [fst].
    + subst k. apply Inv_intro; cbn [slots free pidx cur prev]; auto.
      eapply ci_ins_Beq; eauto.
    + apply Inv_intro; cbn [slots free pidx cur prev]; auto.
      eapply ci_ins_Bne; eauto. congruence.
Qed.
