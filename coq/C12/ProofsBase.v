(* C12 — characterising lemmas for the list functions of Model.v
   (slab slots, pid index, iteration) and the split of [Inv] into its three
   independent parts: slab, pid index, current/previous job. *)
From Yv Require Import Common.Base C12.Model C12.Spec C12.ProofsCur.

(* ---- slots -------------------------------------------------------------- *)

Definition getL (l : list (option job)) (i : nat) : option job :=
  match nth_error l i with Some (Some j) => Some j | _ => None end.

Lemma get_getL s i : get s i = getL (slots s) i.
Proof. reflexivity. Qed.

Lemma set_slot_length l : forall i v, length (set_slot l i v) = length l.
Proof. induction l as [|x l IH]; intros [|i] v; cbn; auto. Qed.

Lemma nth_set_slot_eq l : forall i v, i < length l -> nth_error (set_slot l i v) i = Some v.
Proof.
  induction l as [|x l IH]; intros [|i] v H; cbn in *; try lia; auto.
  apply IH; lia.
Qed.

Lemma nth_set_slot_neq l : forall i k v, i <> k -> nth_error (set_slot l i v) k = nth_error l k.
Proof.
  induction l as [|x l IH]; intros [|i] [|k] v H; cbn; auto; try congruence.
Qed.

Lemma getL_set_slot l k v i :
  k < length l -> getL (set_slot l k v) i = if Nat.eqb i k then v else getL l i.
Proof.
  intros H. unfold getL. destruct (Nat.eqb_spec i k) as [->|N].
  - rewrite nth_set_slot_eq by auto. destruct v; reflexivity.
  - rewrite nth_set_slot_neq by auto. reflexivity.
Qed.

Lemma getL_lt l i j : getL l i = Some j -> i < length l.
Proof.
  unfold getL. destruct (nth_error l i) eqn:E; [|discriminate].
  intros _. apply nth_error_Some. congruence.
Qed.

Lemma getL_nth l i j : getL l i = Some j -> nth_error l i = Some (Some j).
Proof.
  unfold getL. destruct (nth_error l i) as [[x|]|]; congruence.
Qed.

Lemma getL_app l j i :
  getL (l ++ [Some j]) i = if Nat.eqb i (length l) then Some j else getL l i.
Proof.
  unfold getL. destruct (Nat.eqb_spec i (length l)) as [->|N].
  - rewrite nth_error_app2 by lia. rewrite Nat.sub_diag. reflexivity.
  - destruct (lt_dec i (length l)) as [L|L].
    + rewrite nth_error_app1 by auto. reflexivity.
    + assert (E1 : nth_error (l ++ [Some j]) i = None)
        by (apply nth_error_None; rewrite app_length; cbn; lia).
      assert (E2 : nth_error l i = None) by (apply nth_error_None; lia).
      rewrite E1, E2. reflexivity.
Qed.

Lemma all_vacant_spec l : all_vacant l = true -> forall i, getL l i = None.
Proof.
  unfold all_vacant, getL. intros H i.
  destruct (nth_error l i) as [[j|]|] eqn:E; auto.
  apply nth_error_In in E. rewrite forallb_forall in H. apply H in E. discriminate.
Qed.

(* ---- the slab ------------------------------------------------------------ *)

Definition SlabInv (sl : list (option job)) (fr : list nat) : Prop :=
  NoDup fr /\ forall f, In f fr <-> nth_error sl f = Some None.

Lemma slab_insert_spec sl fr j sl' fr' k :
  SlabInv sl fr -> slab_insert sl fr j = (sl', fr', k) ->
  SlabInv sl' fr' /\ getL sl k = None /\
  forall i, getL sl' i = if Nat.eqb i k then Some j else getL sl i.
Proof.
  intros [ND FV] E. unfold slab_insert in E. destruct fr as [|f fr0].
  - inversion E; subst; clear E. split; [split|split].
    + constructor.
    + intros f; split; [intros []|]. intros H. apply FV.
      destruct (lt_dec f (length sl)) as [L|L].
      * rewrite nth_error_app1 in H by auto. exact H.
      * rewrite nth_error_app2 in H by lia.
        destruct (f - length sl) as [|[|m]]; cbn in H; discriminate.
    + unfold getL. rewrite (proj2 (nth_error_None sl (length sl))) by lia. reflexivity.
    + intros i. apply getL_app.
  - inversion E; subst; clear E. inversion ND as [|? ? Hnin ND0]; subst.
    assert (Hf : nth_error sl k = Some None) by (apply FV; left; auto).
    assert (Hk : k < length sl) by (apply nth_error_Some; congruence).
    split; [split|split].
    + exact ND0.
    + intros f; split.
      * intros Hin. assert (f <> k) by (intros ->; contradiction).
        rewrite nth_set_slot_neq by auto. apply FV. right; auto.
      * intros Hn. destruct (Nat.eq_dec f k) as [->|N].
        -- rewrite nth_set_slot_eq in Hn by auto. discriminate.
        -- rewrite nth_set_slot_neq in Hn by auto. apply FV in Hn.
           destruct Hn as [Hn|Hn]; [congruence|auto].
    + unfold getL. rewrite Hf. reflexivity.
    + intros i. apply getL_set_slot. auto.
Qed.

Lemma slab_replace_spec sl fr k j j' :
  SlabInv sl fr -> getL sl k = Some j ->
  SlabInv (set_slot sl k (Some j')) fr /\
  forall i, getL (set_slot sl k (Some j')) i = if Nat.eqb i k then Some j' else getL sl i.
Proof.
  intros [ND FV] G. pose proof (getL_lt _ _ _ G) as Hk. pose proof (getL_nth _ _ _ G) as Hn.
  split; [split|].
  - exact ND.
  - intros f. destruct (Nat.eq_dec f k) as [->|N].
    + rewrite nth_set_slot_eq by auto. rewrite FV, Hn. split; congruence.
    + rewrite nth_set_slot_neq by auto. apply FV.
  - intros i. apply getL_set_slot. auto.
Qed.

Lemma slab_remove_spec sl fr k j sl' fr' :
  SlabInv sl fr -> getL sl k = Some j ->
  (if all_vacant (set_slot sl k None) then ([], []) else (set_slot sl k None, k :: fr)) = (sl', fr') ->
  SlabInv sl' fr' /\ forall i, getL sl' i = if Nat.eqb i k then None else getL sl i.
Proof.
  intros [ND FV] G E. pose proof (getL_lt _ _ _ G) as Hk. pose proof (getL_nth _ _ _ G) as Hn.
  destruct (all_vacant (set_slot sl k None)) eqn:A; inversion E; subst; clear E.
  - split; [split|].
    + constructor.
    + intros f; split; [intros []|]. destruct f; discriminate.
    + intros i. pose proof (all_vacant_spec _ A i) as V.
      rewrite getL_set_slot in V by auto.
      destruct (Nat.eqb i k); [|rewrite V]; unfold getL; destruct i; reflexivity.
  - split; [split|].
    + constructor; auto. rewrite FV, Hn. congruence.
    + intros f. destruct (Nat.eq_dec f k) as [->|N].
      * rewrite nth_set_slot_eq by auto. split; auto. intros _. left; auto.
      * rewrite nth_set_slot_neq by auto. rewrite <- FV. cbn. split; [intros [?|?]; [congruence|auto] | auto].
    + intros i. apply getL_set_slot. auto.
Qed.

Lemma getL_map f l i : getL (map (option_map f) l) i = option_map f (getL l i).
Proof.
  unfold getL. rewrite nth_error_map. destruct (nth_error l i) as [[x|]|]; reflexivity.
Qed.

Lemma slab_map f sl fr : SlabInv sl fr -> SlabInv (map (option_map f) sl) fr.
Proof.
  intros [ND FV]. split; auto. intros k. rewrite FV, nth_error_map.
  destruct (nth_error sl k) as [[x|]|]; cbn; split; congruence.
Qed.

(* ---- the pid index ------------------------------------------------------ *)

Definition PidInv (g : nat -> option job) (px : list (Z * nat)) : Prop :=
  (forall i j, g i = Some j -> assoc px (jpid j) = Some i) /\
  (forall p i, assoc px p = Some i -> exists j, g i = Some j /\ jpid j = p).

Lemma assoc_remove_assoc l p q :
  assoc (remove_assoc l p) q = if Z.eqb p q then None else assoc l q.
Proof.
  induction l as [|[r i] l IH]; cbn.
  - destruct (Z.eqb p q); reflexivity.
  - destruct (Z.eqb_spec r p) as [->|N].
    + rewrite IH. destruct (Z.eqb p q); reflexivity.
    + cbn. rewrite IH.
      destruct (Z.eqb_spec r q), (Z.eqb_spec p q); subst; auto; congruence.
Qed.

Lemma pid_replace g g' px k j j' :
  PidInv g px -> g k = Some j -> jpid j' = jpid j ->
  (forall i, g' i = if Nat.eqb i k then Some j' else g i) -> PidInv g' px.
Proof.
  intros [P1 P2] Gk Ep U. split.
  - intros i j0 H. rewrite U in H. destruct (Nat.eqb_spec i k) as [->|N]; auto.
    inversion H; subst. rewrite Ep. auto.
  - intros p i H. destruct (P2 _ _ H) as [j0 [G0 E0]]. rewrite U.
    destruct (Nat.eqb_spec i k) as [->|N]; eauto.
    rewrite Gk in G0. inversion G0; subst. eexists; split; eauto.
Qed.

Lemma pid_insert_new g g' px k j :
  PidInv g px -> assoc px (jpid j) = None -> g k = None ->
  (forall i, g' i = if Nat.eqb i k then Some j else g i) ->
  PidInv g' ((jpid j, k) :: px).
Proof.
  intros [P1 P2] An Gk U. split.
  - intros i j0 H. rewrite U in H. cbn. destruct (Nat.eqb_spec i k) as [->|N].
    + inversion H; subst. rewrite Z.eqb_refl. reflexivity.
    + apply P1 in H. destruct (Z.eqb_spec (jpid j) (jpid j0)) as [E|E]; auto.
      rewrite E in An. congruence.
  - intros p i H. cbn in H. rewrite U. destruct (Z.eqb_spec (jpid j) p) as [E|E].
    + inversion H; subst. rewrite Nat.eqb_refl. eauto.
    + destruct (P2 _ _ H) as [j0 [G0 E0]]. destruct (Nat.eqb_spec i k) as [->|N]; eauto.
      congruence.
Qed.

Lemma pid_remove g g' px k j :
  PidInv g px -> g k = Some j ->
  (forall i, g' i = if Nat.eqb i k then None else g i) ->
  PidInv g' (remove_assoc px (jpid j)).
Proof.
  intros [P1 P2] Gk U. split.
  - intros i j0 H. rewrite U in H. destruct (Nat.eqb_spec i k) as [->|N]; [discriminate|].
    rewrite assoc_remove_assoc. pose proof (P1 _ _ H) as A.
    destruct (Z.eqb_spec (jpid j) (jpid j0)) as [E|E]; auto.
    pose proof (P1 _ _ Gk) as B. rewrite E in B. congruence.
  - intros p i H. rewrite assoc_remove_assoc in H.
    destruct (Z.eqb_spec (jpid j) p) as [E|E]; [discriminate|].
    destruct (P2 _ _ H) as [j0 [G0 E0]]. rewrite U.
    destruct (Nat.eqb_spec i k) as [->|N]; eauto.
    rewrite Gk in G0. inversion G0; subst. congruence.
Qed.

Lemma pid_map f g g' px :
  PidInv g px -> (forall j, jpid (f j) = jpid j) ->
  (forall i, g' i = option_map f (g i)) -> PidInv g' px.
Proof.
  intros [P1 P2] Ep U. split.
  - intros i j H. rewrite U in H. destruct (g i) as [j0|] eqn:G; [|discriminate].
    cbn in H. inversion H; subst. rewrite Ep. auto.
  - intros p i H. destruct (P2 _ _ H) as [j0 [G0 E0]]. rewrite U, G0. cbn.
    eexists; split; eauto. rewrite Ep. auto.
Qed.

(* ---- the suspended view and the split of Inv --------------------------- *)

Definition svL (sl : list (option job)) (i : nat) : option bool :=
  option_map suspended (getL sl i).

Lemma contains_svL s i : contains s i = true <-> svL (slots s) i <> None.
Proof.
  unfold contains, svL. rewrite get_getL. destruct (getL (slots s) i); cbn; split; congruence.
Qed.

Lemma contains_false_svL s i : contains s i = false <-> svL (slots s) i = None.
Proof.
  unfold contains, svL. rewrite get_getL. destruct (getL (slots s) i); cbn; split; congruence.
Qed.

Lemma susp_at_svL s i : susp_at s i <-> svL (slots s) i = Some true.
Proof.
  unfold susp_at, svL. rewrite get_getL. destruct (getL (slots s) i) as [j|]; cbn.
  - split.
    + intros [j0 [E H]]. inversion E; subst. rewrite H. reflexivity.
    + intros H. inversion H. eauto.
  - split; [intros [j0 [E _]]; discriminate | discriminate].
Qed.

Lemma svL_get s i j : get s i = Some j -> svL (slots s) i = Some (suspended j).
Proof. unfold svL. rewrite get_getL. intros ->. reflexivity. Qed.

Lemma svL_none s i : get s i = None -> svL (slots s) i = None.
Proof. unfold svL. rewrite get_getL. intros ->. reflexivity. Qed.

Lemma svL_some_get s i b : svL (slots s) i = Some b -> exists j, get s i = Some j /\ suspended j = b.
Proof.
  unfold svL. rewrite get_getL. destruct (getL (slots s) i) as [j|]; cbn; [|discriminate].
  intros H; inversion H. eauto.
Qed.

Lemma Inv_intro s :
  SlabInv (slots s) (free s) -> PidInv (getL (slots s)) (pidx s) ->
  CI (svL (slots s)) (cur s) (prev s) -> Inv s.
Proof.
  intros [S1 S2] [P1 P2] (C1 & C2 & C3 & C4). constructor; auto.
  - intros i j H. apply contains_svL. apply (C1 i). rewrite (svL_get _ _ _ H). discriminate.
  - intros i1 i2 j1 j2 N H1 H2. destruct (C2 i1 i2 N) as [A B].
    + rewrite (svL_get _ _ _ H1). discriminate.
    + rewrite (svL_get _ _ _ H2). discriminate.
    + split; auto. apply contains_svL. auto.
  - intros i. rewrite !susp_at_svL. apply C3.
  - intros i1 i2. rewrite !susp_at_svL. apply C4.
Qed.

Lemma Inv_elim s :
  Inv s ->
  SlabInv (slots s) (free s) /\ PidInv (getL (slots s)) (pidx s) /\
  CI (svL (slots s)) (cur s) (prev s).
Proof.
  intros [I1 I2 I3 I4 I5 I6 I7 I8]. split; [split; auto|split; [split; auto|]].
  unfold CI. split; [|split; [|split]].
  - intros i H. destruct (svL (slots s) i) as [b|] eqn:E; [|congruence].
    apply svL_some_get in E. destruct E as [j [G _]]. apply contains_svL. eapply I5; eauto.
  - intros i1 i2 N H1 H2.
    destruct (svL (slots s) i1) as [b1|] eqn:E1; [|congruence].
    destruct (svL (slots s) i2) as [b2|] eqn:E2; [|congruence].
    apply svL_some_get in E1. destruct E1 as [j1 [G1 _]].
    apply svL_some_get in E2. destruct E2 as [j2 [G2 _]].
    destruct (I6 _ _ _ _ N G1 G2) as [A B]. split; auto. apply contains_svL. auto.
  - intros i. rewrite <- !susp_at_svL. apply I7.
  - intros i1 i2. rewrite <- !susp_at_svL. apply I8.
Qed.

(* ---- iteration ------------------------------------------------------------- *)

Lemma in_iter_from l : forall n i j,
  In (i, j) (iter_from n l) <-> (n <= i /\ getL l (i - n) = Some j).
Proof.
  induction l as [|[j0|] l IH]; intros n i j; cbn [iter_from].
  - split; [intros []|]. intros [_ H]. unfold getL in H. destruct (i - n); discriminate.
  - cbn [In]. rewrite IH. split.
    + intros [E | [Hle G]].
      * inversion E; subst. split; [lia|]. rewrite Nat.sub_diag. reflexivity.
      * split; [lia|]. replace (i - n) with (S (i - S n)) by lia. exact G.
    + intros [Hle G]. destruct (Nat.eq_dec i n) as [->|N].
      * left. rewrite Nat.sub_diag in G. cbn in G. inversion G; auto.
      * right. split; [lia|]. replace (i - n) with (S (i - S n)) in G by lia. exact G.
  - rewrite IH. split; intros [Hle G].
    + split; [lia|]. replace (i - n) with (S (i - S n)) by lia. exact G.
    + destruct (Nat.eq_dec i n) as [->|N].
      * rewrite Nat.sub_diag in G. discriminate.
      * split; [lia|]. replace (i - n) with (S (i - S n)) in G by lia. exact G.
Qed.

Lemma in_iter s i j : In (i, j) (iter s) <-> get s i = Some j.
Proof.
  unfold iter. rewrite in_iter_from, Nat.sub_0_r, get_getL.
  split; [intros [_ H]; auto | split; [lia | auto]].
Qed.

Lemma nodup_iter_from l : forall n, NoDup (map fst (iter_from n l)).
Proof.
  induction l as [|[j|] l IH]; intros n; cbn.
  - constructor.
  - constructor; [|apply IH]. intros H. apply in_map_iff in H.
    destruct H as [[i j'] [E H]]. cbn in E; subst. apply in_iter_from in H. lia.
  - apply IH.
Qed.

Lemma nodup_iter s : NoDup (map fst (iter s)).
Proof. apply nodup_iter_from. Qed.

(* ---- find_first ----------------------------------------------------------- *)

Lemma find_first_some f s i :
  find_first f s = Some i -> exists j, get s i = Some j /\ f i j = true.
Proof.
  unfold find_first.
  destruct (filter (fun p => f (fst p) (snd p)) (iter s)) as [|[i0 j0] r] eqn:E;
    intros H; inversion H; subst.
  assert (Hin : In (i, j0) (filter (fun p => f (fst p) (snd p)) (iter s)))
    by (rewrite E; left; auto).
  apply filter_In in Hin. destruct Hin as [Hin Hf]. apply in_iter in Hin. eauto.
Qed.

Lemma find_first_none f s :
  find_first f s = None -> forall i j, get s i = Some j -> f i j = false.
Proof.
  unfold find_first.
  destruct (filter (fun p => f (fst p) (snd p)) (iter s)) as [|[i0 j0] r] eqn:E;
    [|discriminate].
  intros _ i j G. apply in_iter in G. destruct (f i j) eqn:F; auto.
  assert (Hin : In (i, j) (filter (fun p => f (fst p) (snd p)) (iter s)))
    by (apply filter_In; split; auto).
  rewrite E in Hin. destruct Hin.
Qed.

Lemma any_susp_spec s :
  pick_susp (svL (slots s)) (cur s) (any_suspended_job_but_current s).
Proof.
  unfold any_suspended_job_but_current, pick_susp.
  destruct (find_first _ s) as [i|] eqn:E.
  - apply find_first_some in E. destruct E as [j [G F]].
    apply andb_true_iff in F. destruct F as [F1 F2].
    apply negb_true_iff, Nat.eqb_neq in F1. split; auto.
    rewrite (svL_get _ _ _ G), F2. reflexivity.
  - intros i N H. apply svL_some_get in H. destruct H as [j [G Sj]].
    pose proof (find_first_none _ _ E _ _ G) as F. cbn in F.
    apply Nat.eqb_neq in N. rewrite N, Sj in F. discriminate.
Qed.

Lemma any_job_spec s :
  pick_any (svL (slots s)) (cur s) (any_job_but_current s).
Proof.
  unfold any_job_but_current, pick_any.
  destruct (find_first _ s) as [i|] eqn:E.
  - apply find_first_some in E. destruct E as [j [G F]].
    apply negb_true_iff, Nat.eqb_neq in F. split; auto.
    rewrite (svL_get _ _ _ G). discriminate.
  - intros i N. destruct (svL (slots s) i) as [b|] eqn:H; auto.
    apply svL_some_get in H. destruct H as [j [G Sj]].
    pose proof (find_first_none _ _ E _ _ G) as F. cbn in F.
    apply Nat.eqb_neq in N. rewrite N in F. discriminate.
Qed.

Lemma exists_susp_false s :
  existsb (fun p => suspended (snd p)) (iter s) = false ->
  forall i, svL (slots s) i <> Some true.
Proof.
  intros H i E. apply svL_some_get in E. destruct E as [j [G Sj]].
  apply in_iter in G.
  assert (X : existsb (fun p => suspended (snd p)) (iter s) = true)
    by (apply existsb_exists; exists (i, j); auto).
  congruence.
Qed.

(* ---- current / previous job reads ---------------------------------------- *)

Lemma opt_susp_cur s : opt_susp s (current_job s) = svL (slots s) (cur s).
Proof.
  unfold current_job, contains, opt_susp, svL. rewrite <- get_getL.
  destruct (get s (cur s)) eqn:G; cbn; [rewrite G|]; reflexivity.
Qed.

Lemma opt_susp_prev s :
  opt_susp s (previous_job s) =
  if negb (Nat.eqb (prev s) (cur s)) && contains s (prev s)
  then svL (slots s) (prev s) else None.
Proof.
  unfold previous_job.
  destruct (negb (Nat.eqb (prev s) (cur s)) && contains s (prev s)) eqn:C; [|reflexivity].
  apply andb_true_iff in C. destruct C as [_ C]. unfold contains in C.
  unfold opt_susp, svL. rewrite <- get_getL.
  destruct (get s (prev s)); [reflexivity|discriminate].
Qed.

Lemma not_alive_not_stopped st : is_alive st = false -> is_stopped st = false.
Proof. destruct st; cbn; congruence. Qed.
