(* C12 — `JobList::last_async_pid` (`$!`) inside the model.

   yash-env/src/job.rs: `JobList` has a fifth field `last_async_pid: Pid`
   (`Default`: `Pid(0)`), read by `last_async_pid()` and written by
   `set_last_async_pid(pid)` ONLY.  The model state of Model.v ([joblist]:
   slab, pid index, current/previous index) is wrapped, unchanged, in a record
   with that field; every method of Model.v is lifted to the record the way the
   Rust method treats the field (it does not mention it), and
   [set_last_async_pid] is added.  Nothing in Model.v / Spec.v / Proofs*.v is
   touched: [lifted_step_agrees] (ProofsLast.v) says the lifted operations are
   the old ones on the [tbl] component, so every existing theorem carries over.

   The SPEC part is [most_recent_set] (declarative: the operand of the last
   OSetLast of a history, 0 if there is none) and the per-operation ORACLE
   [last_ok], evaluated at run time on the implementation's own observations of
   `last_async_pid()` before and after each operation. *)
From Yv Require Import Common.Base C12.Model.

Record jlist := mkL {
  tbl : joblist;                 (* jobs, pids_to_indices, current/previous_job_index *)
  last : Z                      (* last_async_pid *)
}.

(* JobList::default() / JobList::new() *)
Definition lempty : jlist := mkL empty 0.

Definition last_async_pid (s : jlist) : Z := last s.
Definition set_last_async_pid (s : jlist) (pid : Z) : jlist := mkL (tbl s) pid.

(* the other `&mut self` methods: the field is not assigned *)
Definition l_insert (s : jlist) (j : job) : jlist * nat :=
  (mkL (fst (insert (tbl s) j)) (last s), snd (insert (tbl s) j)).
Definition l_remove (s : jlist) (i : nat) : jlist * option job :=
  (mkL (fst (remove (tbl s) i)) (last s), snd (remove (tbl s) i)).
Definition l_remove_if (p : nat -> job -> bool) (s : jlist) : jlist :=
  mkL (remove_if p (tbl s)) (last s).
Definition l_update_status (s : jlist) (pid : Z) (st : pstate) : jlist * option nat :=
  (mkL (fst (update_status (tbl s) pid st)) (last s), snd (update_status (tbl s) pid st)).
Definition l_set_current_job (s : jlist) (i : nat) : jlist * N :=
  (mkL (fst (set_current_job (tbl s) i)) (last s), snd (set_current_job (tbl s) i)).
Definition l_disown_all (s : jlist) : jlist := mkL (disown_all (tbl s)) (last s).
Definition l_expect (s : jlist) (i : nat) (st : option pstate) : jlist :=
  mkL (expect (tbl s) i st) (last s).
Definition l_state_reported (s : jlist) (i : nat) : jlist :=
  mkL (state_reported (tbl s) i) (last s).

Inductive lop :=
| LOp (o : op)                  (* an operation of Model.v *)
| OSetLast (pid : Z).           (* set_last_async_pid *)

Definition lstep (s : jlist) (o : lop) : jlist :=
  match o with
  | OSetLast pid => set_last_async_pid s pid
  | LOp (OInsert pid st name) => fst (l_insert s (new_job pid st name))
  | LOp (ORemove i) => fst (l_remove s i)
  | LOp (ORemoveIdxs l) => l_remove_if (fun i _ => existsb (Nat.eqb i) l) s
  | LOp ORemoveFinished => l_remove_if (fun _ j => negb (is_alive (jstate j))) s
  | LOp (OUpdate pid st) => fst (l_update_status s pid st)
  | LOp (OSetCurrent i) => fst (l_set_current_job s i)
  | LOp ODisownAll => l_disown_all s
  | LOp (OExpect i st) => l_expect s i st
  | LOp (OReported i) => l_state_reported s i
  end.

Definition lop_ok (s : jlist) (o : lop) : bool :=
  match o with LOp o => op_ok (tbl s) o | OSetLast _ => true end.

Definition lrun (ops : list lop) : jlist := fold_left lstep ops lempty.

(* the history without the OSetLast operations *)
Fixpoint strip (ops : list lop) : list op :=
  match ops with
  | [] => []
  | LOp o :: r => o :: strip r
  | OSetLast _ :: r => strip r
  end.

Definition is_set (o : lop) : bool :=
  match o with OSetLast _ => true | LOp _ => false end.

(* SPEC: [most_recent_set ops p]: p is the operand of the last OSetLast of the
   history, or 0 if the history has none. *)
Definition most_recent_set (ops : list lop) (p : Z) : Prop :=
  (forallb (fun o => negb (is_set o)) ops = true /\ p = 0%Z) \/
  (exists a b, ops = a ++ OSetLast p :: b /\ forallb (fun o => negb (is_set o)) b = true).

(* ORACLE, on the implementation's observations alone: what `last_async_pid()`
   returned before the operation, the operation, what it returned after. *)
Definition last_expected (before : Z) (o : lop) : Z :=
  match o with OSetLast pid => pid | LOp _ => before end.
Definition last_ok (before : Z) (o : lop) (after : Z) : bool :=
  Z.eqb after (last_expected before o).
