(* C12 — job IDs, completeness: [designates] pins the outcome (a job, NotFound
   or Ambiguous) uniquely in EVERY table, so find_job returns exactly the
   outcome the documentation prescribes and no other. *)
From Yv Require Import Common.Base C12.Model C12.Spec.
From Yv Require Import C12.Proofs C12.ProofsId.

Lemma designates_functional_l s id r1 r2 :
  designates s id r1 -> designates s id r2 -> r1 = r2.
Proof.
  destruct id as [| |n|p|p]; cbn [designates].
  - intros [[L1 ->]|[L1 [-> _]]] [[L2 ->]|[L2 [-> _]]]; try reflexivity; lia.
  - intros [[L1 ->]|[L1 [-> _]]] [[L2 ->]|[L2 [-> _]]]; try reflexivity; lia.
  - intros [[i [j [E [G ->]]]]|[H ->]] [[i' [j' [E' [G' ->]]]]|[H' ->]].
    + f_equal. lia.
    + exfalso. exact (H' i j G E).
    + exfalso. exact (H i' j' G' E').
    + reflexivity.
  - intros [[i [j [G [M [-> U]]]]]|[[H ->]|[[i1 [i2 [j1 [j2 [D [G1 [G2 [M1 M2]]]]]]]] ->]]]
           [[i' [j' [G' [M' [-> U']]]]]|[[H' ->]|[[k1 [k2 [l1 [l2 [D' [K1 [K2 [N1 N2]]]]]]]] ->]]];
      try reflexivity.
    + f_equal. exact (U' i j G M).
    + exfalso. exact (H' i j G M).
    + exfalso. apply D'. rewrite (U k1 l1 K1 N1), (U k2 l2 K2 N2). reflexivity.
    + exfalso. exact (H i' j' G' M').
    + exfalso. exact (H k1 l1 K1 N1).
    + exfalso. apply D. rewrite (U' i1 j1 G1 M1), (U' i2 j2 G2 M2). reflexivity.
    + exfalso. exact (H' i1 j1 G1 M1).
  - intros [[i [j [G [M [-> U]]]]]|[[H ->]|[[i1 [i2 [j1 [j2 [D [G1 [G2 [M1 M2]]]]]]]] ->]]]
           [[i' [j' [G' [M' [-> U']]]]]|[[H' ->]|[[k1 [k2 [l1 [l2 [D' [K1 [K2 [N1 N2]]]]]]]] ->]]];
      try reflexivity.
    + f_equal. exact (U' i j G M).
    + exfalso. exact (H' i j G M).
    + exfalso. apply D'. rewrite (U k1 l1 K1 N1), (U k2 l2 K2 N2). reflexivity.
    + exfalso. exact (H i' j' G' M').
    + exfalso. exact (H k1 l1 K1 N1).
    + exfalso. apply D. rewrite (U' i1 j1 G1 M1), (U' i2 j2 G2 M2). reflexivity.
    + exfalso. exact (H' i1 j1 G1 M1).
Qed.

(* find_job returns THE outcome the documentation prescribes: whatever
   satisfies [designates] is what the code returns (with find_job_designates:
   if and only if). *)
Lemma find_job_complete_l s id r : Inv s -> (designates s id r <-> find_job s id = r).
Proof.
  intros I. split.
  - intros D. exact (designates_functional_l s id _ _ (find_job_designates s id I) D).
  - intros <-. exact (find_job_designates s id I).
Qed.

(* the three outcomes of a name ID, for every table satisfying the invariant *)
Lemma name_id_outcomes_l s id :
  Inv s -> (match id with IdPrefix _ | IdSubstr _ => True | _ => False end) ->
  (find_job s id = NotFound <-> forall i j, get s i = Some j -> ~ name_matches id j) /\
  (find_job s id = Ambiguous <->
     exists i1 i2 j1 j2, i1 <> i2 /\ get s i1 = Some j1 /\ get s i2 = Some j2 /\
                         name_matches id j1 /\ name_matches id j2) /\
  (forall i, find_job s id = Found i <->
     exists j, get s i = Some j /\ name_matches id j /\
               forall i' j', get s i' = Some j' -> name_matches id j' -> i' = i).
Proof.
  intros I K.
  assert (C := fun r => find_job_complete_l s id r I).
  destruct id as [| |n|p|p]; try contradiction; cbn [designates] in C.
  all: split; [|split; [|intros i]]; split.
  1,7: (intros E; apply C in E;
        destruct E as [[i0 [j0 [_ [_ [E _]]]]]|[[H E]|[H E]]]; [discriminate E|exact H|discriminate E]).
  1,6: (intros H; apply C; right; left; split; [exact H|reflexivity]).
  1,5: (intros E; apply C in E;
        destruct E as [[i0 [j0 [_ [_ [E _]]]]]|[[H E]|[H E]]]; [discriminate E|discriminate E|exact H]).
  1,4: (intros H; apply C; right; right; split; [exact H|reflexivity]).
  1,3: (intros E; apply C in E;
        destruct E as [[i0 [j0 [G [M [E U]]]]]|[[H E]|[H E]]]; [|discriminate E|discriminate E];
        injection E as <-; exists j0; auto).
  all: (intros [j [G [M U]]]; apply C; left; exists i, j; auto).
Qed.
