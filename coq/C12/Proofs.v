(* C12 — lemmas. *)
From Yv Require Import Common.Base C12.Model C12.Spec.

Lemma get_empty i : get empty i = None.
Proof. unfold get, empty; cbn. destruct i; reflexivity. Qed.

Lemma inv_empty : Inv empty.
Proof.
  constructor; cbn.
  - constructor.
  - intros f; split; [intros [] | destruct f; discriminate].
  - intros i j H; rewrite get_empty in H; discriminate.
  - intros p i H; discriminate.
  - intros i j H; rewrite get_empty in H; discriminate.
  - intros i1 i2 j1 j2 _ H; rewrite get_empty in H; discriminate.
  - intros i [j [H _]]; rewrite get_empty in H; discriminate.
  - intros i1 i2 _ [j [H _]]; rewrite get_empty in H; discriminate.
Qed.
