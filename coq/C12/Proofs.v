(* C12 — the lemmas behind Properties.v.
   ProofsCur.v   current/previous-job rules on an abstract table
   ProofsBase.v  characterisation of the list functions, split of Inv
   ProofsOps.v   every operation preserves Inv
   this file     histories, panic freedom, job numbers, the oracle *)
From Yv Require Import Common.Base C12.Model C12.Spec.
From Yv Require Import C12.ProofsCur C12.ProofsBase C12.ProofsOps.

Lemma get_empty i : get empty i = None.
Proof. unfold get, empty; cbn. destruct i; reflexivity. Qed.

Lemma inv_empty : Inv empty.
Proof.
  constructor; cbn.
  - constructor.
  - intros f; split; [intros [] | destruct f; discriminate].
  - intros i j H; rewrite get_empty in H; discriminate.
  - intros p i H; discriminate.
  - intros i j H; rewrite get_empty in H; discriminate.
  - intros i1 i2 j1 j2 _ H; rewrite get_empty in H; discriminate.
  - intros i [j [H _]]; rewrite get_empty in H; discriminate.
  - intros i1 i2 _ [j [H _]]; rewrite get_empty in H; discriminate.
Qed.

(* ---- 1, 2: the invariant along histories ---------------------------------- *)

Lemma op_ok_reuse s pid st name :
  op_ok s (OInsert pid st name) = true -> reuse_ok s (new_job pid st name).
Proof.
  unfold reuse_ok. cbn. intros H i j0 F G. rewrite F, G in H.
  apply negb_true_iff in H. apply not_alive_not_stopped. exact H.
Qed.

Lemma inv_step_l s o : Inv s -> op_ok s o = true -> Inv (step s o).
Proof.
  intros I H. destruct o; cbn [step].
  - apply insert_inv; auto. apply op_ok_reuse; auto.
  - apply remove_inv; auto.
  - apply remove_if_inv; auto.
  - apply remove_if_inv; auto.
  - apply update_inv; auto.
  - apply set_current_inv; auto.
  - apply disown_inv; auto.
  - apply expect_inv; auto.
  - apply reported_inv; auto.
Qed.

Lemma inv_fold ops : forall s, Inv s -> ops_ok s ops = true -> Inv (fold_left step ops s).
Proof.
  induction ops as [|o ops IH]; intros s I H; cbn in *; auto.
  apply andb_true_iff in H. destruct H as [H1 H2].
  apply IH; auto. apply inv_step_l; auto.
Qed.

Lemma inv_reachable_l ops : ops_ok empty ops = true -> Inv (run ops).
Proof. intros H. unfold run. apply inv_fold; auto. apply inv_empty. Qed.

(* ---- 3: the panic sites are never reached --------------------------------- *)

Lemma find_contains s p i : Inv s -> find_by_pid s p = Some i -> contains s i = true.
Proof.
  intros I F. destruct (inv_job_of_pid s I _ _ F) as [j [G _]].
  unfold contains. rewrite G. reflexivity.
Qed.

Lemma step_no_panic_l s o : Inv s -> op_ok s o = true -> step_panics s o = false.
Proof.
  intros I H. destruct o; cbn [step_panics]; auto.
  - pose proof (op_ok_reuse _ _ _ _ H) as R.
    set (j := new_job pid st name) in *. unfold insert_panics. apply orb_false_iff. split.
    + destruct (find_by_pid s (jpid j)) as [i|] eqn:F; auto.
      rewrite (find_contains _ _ _ I F). reflexivity.
    + destruct (opt_susp s (current_job s)) as [[|]|]; auto.
      destruct (suspended j) eqn:Sj; auto. cbn [andb].
      destruct (insert_place s j) as [s1 k] eqn:E. cbn [fst snd].
      destruct (insert_place_spec _ _ _ _ I R E) as (_ & _ & G1 & _).
      unfold set_current_job. rewrite get_getL, G1, Nat.eqb_refl, Sj. cbn [negb andb].
      destruct (Nat.eqb k (cur s1)); reflexivity.
  - unfold update_panics. destruct (find_by_pid s pid) as [i|] eqn:F; auto.
    rewrite (find_contains _ _ _ I F). reflexivity.
Qed.

(* ---- 4, 5: job numbers ------------------------------------------------------ *)

Lemma pidx_set_current s i : pidx (fst (set_current_job s i)) = pidx s.
Proof.
  unfold set_current_job. destruct (get s i); auto.
  destruct (negb (suspended j) && _); auto.
  destruct (Nat.eqb i (cur s)); auto.
Qed.

Lemma pidx_insert s j : pidx (fst (insert s j)) = pidx (fst (insert_place s j)).
Proof.
  unfold insert. destruct (insert_place s j) as [s1 k]. cbn [fst].
  destruct (opt_susp s (current_job s)) as [[|]|].
  - destruct (opt_susp s (previous_job s)) as [[|]|]; try destruct (suspended j); reflexivity.
  - destruct (suspended j); [apply pidx_set_current|].
    destruct (opt_susp s (previous_job s)); reflexivity.
  - reflexivity.
Qed.

Lemma find_insert_place s j p i' :
  find_by_pid (fst (insert_place s j)) p = Some i' ->
  find_by_pid s p = Some i' \/ find_by_pid s p = None.
Proof.
  unfold insert_place. destruct (find_by_pid s (jpid j)) as [i|] eqn:F.
  - cbn. auto.
  - destruct (slab_insert (slots s) (free s) j) as [[sl fr] idx]. unfold find_by_pid. cbn.
    destruct (Z.eqb_spec (jpid j) p) as [E|E]; auto. subst. right. exact F.
Qed.

Lemma find_remove s k p i' :
  find_by_pid (fst (remove s k)) p = Some i' -> find_by_pid s p = Some i'.
Proof.
  unfold remove. destruct (get s k) as [j|]; auto.
  destruct (all_vacant (set_slot (slots s) k None)); unfold find_by_pid; cbn;
    rewrite assoc_remove_assoc; destruct (Z.eqb (jpid j) p); congruence.
Qed.

Lemma find_extract_loop f fuel p i' : forall s next rem,
  find_by_pid (extract_loop f s next rem fuel) p = Some i' -> find_by_pid s p = Some i'.
Proof.
  induction fuel as [|fuel IH]; intros s next rem H; cbn [extract_loop] in H; auto.
  destruct rem as [|r]; auto.
  destruct (get s next) as [j|]; [|eauto].
  destruct (f next j); [|eauto].
  apply IH in H. apply find_remove in H. exact H.
Qed.

Lemma pidx_update s pid st : pidx (fst (update_status s pid st)) = pidx s.
Proof.
  unfold update_status. destruct (find_by_pid s pid) as [k|]; auto.
  destruct (get s k) as [j|]; auto.
  destruct (negb (suspended j) && is_stopped st).
  - cbn [fst]. destruct (Nat.eqb k _); reflexivity.
  - destruct (suspended j && negb (is_stopped st)); [|reflexivity].
    destruct (previous_job _) as [pi|]; [|reflexivity].
    cbn [fst]. destruct (_ && _); destruct (_ || _); reflexivity.
Qed.

Lemma pidx_expect s i st : pidx (expect s i st) = pidx s.
Proof. unfold expect. destruct (get s i); reflexivity. Qed.

Lemma pidx_reported s i : pidx (state_reported s i) = pidx s.
Proof. unfold state_reported. destruct (get s i); reflexivity. Qed.

Lemma find_step s o p i i' :
  find_by_pid s p = Some i -> find_by_pid (step s o) p = Some i' -> i' = i.
Proof.
  intros F H. destruct o; cbn [step] in H.
  - unfold find_by_pid in H. rewrite pidx_insert in H.
    apply find_insert_place in H. destruct H; congruence.
  - apply find_remove in H. congruence.
  - apply find_extract_loop in H. congruence.
  - apply find_extract_loop in H. congruence.
  - unfold find_by_pid in H. rewrite pidx_update in H. unfold find_by_pid in F. congruence.
  - unfold find_by_pid in H. rewrite pidx_set_current in H. unfold find_by_pid in F. congruence.
  - unfold find_by_pid in *. cbn in H. congruence.
  - unfold find_by_pid in *. rewrite pidx_expect in H. congruence.
  - unfold find_by_pid in *. rewrite pidx_reported in H. congruence.
Qed.

Lemma job_number_stable_l s o i j i' :
  Inv s -> op_ok s o = true -> get s i = Some j ->
  find_by_pid (step s o) (jpid j) = Some i' -> i' = i.
Proof.
  intros I _ G H. eapply find_step; eauto. apply (inv_pid_of_job s I). exact G.
Qed.

Lemma pid_designates_one_job_l s i1 i2 j1 j2 :
  Inv s -> get s i1 = Some j1 -> get s i2 = Some j2 -> jpid j1 = jpid j2 -> i1 = i2.
Proof.
  intros I G1 G2 E.
  pose proof (inv_pid_of_job s I _ _ G1) as F1.
  pose proof (inv_pid_of_job s I _ _ G2) as F2.
  rewrite E in F1. congruence.
Qed.

(* ---- 7: current and previous job ------------------------------------------- *)

Lemma cur_exists s i j :
  Inv s -> get s i = Some j ->
  current_job s = Some (cur s) /\ exists jc, get s (cur s) = Some jc.
Proof.
  intros I G. pose proof (inv_current s I _ _ G) as C.
  unfold current_job. rewrite C. split; auto.
  unfold contains in C. destruct (get s (cur s)) as [jc|]; [eauto|discriminate].
Qed.

Lemma prev_exists s i1 i2 j1 j2 :
  Inv s -> i1 <> i2 -> get s i1 = Some j1 -> get s i2 = Some j2 ->
  previous_job s = Some (prev s) /\ prev s <> cur s /\ exists jp, get s (prev s) = Some jp.
Proof.
  intros I N G1 G2. destruct (inv_previous s I _ _ _ _ N G1 G2) as [A B].
  unfold previous_job. rewrite B. apply Nat.eqb_neq in A. rewrite A. cbn. split; auto.
  apply Nat.eqb_neq in A. split; auto.
  unfold contains in B. destruct (get s (prev s)) as [jp|]; [eauto|discriminate].
Qed.

Lemma two_of_list {A} (L : list (nat * A)) :
  NoDup (map fst L) -> 2 <= length L ->
  exists x y, In x L /\ In y L /\ fst x <> fst y.
Proof.
  destruct L as [|x [|y L]]; cbn; try lia. intros ND _.
  exists x, y. split; [auto|]. split; [auto|].
  inversion ND as [|? ? Hn _]; subst. intros E. apply Hn. left. auto.
Qed.

Lemma one_of_list {A} (L : list A) : length L <> 0 -> exists x, In x L.
Proof. destruct L as [|x L]; cbn; [congruence|]. intros _. exists x. auto. Qed.

Lemma len_one s : 1 <= len s -> exists i j, get s i = Some j.
Proof.
  unfold len. intros H. destruct (one_of_list (iter s)) as [[i j] Hin]; [lia|].
  apply in_iter in Hin. eauto.
Qed.

Lemma len_two s : 2 <= len s ->
  exists i1 i2 j1 j2, i1 <> i2 /\ get s i1 = Some j1 /\ get s i2 = Some j2.
Proof.
  unfold len. intros H.
  destruct (two_of_list (iter s) (nodup_iter s) H) as [[i1 j1] [[i2 j2] (H1 & H2 & N)]].
  apply in_iter in H1. apply in_iter in H2. cbn in N. exists i1, i2, j1, j2. auto.
Qed.

Lemma current_previous_spec_l s :
  Inv s ->
  (len s >= 1 -> exists c j, current_job s = Some c /\ get s c = Some j) /\
  (len s >= 2 -> exists p j, previous_job s = Some p /\ get s p = Some j /\
                             current_job s <> Some p).
Proof.
  intros I. split; intros H.
  - destruct (len_one s H) as [i [j G]].
    destruct (cur_exists _ _ _ I G) as [C [jc Gc]]. eauto.
  - destruct (len_two s H) as (i1 & i2 & j1 & j2 & N & G1 & G2).
    destruct (prev_exists _ _ _ _ _ I N G1 G2) as (P & Ne & jp & Gp).
    destruct (cur_exists _ _ _ I G1) as [C _].
    exists (prev s), jp. split; auto. split; auto. rewrite C. congruence.
Qed.

(* ---- 6: the run-time oracle accepts every observation of an Inv state ------ *)

Definition vw (p : nat * job) : nat * view := (fst p, job_view (snd p)).

Lemma o_jobs_observe pids ids s : o_jobs (observe pids ids s) = map vw (iter s).
Proof. reflexivity. Qed.

Lemma filter_head {A} (f : A -> bool) L x r : filter f L = x :: r -> In x L /\ f x = true.
Proof.
  intros E. apply filter_In. rewrite E. left. auto.
Qed.

Lemma filter_nil {A} (f : A -> bool) L : filter f L = [] -> forall x, In x L -> f x = false.
Proof.
  intros E x Hin. destruct (f x) eqn:F; auto.
  assert (H : In x (filter f L)) by (apply filter_In; auto). rewrite E in H. destruct H.
Qed.

Lemma filter_map {A B} (f : B -> bool) (F : A -> B) L :
  filter f (map F L) = map F (filter (fun x => f (F x)) L).
Proof.
  induction L as [|x L IH]; cbn; auto. destruct (f (F x)); cbn; rewrite IH; reflexivity.
Qed.

Lemma in_vw s i v : In (i, v) (map vw (iter s)) <-> exists j, get s i = Some j /\ v = job_view j.
Proof.
  rewrite in_map_iff. split.
  - intros [[i0 j0] [E Hin]]. unfold vw in E. cbn in E. inversion E; subst.
    apply in_iter in Hin. eauto.
  - intros [j [G ->]]. exists (i, j). split; auto. apply in_iter. exact G.
Qed.

Lemma lookup_observe pids ids s i :
  lookup_idx (observe pids ids s) i = option_map job_view (get s i).
Proof.
  unfold lookup_idx. rewrite o_jobs_observe.
  destruct (filter (fun p => Nat.eqb (fst p) i) (map vw (iter s))) as [|[i0 v] r] eqn:E.
  - destruct (get s i) as [j|] eqn:G; auto.
    assert (Hin : In (i, job_view j) (map vw (iter s))) by (apply in_vw; eauto).
    pose proof (filter_nil _ _ E _ Hin) as F. cbn in F. rewrite Nat.eqb_refl in F. discriminate.
  - apply filter_head in E. destruct E as [Hin F]. cbn in F. apply Nat.eqb_eq in F. subst i0.
    apply in_vw in Hin. destruct Hin as [j [G ->]]. rewrite G. reflexivity.
Qed.

Lemma lookup_some pids ids s i j :
  get s i = Some j ->
  match lookup_idx (observe pids ids s) i with Some _ => true | None => false end = true.
Proof. intros G. rewrite lookup_observe, G. reflexivity. Qed.

Lemma idx_susp_observe pids ids s i :
  svL (slots s) i = Some true -> idx_susp (observe pids ids s) i = true.
Proof.
  intros H. apply svL_some_get in H. destruct H as [j [G Sj]].
  unfold idx_susp. rewrite lookup_observe, G. cbn. exact Sj.
Qed.

Lemma nsusp_observe pids ids s :
  filter (fun p => is_stopped (v_state (snd p))) (o_jobs (observe pids ids s)) =
  map vw (filter (fun p => suspended (snd p)) (iter s)).
Proof. rewrite o_jobs_observe, filter_map. reflexivity. Qed.

Lemma nodup_fst_filter {A} (f : nat * A -> bool) L :
  NoDup (map fst L) -> NoDup (map fst (filter f L)).
Proof.
  induction L as [|x L IH]; cbn; auto. intros ND. inversion ND as [|? ? Hn ND0]; subst.
  destruct (f x); cbn; auto. constructor; auto.
  intros H. apply Hn. apply in_map_iff in H. destruct H as [y [E Hy]].
  apply filter_In in Hy. apply in_map_iff. exists y. tauto.
Qed.

Lemma nodupb_true {A} (eqb : A -> A -> bool) l :
  (forall x y, eqb x y = true <-> x = y) -> NoDup l -> nodupb eqb l = true.
Proof.
  intros Heq. induction l as [|x l IH]; cbn; auto. intros ND.
  inversion ND as [|? ? Hn ND0]; subst. rewrite IH by auto. rewrite andb_true_r.
  apply negb_true_iff. destruct (existsb (eqb x) l) eqn:E; auto.
  apply existsb_exists in E. destruct E as [y [Hy Exy]]. apply Heq in Exy. subst. contradiction.
Qed.

Lemma nodup_map_key {A B} (h : nat * A -> B) L :
  NoDup (map fst L) ->
  (forall x y, In x L -> In y L -> h x = h y -> fst x = fst y) ->
  NoDup (map h L).
Proof.
  induction L as [|x L IH]; cbn; [constructor|]. intros ND Inj.
  inversion ND as [|? ? Hn ND0]; subst. constructor.
  - intros H. apply in_map_iff in H. destruct H as [y [E Hy]].
    apply Hn. apply in_map_iff. exists y. split; auto.
  - apply IH; auto.
Qed.

Lemma first_false_all l : forall k, forallb (fun b => b) l = true -> first_false k l = None.
Proof.
  induction l as [|b l IH]; intros k H; cbn in *; auto.
  apply andb_true_iff in H. destruct H as [-> H]. auto.
Qed.

Definition nsusp_of (ob : obs) : nat :=
  length (filter (fun p => is_stopped (v_state (snd p))) (o_jobs ob)).

Lemma len_observe s pids ids (I : Inv s) : length (o_jobs (observe pids ids s)) = len s.
Proof. rewrite o_jobs_observe, map_length. reflexivity. Qed.

Lemma clause0 s pids ids (I : Inv s) :
  (Nat.eqb (length (o_jobs (observe pids ids s))) 0) ||
  match o_cur (observe pids ids s) with
  | Some c => match lookup_idx (observe pids ids s) c with Some _ => true | None => false end
  | None => false
  end = true.
Proof.
  rewrite (len_observe s pids ids I). destruct (Nat.eqb_spec (len s) 0) as [E|E]; auto. cbn [orb].
  destruct (len_one s) as [i [j G]]; [lia|].
  destruct (cur_exists _ _ _ I G) as [C [jc Gc]].
  cbn [o_cur observe]. rewrite C. eapply lookup_some; eauto.
Qed.

Lemma clause1 s pids ids (I : Inv s) :
  (Nat.ltb (length (o_jobs (observe pids ids s))) 2) ||
  match o_prev (observe pids ids s), o_cur (observe pids ids s) with
  | Some p, Some c =>
      negb (Nat.eqb p c) &&
      match lookup_idx (observe pids ids s) p with Some _ => true | None => false end
  | _, _ => false
  end = true.
Proof.
  rewrite (len_observe s pids ids I). destruct (Nat.ltb_spec (len s) 2) as [E|E]; auto. cbn [orb].
  destruct (len_two s E) as (i1 & i2 & j1 & j2 & N & G1 & G2).
  destruct (prev_exists _ _ _ _ _ I N G1 G2) as (P & Ne & jp & Gp).
  destruct (cur_exists _ _ _ I G1) as [C _].
  cbn [o_cur o_prev observe]. rewrite P, C.
  apply Nat.eqb_neq in Ne. rewrite Ne. cbn [negb andb]. eapply lookup_some; eauto.
Qed.

Lemma nsusp_eq s pids ids (I : Inv s) :
  nsusp_of (observe pids ids s) = length (filter (fun p => suspended (snd p)) (iter s)).
Proof. unfold nsusp_of. rewrite nsusp_observe, map_length. reflexivity. Qed.

Lemma in_susp s i j :
  In (i, j) (filter (fun p => suspended (snd p)) (iter s)) -> svL (slots s) i = Some true.
Proof.
  intros H. apply filter_In in H. destruct H as [Hin Sj]. apply in_iter in Hin.
  rewrite (svL_get _ _ _ Hin). cbn in Sj. rewrite Sj. reflexivity.
Qed.

Lemma clause2 s pids ids (I : Inv s) :
  (Nat.eqb (nsusp_of (observe pids ids s)) 0) ||
  match o_cur (observe pids ids s) with
  | Some c => idx_susp (observe pids ids s) c
  | None => false
  end = true.
Proof.
  rewrite (nsusp_eq s pids ids I).
  destruct (Nat.eqb_spec (length (filter (fun p => suspended (snd p)) (iter s))) 0) as [E|E];
    auto. cbn [orb].
  destruct (one_of_list _ E) as [[i j] Hin]. pose proof (in_susp s _ _ Hin) as Si.
  apply filter_In in Hin. destruct Hin as [Hin _]. apply in_iter in Hin.
  destruct (cur_exists _ _ _ I Hin) as [C _].
  cbn [o_cur observe]. rewrite C. apply idx_susp_observe.
  apply Inv_elim in I. destruct I as (_ & _ & _ & _ & C3 & _). eapply C3; eauto.
Qed.

Lemma clause3 s pids ids (I : Inv s) :
  (Nat.ltb (nsusp_of (observe pids ids s)) 2) ||
  match o_prev (observe pids ids s) with
  | Some p => idx_susp (observe pids ids s) p
  | None => false
  end = true.
Proof.
  rewrite (nsusp_eq s pids ids I).
  destruct (Nat.ltb_spec (length (filter (fun p => suspended (snd p)) (iter s))) 2) as [E|E];
    auto. cbn [orb].
  destruct (two_of_list _ (nodup_fst_filter _ _ (nodup_iter s)) E)
    as [[i1 j1] [[i2 j2] (H1 & H2 & N)]]. cbn in N.
  pose proof (in_susp s _ _ H1) as S1. pose proof (in_susp s _ _ H2) as S2.
  apply filter_In in H1. destruct H1 as [H1 _]. apply in_iter in H1.
  apply filter_In in H2. destruct H2 as [H2 _]. apply in_iter in H2.
  destruct (prev_exists _ _ _ _ _ I N H1 H2) as (P & _).
  cbn [o_prev observe]. rewrite P. apply idx_susp_observe.
  apply Inv_elim in I. destruct I as (_ & _ & _ & _ & _ & C4). eapply C4; eauto.
Qed.

Lemma clause4 s pids ids (I : Inv s) :
  nodupb Z.eqb (map (fun p => v_pid (snd p)) (o_jobs (observe pids ids s))) &&
  nodupb Nat.eqb (map fst (o_jobs (observe pids ids s))) = true.
Proof.
  rewrite o_jobs_observe, !map_map. apply andb_true_iff. split.
  - apply nodupb_true; [apply Z.eqb_eq|]. apply nodup_map_key; [apply nodup_iter|].
    intros [i1 j1] [i2 j2] H1 H2 E. cbn in *.
    apply in_iter in H1. apply in_iter in H2.
    eapply pid_designates_one_job_l; eauto.
  - apply nodupb_true; [apply Nat.eqb_eq|]. cbn. apply nodup_iter.
Qed.

Lemma clause5 s pids ids (I : Inv s) :
  forallb (fun q => option_eqb Nat.eqb (snd q)
            (match filter (fun p => Z.eqb (v_pid (snd p)) (fst q)) (o_jobs (observe pids ids s)) with
             | (i, _) :: _ => Some i | [] => None end)) (o_find (observe pids ids s)) = true.
Proof.
  apply forallb_forall. intros q Hq. cbn [o_find observe] in Hq.
  apply in_map_iff in Hq. destruct Hq as [p [<- _]]. cbn [fst snd].
  apply (option_eqb_spec Nat.eqb Nat.eqb_eq).
  rewrite o_jobs_observe.
  destruct (filter (fun x => Z.eqb (v_pid (snd x)) p) (map vw (iter s))) as [|[i v] r] eqn:E.
  - destruct (find_by_pid s p) as [i|] eqn:F; auto.
    destruct (inv_job_of_pid s I _ _ F) as [j [G Ep]].
    assert (Hin : In (i, job_view j) (map vw (iter s))) by (apply in_vw; eauto).
    pose proof (filter_nil _ _ E _ Hin) as X. cbn in X. rewrite Ep, Z.eqb_refl in X.
    discriminate.
  - apply filter_head in E. destruct E as [Hin X]. apply in_vw in Hin.
    destruct Hin as [j [G ->]]. cbn in X. apply Z.eqb_eq in X. subst p.
    apply (inv_pid_of_job s I). exact G.
Qed.

Lemma clause7 s pids ids (I : Inv s) :
  match o_prev (observe pids ids s), o_cur (observe pids ids s) with
  | Some p, Some c => negb (Nat.eqb p c)
  | Some _, None => false
  | None, _ => true
  end = true.
Proof.
  cbn [o_prev o_cur observe]. unfold previous_job.
  destruct (negb (Nat.eqb (prev s) (cur s)) && contains s (prev s)) eqn:E; auto.
  apply andb_true_iff in E. destruct E as [E1 E2].
  unfold contains in E2. destruct (get s (prev s)) as [jp|] eqn:G; [|discriminate].
  destruct (cur_exists _ _ _ I G) as [C _]. rewrite C. exact E1.
Qed.

