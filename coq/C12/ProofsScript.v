(* C12 — the model side of the script stream stays inside the invariant: every
   command's own job-list operations (Script.v [structural]) are compositions
   of the operations of Model.v, so the invariant theorems apply to the
   states the scripts are compared with. *)
From Yv Require Import Common.Base C12.Model C12.Spec C12.Script.
From Yv Require Import C12.ProofsCur C12.ProofsBase C12.ProofsOps C12.Proofs C12.ProofsId.

Lemma inv_op s o : Inv s -> op_ok s o = true -> Inv (step s o).
Proof. apply inv_step_l. Qed.

Lemma report_one_inv s i : Inv s -> Inv (report_one s i).
Proof.
  intros I. unfold report_one. destruct (get s i) as [j|]; auto.
  destruct (is_alive (jstate j)).
  - apply (inv_op s (OReported i)); auto.
  - apply (inv_op s (ORemove i)); auto.
Qed.

Lemma fold_report_inv l : forall s, Inv s -> Inv (fold_left report_one l s).
Proof.
  induction l as [|i l IH]; intros s I; cbn; auto. apply IH. apply report_one_inv. exact I.
Qed.

Lemma structural_inv_l cmd a tgt s :
  Inv s -> async_ok cmd a s = true -> Inv (structural cmd a tgt s).
Proof.
  intros I A. destruct cmd; cbn [structural].
  - (* SAsync *)
    unfold async_ok in A. destruct (sn_bang a) as [p|]; auto.
    pose proof (inv_op s (OInsert p Running name) I A) as I1. cbn [step] in I1.
    destruct (insert s (new_job p Running name)) as [s1 idx]. cbn [fst] in I1.
    apply (inv_op s1 (OReported idx)); auto.
  - apply fold_report_inv; auto.
  - destruct tgt; auto. apply report_one_inv; auto.
  - destruct tgt as [i| |]; auto.
    destruct (finished_at s i); auto. apply (inv_op s (ORemove i)); auto.
  - apply (inv_op s ORemoveFinished); auto.
  - exact I.
  - destruct tgt as [i| |]; auto.
    destruct (get s i) as [j|]; auto.
    destruct (is_alive (jstate j)).
    + apply (inv_op _ (OSetCurrent i)); auto. apply (inv_op s (OExpect i (Some Running))); auto.
    + apply (inv_op s (OSetCurrent i)); auto.
  - destruct tgt as [i| |]; auto.
    destruct (finished_at s i); auto. apply (inv_op s (ORemove i)); auto.
  - exact I.
Qed.

(* the status updates derived from two snapshots are plain OUpdate operations *)
Lemma updates_ok b a s : forall o, In o (updates b a) -> op_ok s o = true.
Proof.
  intros o H. unfold updates in H. apply in_flat_map in H. destruct H as [e [_ H]].
  destruct (by_pid (sn_obs a) (v_pid (snd e))) as [[i v']|].
  - destruct (_ || _); [|destruct H]. destruct H as [<-|[]]. reflexivity.
  - destruct (sys_of a (v_pid (snd e))) as [st|]; [|destruct H].
    destruct (pstate_eqb st (v_state (snd e))); [destruct H|]. destruct H as [<-|[]]. reflexivity.
Qed.

(* non-vacuity and the scenario of the gap in the numbering: jobs 1, 2, 3,
   job 1 removed; %2 and %3 keep designating the same jobs, %1 nothing *)
Lemma jobid_gap_example_l :
  let ops := [OInsert 10 Running [97]; OInsert 11 Running [97; 98];
              OInsert 12 (Stopped 19) [99; 97]; ORemove 0]%N in
  ops_ok empty ops = true /\
  find_job (run ops) (IdNumber 1) = NotFound /\
  find_job (run ops) (IdNumber 2) = Found 1 /\
  find_job (run ops) (IdNumber 3) = Found 2 /\
  find_job (run ops) (parse_tail [ch_plus; 51]%N) = Found 2 /\
  find_job (run ops) (IdPrefix [97]%N) = Found 1 /\
  find_job (run ops) (IdSubstr [97]%N) = Ambiguous /\
  find_job (run ops) (IdPrefix [98]%N) = NotFound /\
  find_job (run ops) IdCurrent = Found 2 /\
  find_job (run ops) IdPrevious = Found 1.
Proof. vm_compute. repeat split; reflexivity. Qed.
