(* C12 — the property as a specification: the job-table invariant, in Prop
   form over states (what the theorems are about) and in boolean form over
   *observations* made through the public API (the oracle that is evaluated
   on what the implementation returned). *)
From Yv Require Import Common.Base C12.Model.

(* ---- Prop form ------------------------------------------------------ *)

Definition susp_at (s : joblist) (i : nat) : Prop :=
  exists j, get s i = Some j /\ suspended j = true.

Record Inv (s : joblist) : Prop := {
  (* the slab: vacant keys on the chain are exactly the vacant slots *)
  inv_free_nodup : NoDup (free s);
  inv_free_vacant : forall f, In f (free s) <-> nth_error (slots s) f = Some None;
  (* each process ID designates at most one job: the pid index is the
     inverse of the table *)
  inv_pid_of_job : forall i j, get s i = Some j -> find_by_pid s (jpid j) = Some i;
  inv_job_of_pid : forall p i, find_by_pid s p = Some i ->
                               exists j, get s i = Some j /\ jpid j = p;
  (* a non-empty table has a current job *)
  inv_current : forall i j, get s i = Some j -> contains s (cur s) = true;
  (* two or more jobs imply a previous job distinct from the current one *)
  inv_previous : forall i1 i2 j1 j2, i1 <> i2 -> get s i1 = Some j1 -> get s i2 = Some j2 ->
                 prev s <> cur s /\ contains s (prev s) = true;
  (* whenever suspended jobs exist the current job is suspended *)
  inv_cur_susp : forall i, susp_at s i -> susp_at s (cur s);
  (* with two or more, the previous job is too *)
  inv_prev_susp : forall i1 i2, i1 <> i2 -> susp_at s i1 -> susp_at s i2 -> susp_at s (prev s)
}.

(* ---- job IDs (yash-env/src/job/id.rs, JobId::find for %% %+ %- %n) ---- *)

Inductive jobid := IdCurrent | IdPrevious | IdNumber (n : nat) (* n >= 1 *).

Definition find_job (s : joblist) (id : jobid) : option nat :=
  match id with
  | IdCurrent => current_job s
  | IdPrevious => previous_job s
  | IdNumber n => match n with
                  | O => None
                  | S k => if contains s k then Some k else None
                  end
  end.

(* ---- observations and the boolean oracle ----------------------------- *)

Record obs := mkObs {
  o_jobs : list (nat * (Z * pstate * bool * bool));   (* iter(): index, pid, state, state_changed, is_owned *)
  o_cur : option nat;                                (* current_job() *)
  o_prev : option nat;                               (* previous_job() *)
  o_find : list (Z * option nat);                    (* find_by_pid(p) for the pids in play *)
  o_ids : list (option nat)                          (* %+  %-  %1 .. %6 *)
}.

Definition job_view (j : job) : Z * pstate * bool * bool :=
  (jpid j, jstate j, jchanged j, jowned j).

Definition observe (pids : list Z) (s : joblist) : obs :=
  mkObs (map (fun p => (fst p, job_view (snd p))) (iter s))
        (current_job s) (previous_job s)
        (map (fun p => (p, find_by_pid s p)) pids)
        (map (find_job s) [IdCurrent; IdPrevious; IdNumber 1; IdNumber 2; IdNumber 3;
                           IdNumber 4; IdNumber 5; IdNumber 6]).

Definition view_eqb (a b : Z * pstate * bool * bool) : bool :=
  match a, b with
  | (p1, s1, c1, w1), (p2, s2, c2, w2) =>
      Z.eqb p1 p2 && pstate_eqb s1 s2 && Bool.eqb c1 c2 && Bool.eqb w1 w2
  end.

Definition obs_eqb (a b : obs) : bool :=
  list_eqb (pair_eqb Nat.eqb view_eqb) (o_jobs a) (o_jobs b)
  && option_eqb Nat.eqb (o_cur a) (o_cur b)
  && option_eqb Nat.eqb (o_prev a) (o_prev b)
  && list_eqb (pair_eqb Z.eqb (option_eqb Nat.eqb)) (o_find a) (o_find b)
  && list_eqb (option_eqb Nat.eqb) (o_ids a) (o_ids b).

Definition v_pid (v : Z * pstate * bool * bool) : Z := match v with (p, _, _, _) => p end.
Definition v_state (v : Z * pstate * bool * bool) : pstate := match v with (_, s, _, _) => s end.

Definition lookup_idx (o : obs) (i : nat) : option (Z * pstate * bool * bool) :=
  match filter (fun p => Nat.eqb (fst p) i) (o_jobs o) with
  | (_, v) :: _ => Some v
  | [] => None
  end.

Definition idx_susp (o : obs) (i : nat) : bool :=
  match lookup_idx o i with Some v => is_stopped (v_state v) | None => false end.

Fixpoint nodupb {A} (eqb : A -> A -> bool) (l : list A) : bool :=
  match l with
  | [] => true
  | x :: l => negb (existsb (eqb x) l) && nodupb eqb l
  end.

(* clause k of the oracle failing gives verdict 2+k *)
Definition inv_obs_clauses (o : obs) : list bool :=
  let n := length (o_jobs o) in
  let nsusp := length (filter (fun p => is_stopped (v_state (snd p))) (o_jobs o)) in
  [ (* 0: non-empty => current job exists *)
    (Nat.eqb n 0) || match o_cur o with Some c => match lookup_idx o c with Some _ => true | None => false end | None => false end;
    (* 1: >= 2 jobs => previous exists, distinct *)
    (Nat.ltb n 2) || match o_prev o, o_cur o with
                     | Some p, Some c => negb (Nat.eqb p c) && match lookup_idx o p with Some _ => true | None => false end
                     | _, _ => false end;
    (* 2: suspended jobs exist => current is suspended *)
    (Nat.eqb nsusp 0) || match o_cur o with Some c => idx_susp o c | None => false end;
    (* 3: >= 2 suspended => previous is suspended *)
    (Nat.ltb nsusp 2) || match o_prev o with Some p => idx_susp o p | None => false end;
    (* 4: pids pairwise distinct, indices pairwise distinct *)
    nodupb Z.eqb (map (fun p => v_pid (snd p)) (o_jobs o)) && nodupb Nat.eqb (map fst (o_jobs o));
    (* 5: find_by_pid is the inverse of the table on the pids asked *)
    forallb (fun q => option_eqb Nat.eqb (snd q)
                        (match filter (fun p => Z.eqb (v_pid (snd p)) (fst q)) (o_jobs o) with
                         | (i, _) :: _ => Some i | [] => None end)) (o_find o);
    (* 6: %+ is the current job, %- the previous job, %n the job with index n-1 *)
    list_eqb (option_eqb Nat.eqb) (o_ids o)
      ([o_cur o; o_prev o] ++
       map (fun k => match lookup_idx o k with Some _ => Some k | None => None end) [0;1;2;3;4;5]);
    (* 7: a previous job is never reported without a current one or equal to it *)
    match o_prev o, o_cur o with
    | Some p, Some c => negb (Nat.eqb p c)
    | Some _, None => false
    | None, _ => true end
  ].

Fixpoint first_false (k : N) (l : list bool) : option N :=
  match l with
  | [] => None
  | true :: l => first_false (N.succ k) l
  | false :: _ => Some k
  end.

Definition inv_obs (o : obs) : bool :=
  match first_false 0 (inv_obs_clauses o) with None => true | Some _ => false end.

(* clause 8: a job's number never changes while the job exists.  [before] and
   [after] are observations around one operation; [reused] is the pid the
   operation (re)inserts, if any. *)
Definition stable_obs (reused : option Z) (before after : obs) : bool :=
  forallb (fun p =>
    let pid := v_pid (snd p) in
    match reused with
    | Some r => Z.eqb r pid
    | None => false
    end ||
    match filter (fun q => Z.eqb (v_pid (snd q)) pid) (o_jobs after) with
    | (i', _) :: _ => Nat.eqb i' (fst p)
    | [] => true
    end) (o_jobs before).

(* ---- histories ---------------------------------------------------------- *)

Fixpoint ops_ok (s : joblist) (ops : list op) : bool :=
  match ops with
  | [] => true
  | o :: ops => op_ok s o && ops_ok (step s o) ops
  end.

(* Rust panic sites reached by an operation (indexing a vacant slab slot,
   `set_current_job(index).unwrap()` on an error). *)
Definition step_panics (s : joblist) (o : op) : bool :=
  match o with
  | OInsert pid st => insert_panics s (new_job pid st)
  | OUpdate pid _ => update_panics s pid
  | _ => false
  end.
