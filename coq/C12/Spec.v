(* C12 — the property as a specification: the job-table invariant, in Prop
   form over states (what the theorems are about) and in boolean form over
   *observations* made through the public API (the oracle that is evaluated
   on what the implementation returned). *)
From Yv Require Import Common.Base C12.Model.

(* ---- Prop form ------------------------------------------------------ *)

Definition susp_at (s : joblist) (i : nat) : Prop :=
  exists j, get s i = Some j /\ suspended j = true.

Record Inv (s : joblist) : Prop := {
  (* the slab: vacant keys on the chain are exactly the vacant slots *)
  inv_free_nodup : NoDup (free s);
  inv_free_vacant : forall f, In f (free s) <-> nth_error (slots s) f = Some None;
  (* each process ID designates at most one job: the pid index is the
     inverse of the table *)
  inv_pid_of_job : forall i j, get s i = Some j -> find_by_pid s (jpid j) = Some i;
  inv_job_of_pid : forall p i, find_by_pid s p = Some i ->
                               exists j, get s i = Some j /\ jpid j = p;
  (* a non-empty table has a current job *)
  inv_current : forall i j, get s i = Some j -> contains s (cur s) = true;
  (* two or more jobs imply a previous job distinct from the current one *)
  inv_previous : forall i1 i2 j1 j2, i1 <> i2 -> get s i1 = Some j1 -> get s i2 = Some j2 ->
                 prev s <> cur s /\ contains s (prev s) = true;
  (* whenever suspended jobs exist the current job is suspended *)
  inv_cur_susp : forall i, susp_at s i -> susp_at s (cur s);
  (* with two or more, the previous job is too *)
  inv_prev_susp : forall i1 i2, i1 <> i2 -> susp_at s i1 -> susp_at s i2 -> susp_at s (prev s)
}.

(* ---- job IDs (yash-env/src/job/id.rs: parse_tail, JobId::find) ------------ *)

Inductive jobid :=
| IdCurrent                    (* %  %%  %+ *)
| IdPrevious                   (* %- *)
| IdNumber (n : N)             (* %n, n >= 1 (NonZeroUsize) *)
| IdPrefix (p : str)           (* %name *)
| IdSubstr (p : str).          (* %?name *)

(* Result<usize, FindError> *)
Inductive fres := Found (i : nat) | NotFound | Ambiguous.

Definition fres_eqb (a b : fres) : bool :=
  match a, b with
  | Found i, Found k => Nat.eqb i k
  | NotFound, NotFound => true
  | Ambiguous, Ambiguous => true
  | _, _ => false
  end.

Definition jobid_eqb (a b : jobid) : bool :=
  match a, b with
  | IdCurrent, IdCurrent => true
  | IdPrevious, IdPrevious => true
  | IdNumber n, IdNumber m => N.eqb n m
  | IdPrefix p, IdPrefix q => str_eqb p q
  | IdSubstr p, IdSubstr q => str_eqb p q
  | _, _ => false
  end.

(* str::starts_with / str::contains (on UTF-8 text a byte-wise match is a
   code-point-wise match) *)
Fixpoint starts_with (p name : str) : bool :=
  match p, name with
  | [], _ => true
  | _ :: _, [] => false
  | a :: p, b :: name => N.eqb a b && starts_with p name
  end.

Fixpoint str_contains (p name : str) : bool :=
  starts_with p name ||
  match name with
  | [] => false
  | _ :: name' => str_contains p name'
  end.

(* the inner fn find_one: first match, then "is there a second one" *)
Definition find_one (pred : job -> bool) (s : joblist) : fres :=
  match filter (fun p => pred (snd p)) (iter s) with
  | [] => NotFound
  | (i, _) :: [] => Found i
  | (i, _) :: _ :: _ => Ambiguous
  end.

Definition of_opt (o : option nat) : fres :=
  match o with Some i => Found i | None => NotFound end.

(* [N.to_nat] is only applied to numbers below the table size, so that the
   model stays executable on %18446744073709551615 *)
Definition find_job (s : joblist) (id : jobid) : fres :=
  match id with
  | IdCurrent => of_opt (current_job s)
  | IdPrevious => of_opt (previous_job s)
  | IdNumber n =>
      if N.eqb n 0 then NotFound
      else let k := N.pred n in
           if N.ltb k (N.of_nat (length (slots s))) then
             (if contains s (N.to_nat k) then Found (N.to_nat k) else NotFound)
           else NotFound
  | IdPrefix p => find_one (fun j => starts_with p (jname j)) s
  | IdSubstr p => find_one (fun j => str_contains p (jname j)) s
  end.

(* --- parse_tail: the text after the '%' --------------------------------- *)

Definition ch_percent : N := 37.
Definition ch_plus : N := 43.
Definition ch_minus : N := 45.
Definition ch_quest : N := 63.

Definition is_digit (c : N) : bool := N.leb 48 c && N.leb c 57.

(* usize::from_str: an optional '+', then one or more ASCII digits; fails on
   overflow of 64 bits.  [None] = Err. *)
Definition usize_limit : N := 18446744073709551616.

Fixpoint digits_value (acc : N) (l : str) : option N :=
  match l with
  | [] => Some acc
  | c :: l =>
      if is_digit c then
        let acc' := (acc * 10 + (c - 48))%N in
        if N.ltb acc' usize_limit then digits_value acc' l else None
      else None
  end.

Definition parse_usize (t : str) : option N :=
  let body := match t with c :: r => if N.eqb c ch_plus then r else t | [] => t end in
  match body with
  | [] => None
  | _ => digits_value 0 body
  end.

Definition parse_tail (t : str) : jobid :=
  if str_eqb t [] || str_eqb t [ch_percent] || str_eqb t [ch_plus] then IdCurrent
  else if str_eqb t [ch_minus] then IdPrevious
  else match t with
       | c :: r =>
           if N.eqb c ch_quest then IdSubstr r
           else match parse_usize t with
                | Some n => if N.eqb n 0 then IdPrefix t else IdNumber n
                | None => IdPrefix t
                end
       | [] => IdCurrent
       end.

(* ---- what the documentation says (Prop form) ------------------------------ *)

Definition name_matches (id : jobid) (j : job) : Prop :=
  match id with
  | IdPrefix p => exists r, jname j = p ++ r
  | IdSubstr p => exists a b, jname j = a ++ p ++ b
  | _ => False
  end.

(* [designates s id r]: r is what job ID [id] must resolve to in table [s] *)
Definition designates (s : joblist) (id : jobid) (r : fres) : Prop :=
  match id with
  | IdCurrent =>
      (* the current job; exists iff the table is non-empty *)
      (len s = 0 /\ r = NotFound) \/
      (len s >= 1 /\ r = Found (cur s) /\ exists j, get s (cur s) = Some j)
  | IdPrevious =>
      (* the previous job; exists iff there are two jobs; never the current job *)
      (len s <= 1 /\ r = NotFound) \/
      (len s >= 2 /\ r = Found (prev s) /\ prev s <> cur s /\ exists j, get s (prev s) = Some j)
  | IdNumber n =>
      (* the job whose number is n: numbers are slab indices + 1 *)
      (exists i j, n = N.of_nat (S i) /\ get s i = Some j /\ r = Found i) \/
      ((forall i j, get s i = Some j -> n <> N.of_nat (S i)) /\ r = NotFound)
  | IdPrefix _ | IdSubstr _ =>
      (* the unique job whose name matches, or an error *)
      (exists i j, get s i = Some j /\ name_matches id j /\ r = Found i /\
                   forall i' j', get s i' = Some j' -> name_matches id j' -> i' = i) \/
      ((forall i j, get s i = Some j -> ~ name_matches id j) /\ r = NotFound) \/
      ((exists i1 i2 j1 j2, i1 <> i2 /\ get s i1 = Some j1 /\ get s i2 = Some j2 /\
                            name_matches id j1 /\ name_matches id j2) /\ r = Ambiguous)
  end.

(* ---- observations and the boolean oracle ----------------------------- *)

(* iter(): pid, state, state_changed, is_owned, name *)
Definition view := (Z * pstate * bool * bool * str)%type.

Record obs := mkObs {
  o_jobs : list (nat * view);                        (* iter(): index, view *)
  o_cur : option nat;                                (* current_job() *)
  o_prev : option nat;                               (* previous_job() *)
  o_find : list (Z * option nat);                    (* find_by_pid(p) for the pids in play *)
  o_ids : list (str * jobid * fres)                  (* tail, parse_tail(tail), .find(jobs) *)
}.

Definition job_view (j : job) : view :=
  (jpid j, jstate j, jchanged j, jowned j, jname j).

Definition observe (pids : list Z) (ids : list str) (s : joblist) : obs :=
  mkObs (map (fun p => (fst p, job_view (snd p))) (iter s))
        (current_job s) (previous_job s)
        (map (fun p => (p, find_by_pid s p)) pids)
        (map (fun t => (t, parse_tail t, find_job s (parse_tail t))) ids).

(* monomorphic constructors for the terms the harness prints (no implicit
   arguments to infer: the case files type-check several times faster) *)
Definition jv (i : nat) (p : Z) (st : pstate) (c o : bool) (n : str) : nat * view :=
  (i, (p, st, c, o, n)).
Definition fz (p : Z) (r : option nat) : Z * option nat := (p, r).
Definition ir (t : str) (id : jobid) (r : fres) : str * jobid * fres := (t, id, r).

Definition view_eqb (a b : view) : bool :=
  match a, b with
  | (p1, s1, c1, w1, n1), (p2, s2, c2, w2, n2) =>
      Z.eqb p1 p2 && pstate_eqb s1 s2 && Bool.eqb c1 c2 && Bool.eqb w1 w2 && str_eqb n1 n2
  end.

Definition idres_eqb (a b : str * jobid * fres) : bool :=
  match a, b with
  | (t1, i1, r1), (t2, i2, r2) => str_eqb t1 t2 && jobid_eqb i1 i2 && fres_eqb r1 r2
  end.

Definition obs_eqb (a b : obs) : bool :=
  list_eqb (pair_eqb Nat.eqb view_eqb) (o_jobs a) (o_jobs b)
  && option_eqb Nat.eqb (o_cur a) (o_cur b)
  && option_eqb Nat.eqb (o_prev a) (o_prev b)
  && list_eqb (pair_eqb Z.eqb (option_eqb Nat.eqb)) (o_find a) (o_find b)
  && list_eqb idres_eqb (o_ids a) (o_ids b).

Definition v_pid (v : view) : Z := match v with (p, _, _, _, _) => p end.
Definition v_state (v : view) : pstate := match v with (_, s, _, _, _) => s end.
Definition v_changed (v : view) : bool := match v with (_, _, c, _, _) => c end.
Definition v_name (v : view) : str := match v with (_, _, _, _, n) => n end.

Definition lookup_idx (o : obs) (i : nat) : option view :=
  match filter (fun p => Nat.eqb (fst p) i) (o_jobs o) with
  | (_, v) :: _ => Some v
  | [] => None
  end.

Definition idx_susp (o : obs) (i : nat) : bool :=
  match lookup_idx o i with Some v => is_stopped (v_state v) | None => false end.

Fixpoint nodupb {A} (eqb : A -> A -> bool) (l : list A) : bool :=
  match l with
  | [] => true
  | x :: l => negb (existsb (eqb x) l) && nodupb eqb l
  end.

(* --- the oracle for job IDs: written over the observed table, and with the
   name tests written differently from the model's ---------------------- *)

Definition o_prefix (p name : str) : bool :=
  str_eqb p (firstn (length p) name).

Definition o_substr (p name : str) : bool :=
  existsb (fun k => o_prefix p (skipn k name)) (seq 0 (S (length name))).

(* what [id] must resolve to according to the observed table *)
Definition resolve_obs (o : obs) (id : jobid) : fres :=
  let by_name (f : str -> bool) :=
    match map fst (filter (fun p => f (v_name (snd p))) (o_jobs o)) with
    | [] => NotFound
    | [i] => Found i
    | _ => Ambiguous
    end in
  match id with
  | IdCurrent => of_opt (o_cur o)
  | IdPrevious => of_opt (o_prev o)
  | IdNumber n =>
      match filter (fun p => N.eqb (N.of_nat (S (fst p))) n) (o_jobs o) with
      | (i, _) :: _ => Found i
      | [] => NotFound
      end
  | IdPrefix p => by_name (o_prefix p)
  | IdSubstr p => by_name (o_substr p)
  end.

(* what the text after '%' means, as a relation (boolean): checked on what the
   real parse_tail returned *)
Definition all_digits (l : str) : bool := forallb is_digit l.

Definition dec_value (l : str) : N :=
  fold_left (fun acc c => (acc * 10 + (c - 48))%N) l 0%N.

Definition strip_plus (t : str) : str :=
  match t with c :: r => if N.eqb c ch_plus then r else t | [] => t end.

Definition is_number_text (t : str) : bool :=
  let b := strip_plus t in
  negb (str_eqb b []) && all_digits b && N.ltb 0 (dec_value b) && N.ltb (dec_value b) usize_limit.

Definition special_tail (t : str) : bool :=
  str_eqb t [] || str_eqb t [ch_percent] || str_eqb t [ch_plus] || str_eqb t [ch_minus].

Definition parse_rel (t : str) (id : jobid) : bool :=
  match id with
  | IdCurrent => str_eqb t [] || str_eqb t [ch_percent] || str_eqb t [ch_plus]
  | IdPrevious => str_eqb t [ch_minus]
  | IdSubstr p => negb (special_tail t) && str_eqb t (ch_quest :: p)
  | IdNumber n =>
      negb (special_tail t) && negb (starts_with [ch_quest] t) &&
      is_number_text t && N.eqb n (dec_value (strip_plus t))
  | IdPrefix p =>
      negb (special_tail t) && negb (starts_with [ch_quest] t) &&
      negb (is_number_text t) && str_eqb p t
  end.

(* clause k of the oracle failing gives verdict 2+k *)
Definition inv_obs_clauses (o : obs) : list bool :=
  let n := length (o_jobs o) in
  let nsusp := length (filter (fun p => is_stopped (v_state (snd p))) (o_jobs o)) in
  [ (* 0: non-empty => current job exists *)
    (Nat.eqb n 0) || match o_cur o with Some c => match lookup_idx o c with Some _ => true | None => false end | None => false end;
    (* 1: >= 2 jobs => previous exists, distinct *)
    (Nat.ltb n 2) || match o_prev o, o_cur o with
                     | Some p, Some c => negb (Nat.eqb p c) && match lookup_idx o p with Some _ => true | None => false end
                     | _, _ => false end;
    (* 2: suspended jobs exist => current is suspended *)
    (Nat.eqb nsusp 0) || match o_cur o with Some c => idx_susp o c | None => false end;
    (* 3: >= 2 suspended => previous is suspended *)
    (Nat.ltb nsusp 2) || match o_prev o with Some p => idx_susp o p | None => false end;
    (* 4: pids pairwise distinct, indices pairwise distinct *)
    nodupb Z.eqb (map (fun p => v_pid (snd p)) (o_jobs o)) && nodupb Nat.eqb (map fst (o_jobs o));
    (* 5: find_by_pid is the inverse of the table on the pids asked *)
    forallb (fun q => option_eqb Nat.eqb (snd q)
                        (match filter (fun p => Z.eqb (v_pid (snd p)) (fst q)) (o_jobs o) with
                         | (i, _) :: _ => Some i | [] => None end)) (o_find o);
    (* 6: % %% %+ resolve to the current job, %- to the previous job, %n to the
       job with index n-1, %name / %?name to the unique job whose name matches
       (NotFound / Ambiguous otherwise) *)
    forallb (fun q => match q with (_, id, r) => fres_eqb r (resolve_obs o id) end) (o_ids o);
    (* 7: a previous job is never reported without a current one or equal to it *)
    match o_prev o, o_cur o with
    | Some p, Some c => negb (Nat.eqb p c)
    | Some _, None => false
    | None, _ => true end;
    (* 8: (code 10 is raised by [stable_obs]) *)
    true;
    (* 9: the text after '%' was parsed as documented *)
    forallb (fun q => match q with (t, id, _) => parse_rel t id end) (o_ids o)
  ].

Fixpoint first_false (k : N) (l : list bool) : option N :=
  match l with
  | [] => None
  | true :: l => first_false (N.succ k) l
  | false :: _ => Some k
  end.

Definition inv_obs (o : obs) : bool :=
  match first_false 0 (inv_obs_clauses o) with None => true | Some _ => false end.

(* clause 8: a job's number never changes while the job exists.  [before] and
   [after] are observations around one operation; [reused] is the pid the
   operation (re)inserts, if any. *)
Definition stable_obs (reused : option Z) (before after : obs) : bool :=
  forallb (fun p =>
    let pid := v_pid (snd p) in
    match reused with
    | Some r => Z.eqb r pid
    | None => false
    end ||
    match filter (fun q => Z.eqb (v_pid (snd q)) pid) (o_jobs after) with
    | (i', _) :: _ => Nat.eqb i' (fst p)
    | [] => true
    end) (o_jobs before).

(* ---- histories ---------------------------------------------------------- *)

Fixpoint ops_ok (s : joblist) (ops : list op) : bool :=
  match ops with
  | [] => true
  | o :: ops => op_ok s o && ops_ok (step s o) ops
  end.

(* Rust panic sites reached by an operation (indexing a vacant slab slot,
   `set_current_job(index).unwrap()` on an error). *)
Definition step_panics (s : joblist) (o : op) : bool :=
  match o with
  | OInsert pid st name => insert_panics s (new_job pid st name)
  | OUpdate pid _ => update_panics s pid
  | _ => false
  end.
