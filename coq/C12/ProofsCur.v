(* C12 — the current/previous-job rules on an abstract table.

   The four "current job" clauses of [Inv] only look at, for every index,
   whether a job is there and whether it is suspended: a function
   [nat -> option bool].  Every operation of the job list changes that view at
   one index at most ([upd]).  This file proves, once and for all, how the
   pair (current, previous) chosen by each branch of the code keeps the
   clauses; the other Proofs files only connect the concrete list functions to
   these statements. *)
From Coq Require Import List Arith Lia Bool.

Definition CI (g : nat -> option bool) (c p : nat) : Prop :=
  (forall i, g i <> None -> g c <> None) /\
  (forall i1 i2, i1 <> i2 -> g i1 <> None -> g i2 <> None -> p <> c /\ g p <> None) /\
  (forall i, g i = Some true -> g c = Some true) /\
  (forall i1 i2, i1 <> i2 -> g i1 = Some true -> g i2 = Some true -> g p = Some true).

(* the clauses that mention the current job only *)
Definition CIc (g : nat -> option bool) (c : nat) : Prop :=
  (forall i, g i <> None -> g c <> None) /\
  (forall i, g i = Some true -> g c = Some true).

Definition upd (g g' : nat -> option bool) (k : nat) (v : option bool) : Prop :=
  g' k = v /\ forall i, i <> k -> g' i = g i.

(* what [any_suspended_job_but_current] / [any_job_but_current] return *)
Definition pick_susp (g : nat -> option bool) (c : nat) (r : option nat) : Prop :=
  match r with
  | Some i => i <> c /\ g i = Some true
  | None => forall i, i <> c -> g i <> Some true
  end.
Definition pick_any (g : nat -> option bool) (c : nat) (r : option nat) : Prop :=
  match r with
  | Some i => i <> c /\ g i <> None
  | None => forall i, i <> c -> g i = None
  end.

Ltac upd_norm g' k U1 U2 :=
  repeat match goal with
  | H : context [g' ?x] |- _ =>
      lazymatch x with k => fail | _ => idtac end;
      destruct (Nat.eq_dec x k) as [->|?]; [ | rewrite (U2 x) in * by assumption ]
  | |- context [g' ?x] =>
      lazymatch x with k => fail | _ => idtac end;
      destruct (Nat.eq_dec x k) as [->|?]; [ | rewrite (U2 x) in * by assumption ]
  end; rewrite ?U1 in *.

Ltac ci_start :=
  unfold CI, CIc, upd, pick_susp, pick_any in *;
  repeat match goal with
         | H : _ /\ _ |- _ => destruct H
         end.

Ltac ci_fin :=
  solve [timeout 60 (firstorder congruence)].

Ltac ci_solve g' k :=
  match goal with
  | U1 : g' k = _, U2 : forall i, i <> k -> g' i = _ |- _ =>
      repeat split; intros; upd_norm g' k U1 U2; ci_fin
  end.

Lemma CI_ext g g' c p : (forall i, g' i = g i) -> CI g c p -> CI g' c p.
Proof.
  intros E H. unfold CI in *. repeat setoid_rewrite E. exact H.
Qed.

Lemma CI_CIc g c p : CI g c p -> CIc g c.
Proof. unfold CI, CIc. tauto. Qed.

Lemma upd_same g g' k b : g k = Some b -> upd g g' k (Some b) -> forall i, g' i = g i.
Proof.
  intros G [U1 U2] i. destruct (Nat.eq_dec i k) as [->|N]; [congruence | auto].
Qed.

(* ---- insert ---------------------------------------------------------- *)

Lemma ci_ins_A g g' c p k b :
  CI g c p -> upd g g' k (Some b) -> g c = None -> CI g' k p.
Proof. intros. ci_start. ci_solve g' k. Qed.

Lemma ci_ins_Beq g g' c p b :
  CI g c p -> upd g g' c (Some b) -> g c = Some false -> CI g' c p.
Proof. intros. ci_start. ci_solve g' c. Qed.

Lemma ci_ins_Bne g g' c p k :
  CI g c p -> upd g g' k (Some true) -> g k <> Some true -> k <> c -> CI g' k c.
Proof. intros. ci_start. ci_solve g' k. Qed.

Lemma ci_ins_C g g' c p k :
  CI g c p -> upd g g' k (Some false) -> g c = Some false ->
  (p = c \/ g p = None) -> CI g' c k.
Proof. intros. ci_start. ci_solve g' k. Qed.

Lemma ci_ins_D g g' c p k :
  CI g c p -> upd g g' k (Some false) -> g c = Some false ->
  p <> c -> g p <> None -> CI g' c p.
Proof. intros. ci_start. ci_solve g' k. Qed.

Lemma ci_ins_E g g' c p k b :
  CI g c p -> upd g g' k (Some b) -> g c = Some true -> g k <> Some true ->
  (p = c \/ g p = None) -> CI g' c k.
Proof. intros. ci_start. ci_solve g' k. Qed.

Lemma ci_ins_F g g' c p k :
  CI g c p -> upd g g' k (Some true) -> g c = Some true -> g k <> Some true ->
  p <> c -> g p = Some false -> CI g' c k.
Proof. intros. ci_start. ci_solve g' k. Qed.

Lemma ci_ins_G g g' c p k :
  CI g c p -> upd g g' k (Some false) -> g c = Some true -> g k <> Some true ->
  p <> c -> g p = Some false -> CI g' c p.
Proof. intros. ci_start. ci_solve g' k. Qed.

Lemma ci_ins_H g g' c p k b :
  CI g c p -> upd g g' k (Some b) -> g c = Some true -> g k <> Some true ->
  p <> c -> g p = Some true -> CI g' c p.
Proof. intros. ci_start. ci_solve g' k. Qed.

(* ---- set_current_job ---------------------------------------------------- *)

Lemma ci_setcur g c p k b :
  CI g c p -> g k = Some b -> (b = true \/ forall i, g i <> Some true) ->
  k <> c -> CI g k c.
Proof.
  intros. ci_start. repeat split; intros; ci_fin.
Qed.

(* ---- choosing a new previous job ---------------------------------------- *)

Lemma ci_pick g c r1 r2 :
  CIc g c -> pick_susp g c r1 -> pick_any g c r2 ->
  CI g c (match r1 with
          | Some i => i
          | None => match r2 with Some i => i | None => 0 end
          end).
Proof.
  intros. ci_start. destruct r1 as [i1|]; [|destruct r2 as [i2|]];
    repeat split; intros; ci_fin.
Qed.

Lemma ci_pick_or g c r1 x :
  CIc g c -> pick_susp g c r1 -> x <> c -> g x <> None ->
  CI g c (match r1 with Some i => i | None => x end).
Proof.
  intros. ci_start. destruct r1 as [i1|];
    repeat split; intros; ci_fin.
Qed.

(* ---- remove -------------------------------------------------------------- *)

Lemma ci_rem_cur g g' c p k :
  CI g c p -> g k <> None -> upd g g' k None ->
  CIc g' (if Nat.eqb k c then p else c).
Proof.
  intros. ci_start. destruct (Nat.eqb_spec k c) as [->|N].
  - ci_solve g' c.
  - ci_solve g' k.
Qed.

Lemma ci_rem_keep g g' c p k :
  CI g c p -> upd g g' k None -> k <> c -> k <> p -> CI g' c p.
Proof. intros. ci_start. ci_solve g' k. Qed.

(* ---- update_status --------------------------------------------------------- *)

(* a suspended job [k] resumes or finishes *)
Lemma ci_res_none g g' c p k :
  CI g c p -> g k = Some true -> upd g g' k (Some false) ->
  (p = c \/ g' p = None) -> CI g' c p.
Proof. intros. ci_start. ci_solve g' k. Qed.

Lemma ci_res_cur_ps g g' c p :
  CI g c p -> g c = Some true -> upd g g' c (Some false) ->
  p <> c -> g' p = Some true -> CIc g' p /\ g' c <> None.
Proof. intros. ci_start. ci_solve g' c. Qed.

Lemma ci_res_cur_pn g g' c p :
  CI g c p -> g c = Some true -> upd g g' c (Some false) ->
  p <> c -> g' p <> Some true -> CI g' c p.
Proof. intros. ci_start. ci_solve g' c. Qed.

Lemma ci_res_prev g g' c p :
  CI g c p -> g p = Some true -> upd g g' p (Some false) ->
  p <> c -> CIc g' c /\ g' p <> None.
Proof. intros. ci_start. ci_solve g' p. Qed.

Lemma ci_res_other g g' c p k :
  CI g c p -> g k = Some true -> upd g g' k (Some false) ->
  k <> c -> k <> p -> CI g' c p.
Proof. intros. ci_start. ci_solve g' k. Qed.
