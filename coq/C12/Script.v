(* C12 — whole scripts on the simulated OS.

   A script is a sequence of commands (asynchronous lists, `jobs`, `wait %ID`,
   `kill -s SIG %ID`, `bg %ID`, `fg %ID`, `work N` = let virtual time pass);
   after each command the harness's `snap` built-in reads the real `env.jobs`
   through the JobList API (the same observation as at the API level), `$?`,
   `$!`, `last_async_pid()` and the system-level state of every child.

   [step_oracle]  what the documentation promises about each command, checked
                  on the implementation's snapshots and output only;
   [model_step]   the JobList model (Model.v) driven by the operations the
                  command induces: the status updates visible between the two
                  snapshots (in some order) around the command's own
                  operations. *)
From Yv Require Import Common.Base C12.Model C12.Spec.

Record snap := mkSnap {
  sn_obs : obs;                   (* env.jobs through the API *)
  sn_last : Z;                    (* env.jobs.last_async_pid() *)
  sn_bang : option Z;             (* `$!` as the shell expanded it (None = empty) *)
  sn_status : N;                  (* `$?` after the command *)
  sn_sys : list (Z * pstate)      (* state of every child process in the simulated OS *)
}.

(* one line of `jobs` output: [NUMBER] MARKER STATE NAME *)
Inductive lstate := LRunning | LStopped | LDone (st : N) | LKilled (core : bool).
Definition jline := (N * N * lstate * str)%type.   (* marker: 0 ' ', 1 '+', 2 '-' *)

Definition jl (n m : N) (st : lstate) (name : str) : jline := (n, m, st, name).
Definition sz (p : Z) (st : pstate) : Z * pstate := (p, st).
Definition bl (n : N) (name : str) : N * str := (n, name).

Inductive ksig := KStop | KCont | KTerm | KKill.

Inductive scmd :=
| SAsync (name : str) (status : N)        (* `NAME &`; the status NAME exits with *)
| SJobs (lines : list jline)              (* `jobs` *)
| SJobsId (tail : str) (lines : list jline)   (* `jobs %TAIL` *)
| SWait (tail : str)                      (* `wait %TAIL` *)
| SWaitAll                                (* `wait` *)
| SKill (sig : ksig) (tail : str)         (* `kill -s SIG %TAIL` *)
| SBg (tail : str) (out : list (N * str)) (* `bg %TAIL`, its output lines [N] NAME *)
| SFg (tail : str) (out : list str)       (* `fg %TAIL`, its output lines NAME *)
| SSleep (n : N).                         (* `work N` in the main shell *)

(* ---- helpers on observations ---------------------------------------------- *)

Definition zmem (p : Z) (l : list Z) : bool := existsb (Z.eqb p) l.

Definition obs_pids (o : obs) : list Z := map (fun p => v_pid (snd p)) (o_jobs o).

Definition gone (b a : obs) : list Z := filter (fun p => negb (zmem p (obs_pids a))) (obs_pids b).
Definition born (b a : obs) : list Z := filter (fun p => negb (zmem p (obs_pids b))) (obs_pids a).

Definition by_pid (o : obs) (p : Z) : option (nat * view) :=
  find (fun q => Z.eqb (v_pid (snd q)) p) (o_jobs o).

Definition sys_of (sn : snap) (p : Z) : option pstate :=
  match find (fun q => Z.eqb (fst q) p) (sn_sys sn) with Some (_, st) => Some st | None => None end.

Definition zlist_eqb : list Z -> list Z -> bool := list_eqb Z.eqb.

(* the ID the real parse_tail returned for this tail (clause 9 checks it) *)
Definition id_of_tail (o : obs) (tail : str) : option jobid :=
  match find (fun q => match q with (t, _, _) => str_eqb t tail end) (o_ids o) with
  | Some (_, id, _) => Some id
  | None => None
  end.

Definition lstate_matches (l : lstate) (st : pstate) : bool :=
  match l, st with
  | LRunning, Running => true
  | LStopped, Stopped _ => true
  | LDone n, Exited m => N.eqb n m
  | LKilled c, Signaled _ d => Bool.eqb c d
  | _, _ => false
  end.

Definition lstate_finished (l : lstate) : bool :=
  match l with LDone _ | LKilled _ => true | _ => false end.

Definition opt_matches (l : lstate) (o : option pstate) : bool :=
  match o with Some st => lstate_matches l st | None => false end.

Definition marker_of (o : obs) (i : nat) : N :=
  if option_eqb Nat.eqb (o_cur o) (Some i) then 1
  else if option_eqb Nat.eqb (o_prev o) (Some i) then 2 else 0.

(* a line of `jobs` against the entry (i, v) of the table before the command;
   [exact] = no status update can have happened in between *)
Definition line_ok (b a : snap) (exact : bool) (e : nat * view) (l : jline) : bool :=
  match l with
  | (num, mark, st, name) =>
      N.eqb num (N.of_nat (S (fst e)))
      && str_eqb name (v_name (snd e))
      && (lstate_matches st (v_state (snd e))
          || (negb exact && (opt_matches st (sys_of b (v_pid (snd e)))
                             || opt_matches st (sys_of a (v_pid (snd e))))))
      && (negb exact || N.eqb mark (marker_of (sn_obs b) (fst e)))
  end.

Fixpoint lines_ok (b a : snap) (exact : bool) (tbl : list (nat * view)) (ls : list jline) : bool :=
  match tbl, ls with
  | [], [] => true
  | e :: tbl, l :: ls => line_ok b a exact e l && lines_ok b a exact tbl ls
  | _, _ => false
  end.

(* nothing that the JobList does not know yet: table state = system state *)
Definition in_sync (sn : snap) : bool :=
  forallb (fun e => match sys_of sn (v_pid (snd e)) with
                    | Some st => pstate_eqb st (v_state (snd e))
                    | None => true end) (o_jobs (sn_obs sn)).

Definition finished_pids (tbl : list (nat * view)) (ls : list jline) : list Z :=
  map (fun q => v_pid (snd (fst q)))
      (filter (fun q => match snd q with (_, _, st, _) => lstate_finished st end) (combine tbl ls)).

(* every process other than [p] is in the same state before and after *)
Definition others_unchanged (b a : snap) (p : option Z) : bool :=
  forallb (fun q => match p with Some p => Z.eqb p (fst q) | None => false end
                    || option_eqb pstate_eqb (sys_of a (fst q)) (Some (snd q)))
          (sn_sys b).

(* ---- what the oracle remembers along a script ------------------------------- *)

Record sstate := mkSS {
  ss_bang : option Z;             (* pid of the most recent asynchronous job *)
  ss_status : list (Z * N);       (* pid -> exit status its command was written to return *)
  ss_killed : list Z              (* pids the script sent a terminating signal to *)
}.

Definition ss0 : sstate := mkSS None [] [].

Definition scripted (st : sstate) (p : Z) : option N :=
  match find (fun q => Z.eqb (fst q) p) (ss_status st) with Some (_, n) => Some n | None => None end.

Definition resolved (b : snap) (tail : str) : option fres :=
  match id_of_tail (sn_obs b) tail with
  | Some id => Some (resolve_obs (sn_obs b) id)
  | None => None
  end.

Definition target (b : snap) (tail : str) : option (nat * view) :=
  match resolved b tail with
  | Some (Found i) => match lookup_idx (sn_obs b) i with Some v => Some (i, v) | None => None end
  | _ => None
  end.

Definition next_state (st : sstate) (cmd : scmd) (b a : snap) : sstate :=
  match cmd with
  | SAsync _ status =>
      match born (sn_obs b) (sn_obs a) with
      | [p] => mkSS (Some p) ((p, status) :: ss_status st) (ss_killed st)
      | _ => st
      end
  | SBg tail _ =>
      match target b tail with
      | Some (_, v) => mkSS (Some (v_pid v)) (ss_status st) (ss_killed st)
      | None => st
      end
  | SKill sig tail =>
      match sig, target b tail with
      | (KTerm | KKill), Some (_, v) =>
          if is_alive (v_state v) then mkSS (ss_bang st) (ss_status st) (v_pid v :: ss_killed st)
          else st
      | _, _ => st
      end
  | _ => st
  end.

Fixpoint first_fail (l : list (bool * N)) : option N :=
  match l with
  | [] => None
  | (true, _) :: l => first_fail l
  | (false, c) :: _ => Some c
  end.

Definition status_ok (st : sstate) (p : Z) (status : N) : bool :=
  zmem p (ss_killed st) ||
  match scripted st p with Some n => N.eqb n status | None => true end.

Definition nil_z (l : list Z) : bool := match l with [] => true | _ => false end.

(* codes: 12 `$!`; 13 asynchronous job not recorded; 14 `jobs` output; 15 `jobs`
   did not remove exactly the finished jobs it reported; 16 `wait %ID`;
   17 `kill %ID`; 18 `bg`/`fg`; 19 a job appeared or vanished; 99 harness *)
Definition step_oracle (st : sstate) (cmd : scmd) (b a : snap) : option N :=
  let ob := sn_obs b in
  let oa := sn_obs a in
  let g := gone ob oa in
  let bn := born ob oa in
  let st' := next_state st cmd b a in
  let bang_ok :=
    option_eqb Z.eqb (sn_bang a) (ss_bang st')
    && Z.eqb (sn_last a) (match ss_bang st' with Some p => p | None => 0%Z end) in
  let specific :=
    match cmd with
    | SAsync name _ =>
        [ (nil_z g, 19%N);
          (match bn with
           | [p] => match by_pid oa p with
                    | Some (_, v) => str_eqb (v_name v) name && negb (is_stopped (v_state v))
                    | None => false end
           | _ => false end, 13%N);
          (N.eqb (sn_status a) 0, 13%N) ]
    | SJobs lines =>
        let exact := in_sync b in
        [ (nil_z bn, 19%N);
          (lines_ok b a exact (o_jobs ob) lines && N.eqb (sn_status a) 0, 14%N);
          (zlist_eqb g (finished_pids (o_jobs ob) lines), 15%N);
          (forallb (fun e => negb (v_changed (snd e))) (o_jobs oa), 15%N) ]
    | SJobsId tail lines =>
        match resolved b tail with
        | None => [ (false, 99%N) ]
        | Some (Found i) =>
            let tbl := filter (fun e => Nat.eqb (fst e) i) (o_jobs ob) in
            [ (nil_z bn, 19%N);
              (lines_ok b a (in_sync b) tbl lines && N.eqb (sn_status a) 0, 14%N);
              (zlist_eqb g (finished_pids tbl lines), 15%N) ]
        | Some _ =>
            [ (nil_z bn && nil_z g, 19%N);
              (match lines with [] => true | _ => false end && negb (N.eqb (sn_status a) 0), 14%N) ]
        end
    | SWait tail =>
        match resolved b tail with
        | None => [ (false, 99%N) ]
        | Some (Found i) =>
            match lookup_idx ob i with
            | None => [ (false, 16%N) ]
            | Some v =>
                [ (nil_z bn, 19%N);
                  (zlist_eqb g [v_pid v], 16%N);
                  (status_ok st (v_pid v) (sn_status a), 16%N) ]
            end
        | Some NotFound =>
            [ (nil_z bn && nil_z g, 19%N); (N.eqb (sn_status a) 127, 16%N) ]
        | Some Ambiguous =>
            [ (nil_z bn && nil_z g, 19%N); (negb (N.eqb (sn_status a) 0), 16%N) ]
        end
    | SWaitAll =>
        [ (nil_z bn, 19%N);
          (match o_jobs oa with [] => true | _ => false end && N.eqb (sn_status a) 0, 16%N) ]
    | SKill sig tail =>
        match resolved b tail with
        | None => [ (false, 99%N) ]
        | Some r =>
            let hit :=
              match r with
              | Found i => match lookup_idx ob i with
                           | Some v => if is_alive (v_state v) then Some (v_pid v) else None
                           | None => None end
              | _ => None
              end in
            [ (nil_z bn && nil_z g, 19%N);
              (others_unchanged b a hit, 17%N);
              (match hit with
               | Some p =>
                   N.eqb (sn_status a) 0 &&
                   match sys_of b p, sys_of a p with
                   | Some sb, Some sa =>
                       match sig with
                       | KStop => if is_alive sb then is_stopped sa else pstate_eqb sa sb
                       | KCont => if is_stopped sb then negb (is_stopped sa) else true
                       | KTerm | KKill =>
                           if is_alive sb then match sa with Signaled _ _ => true | _ => false end
                           else pstate_eqb sa sb
                       end
                   | _, _ => false
                   end
               | None => negb (N.eqb (sn_status a) 0)
               end, 17%N) ]
        end
    | SBg tail out =>
        match resolved b tail with
        | None => [ (false, 99%N) ]
        | Some (Found i) =>
            match lookup_idx ob i with
            | None => [ (false, 18%N) ]
            | Some v =>
                [ (nil_z bn && nil_z g, 19%N);
                  (match out with
                   | [(n, name)] => N.eqb n (N.of_nat (S i)) && str_eqb name (v_name v)
                   | _ => false end && N.eqb (sn_status a) 0, 18%N);
                  (others_unchanged b a (Some (v_pid v)), 18%N);
                  (match sys_of b (v_pid v), sys_of a (v_pid v) with
                   | Some sb, Some sa => if is_stopped sb then negb (is_stopped sa) else true
                   | _, _ => false end, 18%N) ]
            end
        | Some _ =>
            [ (nil_z bn && nil_z g, 19%N);
              (match out with [] => true | _ => false end && negb (N.eqb (sn_status a) 0), 18%N);
              (others_unchanged b a None, 18%N) ]
        end
    | SFg tail out =>
        match resolved b tail with
        | None => [ (false, 99%N) ]
        | Some (Found i) =>
            match lookup_idx ob i with
            | None => [ (false, 18%N) ]
            | Some v =>
                [ (nil_z bn, 19%N);
                  (match out with [name] => str_eqb name (v_name v) | _ => false end, 18%N);
                  ((zlist_eqb g [v_pid v] && status_ok st (v_pid v) (sn_status a))
                   || (nil_z g && match by_pid oa (v_pid v) with
                                  | Some (_, v') => is_stopped (v_state v')
                                  | None => false end), 18%N) ]
            end
        | Some _ =>
            [ (nil_z bn && nil_z g, 19%N);
              (match out with [] => true | _ => false end && negb (N.eqb (sn_status a) 0), 18%N) ]
        end
    | SSleep _ =>
        [ (nil_z bn && nil_z g, 19%N); (N.eqb (sn_status a) 0, 19%N) ]
    end in
  first_fail (specific ++ [ (bang_ok, 12%N) ]).

(* ---- the model side ---------------------------------------------------------- *)

(* status updates visible between two snapshots: a job's state differs, or it
   vanished and the system says what became of it, or only its state_changed
   flag went up *)
Definition updates (b a : snap) : list op :=
  flat_map (fun e =>
    let v := snd e in
    let p := v_pid v in
    match by_pid (sn_obs a) p with
    | Some (_, v') =>
        if negb (pstate_eqb (v_state v') (v_state v))
           || (negb (v_changed v) && v_changed v')
        then [OUpdate p (v_state v')] else []
    | None =>
        match sys_of a p with
        | Some st => if pstate_eqb st (v_state v) then [] else [OUpdate p st]
        | None => []
        end
    end) (o_jobs (sn_obs b)).

Fixpoint ins_all {A} (x : A) (l : list A) : list (list A) :=
  match l with
  | [] => [[x]]
  | y :: l' => (x :: l) :: map (cons y) (ins_all x l')
  end.

Fixpoint perms {A} (l : list A) : list (list A) :=
  match l with
  | [] => [[]]
  | x :: l => flat_map (ins_all x) (perms l)
  end.

Definition report_one (s : joblist) (i : nat) : joblist :=
  match get s i with
  | Some j => if is_alive (jstate j) then state_reported s i else fst (remove s i)
  | None => s
  end.

Definition finished_at (s : joblist) (i : nat) : bool :=
  match get s i with Some j => negb (is_alive (jstate j)) | None => false end.

(* the command's own operations on the job list.  [tgt] is what the command's
   job-ID operand resolved to when the command started (the built-ins resolve
   first and act on the index later: `fg` removes the job it resumed even if
   the current job has changed meanwhile) *)
Definition structural (cmd : scmd) (a : snap) (tgt : fres) (s : joblist) : joblist :=
  match cmd with
  | SAsync name _ =>
      match sn_bang a with
      | Some p => let '(s1, idx) := insert s (new_job p Running name) in state_reported s1 idx
      | None => s
      end
  | SJobs _ => fold_left report_one (map fst (iter s)) s
  | SJobsId _ _ =>
      match tgt with Found i => report_one s i | _ => s end
  | SWait _ | SFg _ _ =>
      match tgt with
      | Found i => if finished_at s i then fst (remove s i) else s
      | _ => s
      end
  | SWaitAll => remove_if (fun _ j => negb (is_alive (jstate j))) s
  | SKill _ _ => s
  | SBg _ _ =>
      match tgt with
      | Found i =>
          match get s i with
          | Some j =>
              let s1 := if is_alive (jstate j) then expect s i (Some Running) else s in
              fst (set_current_job s1 i)
          | None => s
          end
      | _ => s
      end
  | SSleep _ => s
  end.

Definition cmd_tail (cmd : scmd) : option str :=
  match cmd with
  | SJobsId t _ | SWait t | SKill _ t | SBg t _ | SFg t _ => Some t
  | _ => None
  end.

(* JobId::find on the model, at the start of the command *)
Definition model_target (cmd : scmd) (s : joblist) : fres :=
  match cmd_tail cmd with
  | Some t => find_job s (parse_tail t)
  | None => NotFound
  end.

Definition async_ok (cmd : scmd) (a : snap) (s : joblist) : bool :=
  match cmd, sn_bang a with
  | SAsync name _, Some p => op_ok s (OInsert p Running name)
  | _, _ => true
  end.

Fixpoint try_splits (pids : list Z) (ids : list str) (cmd : scmd) (a : snap) (tgt : fres)
    (s : joblist) (todo : list op) (fuel : nat) : option joblist :=
  (* structural part here, the remaining updates after it *)
  let s' := fold_left step todo (structural cmd a tgt s) in
  if async_ok cmd a s && obs_eqb (observe pids ids s') (sn_obs a) then Some s'
  else match fuel, todo with
       | S fuel, u :: todo' => try_splits pids ids cmd a tgt (step s u) todo' fuel
       | _, _ => None
       end.

Fixpoint first_some {A B} (f : A -> option B) (l : list A) : option B :=
  match l with
  | [] => None
  | x :: l => match f x with Some y => Some y | None => first_some f l end
  end.

Definition model_step (pids : list Z) (ids : list str) (s : joblist) (cmd : scmd)
    (b a : snap) : option joblist :=
  let u := updates b a in
  let tgt := model_target cmd s in
  first_some (fun p => try_splits pids ids cmd a tgt s p (length p)) (perms u).
