(* C01 — what the correspondence check evaluates on every case. *)
From Yv Require Export Common.Base C01.Model C01.Spec.

Inductive case :=
(* char::is_whitespace over all code points, as inclusive ranges *)
| CWs (impl_ranges : list (N * N))
(* Ifs::new(ifs).ranges(chars).collect() and split(chars, ifs); None = panic *)
| CSplit (ifs_chars : str) (chars : field) (out : option (list (nat * nat) * list field))
(* a.append(&mut b): the new a, and b.is_zero_fields(); None = panic *)
| CPhrase (a b : phrase) (out : option (phrase * bool))
(* p.ifs_join(vars) where IFS is unset / has the given value *)
| CJoin (p : phrase) (ifs_value : option varval) (out : option field)
(* commands [args w...] run one after the other in environment e, through
   expand_words (api = true) or as a script in the virtual shell (api =
   false): the fields of the commands that ran, and how it ended:
   None = all ran; Some k = the next command failed in expansion with
   1 unset parameter (nounset), 2 vacant expansion (?), 3 not assignable,
   0 unknown kind (script mode), 100 = Rust panic, other = other error *)
(* read::assigning::assign on an attributed text with n+1 variables: their
   values; None = panic *)
| CReadAssign (ifs_value : option str) (text : field) (n : nat) (out : option (list str))
(* the script [read [-r] v0 .. vn] on a standard input: values of the
   variables and exit status of read; None = panic / hang *)
| CReadLine (ifs_value : option str) (is_raw : bool) (input : str) (n : nat)
            (out : option (list str * N))
(* expand_word (single-field mode, as for assignment values) of one word:
   inl value, or inr error kind (as for CWords; 100 = panic) *)
| CSingle (e : env) (w : word) (out : str + N)
(* expand_text (here-document bodies) of one text: inl value or inr error kind *)
| CText (e : env) (t : text) (out : str + N)
| CWords (api : bool) (e : env) (cmds : list (list word))
         (out : list (list str)) (stop : option N).

Definition range_eqb (a b : nat * nat) : bool := pair_eqb Nat.eqb Nat.eqb a b.
Definition nrange_eqb (a b : N * N) : bool := pair_eqb N.eqb N.eqb a b.

Definition stop_eqb (model : option error) (impl : option N) : bool :=
  match model, impl with
  | None, None => true
  | Some k, Some c => N.eqb c 0 || N.eqb c (kind_code k)
  | _, _ => false
  end.

Definition strs_eqb : list str -> list str -> bool := list_eqb str_eqb.

Definition run_case (c : case) : verdict :=
  match c with
  | CWs rs => if list_eqb nrange_eqb rs ws_ranges then 0%N else 1%N
  | CSplit ic chars out =>
      match out with
      | None => 3%N
      | Some (rs, fs) =>
          if negb (split_oracle rust_is_ws ic chars fs) then 2%N
          else
            let i := ifs_new rust_is_ws ic in
            if list_eqb range_eqb (ranges i chars) rs && fields_eqb (split i chars) fs
               && negb (split_panics i chars)
            then 0%N else 1%N
      end
  | CPhrase a b out =>
      match out with
      | None => 3%N
      | Some (r, z) =>
          if negb (fields_eqb (phrase_fields r) (glue (phrase_fields a) (phrase_fields b)) && z)
          then 11%N
          else if phrase_eqb (append a b) r then 0%N else 1%N
      end
  | CJoin p iv out =>
      match out with
      | None => 3%N
      | Some f =>
          if negb (field_eqb f (join_with (separator_list iv) (phrase_fields p))) then 12%N
          else if field_eqb (ifs_join p iv) f then 0%N else 1%N
      end
  | CReadAssign iv text n out =>
      match out with
      | None => 3%N
      | Some vs =>
          if negb (read_oracle rust_is_ws iv text n vs) then 9%N
          else
            match read_assign (read_ifs rust_is_ws iv) text n with
            | Some vs' => if strs_eqb vs' vs then 0%N else 1%N
            | None => 1%N
            end
      end
  | CReadLine iv raw input n out =>
      match out with
      | None => 3%N
      | Some (vs, st) =>
          let (text, nl) := read_input raw input in
          if negb (read_oracle rust_is_ws iv text n vs) then 9%N
          else if negb (N.eqb st (if nl then 0 else 1)) then 10%N
          else
            match read_builtin rust_is_ws iv raw input n with
            | Some (vs', st') => if strs_eqb vs' vs && N.eqb st' st then 0%N else 1%N
            | None => 1%N
            end
      end
  | CSingle e w out =>
      match out with
      | inr 100%N => 3%N
      | _ =>
          let oracle : N :=
            match spec_word_single w e, out with
            | SUnspec, _ => 0
            | SOk v _, inl v' => if str_eqb v v' then 0 else 13
            | SOk _ _, inr _ => 5
            | SErr k, inr c => if N.eqb c (kind_code k) then 0 else 7
            | SErr _, inl _ => 6
            end%N in
          match oracle with
          | 0%N =>
              match expand_word_single w e, out with
              | Err EDomain, _ => 99%N
              | Ok v _, inl v' => if str_eqb v v' then 0%N else 1%N
              | Err k, inr c => if N.eqb c (kind_code k) then 0%N else 1%N
              | _, _ => 1%N
              end
          | k => k
          end
      end
  | CText e t out =>
      match out with
      | inr 100%N => 3%N
      | _ =>
          let oracle : N :=
            match spec_text_single t e, out with
            | SUnspec, _ => 0
            | SOk v _, inl v' => if str_eqb v v' then 0 else 14
            | SOk _ _, inr _ => 5
            | SErr k, inr c => if N.eqb c (kind_code k) then 0 else 7
            | SErr _, inl _ => 6
            end%N in
          match oracle with
          | 0%N =>
              match expand_text_single t e, out with
              | Err EDomain, _ => 99%N
              | Ok v _, inl v' => if str_eqb v v' then 0%N else 1%N
              | Err k, inr c => if N.eqb c (kind_code k) then 0%N else 1%N
              | _, _ => 1%N
              end
          | k => k
          end
      end
  | CWords api e cmds out stop =>
      match stop with
      | Some 100%N => 3%N
      | _ =>
          match words_oracle rust_is_ws cmds e out stop with
          | 0%N =>
              let (o, s) := run_cmds rust_is_ws cmds e in
              match s with
              | Some EDomain => 99%N
              | _ => if list_eqb strs_eqb o out && stop_eqb s stop then 0%N else 1%N
              end
          | k => k
          end
      end
  end.

Definition run_cases := run_cases_with run_case.
