(* C01 — the model of the whole word expansion refines the specification:
   wherever the specification defines the result (fields or error), the model
   produces exactly that. *)
From Yv Require Import Common.Base C01.Model C01.Spec C01.ProofsSplit C01.ProofsPhrase C01.ProofsParam.

(* ---- abstraction: attributed characters -> tokens ------------------------ *)

Definition abs (c : attrchar) : tok :=
  if is_quoting c then TQ
  else match origin_of c with
       | HardExpansion => TH (value c) (is_quoted c)
       | Literal => TC (value c) (is_quoted c) false
       | SoftExpansion => TC (value c) (is_quoted c) true
       end.

Definition abs_field (f : field) : pfield := map abs f.
Definition abs_phrase (p : phrase) : list pfield := map abs_field (phrase_fields p).

(* Vestigial side condition of the lemmas below: before tilde results became
   tokens of their own ([TH]) it excluded characters of hard-expansion origin;
   now every character qualifies. *)
Definition nh (c : attrchar) : bool := true.
Definition nh_phrase (p : phrase) : Prop := forallb (forallb nh) (phrase_fields p) = true.

Lemma nh_trivial p : nh_phrase p.
Proof.
  unfold nh_phrase. induction (phrase_fields p) as [|f fs IH]; [reflexivity|].
  cbn [forallb]. rewrite IH, andb_true_r. induction f; [reflexivity|assumption].
Qed.

(* ---- generic list lemmas ------------------------------------------------------ *)

Lemma forallb_concat {A} (p : A -> bool) (l : list (list A)) :
  forallb p (concat l) = forallb (forallb p) l.
Proof.
  induction l as [|x l IH]; [reflexivity|]. cbn. rewrite forallb_app, IH. reflexivity.
Qed.

Lemma glue_r_map {A B} (g : A -> B) (a b : list (list A)) :
  map (map g) (glue_r a b) = glue_r (map (map g) a) (map (map g) b).
Proof.
  induction a as [|x a IH]; [reflexivity|].
  destruct a as [|y a].
  - destruct b as [|z b]; cbn; [reflexivity|]. rewrite map_app. reflexivity.
  - change (map g x :: map (map g) (glue_r (y :: a) b)
            = map g x :: glue_r (map (map g) (y :: a)) (map (map g) b)).
    rewrite IH. reflexivity.
Qed.

Lemma glue_map {A B} (g : A -> B) (a b : list (list A)) :
  map (map g) (glue a b) = glue (map (map g) a) (map (map g) b).
Proof. rewrite !glue_eq_glue_r. apply glue_r_map. Qed.

Lemma join_with_map {A B} (g : A -> B) (sep : list A) (l : list (list A)) :
  map g (join_with sep l) = join_with (map g sep) (map (map g) l).
Proof.
  destruct l as [|f r]; [reflexivity|]. cbn [join_with map]. rewrite map_app. f_equal.
  induction r as [|h r IH]; [reflexivity|]. cbn. rewrite !map_app, IH. reflexivity.
Qed.

(* ---- abstraction commutes with the phrase operations ---------------------------- *)

Lemma abs_append a b : abs_phrase (append a b) = glue (abs_phrase a) (abs_phrase b).
Proof.
  unfold abs_phrase. rewrite phrase_append_refines_concat_lemma. apply glue_map.
Qed.

Lemma nh_append a b : nh_phrase a -> nh_phrase b -> nh_phrase (append a b).
Proof.
  unfold nh_phrase. intros Ha Hb. rewrite phrase_append_refines_concat_lemma.
  rewrite <- forallb_concat in *. rewrite glue_concat_lemma, forallb_app, Ha, Hb. reflexivity.
Qed.

Lemma abs_set_quoted c : abs (set_quoted c) = tok_quote (abs c).
Proof. unfold abs, set_quoted; cbn. destruct (is_quoting c), (origin_of c); reflexivity. Qed.

Lemma abs_quote_field f : abs_field (quote_field f) = quote_pfield (abs_field f).
Proof.
  unfold abs_field, quote_field, quote_pfield. cbn [map]. rewrite map_app, !map_map. cbn.
  f_equal. f_equal. apply map_ext. intros; apply abs_set_quoted.
Qed.

Lemma abs_double_quote p : abs_phrase (double_quote p) = map quote_pfield (abs_phrase p).
Proof.
  destruct p as [c|f|fs]; unfold abs_phrase; cbn [double_quote phrase_fields map].
  - change [DOUBLE_QUOTE; set_quoted c; DOUBLE_QUOTE] with (quote_field [c]).
    rewrite abs_quote_field. reflexivity.
  - rewrite abs_quote_field. reflexivity.
  - rewrite !map_map. apply map_ext. intros; apply abs_quote_field.
Qed.

Lemma nh_quote_field f : forallb nh f = true -> forallb nh (quote_field f) = true.
Proof.
  intros H. unfold quote_field. cbn. rewrite forallb_app. cbn. rewrite andb_true_r.
  rewrite forallb_forall in *. intros x Hx. apply in_map_iff in Hx as [y [<- Hy]].
  apply (H y Hy).
Qed.

Lemma nh_double_quote p : nh_phrase p -> nh_phrase (double_quote p).
Proof.
  unfold nh_phrase. destruct p as [c|f|fs]; cbn [double_quote phrase_fields].
  - intros H. change [DOUBLE_QUOTE; set_quoted c; DOUBLE_QUOTE] with (quote_field [c]).
    cbn [forallb] in *. rewrite andb_true_r in *. apply nh_quote_field. exact H.
  - cbn [forallb]. rewrite !andb_true_r. apply nh_quote_field.
  - induction fs as [|f fs IH]; [reflexivity|]. cbn [map forallb]. intros H.
    apply andb_true_iff in H as [H1 H2]. rewrite nh_quote_field, IH; auto.
Qed.

Lemma abs_attribute_char c : nh c = true -> abs (attribute_char c) = tok_expanded (abs c).
Proof.
  intros _. unfold abs, attribute_char. destruct c as [v o q g]; cbn.
  destruct o, g; cbn; reflexivity.
Qed.

Lemma nh_attribute_char c : nh c = true -> nh (attribute_char c) = true.
Proof. reflexivity. Qed.

Lemma abs_attribute p :
  nh_phrase p -> abs_phrase (attribute p) = map (map tok_expanded) (abs_phrase p).
Proof.
  unfold nh_phrase, abs_phrase, attribute, abs_field.
  assert (F : forall f, forallb nh f = true ->
                        map abs (map attribute_char f) = map tok_expanded (map abs f)).
  { intros f H. rewrite !map_map. apply map_ext_in. intros c Hc.
    apply abs_attribute_char. rewrite forallb_forall in H. auto. }
  destruct p as [c|f|fs]; cbn [phrase_map phrase_fields map forallb].
  - rewrite !andb_true_r. intros H. rewrite abs_attribute_char by exact H. reflexivity.
  - rewrite andb_true_r. intros H. rewrite F by exact H. reflexivity.
  - induction fs as [|f fs IH]; [reflexivity|]. cbn [map forallb]. intros H.
    apply andb_true_iff in H as [H1 H2]. rewrite F by exact H1. rewrite IH by exact H2. reflexivity.
Qed.

Lemma nh_attribute p : nh_phrase p -> nh_phrase (attribute p).
Proof.
  unfold nh_phrase, attribute.
  assert (F : forall f, forallb nh f = true -> forallb nh (map attribute_char f) = true).
  { intros f H. rewrite forallb_forall in *. intros x Hx. apply in_map_iff in Hx as [y [<- Hy]].
    apply nh_attribute_char; auto. }
  destruct p as [c|f|fs]; cbn [phrase_map phrase_fields forallb].
  - rewrite !andb_true_r. apply nh_attribute_char.
  - rewrite !andb_true_r. apply F.
  - induction fs as [|f fs IH]; [reflexivity|]. cbn [map forallb]. intros H.
    apply andb_true_iff in H as [H1 H2]. rewrite F, IH; auto.
Qed.

Lemma abs_to_field s : abs_field (to_field s) = value_toks s.
Proof. unfold abs_field, to_field, value_toks. rewrite map_map. reflexivity. Qed.

Lemma nh_to_field s : forallb nh (to_field s) = true.
Proof. unfold to_field. rewrite forallb_forall. intros x Hx. apply in_map_iff in Hx as [y [<- _]]. reflexivity. Qed.

Lemma chars_of_abs f : chars_of (abs_field f) = remove_quotes_and_strip f.
Proof.
  unfold chars_of, abs_field, remove_quotes_and_strip, strip, skip_quotes.
  induction f as [|c f IH]; [reflexivity|]. cbn. unfold abs at 1.
  destruct (is_quoting c), (origin_of c); cbn; rewrite IH; reflexivity.
Qed.

(* ---- IFS ------------------------------------------------------------------------------- *)

Lemma ifs_var_value e iv : ifs_value e = Some iv -> ifs_var e = option_map Scalar iv.
Proof.
  unfold ifs_value, ifs_var, lookup. destruct (assoc IFS_name (vars e)) as [[s|l]|]; intros H; inversion H; reflexivity.
Qed.

Lemma abs_separator iv : abs_field (separator_list (option_map Scalar iv)) = star_separator iv.
Proof. destruct iv as [[|c s]|]; reflexivity. Qed.

Lemma abs_ifs_join p e iv :
  ifs_value e = Some iv ->
  abs_field (ifs_join p (ifs_var e)) = join_with (star_separator iv) (abs_phrase p).
Proof.
  intros H. rewrite (ifs_var_value _ _ H), ifs_join_spec_lemma.
  unfold abs_field. rewrite join_with_map. fold abs_field. rewrite abs_separator. reflexivity.
Qed.

Lemma nh_ifs_join p iv : nh_phrase p -> forallb nh (ifs_join p iv) = true.
Proof.
  unfold nh_phrase. intros H. rewrite ifs_join_spec_lemma.
  assert (S : forallb nh (separator_list iv) = true).
  { unfold separator_list, join_separator.
    destruct iv as [[[|c s]|[|[|c s] l]]|]; reflexivity. }
  destruct (phrase_fields p) as [|f r]; [reflexivity|]. cbn [join_with forallb] in *.
  apply andb_true_iff in H as [H1 H2]. rewrite forallb_app, H1. cbn.
  induction r as [|g r IH]; [reflexivity|]. cbn in *. apply andb_true_iff in H2 as [H2 H3].
  rewrite !forallb_app, S, H2, IH; auto.
Qed.

(* ---- trim patterns -------------------------------------------------------------------------- *)

Lemma pattern_abs q f :
  to_pattern_chars (apply_escapes_go q f) = tok_pattern q (abs_field f).
Proof.
  revert q; induction f as [|c f IH]; intros q; [reflexivity|].
  cbn [apply_escapes_go abs_field map]. fold (abs_field f).
  destruct c as [v o qd qg]. unfold abs at 1. cbn [is_quoting is_quoted value origin_of].
  destruct qg.
  - (* a quoting character: dropped, never an escape *)
    destruct f as [|d f].
    + destruct q; reflexivity.
    + cbn [abs_field map]. fold (abs_field f).
      destruct q; cbn [value is_quoting is_quoted]; rewrite andb_false_r; cbn [andb];
        cbn [to_pattern_chars is_quoting]; rewrite IH; reflexivity.
  - destruct o; (destruct f as [|d f];
      [ destruct q, qd; reflexivity
      | change (abs_field (d :: f)) with (abs d :: abs_field f);
        destruct q; cbn [value is_quoting is_quoted negb andb orb];
        [ rewrite andb_false_r; cbn [to_pattern_chars is_quoting is_quoted tok_pattern];
          rewrite orb_true_r; cbn [negb]; rewrite andb_false_r; rewrite IH; reflexivity
        | rewrite andb_true_r; cbn [tok_pattern]; rewrite orb_false_r;
          destruct (N.eqb v 92 && negb qd) eqn:E;
          [ cbn [to_pattern_chars is_quoting]; rewrite IH; reflexivity
          | cbn [to_pattern_chars is_quoting is_quoted value]; rewrite IH; reflexivity ] ] ]).
Qed.

Lemma pattern_abs_top f : to_pattern_chars (apply_escapes f) = tok_pattern false (abs_field f).
Proof. apply pattern_abs. Qed.

(* ---- parameters --------------------------------------------------------------------------------- *)

Definition to_mv (v : pvalue) : option varval :=
  match v with
  | PVUnset => None
  | PVScalar s => Some (Scalar s)
  | PVList l => Some (Array l)
  end.

Lemma resolve_param_value e p v : param_value e p = Some v -> resolve e p = to_mv v.
Proof.
  destruct p as [n|[|i]| | |]; cbn; unfold lookup.
  - destruct (assoc n (vars e)) as [[s|l]|]; intros H; inversion H; reflexivity.
  - discriminate.
  - destruct (nth_error (positional e) i); intros H; inversion H; reflexivity.
  - intros H; inversion H; reflexivity.
  - intros H; inversion H; reflexivity.
  - intros H; inversion H; reflexivity.
Qed.

Lemma value_state_to_mv v : value_state (to_mv v) = pstate_of v.
Proof. destruct v as [|[|c s]|l]; reflexivity. Qed.

Lemma star_is_list e p v : param_value e p = Some v -> is_star p = true -> exists l, v = PVList l.
Proof. destruct p; cbn; try discriminate. intros H _. inversion H. eauto. Qed.

(* agreement of a model result with a specified result *)
Definition agree (r : res phrase) (s : sres (list pfield)) : Prop :=
  match s with
  | SOk pfs e' => exists ph, r = Ok ph e' /\ abs_phrase ph = pfs /\ nh_phrase ph
  | SErr k => r = Err k
  | SUnspec => True
  end.

Definition agree_acc (acc : phrase) (r : res phrase) (s : sres (list pfield)) : Prop :=
  match s with
  | SOk pfs e' => exists ph, r = Ok ph e' /\ abs_phrase ph = glue (abs_phrase acc) pfs /\ nh_phrase ph
  | SErr k => r = Err k
  | SUnspec => True
  end.

Lemma nh_into_phrase mv : nh_phrase (into_phrase mv).
Proof.
  unfold nh_phrase. destruct mv as [[s|l]|]; cbn [into_phrase phrase_fields forallb one_empty_field].
  - rewrite nh_to_field. reflexivity.
  - induction l as [|s l IH]; [reflexivity|]. cbn. rewrite nh_to_field, IH. reflexivity.
  - reflexivity.
Qed.

Lemma abs_into_phrase_list l : abs_phrase (Full (map to_field l)) = map value_toks l.
Proof.
  unfold abs_phrase. cbn [phrase_fields]. rewrite map_map. apply map_ext. intros; apply abs_to_field.
Qed.

Lemma finish_param_agree ws p v e :
  param_value e p = Some v ->
  agree (finish_param ws p (to_mv v) e) (param_plain p (negb ws) v e).
Proof.
  intros Hv. unfold finish_param.
  destruct v as [|s|l]; cbn [param_plain to_mv].
  - assert (is_star p = false) as ->.
    { destruct (is_star p) eqn:E; [|reflexivity]. destruct (star_is_list _ _ _ Hv E); discriminate. }
    rewrite andb_false_r. cbn. eexists; repeat split.
  - assert (is_star p = false) as ->.
    { destruct (is_star p) eqn:E; [|reflexivity]. destruct (star_is_list _ _ _ Hv E); discriminate. }
    rewrite andb_false_r. cbn. eexists; split; [reflexivity|]. split.
    + unfold abs_phrase; cbn. rewrite abs_to_field. reflexivity.
    + apply (nh_into_phrase (Some (Scalar s))).
  - destruct p; cbn [is_star]; rewrite ?andb_false_r.
    1,2,3,5: destruct ws; cbn; (eexists; split; [reflexivity|]; split;
               [apply abs_into_phrase_list | apply (nh_into_phrase (Some (Array l)))]).
    destruct ws; cbn [negb andb].
    + cbn. eexists; split; [reflexivity|]; split;
        [apply abs_into_phrase_list | apply (nh_into_phrase (Some (Array l)))].
    + destruct (ifs_value e) as [iv|] eqn:Ei; [|exact I]. unfold agree.
      eexists; split; [reflexivity|]. split.
      * unfold abs_phrase at 1. cbn [phrase_fields map]. rewrite (abs_ifs_join _ _ _ Ei).
        cbn [into_phrase]. rewrite abs_into_phrase_list. reflexivity.
      * unfold nh_phrase; cbn [phrase_fields forallb]. rewrite andb_true_r.
        apply nh_ifs_join. apply (nh_into_phrase (Some (Array l))).
Qed.

(* ---- command substitution: trailing newlines ----------------------------------------------------------- *)

Lemma drop_newlines_app_single m c :
  drop_newlines (m ++ [c]) = match drop_newlines m with
                             | [] => if N.eqb c 10 then [] else [c]
                             | d => d ++ [c]
                             end.
Proof.
  induction m as [|a m IH].
  - cbn. destruct (N.eqb_spec c 10) as [->|N]; [reflexivity|].
    destruct c as [|p]; [reflexivity|].
    repeat (match goal with q : positive |- _ => destruct q; try reflexivity end); congruence.
  - destruct (N.eq_dec a 10) as [->|N].
    + exact IH.
    + assert (E : forall l, drop_newlines (a :: l) = a :: l).
      { intros l. destruct a as [|p]; [reflexivity|]. cbn.
        repeat (match goal with q : positive |- _ => destruct q; try reflexivity end); congruence. }
      cbn [app]. rewrite !E. reflexivity.
Qed.

Lemma trim_end_newlines_eq s : trim_end_newlines s = strip_newlines s.
Proof.
  unfold trim_end_newlines. induction s as [|c r IH]; [reflexivity|].
  cbn [rev strip_newlines]. rewrite drop_newlines_app_single, <- IH.
  destruct (drop_newlines (rev r)) as [|d m] eqn:E.
  - cbn. destruct (N.eqb c 10); reflexivity.
  - rewrite rev_app_distr. change (rev [c]) with [c]. cbn [app].
    destruct (rev (d :: m)) eqn:E2; [|reflexivity].
    apply (f_equal (@length N)) in E2. rewrite rev_length in E2. discriminate.
Qed.

(* ---- the mutual induction --------------------------------------------------------------------------- *)

Scheme tunit_mut := Induction for tunit Sort Prop
with text_mut := Induction for text Sort Prop
with modifier_mut := Induction for modifier Sort Prop
with wunit_mut := Induction for wunit Sort Prop
with word_mut := Induction for word Sort Prop.
Combined Scheme ast_mutind from tunit_mut, text_mut, modifier_mut, wunit_mut, word_mut.

Definition P_tunit (u : tunit) : Prop :=
  forall ws e, agree (expand_tunit ws u e) (sem_tunit (negb ws) u e).
Definition P_text (t : text) : Prop :=
  forall ws e acc, nh_phrase acc ->
    agree_acc acc (expand_text_go ws t acc e) (sem_text (negb ws) t e).
Definition P_wunit (u : wunit) : Prop :=
  forall ws e, agree (expand_wunit ws u e) (sem_wunit (negb ws) u e).
Definition P_word (w : word) : Prop :=
  forall ws e acc, nh_phrase acc ->
    agree_acc acc (expand_word_go ws w acc e) (sem_word (negb ws) w e).
Definition P_modifier (m : modifier) : Prop :=
  match m with
  | MSwitch _ _ w | MTrim _ _ w => P_word w
  | _ => True
  end.

Lemma nh_zero : nh_phrase zero_fields.
Proof. reflexivity. Qed.

Lemma word_top_agree w ws e :
  P_word w ->
  agree (expand_slice (expand_word_go ws) word_is_empty w e)
        (top_or_empty (sem_word (negb ws)) word_is_empty w e).
Proof.
  intros H. unfold expand_slice, top_or_empty. destruct (word_is_empty w).
  - cbn. eexists; repeat split.
  - specialize (H ws e zero_fields nh_zero). unfold agree_acc in H. unfold agree.
    destruct (sem_word (negb ws) w e); auto.
Qed.

Lemma text_top_agree t ws e :
  P_text t ->
  agree (expand_slice (expand_text_go ws) text_is_empty t e)
        (top_or_empty (sem_text (negb ws)) text_is_empty t e).
Proof.
  intros H. unfold expand_slice, top_or_empty. destruct (text_is_empty t).
  - cbn. eexists; repeat split.
  - specialize (H ws e zero_fields nh_zero). unfold agree_acc in H. unfold agree.
    destruct (sem_text (negb ws) t e); auto.
Qed.

Lemma param_agree p m : P_modifier m -> P_tunit (TParam p m).
Proof.
  intros Hm ws e. cbn [sem_tunit expand_tunit].
  destruct (param_value e p) as [v|] eqn:Hv; [|exact I].
  pose proof (resolve_param_value _ _ _ Hv) as Hr. rewrite Hr.
  pose proof (finish_param_agree ws p v e Hv) as Hfin.
  destruct m as [| |a colon w|s l w]; cbn [P_modifier] in Hm.
  - (* no modifier *)
    destruct v as [|s|l]; cbn [to_mv] in *; try exact Hfin.
    destruct (nounset e); [reflexivity|exact Hfin].
  - (* length *)
    destruct v as [|s|l]; cbn [to_mv] in *.
    + destruct (nounset e); [reflexivity|].
      assert (Hs : is_star p = false).
      { destruct (is_star p) eqn:E; [|reflexivity]. destruct (star_is_list _ _ _ Hv E); discriminate. }
      unfold finish_param. rewrite Hs, andb_false_r. cbn.
      eexists; split; [reflexivity|]. split; reflexivity.
    + assert (Hs : is_star p = false).
      { destruct (is_star p) eqn:E; [|reflexivity]. destruct (star_is_list _ _ _ Hv E); discriminate. }
      unfold finish_param. rewrite Hs, andb_false_r. cbn [value_map into_phrase].
      eexists; split; [reflexivity|]. split.
      * unfold abs_phrase; cbn. rewrite abs_to_field. reflexivity.
      * apply (nh_into_phrase (Some (Scalar _))).
    + exact I.
  - (* switch *)
    destruct (pstate_of v) as [st|] eqn:Hst; [|exact I].
    pose proof (param_forms_select_lemma a colon (to_mv v) st) as Hsel.
    rewrite value_state_to_mv in Hsel. specialize (Hsel Hst).
    rewrite <- Hsel.
    destruct (switch_decide a (value_condition_with colon (vacancy_of (to_mv v)))) eqn:D;
      cbn [decision_outcome].
    + (* the parameter's own value *)
      destruct st.
      * exact Hfin.
      * destruct v as [|[|c s]|l]; try discriminate. exact Hfin.
      * destruct v as [|[|c s]|l]; try discriminate. exact Hfin.
    + (* the word *)
      pose proof (word_top_agree w ws e Hm) as Hw. unfold agree in Hw |- *.
      destruct (top_or_empty (sem_word (negb ws)) word_is_empty w e) as [pfs e'|k|].
      * destruct Hw as [ph [-> [Ha Hn]]]. eexists; split; [reflexivity|]. split.
        -- rewrite abs_attribute by exact Hn. rewrite Ha. reflexivity.
        -- apply nh_attribute; exact Hn.
      * rewrite Hw. reflexivity.
      * exact I.
    + (* assignment *)
      destruct p as [name|i| | |]; cbn [is_variable]; try reflexivity.
      pose proof (word_top_agree w ws e Hm) as Hw. unfold agree in Hw |- *.
      destruct (top_or_empty (sem_word (negb ws)) word_is_empty w e) as [pfs e'|k|].
      * destruct Hw as [ph [-> [Ha Hn]]].
        destruct (ifs_value e') as [iv|] eqn:Ei; [|exact I].
        assert (Ev : remove_quotes_and_strip (ifs_join (attribute ph) (ifs_var e'))
                     = chars_of (join_with (star_separator iv) pfs)).
        { rewrite <- chars_of_abs, (abs_ifs_join _ _ _ Ei), abs_attribute by exact Hn.
          rewrite Ha.
          assert (Hs : star_separator iv = map tok_expanded (star_separator iv))
            by (destruct iv as [[|c s]|]; reflexivity).
          rewrite Hs at 1. rewrite <- join_with_map.
          generalize (join_with (star_separator iv) pfs). intros pf.
          unfold chars_of. induction pf as [|t pf IH]; [reflexivity|].
          cbn. rewrite IH. destruct t; reflexivity. }
        rewrite Ev. eexists; split; [reflexivity|]. split.
        -- unfold abs_phrase; cbn. rewrite abs_to_field. reflexivity.
        -- unfold nh_phrase; cbn. rewrite nh_to_field. reflexivity.
      * rewrite Hw. reflexivity.
      * exact I.
    + (* error *)
      destruct (word_is_empty w); [reflexivity|].
      specialize (Hm true e zero_fields nh_zero). unfold agree_acc in Hm. cbn [negb] in Hm.
      destruct (sem_word false w e) as [pfs e'|k|].
      * destruct Hm as [ph [-> _]]. reflexivity.
      * rewrite Hm. reflexivity.
      * exact I.
  - (* trim *)
    destruct v as [|val|lst]; cbn [to_mv] in *.
    + destruct (nounset e); [reflexivity|exact Hfin].
    + pose proof (word_top_agree w ws e Hm) as Hw. unfold agree in Hw |- *.
      destruct (top_or_empty (sem_word (negb ws)) word_is_empty w e) as [pfs e'|k|].
      * destruct Hw as [ph [-> [Ha Hn]]].
        destruct (ifs_value e') as [iv|] eqn:Ei; [|exact I].
        rewrite pattern_abs_top, (abs_ifs_join _ _ _ Ei), Ha.
        destruct (forallb pchar_supported (tok_pattern false (join_with (star_separator iv) pfs))); [|exact I].
        assert (Hs : is_star p = false).
        { destruct (is_star p) eqn:E; [|reflexivity]. destruct (star_is_list _ _ _ Hv E); discriminate. }
        unfold finish_param. rewrite Hs, andb_false_r. cbn [value_map into_phrase].
        eexists; split; [reflexivity|]. split.
        -- unfold abs_phrase; cbn. rewrite abs_to_field. reflexivity.
        -- apply (nh_into_phrase (Some (Scalar _))).
      * rewrite Hw. reflexivity.
      * exact I.
    + exact I.
Qed.

Lemma expand_refines_sem_all :
  (forall u, P_tunit u) /\ (forall t, P_text t) /\ (forall m, P_modifier m)
  /\ (forall u, P_wunit u) /\ (forall w, P_word w).
Proof.
  apply ast_mutind.
  - (* TLit *) intros c ws e. cbn. eexists; repeat split.
  - (* TBs *) intros c ws e. cbn. eexists; repeat split.
  - (* TParam *) intros p m Hm. apply param_agree; exact Hm.
  - (* TSubst *) intros raw ws e. cbn [expand_tunit sem_tunit]. unfold agree.
    eexists; split; [reflexivity|]. split; [|apply nh_trivial].
    unfold abs_phrase; cbn [phrase_fields map]. rewrite abs_to_field, trim_end_newlines_eq. reflexivity.
  - (* TArith *) intros t Ht v ws e. cbn [expand_tunit sem_tunit].
    pose proof (text_top_agree t true e Ht) as H. cbn [negb] in H. unfold agree in H |- *.
    destruct (top_or_empty (sem_text false) text_is_empty t e) as [pfs e'|k|].
    + destruct H as [ph [-> _]]. eexists; split; [reflexivity|]. split; [|apply nh_trivial].
      unfold abs_phrase; cbn [phrase_fields map]. rewrite abs_to_field. reflexivity.
    + rewrite H. reflexivity.
    + exact I.
  - (* TNil *) intros ws e acc Hacc. cbn [expand_text_go sem_text]. unfold agree_acc.
    eexists; split; [reflexivity|]. split; [|exact Hacc].
    symmetry. apply (glue_nil_r_lemma (abs_phrase acc)).
  - (* TCons *) intros u Hu t Ht ws e acc Hacc. cbn [expand_text_go sem_text].
    specialize (Hu ws e). unfold agree in Hu.
    destruct (sem_tunit (negb ws) u e) as [a e1|k|]; [|rewrite Hu; reflexivity|exact I].
    destruct Hu as [ph [-> [Ha Hn]]].
    specialize (Ht ws e1 (append acc ph) (nh_append _ _ Hacc Hn)). unfold agree_acc in Ht |- *.
    destruct (sem_text (negb ws) t e1) as [b e2|k|]; [|exact Ht|exact I].
    destruct Ht as [ph2 [-> [Hb Hn2]]]. eexists; split; [reflexivity|]. split; [|exact Hn2].
    rewrite Hb, abs_append, Ha. apply glue_assoc_lemma.
  - (* MNone *) exact I.
  - (* MLength *) exact I.
  - (* MSwitch *) intros a colon w Hw. exact Hw.
  - (* MTrim *) intros s l w Hw. exact Hw.
  - (* WUnq *) intros u Hu ws e. cbn. apply Hu.
  - (* WSq *) intros s ws e. cbn. eexists; split; [reflexivity|]. split.
    + unfold abs_phrase, single_quote, abs_field. cbn [phrase_fields map].
      rewrite map_app, map_map. reflexivity.
    + unfold nh_phrase, single_quote. cbn [phrase_fields forallb]. rewrite andb_true_r.
      cbn. rewrite forallb_app. cbn. rewrite andb_true_r.
      rewrite forallb_forall. intros x Hx. apply in_map_iff in Hx as [y [<- _]]. reflexivity.
  - (* WDq *) intros t Ht ws e. cbn [expand_wunit sem_wunit].
    pose proof (text_top_agree t false e Ht) as H. cbn [negb] in H. unfold agree in H |- *.
    destruct (top_or_empty (sem_text true) text_is_empty t e) as [pfs e'|k|].
    + destruct H as [ph [-> [Ha Hn]]]. eexists; split; [reflexivity|]. split.
      * rewrite abs_double_quote, Ha. reflexivity.
      * apply nh_double_quote; exact Hn.
    + rewrite H. reflexivity.
    + exact I.
  - (* WDsq *) intros s ws e. cbn [expand_wunit sem_wunit]. unfold agree.
    eexists; split; [reflexivity|]. split; [|apply nh_trivial].
    unfold abs_phrase, dollar_single_quote, abs_field. cbn [phrase_fields map].
    rewrite map_app, map_map. reflexivity.
  - (* WTilde *) intros home slash ws e. cbn [expand_wunit sem_wunit]. unfold agree.
    eexists; split; [reflexivity|]. split; [|apply nh_trivial].
    unfold abs_phrase, tilde_finish, strip_suffix_slash, abs_field. cbn [phrase_fields map].
    destruct (if slash then match rev home with 47%N :: r => rev r | _ => home end else home);
      [reflexivity|]. rewrite map_map. reflexivity.
  - (* WNil *) intros ws e acc Hacc. cbn [expand_word_go sem_word]. unfold agree_acc.
    eexists; split; [reflexivity|]. split; [|exact Hacc].
    symmetry. apply (glue_nil_r_lemma (abs_phrase acc)).
  - (* WCons *) intros u Hu w Hw ws e acc Hacc. cbn [expand_word_go sem_word].
    specialize (Hu ws e). unfold agree in Hu.
    destruct (sem_wunit (negb ws) u e) as [a e1|k|]; [|rewrite Hu; reflexivity|exact I].
    destruct Hu as [ph [-> [Ha Hn]]].
    specialize (Hw ws e1 (append acc ph) (nh_append _ _ Hacc Hn)). unfold agree_acc in Hw |- *.
    destruct (sem_word (negb ws) w e1) as [b e2|k|]; [|exact Hw|exact I].
    destruct Hw as [ph2 [-> [Hb Hn2]]]. eexists; split; [reflexivity|]. split; [|exact Hn2].
    rewrite Hb, abs_append, Ha. apply glue_assoc_lemma.
Qed.

(* ---- field splitting commutes with the abstraction ------------------------------------------------- *)

Section FieldsMap.
  Context {A B : Type}.
  Variables (cls1 : A -> class) (cls2 : B -> class) (g : A -> B).
  Hypothesis Hcls : forall a, cls2 (g a) = cls1 a.

  Lemma isW_map a : isW cls2 (g a) = isW cls1 a.
  Proof. unfold isW. rewrite Hcls. reflexivity. Qed.
  Lemma isN_map a : isN cls2 (g a) = isN cls1 a.
  Proof. unfold isN. rewrite Hcls. reflexivity. Qed.
  Lemma isD_map a : isD cls2 (g a) = isD cls1 a.
  Proof. unfold isD. rewrite Hcls. reflexivity. Qed.

  Lemma dropW_map l : dropW cls2 (map g l) = map g (dropW cls1 l).
  Proof.
    induction l as [|a l IH]; [reflexivity|]. cbn. rewrite isW_map.
    destruct (isW cls1 a); [exact IH|reflexivity].
  Qed.

  Lemma dropD_map l : dropD cls2 (map g l) = map g (dropD cls1 l).
  Proof. destruct l as [|a l]; [reflexivity|]. cbn. rewrite isD_map. destruct (isD cls1 a); reflexivity. Qed.

  Lemma eat_delim_map l : eat_delim cls2 (map g l) = map g (eat_delim cls1 l).
  Proof. unfold eat_delim. rewrite dropW_map, dropD_map, dropW_map. reflexivity. Qed.

  Lemma spanN_map l :
    spanN cls2 (map g l) = (map g (fst (spanN cls1 l)), map g (snd (spanN cls1 l))).
  Proof.
    induction l as [|a l IH]; [reflexivity|]. cbn. rewrite isN_map.
    destruct (isN cls1 a); [|reflexivity]. rewrite IH.
    destruct (spanN cls1 l); reflexivity.
  Qed.

  Lemma Fields_map l fs : Fields cls1 l fs -> Fields cls2 (map g l) (map (map g) fs).
  Proof.
    induction 1 as [|a l f rest fs Hs Hf IH]; cbn [map]; [constructor|].
    econstructor.
    - change (g a :: map g l) with (map g (a :: l)). rewrite spanN_map, Hs. reflexivity.
    - rewrite eat_delim_map. exact IH.
  Qed.

  Lemma split_spec_map l :
    split_spec cls2 (map g l) = option_map (map (map g)) (split_spec cls1 l).
  Proof.
    destruct (split_spec_total cls1 l) as [fs H]. rewrite H. cbn.
    apply split_spec_iff. apply split_spec_iff in H. unfold SplitSpec in *.
    rewrite dropW_map. apply Fields_map. exact H.
  Qed.
End FieldsMap.

Section FinalStage.
  Variable is_ws : N -> bool.

  Lemma tok_class_abs ic c : tok_class is_ws ic (abs c) = spec_class is_ws ic c.
  Proof.
    unfold tok_class, abs, spec_class, protected.
    destruct c as [v o q g]; cbn. destruct g, o, q; cbn; reflexivity.
  Qed.

  Lemma split_abs ic f :
    split_spec (tok_class is_ws ic) (abs_field f)
    = Some (map abs_field (split (ifs_new is_ws ic) f)).
  Proof.
    unfold abs_field.
    rewrite (split_spec_map (spec_class is_ws ic) (tok_class is_ws ic) abs (tok_class_abs ic)).
    rewrite ranges_eq_split_spec_fun. reflexivity.
  Qed.

  Lemma all_split_abs ic (fs : list field) :
    all_some (map (split_spec (tok_class is_ws ic)) (map abs_field fs))
    = Some (map (fun f => map abs_field (split (ifs_new is_ws ic) f)) fs).
  Proof.
    induction fs as [|f fs IH]; [reflexivity|]. cbn [map all_some].
    rewrite split_abs, IH. reflexivity.
  Qed.

  Lemma env_ifs_value e iv :
    ifs_value e = Some iv -> env_ifs is_ws e = ifs_new is_ws (splitting_chars iv).
  Proof.
    intros H. unfold env_ifs. rewrite (ifs_var_value _ _ H). destruct iv; reflexivity.
  Qed.

  Lemma concat_split_strip ic (fs : list field) :
    map chars_of (concat (map (fun f => map abs_field (split (ifs_new is_ws ic) f)) fs))
    = map remove_quotes_and_strip (flat_map (split (ifs_new is_ws ic)) fs).
  Proof.
    induction fs as [|f fs IH]; [reflexivity|]. cbn [map concat flat_map].
    rewrite !map_app, IH. f_equal. rewrite map_map. apply map_ext. intros; apply chars_of_abs.
  Qed.

  (* the result of a model computation agrees with a specified result *)
  Definition agree_fields (r : res (list str)) (s : sres (list str)) : Prop :=
    match s with
    | SOk fs e' => r = Ok fs e'
    | SErr k => r = Err k
    | SUnspec => True
    end.

  Lemma expand_word_multiple_refines_lemma w e :
    agree_fields (expand_word_multiple is_ws w e) (spec_word_fields is_ws w e).
  Proof.
    destruct expand_refines_sem_all as [_ [_ [_ [_ Hw]]]].
    pose proof (word_top_agree w true e (Hw w)) as H. cbn [negb] in H.
    unfold expand_word_multiple, expand_word, spec_word_fields, agree, agree_fields in *.
    destruct (top_or_empty (sem_word false) word_is_empty w e) as [pfs e'|k|].
    - destruct H as [ph [-> [Ha _]]].
      destruct (ifs_value e') as [iv|] eqn:Ei; [|exact I].
      rewrite <- Ha. unfold abs_phrase. rewrite all_split_abs.
      rewrite (env_ifs_value _ _ Ei), concat_split_strip. reflexivity.
    - rewrite H. reflexivity.
    - exact I.
  Qed.

  Lemma expand_word_single_refines_lemma w e :
    match spec_word_single w e with
    | SOk v e' => expand_word_single w e = Ok v e'
    | SErr k => expand_word_single w e = Err k
    | SUnspec => True
    end.
  Proof.
    destruct expand_refines_sem_all as [_ [_ [_ [_ Hw]]]].
    pose proof (word_top_agree w true e (Hw w)) as H. cbn [negb] in H.
    unfold expand_word_single, expand_word, spec_word_single, agree in *.
    destruct (top_or_empty (sem_word false) word_is_empty w e) as [pfs e'|k|].
    - destruct H as [ph [-> [Ha _]]].
      destruct (ifs_value e') as [iv|] eqn:Ei; [|exact I].
      rewrite <- chars_of_abs, (abs_ifs_join _ _ _ Ei), Ha. reflexivity.
    - rewrite H. reflexivity.
    - exact I.
  Qed.

  Lemma expand_text_single_refines_lemma t e :
    match spec_text_single t e with
    | SOk v e' => expand_text_single t e = Ok v e'
    | SErr k => expand_text_single t e = Err k
    | SUnspec => True
    end.
  Proof.
    destruct expand_refines_sem_all as [_ [Ht _]].
    pose proof (text_top_agree t true e (Ht t)) as H. cbn [negb] in H.
    unfold expand_text_single, expand_text, spec_text_single, agree in *.
    destruct (top_or_empty (sem_text false) text_is_empty t e) as [pfs e'|k|].
    - destruct H as [ph [-> [Ha _]]].
      destruct (ifs_value e') as [iv|] eqn:Ei; [|exact I].
      rewrite <- chars_of_abs, (abs_ifs_join _ _ _ Ei), Ha. reflexivity.
    - rewrite H. reflexivity.
    - exact I.
  Qed.

  Lemma expand_words_refines_lemma ws e :
    agree_fields (expand_words is_ws ws e) (spec_words_fields is_ws ws e).
  Proof.
    revert e; induction ws as [|w ws IH]; intros e; [reflexivity|].
    cbn [expand_words spec_words_fields].
    pose proof (expand_word_multiple_refines_lemma w e) as H. unfold agree_fields in H.
    destruct (spec_word_fields is_ws w e) as [fs e'|k|]; [|rewrite H; reflexivity|exact I].
    rewrite H. specialize (IH e'). unfold agree_fields in IH |- *.
    destruct (spec_words_fields is_ws ws e') as [fs' e''|k|]; [|rewrite IH; reflexivity|exact I].
    rewrite IH. reflexivity.
  Qed.
End FinalStage.

(* the oracle never demands more than the theorems give: it accepts what the
   model computes, for every list of commands and every environment *)
Lemma words_oracle_sound_lemma (is_ws : N -> bool) cmds e :
  words_oracle is_ws cmds e (fst (run_cmds is_ws cmds e))
               (option_map kind_code (snd (run_cmds is_ws cmds e))) = 0%N.
Proof.
  revert e; induction cmds as [|ws cmds IH]; intros e; [reflexivity|].
  cbn [words_oracle run_cmds].
  pose proof (expand_words_refines_lemma is_ws ws e) as H. unfold agree_fields in H.
  destruct (spec_words_fields is_ws ws e) as [fs e'|k|]; [| |reflexivity].
  - rewrite H. specialize (IH e'). destruct (run_cmds is_ws cmds e') as [o s]. cbn [fst snd] in *.
    assert (E : list_eqb str_eqb fs fs = true).
    { apply list_eqb_spec; [apply str_eqb_eq | reflexivity]. }
    rewrite E. exact IH.
  - rewrite H. cbn [fst snd option_map]. rewrite N.eqb_refl, orb_true_r. reflexivity.
Qed.
