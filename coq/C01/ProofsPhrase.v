(* C01 — the Phrase algebra is concatenation of lists of fields. *)
From Yv Require Import Common.Base C01.Model C01.Spec.

Section Glue.
  Context {A : Type}.

  (* recursive form of [glue], convenient for induction *)
  Fixpoint glue_r (a b : list (list A)) : list (list A) :=
    match a with
    | [] => b
    | [x] => match b with [] => [x] | y :: r => (x ++ y) :: r end
    | x :: a' => x :: glue_r a' b
    end.

  Lemma glue_r_cons2 x y l b : glue_r (x :: y :: l) b = x :: glue_r (y :: l) b.
  Proof. reflexivity. Qed.

  Lemma glue_eq_glue_r (a b : list (list A)) : glue a b = glue_r a b.
  Proof.
    destruct b as [|bf br].
    - destruct a as [|x a]; [reflexivity|]. cbn [glue].
      revert x; induction a as [|y a IH]; intros x; [reflexivity|].
      rewrite glue_r_cons2, <- IH. reflexivity.
    - destruct a as [|x a]; [reflexivity|]. cbn [glue].
      revert x; induction a as [|y a IH]; intros x; [reflexivity|].
      rewrite glue_r_cons2, <- IH. reflexivity.
  Qed.

  Lemma glue_r_nil_r a : glue_r a [] = a.
  Proof.
    induction a as [|x a IH]; [reflexivity|]. destruct a as [|y a]; [reflexivity|].
    rewrite glue_r_cons2, IH. reflexivity.
  Qed.

  Lemma glue_r_nonempty x a b : glue_r (x :: a) b <> [].
  Proof. destruct a; [destruct b|]; discriminate. Qed.

  Lemma glue_r_assoc a b c : glue_r (glue_r a b) c = glue_r a (glue_r b c).
  Proof.
    induction a as [|x a IH]; [reflexivity|].
    destruct a as [|y a].
    - destruct b as [|y r]; [reflexivity|].
      destruct r as [|r1 r'].
      + destruct c as [|z s]; cbn; [reflexivity|]. rewrite app_assoc. reflexivity.
      + cbn [glue_r]. reflexivity.
    - rewrite !glue_r_cons2.
      destruct (glue_r (y :: a) b) as [|g gs] eqn:E.
      + exfalso. eapply glue_r_nonempty; eassumption.
      + destruct gs as [|g2 gs].
        * (* the glued tail is a single field *)
          rewrite <- IH.
          destruct c as [|z s]; reflexivity.
        * rewrite glue_r_cons2. rewrite <- IH. reflexivity.
  Qed.

  Lemma glue_assoc_lemma (a b c : list (list A)) : glue (glue a b) c = glue a (glue b c).
  Proof. rewrite !glue_eq_glue_r. apply glue_r_assoc. Qed.

  Lemma glue_nil_l_lemma (a : list (list A)) : glue [] a = a.
  Proof. reflexivity. Qed.

  Lemma glue_nil_r_lemma (a : list (list A)) : glue a [] = a.
  Proof. destruct a; reflexivity. Qed.

  Lemma glue_unit_lemma (a : list (list A)) : glue [] a = a /\ glue a [] = a.
  Proof. split; [apply glue_nil_l_lemma | apply glue_nil_r_lemma]. Qed.

  (* number of fields: one less than the sum, when both are non-empty *)
  Lemma glue_r_length a b :
    a <> [] -> b <> [] -> S (length (glue_r a b)) = length a + length b.
  Proof.
    intros Ha Hb. induction a as [|x a IH]; [congruence|].
    destruct a as [|y a].
    - destruct b; [congruence|]. cbn. lia.
    - rewrite glue_r_cons2. assert (IH' := IH ltac:(discriminate)).
      cbn [length] in *. lia.
  Qed.

  Lemma glue_length_lemma (a b : list (list A)) :
    a <> [] -> b <> [] -> S (length (glue a b)) = length a + length b.
  Proof. rewrite glue_eq_glue_r. apply glue_r_length. Qed.

  (* the characters are those of both, in order *)
  Lemma glue_r_concat a b : concat (glue_r a b) = concat a ++ concat b.
  Proof.
    induction a as [|x a IH]; [reflexivity|].
    destruct a as [|y a].
    - destruct b; cbn; rewrite ?app_nil_r, <- ?app_assoc; reflexivity.
    - rewrite glue_r_cons2. cbn [concat]. rewrite IH. cbn [concat]. rewrite <- !app_assoc. reflexivity.
  Qed.

  Lemma glue_concat_lemma (a b : list (list A)) : concat (glue a b) = concat a ++ concat b.
  Proof. rewrite glue_eq_glue_r. apply glue_r_concat. Qed.
End Glue.

Lemma append_to_last_glue (lf : list field) (x : field) :
  lf <> [] -> append_to_last lf x = glue_r lf [x].
Proof.
  induction lf as [|f lf IH]; [congruence|]. intros _.
  destruct lf as [|g lf]; [reflexivity|].
  change (f :: append_to_last (g :: lf) x = f :: glue_r (g :: lf) [x]).
  rewrite IH by discriminate. reflexivity.
Qed.

Lemma glue_r_app_single (lf : list field) (x : field) (rest : list field) :
  lf <> [] -> glue_r lf [x] ++ rest = glue_r lf (x :: rest).
Proof.
  induction lf as [|f lf IH]; [congruence|]. intros _.
  destruct lf as [|g lf]; [reflexivity|].
  change (f :: (glue_r (g :: lf) [x] ++ rest) = f :: glue_r (g :: lf) (x :: rest)).
  rewrite IH by discriminate. reflexivity.
Qed.

Lemma phrase_append_refines_concat_lemma (a b : phrase) :
  phrase_fields (append a b) = glue (phrase_fields a) (phrase_fields b).
Proof.
  rewrite glue_eq_glue_r.
  destruct a as [l|l|[|f lf]], b as [r|r|[|rfst rr]]; cbn [append phrase_fields]; try reflexivity.
  all: try (apply append_to_last_glue; discriminate).
  all: try (rewrite append_to_last_glue by discriminate; apply glue_r_app_single; discriminate).
  all: try (symmetry; apply (glue_r_nil_r (f :: lf))).
  all: cbn; rewrite ?app_nil_r; reflexivity.
Qed.

Lemma zero_fields_unit_lemma (a : phrase) :
  phrase_fields (append zero_fields a) = phrase_fields a
  /\ phrase_fields (append a zero_fields) = phrase_fields a.
Proof.
  rewrite !phrase_append_refines_concat_lemma. cbn [zero_fields phrase_fields].
  split; [apply glue_nil_l_lemma | apply glue_nil_r_lemma].
Qed.

Lemma phrase_append_assoc_lemma (a b c : phrase) :
  phrase_fields (append (append a b) c) = phrase_fields (append a (append b c)).
Proof.
  rewrite !phrase_append_refines_concat_lemma. apply glue_assoc_lemma.
Qed.

Lemma fold_join (sep : field) (rest : list field) (f : field) :
  fold_left (fun result g => result ++ sep ++ g) rest f = f ++ flat_map (fun g => sep ++ g) rest.
Proof.
  revert f; induction rest as [|g rest IH]; intros f; cbn.
  - rewrite app_nil_r; reflexivity.
  - rewrite IH. rewrite <- !app_assoc. reflexivity.
Qed.

Lemma ifs_join_spec_lemma (p : phrase) (iv : option varval) :
  ifs_join p iv = join_with (separator_list iv) (phrase_fields p).
Proof.
  destruct p as [c|f|fs]; cbn [ifs_join phrase_fields join_with flat_map].
  - reflexivity.
  - rewrite app_nil_r; reflexivity.
  - destruct fs as [|f rest]; [reflexivity|].
    destruct rest as [|g rest]; [cbn; rewrite app_nil_r; reflexivity|].
    unfold separator_list. apply fold_join.
Qed.
