(* C01 — all lemmas (re-exported), and non-vacuity examples for the
   implication-shaped theorems. *)
From Yv Require Import Common.Base C01.Model C01.Spec.
From Yv Require Export C01.ProofsSplit C01.ProofsPhrase C01.ProofsParam C01.ProofsWord C01.ProofsRead C01.ProofsCore C01.ProofsTrim C01.ProofsText.

Definition sp (c : N) : attrchar := AC c SoftExpansion false false.
Definition qu (c : N) : attrchar := AC c SoftExpansion true false.

(* quoted_never_split: a non-empty protected string exists and contains an IFS character *)
Example ex_quoted_never_split :
  let chars := [qu 97; qu 32; qu 98] in
  chars <> [] /\ forallb protected chars = true
  /\ split (ifs_new rust_is_ws [32%N]) chars = [chars].
Proof. cbn. repeat split; discriminate. Qed.

(* the same characters unquoted are split *)
Example ex_unquoted_split :
  split (ifs_new rust_is_ws [32%N]) [sp 97; sp 32; sp 98] = [[sp 97]; [sp 98]].
Proof. reflexivity. Qed.

(* empty_field_needs_delimiter: hypothesis holds for an input that is split *)
Example ex_no_delimiter :
  let chars := [sp 32; sp 97; sp 32; sp 32; sp 98] in
  forallb (fun c => negb (isD (spec_class rust_is_ws [32; 58]%N) c)) chars = true
  /\ length (split (ifs_new rust_is_ws [32; 58]%N) chars) = 2.
Proof. cbn. split; reflexivity. Qed.

(* ... and fails for one that has an empty field *)
Example ex_empty_field :
  split (ifs_new rust_is_ws [32; 58]%N) [sp 97; sp 58; sp 58; sp 98] = [[sp 97]; []; [sp 98]].
Proof. reflexivity. Qed.

(* param_forms_select: every state is the state of some value *)
Example ex_value_states :
  value_state None = Some Unset /\ value_state (Some (Scalar [])) = Some SetNull
  /\ value_state (Some (Scalar [97%N])) = Some SetNotNull.
Proof. repeat split. Qed.

(* glue_length: both sides non-empty *)
Example ex_glue :
  glue [[1]; [2]] [[3]; [4]] = [[1]; [2; 3]; [4]] /\ glue [[1]] ([] : list (list nat)) = [[1]].
Proof. split; reflexivity. Qed.

(* nounset_error_iff, nounset_trim_unset: an environment with nounset and an unset parameter *)
Example ex_nounset :
  let e := mkEnv [] [] true in
  nounset e = true /\ resolve e (PVar [117%N]) = None
  /\ expand_tunit true (TParam (PVar [117%N]) MNone) e = Err EUnset
  /\ expand_tunit true (TParam PAt MNone) e = Ok (Full []) e.
Proof. cbn. repeat split. Qed.

(* switch_never_unset_error: the hypothesis is satisfiable (the nested word raises it) *)
Example ex_switch_nested_unset :
  let e := mkEnv [] [] true in
  let w := WCons (WUnq (TParam (PVar [118%N]) MNone)) WNil in
  expand_tunit true (TParam (PVar [117%N]) (MSwitch Default false w)) e = Err EUnset.
Proof. reflexivity. Qed.

(* expand_model_eq_spec: the specification defines fields, zero fields and errors *)
Definition ex_env : env :=
  mkEnv [([120%N], Scalar [97; 32; 98]%N); (IFS_name, Scalar [32; 58]%N)] [[49%N]; []; [50; 58; 51]%N] false.
Definition ex_var (n : N) : tunit := TParam (PVar [n]) MNone.

Example ex_spec_fields :
  (* $x"$@" with x='a b', IFS=' :', $1='1' $2='' $3='2:3' *)
  spec_word_fields rust_is_ws
    (WCons (WUnq (ex_var 120)) (WCons (WDq (TCons (TParam PAt MNone) TNil)) WNil)) ex_env
  = SOk [[97%N]; [98; 49]%N; []; [50; 58; 51]%N] ex_env.
Proof. reflexivity. Qed.

Example ex_spec_error :
  spec_word_fields rust_is_ws
    (WCons (WUnq (TParam (PVar [117%N]) (MSwitch Error false WNil))) WNil) ex_env
  = SErr EVacant.
Proof. reflexivity. Qed.

Example ex_spec_zero_fields :
  (* "$@" without positional parameters: no field at all *)
  spec_word_fields rust_is_ws (WCons (WDq (TCons (TParam PAt MNone) TNil)) WNil)
    (mkEnv [] [] false) = SOk [] (mkEnv [] [] false).
Proof. reflexivity. Qed.

(* spec_defined_on_core: a core word with a nested switch in a scalar environment *)
Example ex_core :
  core_word (WCons (WUnq (TParam (PVar [117%N])
               (MSwitch Assign true (WCons (WDq (TCons (TParam PStar MNone) TNil)) WNil)))) WNil) = true
  /\ scalar_env ex_env = true.
Proof. split; reflexivity. Qed.

(* read: the remainder rule at work *)
Example ex_read :
  read_assign (ifs_new rust_is_ws [32; 58]%N) (map sp [49; 32; 50; 32; 58; 32; 51; 32]%N) 1
  = Some [[49%N]; [50; 32; 58; 32; 51]%N].
Proof. reflexivity. Qed.

(* trim: the four forms on a concrete value (a*b against "aXbYb") *)
Example ex_trim :
  let p := [PNormal 97; PNormal 42; PNormal 98]%N in
  let v := [97; 88; 98; 89; 98]%N in
  trim_value Prefix Shortest p v = [89; 98]%N /\ trim_value Prefix Longest p v = []
  /\ trim_value Suffix Shortest p [88; 97; 98; 97; 98]%N = [88; 97; 98]%N
  /\ trim_value Suffix Longest p [88; 97; 98; 97; 98]%N = [88%N].
Proof. repeat split. Qed.
