(* C01 — MODEL, part 1: attributed characters, IFS classification, the
   field-splitting state machine (yash-env/src/semantics/expansion/attr.rs,
   split/ifs.rs, split/ranges.rs, split.rs), quote removal and attribute
   stripping.  Executable re-statement of the Rust code, same case splits. *)
From Yv Require Import Common.Base.

(* ---- attr.rs --------------------------------------------------------- *)

Inductive origin := Literal | HardExpansion | SoftExpansion.

Definition origin_eqb (a b : origin) : bool :=
  match a, b with
  | Literal, Literal | HardExpansion, HardExpansion | SoftExpansion, SoftExpansion => true
  | _, _ => false
  end.

Record attrchar := AC {
  value : N;             (* code point *)
  origin_of : origin;
  is_quoted : bool;
  is_quoting : bool
}.

Definition attrchar_eqb (a b : attrchar) : bool :=
  N.eqb (value a) (value b) && origin_eqb (origin_of a) (origin_of b)
  && Bool.eqb (is_quoted a) (is_quoted b) && Bool.eqb (is_quoting a) (is_quoting b).

Definition field := list attrchar.
Definition field_eqb : field -> field -> bool := list_eqb attrchar_eqb.

(* ---- char::is_whitespace (Unicode White_Space), as inclusive ranges ---- *)

Definition ws_ranges : list (N * N) :=
  [ (9, 13); (32, 32); (133, 133); (160, 160); (5760, 5760); (8192, 8202);
    (8232, 8233); (8239, 8239); (8287, 8287); (12288, 12288) ]%N.

Definition in_ranges (rs : list (N * N)) (c : N) : bool :=
  existsb (fun r => N.leb (fst r) c && N.leb c (snd r)) rs.

Definition rust_is_ws (c : N) : bool := in_ranges ws_ranges c.

(* ---- split/ifs.rs ------------------------------------------------------ *)

Inductive class := NonIfs | IfsWhitespace | IfsNonWhitespace.

Definition class_eqb (a b : class) : bool :=
  match a, b with
  | NonIfs, NonIfs | IfsWhitespace, IfsWhitespace | IfsNonWhitespace, IfsNonWhitespace => true
  | _, _ => false
  end.

(* str::contains(char) *)
Definition contains (s : str) (c : N) : bool := existsb (N.eqb c) s.

(* str::find(predicate): index of the first character satisfying it *)
Fixpoint find_idx (p : N -> bool) (s : str) : option nat :=
  match s with
  | [] => None
  | c :: r => if p c then Some O
              else match find_idx p r with Some i => Some (S i) | None => None end
  end.

Section Ifs.
  (* char::is_whitespace; the theorems hold for any predicate, the run-time
     check instantiates it with [rust_is_ws] (validated against the real
     function on every run). *)
  Variable is_ws : N -> bool.

  Definition not_ws (c : N) : bool := negb (is_ws c).

  (* fn non_whitespaces(s: &str) -> Cow<str> *)
  Definition non_whitespaces (s : str) : str :=
    match find_idx not_ws s with
    | None => []
    | Some start =>
        let s_start := skipn start s in
        match find_idx is_ws s_start with
        | None => s_start
        | Some len =>
            let s_end := skipn len s_start in
            match find_idx not_ws s_end with
            | None => firstn len s_start
            | Some start_2 =>
                firstn len s_start ++ filter not_ws (skipn start_2 s_end)
            end
        end
    end.

  Record ifs := mkIfs { ifs_chars : str; ifs_non_whitespaces : str }.

  (* Ifs::new *)
  Definition ifs_new (chars : str) : ifs := mkIfs chars (non_whitespaces chars).
End Ifs.

Definition is_ifs (i : ifs) (c : N) : bool := contains (ifs_chars i) c.
Definition is_ifs_non_whitespace (i : ifs) (c : N) : bool := contains (ifs_non_whitespaces i) c.

(* Ifs::classify *)
Definition classify (i : ifs) (c : N) : class :=
  if is_ifs i c then
    if is_ifs_non_whitespace i c then IfsNonWhitespace else IfsWhitespace
  else NonIfs.

(* Ifs::classify_attr *)
Definition classify_attr (i : ifs) (c : attrchar) : class :=
  if is_quoted c || is_quoting c || negb (origin_eqb (origin_of c) SoftExpansion)
  then NonIfs
  else classify i (value c).

(* Ifs::DEFAULT = " \t\n" *)
Definition ifs_default_chars : str := [32; 9; 10]%N.

(* ---- split/ranges.rs --------------------------------------------------- *)

Inductive rstate :=
| Midfield (start_index : nat)
| AfterIfsWhitespace
| AfterIfsNonWhitespace.

(* All the ranges the iterator yields: [Ranges::next] called until it returns
   None.  [index] is [self.next_index]; the list is what [self.inner] still
   holds, already classified.  One equation per arm of the [match (state,
   class)] in [next]; at the end of the input ([class = None]) a field in
   progress is closed and the iterator stops. *)
Fixpoint ranges_go (st : rstate) (index : nat) (l : list class) : list (nat * nat) :=
  match l with
  | [] =>
      match st with
      | Midfield start_index => [(start_index, index)]
      | _ => []
      end
  | c :: l' =>
      match st, c with
      | Midfield start_index, IfsNonWhitespace =>
          (start_index, index) :: ranges_go AfterIfsNonWhitespace (S index) l'
      | Midfield start_index, IfsWhitespace =>
          (start_index, index) :: ranges_go AfterIfsWhitespace (S index) l'
      | Midfield _, NonIfs => ranges_go st (S index) l'
      | AfterIfsWhitespace, IfsNonWhitespace => ranges_go AfterIfsNonWhitespace (S index) l'
      | AfterIfsNonWhitespace, IfsNonWhitespace =>
          (index, index) :: ranges_go st (S index) l'
      | _, NonIfs => ranges_go (Midfield index) (S index) l'
      | _, IfsWhitespace => ranges_go st (S index) l'
      end
  end.

(* Ifs::ranges(..).collect(): initial state = State::default() = AfterIfsNonWhitespace *)
Definition ranges (i : ifs) (chars : field) : list (nat * nat) :=
  ranges_go AfterIfsNonWhitespace O (map (classify_attr i) chars).

(* ---- split.rs ---------------------------------------------------------- *)

(* field.chars[range]; Rust panics unless start <= end <= len *)
Definition slice {A} (l : list A) (r : nat * nat) : list A :=
  firstn (snd r - fst r) (skipn (fst r) l).

Definition range_ok (len : nat) (r : nat * nat) : bool :=
  Nat.leb (fst r) (snd r) && Nat.leb (snd r) len.

(* true iff some slice operation of split_into would panic *)
Definition split_panics (i : ifs) (chars : field) : bool :=
  negb (forallb (range_ok (length chars)) (ranges i chars)).

(* split_into / split: one field per range (the last one re-uses the input
   vector: truncate(end); drain(..start) — the same slice) *)
Definition split (i : ifs) (chars : field) : list field :=
  map (slice chars) (ranges i chars).

(* ---- quote_removal.rs, attr_strip.rs ------------------------------------- *)

Definition skip_quotes (f : field) : field := filter (fun c => negb (is_quoting c)) f.
Definition strip (f : field) : str := map value f.
Definition remove_quotes_and_strip (f : field) : str := strip (skip_quotes f).

(* ======================================================================== *)
(* MODEL, part 2: phrases (yash-semantics/src/expansion/phrase.rs)          *)
(* ======================================================================== *)

Inductive phrase :=
| Char (c : attrchar)
| Field (f : field)
| Full (fs : list field).

Definition zero_fields : phrase := Full [].
Definition one_empty_field : phrase := Field [].

Definition is_zero_fields (p : phrase) : bool :=
  match p with Full [] => true | _ => false end.

(* left_last.append(x) on a non-empty vector of fields *)
Fixpoint append_to_last (fs : list field) (x : field) : list field :=
  match fs with
  | [] => []
  | [l] => [l ++ x]
  | f :: r => f :: append_to_last r x
  end.

(* Phrase::append: the new value of [self] ([other] is left as zero fields).
   The arms are those of the Rust [match (self, other)], in the same order;
   the arm [(Full, Full)] of the last group is unreachable there and does not
   arise here because the third group already covers it. *)
Definition append (self other : phrase) : phrase :=
  match self, other with
  | Char l, Char r => Field [l; r]
  | Char l, Field r => Field (l :: r)
  | Field l, Char r => Field (l ++ [r])
  | Field l, Field r => Field (l ++ r)
  (* (left, Full(right)) *)
  | _, Full [] => self                                            (* nothing to do *)
  | Char l, Full (right_first :: rest) => Full ((l :: right_first) :: rest)
  | Field l, Full (right_first :: rest) => Full ((l ++ right_first) :: rest)
  | Full [], Full (_ :: _) => other                               (* swap(left, right) *)
  | Full lf, Full (right_first :: rest) => Full (append_to_last lf right_first ++ rest)
  (* (Full(left), right) *)
  | Full [], _ => other                                           (* swap(self, other) *)
  | Full lf, Char r => Full (append_to_last lf [r])
  | Full lf, Field r => Full (append_to_last lf r)
  end.

Inductive varval := Scalar (s : str) | Array (l : list str).

(* first character of the IFS variable as the separator of [ifs_join] *)
Definition join_separator (ifs_var : option varval) : option attrchar :=
  let c := match ifs_var with
           | Some (Scalar v) => hd_error v
           | Some (Array vs) => match vs with v :: _ => hd_error v | [] => None end
           | None => Some 32%N
           end in
  option_map (fun c => AC c SoftExpansion false false) c.

(* Phrase::ifs_join *)
Definition ifs_join (p : phrase) (ifs_var : option varval) : field :=
  match p with
  | Char c => [c]
  | Field f => f
  | Full fs =>
      match fs with
      | [] => []
      | [f] => f
      | f :: rest =>
          let sep := match join_separator ifs_var with Some s => [s] | None => [] end in
          fold_left (fun result g => result ++ sep ++ g) rest f
      end
  end.

(* Phrase::for_each_char_mut *)
Definition phrase_map (g : attrchar -> attrchar) (p : phrase) : phrase :=
  match p with
  | Char c => Char (g c)
  | Field f => Field (map g f)
  | Full fs => Full (map (map g) fs)
  end.

(* impl IntoIterator for Phrase / From<Phrase> for Vec<Vec<AttrChar>> *)
Definition phrase_fields (p : phrase) : list field :=
  match p with
  | Char c => [[c]]
  | Field f => [f]
  | Full fs => fs
  end.

Definition phrase_eqb (a b : phrase) : bool :=
  match a, b with
  | Char x, Char y => attrchar_eqb x y
  | Field x, Field y => field_eqb x y
  | Full x, Full y => list_eqb field_eqb x y
  | _, _ => false
  end.

(* ======================================================================== *)
(* MODEL, part 3: the initial expansion of words                             *)
(*   (yash-semantics/src/expansion/initial/{word,text,slice,param}.rs,       *)
(*    param/{resolve,switch,trim}.rs) and expand_word_multiple (expansion.rs) *)
(* ======================================================================== *)

(* ---- syntax (yash-syntax/src/syntax.rs), as produced by the real parser ---- *)

Inductive param :=
| PVar (name : str)       (* ParamType::Variable *)
| PPos (index : nat)      (* ParamType::Positional *)
| PAt                     (* Special(At) *)
| PStar                   (* Special(Asterisk) *)
| PNum.                   (* Special(Number) *)

Inductive action := Alter | Default | Assign | Error.   (* + - = ? *)
Inductive trim_side := Prefix | Suffix.
Inductive trim_length := Shortest | Longest.

Inductive tunit :=
| TLit (c : N)                              (* TextUnit::Literal *)
| TBs (c : N)                               (* TextUnit::Backslashed *)
| TParam (p : param) (m : modifier)         (* RawParam / BracedParam *)
| TSubst (raw : str)                        (* CommandSubst / Backquote; raw = what the
                                               command wrote to its standard output (supplied) *)
| TArith (t : text) (v : str)               (* Arith; v = decimal value of the expression
                                               the content expands to (supplied) *)
with text := TNil | TCons (u : tunit) (t : text)
with modifier :=
| MNone
| MLength
| MSwitch (a : action) (colon : bool) (w : word)    (* colon = SwitchCondition::UnsetOrEmpty *)
| MTrim (s : trim_side) (l : trim_length) (w : word)
with wunit :=
| WUnq (u : tunit)                          (* WordUnit::Unquoted *)
| WSq (s : str)                             (* WordUnit::SingleQuote *)
| WDq (t : text)                            (* WordUnit::DoubleQuote *)
| WDsq (s : str)                            (* DollarSingleQuote; s = the unquoted string *)
| WTilde (home : str) (followed_by_slash : bool)
                                            (* Tilde; home = result of tilde::expand_body (supplied) *)
with word := WNil | WCons (u : wunit) (w : word).

(* ---- environment ------------------------------------------------------------ *)

Record env := mkEnv {
  vars : list (str * varval);       (* variables that have a value *)
  positional : list str;           (* positional parameters *)
  nounset : bool                   (* set -u: option Unset is Off *)
}.

Fixpoint assoc (k : str) (l : list (str * varval)) : option varval :=
  match l with
  | [] => None
  | (k', v) :: r => if str_eqb k k' then Some v else assoc k r
  end.

Fixpoint assoc_set (k : str) (v : varval) (l : list (str * varval)) : list (str * varval) :=
  match l with
  | [] => [(k, v)]
  | (k', v') :: r => if str_eqb k k' then (k, v) :: r else (k', v') :: assoc_set k v r
  end.

Definition lookup (e : env) (name : str) : option varval := assoc name (vars e).

Definition assign_scalar (e : env) (name : str) (v : str) : env :=
  mkEnv (assoc_set name (Scalar v) (vars e)) (positional e) (nounset e).

Definition IFS_name : str := [73; 70; 83]%N.
Definition ifs_var (e : env) : option varval := lookup e IFS_name.

(* usize::to_string *)
Fixpoint decimal_go (fuel : nat) (n : N) (acc : str) : str :=
  match fuel with
  | O => acc
  | S f =>
      let acc' := (48 + N.modulo n 10)%N :: acc in
      let q := N.div n 10 in
      if N.eqb q 0 then acc' else decimal_go f q acc'
  end.
Definition decimal (n : N) : str := decimal_go (S (N.to_nat (N.log2 n))) n [].

(* ---- resolve.rs --------------------------------------------------------------- *)

Definition resolve (e : env) (p : param) : option varval :=
  match p with
  | PVar name => lookup e name
  | PAt | PStar => Some (Array (positional e))
  | PNum => Some (Scalar (decimal (N.of_nat (length (positional e)))))
  | PPos O => None
  | PPos (S i) => option_map Scalar (nth_error (positional e) i)
  end.

(* ---- switch.rs ------------------------------------------------------------------ *)

Inductive vacancy := VUnset | VEmptyScalar | VValuelessArray | VEmptyValueArray.

(* Vacancy::of *)
Definition vacancy_of (v : option varval) : option vacancy :=
  match v with
  | None => Some VUnset
  | Some (Scalar []) => Some VEmptyScalar
  | Some (Array []) => Some VValuelessArray
  | Some (Array [[]]) => Some VEmptyValueArray
  | Some _ => None
  end.

Inductive value_condition := Occupied | Vacant (v : vacancy).

(* ValueCondition::with; colon = SwitchCondition::UnsetOrEmpty *)
Definition value_condition_with (colon : bool) (v : option vacancy) : value_condition :=
  match colon, v with
  | _, None => Occupied
  | true, Some v => Vacant v
  | false, Some VUnset => Vacant VUnset
  | false, Some _ => Occupied
  end.

Inductive decision :=
| Continue                      (* apply returns None: go on with the value *)
| UseWord                       (* expand the word instead *)
| DoAssign (v : vacancy)
| DoError (v : vacancy).

(* the [match (switch.action, cond)] of switch::apply *)
Definition switch_decide (a : action) (c : value_condition) : decision :=
  match a, c with
  | Alter, Vacant _ | Default, Occupied | Assign, Occupied | Error, Occupied => Continue
  | Alter, Occupied | Default, Vacant _ => UseWord
  | Assign, Vacant v => DoAssign v
  | Error, Vacant v => DoError v
  end.

(* fn attribute: literal characters of the word become results of the expansion *)
Definition attribute_char (c : attrchar) : attrchar :=
  match origin_of c with
  | Literal => AC (value c) SoftExpansion (is_quoted c) (is_quoting c)
  | _ => c
  end.
Definition attribute (p : phrase) : phrase := phrase_map attribute_char p.

(* ---- param.rs helpers --------------------------------------------------------------- *)

Definition to_field (s : str) : field := map (fun c => AC c SoftExpansion false false) s.

Definition into_phrase (v : option varval) : phrase :=
  match v with
  | None => one_empty_field
  | Some (Scalar s) => Field (to_field s)
  | Some (Array vs) => Full (map to_field vs)
  end.

Definition to_length (s : str) : str := decimal (N.of_nat (length s)).

Definition is_star (p : param) : bool := match p with PStar => true | _ => false end.
Definition is_variable (p : param) : option str := match p with PVar n => Some n | _ => None end.

(* ---- trim.rs, on the pattern subset { literal, ?, * } -------------------------------- *)

Inductive pchar := PLiteral (c : N) | PNormal (c : N).      (* yash_fnmatch::PatternChar *)

(* attr_fnmatch::apply_escapes: [for j in 1..len { i = j-1; if chars[i] is an
   unquoted, non-quoting backslash { chars[i].is_quoting = true;
   chars[j].is_quoted = true } }].  [q]: the previous character was such a
   backslash.  The last character is never made quoting. *)
Fixpoint apply_escapes_go (q : bool) (f : field) : field :=
  match f with
  | [] => []
  | c :: r =>
      let c1 := if q then AC (value c) (origin_of c) true (is_quoting c) else c in
      match r with
      | [] => [c1]
      | _ :: _ =>
          if N.eqb (value c1) 92 && negb (is_quoting c1) && negb (is_quoted c1)
          then AC (value c1) (origin_of c1) (is_quoted c1) true :: apply_escapes_go true r
          else c1 :: apply_escapes_go false r
      end
  end.
Definition apply_escapes (f : field) : field := apply_escapes_go false f.

(* attr_fnmatch::to_pattern_chars *)
Fixpoint to_pattern_chars (f : field) : list pchar :=
  match f with
  | [] => []
  | c :: r =>
      if is_quoting c then to_pattern_chars r
      else (if is_quoted c then PLiteral (value c) else PNormal (value c)) :: to_pattern_chars r
  end.

(* the patterns this model covers: no bracket expression.  (A backslash that
   is still there after apply_escapes — it can only be the last character —
   is an ordinary character for yash_fnmatch::ast::Atom::parse.) *)
Definition pchar_supported (p : pchar) : bool :=
  match p with
  | PLiteral _ => true
  | PNormal c => negb (N.eqb c 91)
  end.

(* whole-string match of a pattern of literals, ? and * *)
Fixpoint pmatch (p : list pchar) (s : str) {struct p} : bool :=
  match p with
  | [] => match s with [] => true | _ => false end
  | PNormal 42%N :: p' =>
      (fix star (s : str) : bool :=
         pmatch p' s || match s with [] => false | _ :: s' => star s' end) s
  | PNormal 63%N :: p' => match s with [] => false | _ :: s' => pmatch p' s' end
  | PLiteral c :: p' | PNormal c :: p' =>
      match s with [] => false | d :: s' => N.eqb c d && pmatch p' s' end
  end.

(* candidates for the length of the removed part, in the order of preference *)
Definition trim_lengths (l : trim_length) (n : nat) : list nat :=
  match l with
  | Shortest => seq 0 (S n)
  | Longest => rev (seq 0 (S n))
  end.

(* fn trim_value: remove the shortest/longest matching prefix/suffix *)
Definition trim_value (s : trim_side) (l : trim_length) (p : list pchar) (v : str) : str :=
  let n := length v in
  match s with
  | Prefix =>
      match find (fun k => pmatch p (firstn k v)) (trim_lengths l n) with
      | Some k => skipn k v
      | None => v
      end
  | Suffix =>
      match find (fun k => pmatch p (skipn (n - k) v)) (trim_lengths l n) with
      | Some k => firstn (n - k) v
      | None => v
      end
  end.

Definition value_map (g : str -> str) (v : varval) : varval :=
  match v with
  | Scalar s => Scalar (g s)
  | Array vs => Array (map g vs)
  end.

(* ---- word.rs helpers ---------------------------------------------------------------------- *)

Definition SINGLE_QUOTE : attrchar := AC 39 Literal false true.
Definition DOUBLE_QUOTE : attrchar := AC 34 Literal false true.

Definition single_quote (s : str) : phrase :=
  Field (SINGLE_QUOTE :: map (fun c => AC c Literal true false) s ++ [SINGLE_QUOTE]).

Definition set_quoted (c : attrchar) : attrchar := AC (value c) (origin_of c) true (is_quoting c).

Definition quote_field (f : field) : field := DOUBLE_QUOTE :: map set_quoted f ++ [DOUBLE_QUOTE].

Definition double_quote (p : phrase) : phrase :=
  match p with
  | Char c => Field [DOUBLE_QUOTE; set_quoted c; DOUBLE_QUOTE]
  | Field f => Field (quote_field f)
  | Full fs => Full (map quote_field fs)
  end.

(* fn dollar_single_quote *)
Definition dollar_single_quote (s : str) : phrase :=
  Field (AC 36 Literal false true :: SINGLE_QUOTE
         :: map (fun c => AC c Literal true false) s ++ [SINGLE_QUOTE]).

(* tilde::finish: characters of hard-expansion origin; one trailing slash is
   dropped when a slash follows; an empty result is a dummy quote *)
Definition strip_suffix_slash (s : str) : str :=
  match rev s with
  | 47%N :: r => rev r
  | _ => s
  end.
Definition tilde_finish (home : str) (followed_by_slash : bool) : field :=
  let chars := if followed_by_slash then strip_suffix_slash home else home in
  match chars with
  | [] => [AC 34 HardExpansion false true]
  | _ => map (fun c => AC c HardExpansion false false) chars
  end.

(* command_subst.rs: result.trim_end_matches('\n') *)
Fixpoint drop_newlines (s : str) : str :=
  match s with
  | 10%N :: r => drop_newlines r
  | _ => s
  end.
Definition trim_end_newlines (s : str) : str := rev (drop_newlines (rev s)).

(* ---- results -------------------------------------------------------------------------------- *)

Inductive error :=
| EUnset            (* ErrorCause::UnsetParameter (nounset) *)
| EVacant           (* ErrorCause::VacantExpansion (the ? switch) *)
| ENonassignable    (* ErrorCause::NonassignableParameter *)
| EDomain.          (* not a Rust error: a trim pattern outside the subset
                       { literal, ?, * } this model covers (generator bug) *)

(* The Rust functions mutate the environment in place and return
   Result<Phrase, Error>; the environment after a successful call is part of
   the model's result (after an error the shell gives the command up). *)
Inductive res (A : Type) :=
| Ok (a : A) (e : env)
| Err (k : error).
Arguments Ok {A}.
Arguments Err {A}.

(* impl Expand for [T]: one empty field for an empty slice, else the items'
   phrases appended to zero fields *)
Definition expand_slice {T} (go : T -> phrase -> env -> res phrase) (is_empty : T -> bool)
    (t : T) (e : env) : res phrase :=
  if is_empty t then Ok one_empty_field e else go t zero_fields e.

Definition text_is_empty (t : text) : bool := match t with TNil => true | _ => false end.
Definition word_is_empty (w : word) : bool := match w with WNil => true | _ => false end.

(* the tail of ParamRef::expand, after the switch and the nounset check *)
Definition finish_param (ws : bool) (p : param) (v : option varval) (e : env) : res phrase :=
  let ph := into_phrase v in
  if negb ws && is_star p then Ok (Field (ifs_join ph (ifs_var e))) e else Ok ph e.

(* [ws] is Env::will_split *)
Fixpoint expand_tunit (ws : bool) (u : tunit) (e : env) {struct u} : res phrase :=
  match u with
  | TLit c => Ok (Char (AC c Literal false false)) e
  | TBs c => Ok (Field [AC 92 Literal false true; AC c Literal true false]) e
  | TParam p m =>
      (* ParamRef::expand *)
      let v := resolve e p in
      match m with
      | MSwitch a colon w =>
          match switch_decide a (value_condition_with colon (vacancy_of v)) with
          | Continue => finish_param ws p v e
          | UseWord =>
              match expand_slice (expand_word_go ws) word_is_empty w e with
              | Ok ph e' => Ok (attribute ph) e'
              | Err k => Err k
              end
          | DoAssign _ =>
              (* fn assign *)
              match is_variable p with
              | None => Err ENonassignable
              | Some name =>
                  match expand_slice (expand_word_go ws) word_is_empty w e with
                  | Ok ph e' =>
                      let joined := ifs_join (attribute ph) (ifs_var e') in
                      let final := remove_quotes_and_strip joined in
                      Ok (Field (to_field final)) (assign_scalar e' name final)
                  | Err k => Err k
                  end
              end
          | DoError _ =>
              (* vacant_expansion_error: the message word is expanded first
                 (by expand_word, i.e. in a fresh splitting context) *)
              if word_is_empty w then Err EVacant
              else
                match expand_word_go true w zero_fields e with
                | Ok _ e' => Err EVacant
                | Err k => Err k
                end
          end
      | MNone =>
          match v with
          | None => if nounset e then Err EUnset else finish_param ws p v e
          | Some _ => finish_param ws p v e
          end
      | MLength =>
          match v with
          | None => if nounset e then Err EUnset
                    else finish_param ws p (Some (Scalar [48%N])) e
          | Some v' => finish_param ws p (Some (value_map to_length v')) e
          end
      | MTrim s l w =>
          match v with
          | None => if nounset e then Err EUnset else finish_param ws p v e
          | Some v' =>
              (* trim::apply *)
              match expand_slice (expand_word_go ws) word_is_empty w e with
              | Ok ph e' =>
                  let pat := to_pattern_chars (apply_escapes (ifs_join ph (ifs_var e'))) in
                  if forallb pchar_supported pat
                  then finish_param ws p (Some (value_map (trim_value s l pat) v')) e'
                  else Err EDomain
              | Err k => Err k
              end
          end
      end
  | TSubst raw =>
      (* command_subst::expand_common: the output without its trailing newlines *)
      Ok (Field (to_field (trim_end_newlines raw))) e
  | TArith t v =>
      (* arith::expand: expand_text on the content (fresh splitting context),
         then the value as characters of soft-expansion origin *)
      match expand_slice (expand_text_go true) text_is_empty t e with
      | Ok _ e' => Ok (Field (to_field v)) e'
      | Err k => Err k
      end
  end
with expand_text_go (ws : bool) (t : text) (acc : phrase) (e : env) {struct t} : res phrase :=
  match t with
  | TNil => Ok acc e
  | TCons u t' =>
      match expand_tunit ws u e with
      | Ok ph e' => expand_text_go ws t' (append acc ph) e'
      | Err k => Err k
      end
  end
with expand_wunit (ws : bool) (u : wunit) (e : env) {struct u} : res phrase :=
  match u with
  | WUnq t => expand_tunit ws t e
  | WSq s => Ok (single_quote s) e
  | WDq t =>
      match expand_slice (expand_text_go false) text_is_empty t e with
      | Ok ph e' => Ok (double_quote ph) e'
      | Err k => Err k
      end
  | WDsq s => Ok (dollar_single_quote s) e
  | WTilde home slash => Ok (Field (tilde_finish home slash)) e
  end
with expand_word_go (ws : bool) (w : word) (acc : phrase) (e : env) {struct w} : res phrase :=
  match w with
  | WNil => Ok acc e
  | WCons u w' =>
      match expand_wunit ws u e with
      | Ok ph e' => expand_word_go ws w' (append acc ph) e'
      | Err k => Err k
      end
  end.

Definition expand_text (ws : bool) (t : text) (e : env) : res phrase :=
  expand_slice (expand_text_go ws) text_is_empty t e.
Definition expand_word (ws : bool) (w : word) (e : env) : res phrase :=
  expand_slice (expand_word_go ws) word_is_empty w e.

(* ---- expansion.rs: expand_word_multiple with the Glob option off ------------------------- *)

Section Multi.
  Variable is_ws : N -> bool.

  Definition env_ifs (e : env) : ifs :=
    match ifs_var e with
    | Some (Scalar s) => ifs_new is_ws s        (* get_scalar(IFS).map(Ifs::new) *)
    | _ => ifs_new is_ws ifs_default_chars      (* unwrap_or_default *)
    end.

  Definition expand_word_multiple (w : word) (e : env) : res (list str) :=
    match expand_word true w e with
    | Ok ph e' =>
        let i := env_ifs e' in
        let split_fields := flat_map (split i) (phrase_fields ph) in
        Ok (map remove_quotes_and_strip split_fields) e'
    | Err k => Err k
    end.

  (* expansion.rs expand_word (ExpansionMode::Single: assignment values, case
     words, ...): initial expansion, ifs_join, quote removal; no splitting *)
  (* expansion.rs expand_text (here-document bodies, arithmetic content):
     initial expansion of a text, ifs_join, quote removal *)
  Definition expand_text_single (t : text) (e : env) : res str :=
    match expand_text true t e with
    | Ok ph e' => Ok (remove_quotes_and_strip (ifs_join ph (ifs_var e'))) e'
    | Err k => Err k
    end.

  Definition expand_word_single (w : word) (e : env) : res str :=
    match expand_word true w e with
    | Ok ph e' => Ok (remove_quotes_and_strip (ifs_join ph (ifs_var e'))) e'
    | Err k => Err k
    end.

  (* expand_words: the words of one simple command *)
  Fixpoint expand_words (ws : list word) (e : env) : res (list str) :=
    match ws with
    | [] => Ok [] e
    | w :: r =>
        match expand_word_multiple w e with
        | Ok fs e' =>
            match expand_words r e' with
            | Ok fs' e'' => Ok (fs ++ fs') e''
            | Err k => Err k
            end
        | Err k => Err k
        end
    end.

  (* the commands of a script, one after the other; an expansion error ends
     the (non-interactive) shell: the fields of the commands that ran, and
     the error that stopped it, if any *)
  Fixpoint run_cmds (cmds : list (list word)) (e : env) : list (list str) * option error :=
    match cmds with
    | [] => ([], None)
    | ws :: r =>
        match expand_words ws e with
        | Ok fs e' => let (o, s) := run_cmds r e' in (fs :: o, s)
        | Err k => ([], Some k)
        end
    end.
End Multi.

(* ======================================================================== *)
(* MODEL, part 4: the read built-in (yash-builtin/src/read/input.rs,         *)
(*   read/assigning.rs)                                                      *)
(* ======================================================================== *)

(* input::read with delimiter '\n': the characters of the first line with
   their attributes, and whether the newline was found.  Without -r a
   backslash-newline pair is a line continuation and any other backslash
   quotes the next character. *)
Fixpoint read_input (is_raw : bool) (s : str) : field * bool :=
  match s with
  | [] => ([], false)
  | c :: r =>
      if N.eqb c 10 then ([], true)
      else if N.eqb c 92 && negb is_raw then
        match r with
        | [] => ([AC 92 SoftExpansion false true], false)
        | d :: r' =>
            if N.eqb d 10 then read_input is_raw r'
            else
              let (f, b) := read_input is_raw r' in
              (AC 92 SoftExpansion false true :: AC d SoftExpansion true false :: f, b)
        end
      else
        let (f, b) := read_input is_raw r in
        (AC c SoftExpansion false false :: f, b)
  end.

(* text.iter().rposition(|c| classify_attr(c) != IfsWhitespace) *)
Fixpoint rposition_go (i : ifs) (l : field) (k : nat) (best : option nat) : option nat :=
  match l with
  | [] => best
  | c :: r =>
      rposition_go i r (S k)
        (if class_eqb (classify_attr i c) IfsWhitespace then best else Some k)
  end.
Definition rposition_non_ws (i : ifs) (text : field) : option nat := rposition_go i text O None.

(* assigning::assign: the values given to the variables (all but the last,
   then the last); None = the [unwrap] of rposition panics *)
Definition read_assign (i : ifs) (text : field) (nvars : nat) : option (list str) :=
  let rs := ranges i text in
  let firsts :=
    map (fun k => match nth_error rs k with
                  | Some r => remove_quotes_and_strip (slice text r)
                  | None => []
                  end) (seq 0 nvars) in
  let last_range :=
    match skipn nvars rs with
    | [] => Some (O, O)
    | [r] => Some r
    | r :: _ :: _ =>
        match rposition_non_ws i text with
        | Some p => Some (fst r, S p)
        | None => None
        end
    end in
  match last_range with
  | Some r => Some (firsts ++ [remove_quotes_and_strip (slice text r)])
  | None => None
  end.

Section ReadIfs.
  Variable is_ws : N -> bool.
  (* get_scalar(IFS).unwrap_or(Ifs::DEFAULT) *)
  Definition read_ifs (ifs_value : option str) : ifs :=
    match ifs_value with
    | Some s => ifs_new is_ws s
    | None => ifs_new is_ws ifs_default_chars
    end.

  (* read [-r] v1 .. vn vlast on the given standard input: the values and the
     exit status (0, or 1 at end of input without a newline) *)
  Definition read_builtin (ifs_value : option str) (is_raw : bool) (input : str) (nvars : nat)
      : option (list str * N) :=
    let (text, nl) := read_input is_raw input in
    match read_assign (read_ifs ifs_value) text nvars with
    | Some vs => Some (vs, if nl then 0%N else 1%N)
    | None => None
    end.
End ReadIfs.
