(* C01 — proofs about field splitting: the [Ranges] state machine equals the
   recursive-descent specification, nothing is lost, quoted characters are
   never split off or dropped, no slice panics. *)
From Yv Require Import Common.Base C01.Model C01.Spec.

(* ---- the specification itself: total, functional, executable ------------- *)

Section SpecFacts.
  Context {A : Type}.
  Variable cls : A -> class.

  Notation isN := (isN cls).
  Notation isW := (isW cls).
  Notation isD := (isD cls).
  Notation dropW := (dropW cls).
  Notation dropD := (dropD cls).
  Notation spanN := (spanN cls).
  Notation eat_delim := (eat_delim cls).
  Notation Fields := (Fields cls).

  Lemma class_cases a :
    (isN a = true /\ isW a = false /\ isD a = false) \/
    (isN a = false /\ isW a = true /\ isD a = false) \/
    (isN a = false /\ isW a = false /\ isD a = true).
  Proof. unfold Spec.isN, Spec.isW, Spec.isD; destruct (cls a); auto. Qed.

  Lemma length_dropW l : length (dropW l) <= length l.
  Proof.
    induction l as [|a l IH]; cbn; [lia|].
    destruct (isW a); cbn; lia.
  Qed.

  Lemma length_dropD l : length (dropD l) <= length l.
  Proof. destruct l as [|a l]; cbn; [lia|]. destruct (isD a); cbn; lia. Qed.

  Lemma length_eat_delim l : length (eat_delim l) <= length l.
  Proof.
    unfold Spec.eat_delim.
    pose proof (length_dropW (dropD (dropW l))).
    pose proof (length_dropD (dropW l)).
    pose proof (length_dropW l). lia.
  Qed.

  Lemma dropW_idem l : dropW (dropW l) = dropW l.
  Proof.
    induction l as [|a l IH]; cbn; [reflexivity|].
    destruct (isW a) eqn:E; [exact IH|]. cbn. rewrite E. reflexivity.
  Qed.

  Lemma spanN_app l f rest : spanN l = (f, rest) -> l = f ++ rest.
  Proof.
    revert f rest; induction l as [|a l IH]; cbn; intros f rest H.
    - inversion H; reflexivity.
    - destruct (isN a).
      + destruct (spanN l) as [f' rest'] eqn:E. inversion H; subst.
        cbn. f_equal. apply IH. reflexivity.
      + inversion H; reflexivity.
  Qed.

  Lemma spanN_all l f rest : spanN l = (f, rest) -> forallb isN f = true.
  Proof.
    revert f rest; induction l as [|a l IH]; cbn; intros f rest H.
    - inversion H; reflexivity.
    - destruct (isN a) eqn:Ea.
      + destruct (spanN l) as [f' rest'] eqn:E. inversion H; subst.
        cbn. rewrite Ea. eapply IH. reflexivity.
      + inversion H; reflexivity.
  Qed.

  Lemma spanN_rest l f rest :
    spanN l = (f, rest) -> match rest with [] => True | b :: _ => isN b = false end.
  Proof.
    revert f rest; induction l as [|a l IH]; cbn; intros f rest H.
    - inversion H; exact I.
    - destruct (isN a) eqn:Ea.
      + destruct (spanN l) as [f' rest'] eqn:E. inversion H; subst.
        eapply IH. reflexivity.
      + inversion H; subst. exact Ea.
  Qed.

  (* every step of the descent consumes at least one character *)
  Lemma spanN_progress a l f rest :
    spanN (a :: l) = (f, rest) -> length (eat_delim rest) < length (a :: l).
  Proof.
    intros H. cbn in H. destruct (isN a) eqn:Ea.
    - destruct (spanN l) as [f' rest'] eqn:E. inversion H; subst.
      apply spanN_app in E. subst l. pose proof (length_eat_delim rest).
      cbn. rewrite app_length. lia.
    - inversion H; subst. unfold Spec.eat_delim.
      destruct (class_cases a) as [[C _]|[[_ [Cw Cd]]|[_ [Cw Cd]]]].
      + congruence.
      + cbn [Spec.dropW]. rewrite Cw.
        pose proof (length_dropW (dropD (dropW l))).
        pose proof (length_dropD (dropW l)).
        pose proof (length_dropW l). cbn [length]. lia.
      + cbn [Spec.dropW]. rewrite Cw. cbn [Spec.dropD]. rewrite Cd.
        pose proof (length_dropW l). cbn [length]. lia.
  Qed.

  Lemma Fields_fun l fs1 : Fields l fs1 -> forall fs2, Fields l fs2 -> fs1 = fs2.
  Proof.
    induction 1 as [|a l f rest fs Hs Hf IH]; intros fs2 H2; inversion H2; subst.
    - reflexivity.
    - match goal with H : Spec.spanN _ (a :: l) = _ |- _ => rewrite Hs in H; inversion H; subst end.
      f_equal. apply IH. assumption.
  Qed.

  Lemma Fields_total_aux n : forall l, length l <= n -> exists fs, Fields l fs.
  Proof.
    induction n as [|n IH]; intros l Hl.
    - destruct l; [exists []; constructor | cbn in Hl; lia].
    - destruct l as [|a l]; [exists []; constructor|].
      destruct (spanN (a :: l)) as [f rest] eqn:E.
      pose proof (spanN_progress _ _ _ _ E) as P.
      destruct (IH (eat_delim rest)) as [fs Hfs]; [cbn in Hl, P; lia|].
      exists (f :: fs). econstructor; eassumption.
  Qed.

  Lemma Fields_total l : exists fs, Fields l fs.
  Proof. apply (Fields_total_aux (length l)). lia. Qed.

  Lemma fields_opt_complete l fs :
    Fields l fs -> forall fuel, length l <= fuel -> fields_opt cls fuel l = Some fs.
  Proof.
    induction 1 as [|a l f rest fs Hs Hf IH]; intros fuel Hfuel.
    - destruct fuel; reflexivity.
    - destruct fuel as [|n]; [cbn in Hfuel; lia|].
      cbn [fields_opt]. rewrite Hs.
      rewrite IH; [reflexivity|].
      pose proof (spanN_progress _ _ _ _ Hs). cbn in *. lia.
  Qed.

  Lemma split_spec_iff l fs : split_spec cls l = Some fs <-> SplitSpec cls l fs.
  Proof.
    unfold split_spec, SplitSpec. split.
    - intros H. destruct (Fields_total (dropW l)) as [fs' Hfs'].
      rewrite (fields_opt_complete _ _ Hfs') in H by apply length_dropW.
      inversion H; subst. exact Hfs'.
    - intros H. apply fields_opt_complete; [exact H | apply length_dropW].
  Qed.

  Lemma SplitSpec_fun l fs1 fs2 : SplitSpec cls l fs1 -> SplitSpec cls l fs2 -> fs1 = fs2.
  Proof. intros H1 H2. exact (Fields_fun _ _ H1 _ H2). Qed.

  (* the fuel never runs out *)
  Lemma split_spec_total l : exists fs, split_spec cls l = Some fs.
  Proof.
    destruct (Fields_total (dropW l)) as [fs H]. exists fs.
    apply split_spec_iff. exact H.
  Qed.

  (* ---- nothing is lost, nothing is invented ---------------------------------- *)

  Lemma filter_isN_dropW l : filter isN (dropW l) = filter isN l.
  Proof.
    induction l as [|a l IH]; cbn; [reflexivity|].
    destruct (class_cases a) as [[Cn [Cw _]]|[[Cn [Cw _]]|[Cn [Cw _]]]]; rewrite Cw; cbn; rewrite ?Cn; auto.
  Qed.

  Lemma filter_isN_dropD l : filter isN (dropD l) = filter isN l.
  Proof.
    destruct l as [|a l]; cbn; [reflexivity|].
    destruct (class_cases a) as [[Cn [_ Cd]]|[[Cn [_ Cd]]|[Cn [_ Cd]]]]; rewrite Cd; cbn; rewrite ?Cn; auto.
  Qed.

  Lemma filter_isN_eat_delim l : filter isN (eat_delim l) = filter isN l.
  Proof.
    unfold Spec.eat_delim. rewrite filter_isN_dropW, filter_isN_dropD, filter_isN_dropW. reflexivity.
  Qed.

  Lemma filter_all_true (p : A -> bool) l : forallb p l = true -> filter p l = l.
  Proof.
    induction l as [|a l IH]; cbn; [reflexivity|].
    intros H. apply andb_true_iff in H as [Ha Hl]. rewrite Ha, IH; auto.
  Qed.

  Lemma Fields_concat l fs : Fields l fs -> concat fs = filter isN l.
  Proof.
    induction 1 as [|a l f rest fs Hs Hf IH].
    - reflexivity.
    - cbn [concat]. rewrite IH, filter_isN_eat_delim.
      pose proof (spanN_app _ _ _ Hs) as E. rewrite E, filter_app.
      rewrite (filter_all_true _ _ (spanN_all _ _ _ Hs)). reflexivity.
  Qed.

  Lemma Fields_all_nonifs l fs : Fields l fs -> Forall (fun f => forallb isN f = true) fs.
  Proof.
    induction 1 as [|a l f rest fs Hs Hf IH]; constructor.
    - eapply spanN_all; eassumption.
    - exact IH.
  Qed.

  (* an empty field can only come from a non-white-space delimiter *)
  Lemma dropW_head l : match dropW l with [] => True | b :: _ => isW b = false end.
  Proof.
    induction l as [|a l IH]; cbn; [exact I|].
    destruct (isW a) eqn:E; [exact IH | exact E].
  Qed.

  Lemma eat_delim_head l : match eat_delim l with [] => True | b :: _ => isW b = false end.
  Proof. unfold Spec.eat_delim. apply dropW_head. Qed.

  Lemma Fields_no_empty l fs :
    forallb (fun a => negb (isD a)) l = true ->
    match l with [] => True | b :: _ => isW b = false end ->
    Fields l fs -> Forall (fun f => f <> []) fs.
  Proof.
    intros HD Hh H. induction H as [|a l f rest fs Hs Hf IH]; constructor.
    - cbn in Hs. destruct (isN a) eqn:Ea.
      + destruct (Spec.spanN cls l); inversion Hs; discriminate.
      + exfalso. cbn in HD. apply andb_true_iff in HD as [Hd _].
        destruct (class_cases a) as [[C _]|[[_ [Cw Cd]]|[_ [Cw Cd]]]]; try congruence.
        rewrite Cd in Hd. discriminate.
    - apply IH; [|apply eat_delim_head].
      pose proof (spanN_app _ _ _ Hs) as E.
      assert (Hr : forallb (fun a => negb (isD a)) rest = true).
      { rewrite E, forallb_app in HD. apply andb_true_iff in HD. tauto. }
      clear - Hr. unfold Spec.eat_delim.
      assert (HW : forall l, forallb (fun a => negb (isD a)) l = true ->
                             forallb (fun a => negb (isD a)) (dropW l) = true).
      { induction l as [|b l IHl]; cbn; [auto|]. intros H.
        apply andb_true_iff in H as [Hb Hl]. destruct (isW b); [auto|]. cbn. rewrite Hb, Hl. reflexivity. }
      apply HW. assert (HDd : forallb (fun a => negb (isD a)) (dropD (dropW rest)) = true).
      { specialize (HW _ Hr). destruct (dropW rest) as [|b r]; cbn; [reflexivity|].
        cbn in HW. apply andb_true_iff in HW as [Hb Hl]. destruct (isD b) eqn:Eb; [exact Hl|]. cbn. rewrite Eb, Hl.
        reflexivity. }
      exact HDd.
  Qed.

  (* ---- the state machine --------------------------------------------------------- *)

  Lemma slice_mid (p r x : list A) :
    slice (p ++ r ++ x) (length p, length p + length r) = r.
  Proof.
    unfold slice; cbn [fst snd].
    replace (length p + length r - length p) with (length r) by lia.
    rewrite skipn_app, skipn_all, Nat.sub_diag. cbn [skipn app].
    rewrite firstn_app, firstn_all, Nat.sub_diag. cbn. apply app_nil_r.
  Qed.

  Lemma slice_empty (p x : list A) : slice (p ++ x) (length p, length p) = [].
  Proof. unfold slice; cbn [fst snd]. rewrite Nat.sub_diag. reflexivity. Qed.

  Lemma dropW_W a l : isW a = true -> dropW (a :: l) = dropW l.
  Proof. intros H; cbn; rewrite H; reflexivity. Qed.

  Lemma dropW_notW a l : isW a = false -> dropW (a :: l) = a :: l.
  Proof. intros H; cbn; rewrite H; reflexivity. Qed.

  Lemma eat_delim_W a l : isW a = true -> eat_delim (a :: l) = eat_delim l.
  Proof. intros H; unfold Spec.eat_delim; rewrite dropW_W by exact H; reflexivity. Qed.

  Lemma eat_delim_D a l : isW a = false -> isD a = true -> eat_delim (a :: l) = dropW l.
  Proof.
    intros Hw Hd; unfold Spec.eat_delim; rewrite dropW_notW by exact Hw. cbn [Spec.dropD]. rewrite Hd. reflexivity.
  Qed.

  Lemma eat_delim_N a l : isW a = false -> isD a = false -> eat_delim (a :: l) = a :: l.
  Proof.
    intros Hw Hd; unfold Spec.eat_delim; rewrite dropW_notW by exact Hw. cbn [Spec.dropD]. rewrite Hd.
    apply dropW_notW; exact Hw.
  Qed.

  (* The fields together with the input that was left when each of them
     started (needed for the remainder rule of [read]). *)
  Inductive FieldsS : list A -> list (list A * list A) -> Prop :=
  | FieldsS_nil : FieldsS [] []
  | FieldsS_cons a l f rest fs :
      spanN (a :: l) = (f, rest) ->
      FieldsS (eat_delim rest) fs ->
      FieldsS (a :: l) ((f, a :: l) :: fs).

  Lemma FieldsS_Fields l ps : FieldsS l ps -> Fields l (map fst ps).
  Proof. induction 1; cbn [map fst]; econstructor; eassumption. Qed.

  Lemma skipn_app_len (p x : list A) : skipn (length p) (p ++ x) = x.
  Proof. rewrite skipn_app, skipn_all, Nat.sub_diag. reflexivity. Qed.

  Definition outS (full : list A) (st : rstate) (i : nat) (l : list A) : list (list A * list A) :=
    map (fun r => (slice full r, skipn (fst r) full)) (ranges_go st i (map cls l)).

  Lemma machine_specS : forall l pre,
    FieldsS (dropW l) (outS (pre ++ l) AfterIfsNonWhitespace (length pre) l)
    /\ FieldsS (eat_delim l) (outS (pre ++ l) AfterIfsWhitespace (length pre) l)
    /\ (forall p0 run, pre = p0 ++ run -> forallb isN run = true ->
          exists fs, outS (pre ++ l) (Midfield (length p0)) (length pre) l
                     = (run ++ fst (spanN l), run ++ l) :: fs
                     /\ FieldsS (eat_delim (snd (spanN l))) fs).
  Proof.
    induction l as [|a l IH]; intros pre.
    - split; [|split].
      + cbn. constructor.
      + cbn. constructor.
      + intros p0 run -> Hrun. exists []. split; [|cbn; constructor].
        unfold outS. cbn [map ranges_go Spec.spanN fst].
        rewrite !app_nil_r. f_equal. f_equal.
        * rewrite <- (app_nil_r run) at 1. rewrite app_length.
          rewrite slice_mid. reflexivity.
        * apply skipn_app_len.
    - assert (Efull : pre ++ a :: l = (pre ++ [a]) ++ l) by (rewrite <- app_assoc; reflexivity).
      assert (Elen : S (length pre) = length (pre ++ [a])) by (rewrite app_length; cbn; lia).
      destruct (IH (pre ++ [a])) as [IHa [IHb IHc]].
      rewrite <- Efull, <- Elen in IHa, IHb.
      assert (Mid : isN a = true ->
                    FieldsS (a :: l) (outS (pre ++ a :: l) (Midfield (length pre)) (S (length pre)) l)).
      { intros Ca. destruct (IHc pre [a] eq_refl) as [fs [E Hfs]]; [cbn; rewrite Ca; reflexivity|].
        rewrite <- Efull, <- Elen in E. rewrite E.
        destruct (spanN l) as [f' rest'] eqn:Es. cbn [fst snd] in *.
        cbn [app]. econstructor; [|exact Hfs]. cbn. rewrite Ca, Es. reflexivity. }
      unfold outS in *. cbn [map].
      destruct (class_cases a) as [[Cn [Cw Cd]]|[[Cn [Cw Cd]]|[Cn [Cw Cd]]]].
      + (* non-IFS character *)
        assert (Ec : cls a = NonIfs).
        { revert Cn; unfold Spec.isN; destruct (cls a); congruence. }
        rewrite Ec. cbn [ranges_go].
        split; [|split].
        * rewrite dropW_notW by exact Cw. apply Mid; exact Cn.
        * rewrite eat_delim_N by assumption. apply Mid; exact Cn.
        * intros p0 run -> Hrun.
          destruct (IHc p0 (run ++ [a])) as [fs [E Hfs]].
          { rewrite app_assoc; reflexivity. }
          { rewrite forallb_app; cbn; rewrite Hrun, Cn; reflexivity. }
          rewrite <- Efull, <- Elen in E.
          exists fs. cbn [Spec.spanN]. rewrite Cn.
          destruct (spanN l) as [f' rest'] eqn:Es. cbn [fst snd] in *.
          split; [|exact Hfs]. rewrite E. rewrite <- !app_assoc. reflexivity.
      + (* IFS white space *)
        assert (Ec : cls a = IfsWhitespace).
        { revert Cw; unfold Spec.isW; destruct (cls a); congruence. }
        rewrite Ec. cbn [ranges_go].
        split; [|split].
        * rewrite dropW_W by exact Cw. exact IHa.
        * rewrite eat_delim_W by exact Cw. exact IHb.
        * intros p0 run -> Hrun.
          eexists. cbn [map Spec.spanN fst snd]. rewrite Cn. cbn [fst snd]. split.
          -- f_equal. f_equal.
             ++ rewrite app_nil_r. rewrite app_length.
                rewrite <- app_assoc. apply slice_mid.
             ++ rewrite <- app_assoc. apply skipn_app_len.
          -- rewrite eat_delim_W by exact Cw. exact IHb.
      + (* non-white-space delimiter *)
        assert (Ec : cls a = IfsNonWhitespace).
        { revert Cd; unfold Spec.isD; destruct (cls a); congruence. }
        rewrite Ec. cbn [ranges_go].
        split; [|split].
        * rewrite dropW_notW by exact Cw. cbn [map fst]. rewrite slice_empty, skipn_app_len.
          econstructor.
          -- cbn. rewrite Cn. reflexivity.
          -- rewrite eat_delim_D by assumption. exact IHa.
        * rewrite eat_delim_D by assumption. exact IHa.
        * intros p0 run -> Hrun.
          eexists. cbn [map Spec.spanN fst snd]. rewrite Cn. cbn [fst snd]. split.
          -- f_equal. f_equal.
             ++ rewrite app_nil_r. rewrite app_length.
                rewrite <- app_assoc. apply slice_mid.
             ++ rewrite <- app_assoc. apply skipn_app_len.
          -- rewrite eat_delim_D by assumption. exact IHa.
  Qed.

  Lemma machine_eq_specS l :
    FieldsS (dropW l)
      (map (fun r => (slice l r, skipn (fst r) l))
           (ranges_go AfterIfsNonWhitespace 0 (map cls l))).
  Proof. destruct (machine_specS l []) as [H _]. exact H. Qed.

  Lemma machine_eq_spec l :
    SplitSpec cls l (map (slice l) (ranges_go AfterIfsNonWhitespace 0 (map cls l))).
  Proof.
    pose proof (FieldsS_Fields _ _ (machine_eq_specS l)) as H.
    rewrite map_map in H. exact H.
  Qed.

  (* ranges are well formed: no slice can panic *)
  Lemma ranges_go_ok : forall l st i n,
    i + length l <= n ->
    match st with Midfield s => s <= i | _ => True end ->
    forallb (range_ok n) (ranges_go st i l) = true.
  Proof.
    induction l as [|c l IH]; intros st i n Hn Hst.
    - destruct st; cbn; [|reflexivity|reflexivity].
      unfold range_ok; cbn. rewrite andb_true_r. apply andb_true_iff; split; apply Nat.leb_le; cbn in Hn; lia.
    - cbn [length] in Hn.
      destruct st, c; cbn [ranges_go forallb];
        rewrite ?IH by (cbn; lia); rewrite ?andb_true_r; try reflexivity;
        unfold range_ok; cbn [fst snd]; apply andb_true_iff; split; apply Nat.leb_le; lia.
  Qed.
End SpecFacts.

(* ---- IFS classification: the code's two [contains] tests = the definition ---- *)

Section Classify.
  Variable is_ws : N -> bool.

  Lemma find_idx_none p s : find_idx p s = None -> filter p s = [].
  Proof.
    induction s as [|c s IH]; cbn; [reflexivity|].
    destruct (p c); [discriminate|]. destruct (find_idx p s); [discriminate|]. auto.
  Qed.

  Lemma find_idx_some p s i :
    find_idx p s = Some i ->
    filter p (firstn i s) = [] /\ exists c r, skipn i s = c :: r /\ p c = true.
  Proof.
    revert i; induction s as [|c s IH]; cbn; intros i H; [discriminate|].
    destruct (p c) eqn:Ec.
    - inversion H; subst. cbn. split; [reflexivity|]. eauto.
    - destruct (find_idx p s) as [j|]; [|discriminate]. inversion H; subst.
      destruct (IH j eq_refl) as [H1 H2]. cbn. rewrite Ec. auto.
  Qed.

  Lemma filter_negb_all (p : N -> bool) s : filter p s = [] -> filter (fun c => negb (p c)) s = s.
  Proof.
    induction s as [|c s IH]; cbn; [reflexivity|].
    destruct (p c); [discriminate|]. cbn. intros H; rewrite IH; auto.
  Qed.

  (* the hand-optimised [non_whitespaces] is just a filter *)
  Lemma filter_skip_prefix (p : N -> bool) s i :
    filter p (firstn i s) = [] -> filter p s = filter p (skipn i s).
  Proof.
    intros H. rewrite <- (firstn_skipn i s) at 1. rewrite filter_app, H. reflexivity.
  Qed.

  Lemma non_whitespaces_filter s : non_whitespaces is_ws s = filter (not_ws is_ws) s.
  Proof.
    unfold non_whitespaces.
    destruct (find_idx (not_ws is_ws) s) as [start|] eqn:E1.
    2:{ symmetry; apply find_idx_none; exact E1. }
    destruct (find_idx_some _ _ _ E1) as [H1 _].
    rewrite (filter_skip_prefix _ _ _ H1).
    generalize (skipn start s) as s1. clear. intros s1.
    destruct (find_idx is_ws s1) as [len|] eqn:E2.
    2:{ apply find_idx_none in E2. symmetry. apply (filter_negb_all is_ws). exact E2. }
    destruct (find_idx_some _ _ _ E2) as [H2 _].
    assert (E : filter (not_ws is_ws) s1 = firstn len s1 ++ filter (not_ws is_ws) (skipn len s1)).
    { rewrite <- (firstn_skipn len s1) at 1. rewrite filter_app.
      f_equal. apply (filter_negb_all is_ws). exact H2. }
    rewrite E. generalize (skipn len s1) as s2. generalize (firstn len s1) as pre. clear.
    intros pre s2.
    destruct (find_idx (not_ws is_ws) s2) as [start2|] eqn:E3.
    2:{ apply find_idx_none in E3. rewrite E3, app_nil_r. reflexivity. }
    destruct (find_idx_some _ _ _ E3) as [H3 _].
    rewrite (filter_skip_prefix _ _ _ H3). reflexivity.
  Qed.

  Lemma contains_filter p s c : contains (filter p s) c = contains s c && p c.
  Proof.
    unfold contains. induction s as [|d s IH]; cbn [filter existsb]; [reflexivity|].
    destruct (p d) eqn:Ed; cbn [existsb]; rewrite IH; destruct (N.eqb_spec c d) as [->|Hn]; cbn [orb andb].
    - rewrite Ed. reflexivity.
    - reflexivity.
    - rewrite Ed, andb_false_r. reflexivity.
    - reflexivity.
  Qed.

  Lemma classify_attr_spec ic c :
    classify_attr (ifs_new is_ws ic) c = spec_class is_ws ic c.
  Proof.
    unfold classify_attr, spec_class, protected, classify, is_ifs, is_ifs_non_whitespace, ifs_new.
    cbn [ifs_chars ifs_non_whitespaces].
    rewrite non_whitespaces_filter, contains_filter. unfold contains, not_ws.
    destruct (origin_of c), (is_quoted c), (is_quoting c); cbn; try reflexivity.
    destruct (existsb (N.eqb (value c)) ic); cbn; [|reflexivity].
    destruct (is_ws (value c)); reflexivity.
  Qed.
End Classify.

(* ---- the theorems about [split] ---------------------------------------------------- *)

Section SplitTheorems.
  Variable is_ws : N -> bool.

  Lemma map_classify ic chars :
    map (classify_attr (ifs_new is_ws ic)) chars = map (spec_class is_ws ic) chars.
  Proof. apply map_ext. intros; apply classify_attr_spec. Qed.

  Lemma ranges_eq_split_spec_rel ic chars :
    SplitSpec (spec_class is_ws ic) chars (split (ifs_new is_ws ic) chars).
  Proof.
    unfold split, ranges. rewrite map_classify. apply machine_eq_spec.
  Qed.

  Lemma ranges_eq_split_spec_fun ic chars :
    split_spec (spec_class is_ws ic) chars = Some (split (ifs_new is_ws ic) chars).
  Proof. apply split_spec_iff. apply ranges_eq_split_spec_rel. Qed.

  Lemma split_oracle_sound ic chars :
    split_oracle is_ws ic chars (split (ifs_new is_ws ic) chars) = true.
  Proof.
    unfold split_oracle. rewrite ranges_eq_split_spec_fun.
    unfold fields_eqb. apply list_eqb_spec; [|reflexivity].
    intros x y. apply list_eqb_spec. intros a b.
    unfold attrchar_eqb. destruct a as [v1 o1 q1 g1], b as [v2 o2 q2 g2]; cbn.
    rewrite !andb_true_iff, N.eqb_eq, !eqb_true_iff.
    split.
    - intros [[[-> Ho] ->] ->]. destruct o1, o2; cbn in Ho; congruence.
    - intros E; inversion E; subst. destruct o2; cbn; auto.
  Qed.

  Lemma split_no_panic_lemma ic chars : split_panics (ifs_new is_ws ic) chars = false.
  Proof.
    unfold split_panics, ranges. rewrite ranges_go_ok; [reflexivity| |exact I].
    rewrite map_length. lia.
  Qed.

  Lemma split_no_loss_lemma ic chars :
    concat (split (ifs_new is_ws ic) chars) = filter (is_nonifs is_ws ic) chars
    /\ Forall (fun f => forallb (is_nonifs is_ws ic) f = true) (split (ifs_new is_ws ic) chars).
  Proof.
    pose proof (ranges_eq_split_spec_rel ic chars) as H. unfold SplitSpec in H. split.
    - rewrite (Fields_concat _ _ _ H). apply filter_isN_dropW.
    - apply (Fields_all_nonifs _ _ _ H).
  Qed.

  Lemma protected_nonifs ic c : protected c = true -> is_nonifs is_ws ic c = true.
  Proof. unfold is_nonifs, spec_class. intros ->. reflexivity. Qed.

  Lemma filter_filter_imp {A} (p q : A -> bool) l :
    (forall a, p a = true -> q a = true) -> filter p (filter q l) = filter p l.
  Proof.
    intros H. induction l as [|a l IH]; cbn; [reflexivity|].
    destruct (q a) eqn:Eq; cbn.
    - destruct (p a); rewrite IH; reflexivity.
    - destruct (p a) eqn:Ep; [rewrite (H _ Ep) in Eq; discriminate|exact IH].
  Qed.

  (* protected (quoted, quoting, literal) characters all survive, in order *)
  Lemma quoted_never_removed_lemma ic chars :
    filter protected (concat (split (ifs_new is_ws ic) chars)) = filter protected chars.
  Proof.
    destruct (split_no_loss_lemma ic chars) as [E _]. rewrite E.
    apply filter_filter_imp. intros a; apply protected_nonifs.
  Qed.

  (* a non-empty string of protected characters is exactly one field *)
  Lemma quoted_never_split_lemma ic chars :
    chars <> [] -> forallb protected chars = true ->
    split (ifs_new is_ws ic) chars = [chars].
  Proof.
    intros Hne Hall.
    pose proof (ranges_eq_split_spec_rel ic chars) as H. unfold SplitSpec in H.
    set (cls := spec_class is_ws ic) in *.
    assert (HN : forallb (isN cls) chars = true).
    { rewrite forallb_forall in *. intros x Hx. specialize (Hall x Hx).
      unfold isN, cls, spec_class. rewrite Hall. reflexivity. }
    assert (Hd : dropW cls chars = chars).
    { destruct chars as [|a l]; [reflexivity|]. cbn in HN. apply andb_true_iff in HN as [Ha _].
      apply dropW_notW. destruct (class_cases cls a) as [[_ [Cw _]]|[[Cn _]|[Cn _]]]; congruence. }
    rewrite Hd in H.
    assert (Hs : forall l, forallb (isN cls) l = true -> spanN cls l = (l, [])).
    { induction l as [|a l IH]; cbn; [reflexivity|]. intros Hl. apply andb_true_iff in Hl as [Ha Hl].
      rewrite Ha, (IH Hl). reflexivity. }
    destruct chars as [|a l]; [congruence|].
    assert (F : Fields cls (a :: l) [a :: l]).
    { econstructor; [apply Hs; exact HN|]. cbn. constructor. }
    apply (Fields_fun _ _ _ H _ F).
  Qed.

  (* with no non-white-space delimiter in play no field is empty *)
  Lemma split_no_empty_lemma ic chars :
    forallb (fun c => negb (isD (spec_class is_ws ic) c)) chars = true ->
    Forall (fun f => f <> []) (split (ifs_new is_ws ic) chars).
  Proof.
    intros HD.
    pose proof (ranges_eq_split_spec_rel ic chars) as H. unfold SplitSpec in H.
    eapply Fields_no_empty; [| apply dropW_head | exact H].
    clear H. induction chars as [|a l IH]; cbn; [reflexivity|].
    cbn in HD. apply andb_true_iff in HD as [Ha Hl].
    destruct (isW (spec_class is_ws ic) a); [auto|]. cbn. rewrite Ha, Hl. reflexivity.
  Qed.
End SplitTheorems.
