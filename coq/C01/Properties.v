(* C01 — property theorems only.  Each is closed by [exact] of a lemma; the
   driver pins the statements with [Check] and prints the assumptions on every
   run. *)
From Yv Require Import Common.Base C01.Model C01.Spec C01.Proofs.

(* ---- (a) field splitting ------------------------------------------------- *)

Theorem ranges_eq_split_spec :
  forall (is_ws : N -> bool) (ic : str) (chars : field),
    split_spec (spec_class is_ws ic) chars = Some (split (ifs_new is_ws ic) chars).
Proof. exact ranges_eq_split_spec_fun. Qed.

Theorem ranges_satisfy_split_spec :
  forall (is_ws : N -> bool) (ic : str) (chars : field),
    SplitSpec (spec_class is_ws ic) chars (split (ifs_new is_ws ic) chars).
Proof. exact ranges_eq_split_spec_rel. Qed.

Theorem split_spec_functional :
  forall (A : Type) (cls : A -> class) (l : list A) (fs1 fs2 : list (list A)),
    SplitSpec cls l fs1 -> SplitSpec cls l fs2 -> fs1 = fs2.
Proof. exact @SplitSpec_fun. Qed.

Theorem split_spec_fuel_sufficient :
  forall (A : Type) (cls : A -> class) (l : list A), exists fs, split_spec cls l = Some fs.
Proof. exact @split_spec_total. Qed.

Theorem split_spec_computes_relation :
  forall (A : Type) (cls : A -> class) (l : list A) (fs : list (list A)),
    split_spec cls l = Some fs <-> SplitSpec cls l fs.
Proof. exact @split_spec_iff. Qed.

Theorem split_no_loss :
  forall (is_ws : N -> bool) (ic : str) (chars : field),
    concat (split (ifs_new is_ws ic) chars) = filter (is_nonifs is_ws ic) chars
    /\ Forall (fun f => forallb (is_nonifs is_ws ic) f = true) (split (ifs_new is_ws ic) chars).
Proof. exact split_no_loss_lemma. Qed.

Theorem quoted_never_removed :
  forall (is_ws : N -> bool) (ic : str) (chars : field),
    filter protected (concat (split (ifs_new is_ws ic) chars)) = filter protected chars.
Proof. exact quoted_never_removed_lemma. Qed.

Theorem quoted_never_split :
  forall (is_ws : N -> bool) (ic : str) (chars : field),
    chars <> [] -> forallb protected chars = true -> split (ifs_new is_ws ic) chars = [chars].
Proof. exact quoted_never_split_lemma. Qed.

Theorem empty_field_needs_delimiter :
  forall (is_ws : N -> bool) (ic : str) (chars : field),
    forallb (fun c => negb (isD (spec_class is_ws ic) c)) chars = true ->
    Forall (fun f => f <> []) (split (ifs_new is_ws ic) chars).
Proof. exact split_no_empty_lemma. Qed.

Theorem split_no_panic :
  forall (is_ws : N -> bool) (ic : str) (chars : field),
    split_panics (ifs_new is_ws ic) chars = false.
Proof. exact split_no_panic_lemma. Qed.

Theorem split_oracle_accepts_model :
  forall (is_ws : N -> bool) (ic : str) (chars : field),
    split_oracle is_ws ic chars (split (ifs_new is_ws ic) chars) = true.
Proof. exact split_oracle_sound. Qed.

Theorem ifs_non_whitespaces_is_filter :
  forall (is_ws : N -> bool) (s : str), non_whitespaces is_ws s = filter (not_ws is_ws) s.
Proof. exact non_whitespaces_filter. Qed.

Theorem classify_attr_eq_spec :
  forall (is_ws : N -> bool) (ic : str) (c : attrchar),
    classify_attr (ifs_new is_ws ic) c = spec_class is_ws ic c.
Proof. exact classify_attr_spec. Qed.

(* ---- (b) the Phrase algebra ------------------------------------------------ *)

Theorem phrase_append_refines_concat :
  forall a b : phrase, phrase_fields (append a b) = glue (phrase_fields a) (phrase_fields b).
Proof. exact phrase_append_refines_concat_lemma. Qed.

Theorem glue_assoc :
  forall (A : Type) (a b c : list (list A)), glue (glue a b) c = glue a (glue b c).
Proof. exact @glue_assoc_lemma. Qed.

Theorem glue_unit :
  forall (A : Type) (a : list (list A)), glue [] a = a /\ glue a [] = a.
Proof. exact @glue_unit_lemma. Qed.

Theorem glue_field_count :
  forall (A : Type) (a b : list (list A)),
    a <> [] -> b <> [] -> S (length (glue a b)) = length a + length b.
Proof. exact @glue_length_lemma. Qed.

Theorem glue_keeps_characters :
  forall (A : Type) (a b : list (list A)), concat (glue a b) = concat a ++ concat b.
Proof. exact @glue_concat_lemma. Qed.

Theorem phrase_append_assoc :
  forall a b c : phrase,
    phrase_fields (append (append a b) c) = phrase_fields (append a (append b c)).
Proof. exact phrase_append_assoc_lemma. Qed.

Theorem zero_fields_unit :
  forall a : phrase,
    phrase_fields (append zero_fields a) = phrase_fields a
    /\ phrase_fields (append a zero_fields) = phrase_fields a.
Proof. exact zero_fields_unit_lemma. Qed.

Theorem ifs_join_is_join_with :
  forall (p : phrase) (iv : option varval),
    ifs_join p iv = join_with (separator_list iv) (phrase_fields p).
Proof. exact ifs_join_spec_lemma. Qed.

(* ---- (c) the switch table and nounset ------------------------------------------ *)

Theorem param_forms_select :
  forall (a : action) (colon : bool) (v : option varval) (st : pstate),
    value_state v = Some st ->
    decision_outcome st (switch_decide a (value_condition_with colon (vacancy_of v)))
    = posix_table a colon st.
Proof. exact param_forms_select_lemma. Qed.

Theorem nounset_error_iff :
  forall (ws : bool) (p : param) (m : modifier) (e : env),
    m = MNone \/ m = MLength ->
    (expand_tunit ws (TParam p m) e = Err EUnset <-> nounset e = true /\ resolve e p = None).
Proof. exact nounset_error_iff_lemma. Qed.

Theorem special_never_unset :
  forall (e : env) (p : param), p = PAt \/ p = PStar \/ p = PNum -> resolve e p <> None.
Proof. exact special_never_unset_lemma. Qed.

Theorem nounset_trim_unset :
  forall (ws : bool) (p : param) (s : trim_side) (l : trim_length) (w : word) (e : env),
    resolve e p = None -> nounset e = true ->
    expand_tunit ws (TParam p (MTrim s l w)) e = Err EUnset.
Proof. exact nounset_trim_lemma. Qed.

Theorem switch_never_unset_error :
  forall (ws : bool) (p : param) (a : action) (colon : bool) (w : word) (e : env),
    expand_tunit ws (TParam p (MSwitch a colon w)) e = Err EUnset ->
    exists ws' e', expand_word ws' w e' = Err EUnset.
Proof. exact switch_never_unset_lemma. Qed.

(* ---- (d) read ------------------------------------------------------------------------ *)

Theorem read_assign_eq_spec :
  forall (is_ws : N -> bool) (ic : str) (text : field) (n : nat),
    read_assign (ifs_new is_ws ic) text n
    = Some (map remove_quotes_and_strip (read_spec (spec_class is_ws ic) n text)).
Proof. exact read_assign_eq_spec_lemma. Qed.

Theorem read_no_panic :
  forall (is_ws : N -> bool) (ic : str) (text : field) (n : nat),
    read_assign (ifs_new is_ws ic) text n <> None.
Proof. exact read_no_panic_lemma. Qed.

Theorem read_oracle_accepts_model :
  forall (is_ws : N -> bool) (iv : option str) (text : field) (n : nat) (vs : list str),
    read_assign (read_ifs is_ws iv) text n = Some vs -> read_oracle is_ws iv text n vs = true.
Proof. exact read_oracle_sound_lemma. Qed.

(* ---- (e) the whole word expansion ------------------------------------------------------ *)

Theorem expand_model_eq_spec :
  forall (is_ws : N -> bool) (w : word) (e : env),
    match spec_word_fields is_ws w e with
    | SOk fs e' => expand_word_multiple is_ws w e = Ok fs e'
    | SErr k => expand_word_multiple is_ws w e = Err k
    | SUnspec => True
    end.
Proof. exact expand_word_multiple_refines_lemma. Qed.

Theorem expand_words_eq_spec :
  forall (is_ws : N -> bool) (ws : list word) (e : env),
    match spec_words_fields is_ws ws e with
    | SOk fs e' => expand_words is_ws ws e = Ok fs e'
    | SErr k => expand_words is_ws ws e = Err k
    | SUnspec => True
    end.
Proof. exact expand_words_refines_lemma. Qed.

Theorem expand_word_single_eq_spec :
  forall (w : word) (e : env),
    match spec_word_single w e with
    | SOk v e' => expand_word_single w e = Ok v e'
    | SErr k => expand_word_single w e = Err k
    | SUnspec => True
    end.
Proof. exact expand_word_single_refines_lemma. Qed.

Theorem expand_text_single_eq_spec :
  forall (t : text) (e : env),
    match spec_text_single t e with
    | SOk v e' => expand_text_single t e = Ok v e'
    | SErr k => expand_text_single t e = Err k
    | SUnspec => True
    end.
Proof. exact expand_text_single_refines_lemma. Qed.

Theorem command_subst_newlines :
  forall s : str, trim_end_newlines s = strip_newlines s.
Proof. exact trim_end_newlines_eq. Qed.

Theorem spec_defined_on_core :
  forall (is_ws : N -> bool) (w : word) (e : env),
    core_word w = true -> scalar_env e = true -> spec_word_fields is_ws w e <> SUnspec.
Proof. exact spec_defined_on_core_lemma. Qed.

Theorem words_oracle_accepts_model :
  forall (is_ws : N -> bool) (cmds : list (list word)) (e : env),
    words_oracle is_ws cmds e (fst (run_cmds is_ws cmds e))
                 (option_map kind_code (snd (run_cmds is_ws cmds e))) = 0%N.
Proof. exact words_oracle_sound_lemma. Qed.

(* ---- trim and length modifiers ---------------------------------------------------------------- *)

Theorem pmatch_eq_matches :
  forall (p : list pchar) (s : str), pmatch p s = true <-> Matches p s.
Proof. exact pmatch_iff. Qed.

Theorem trim_value_spec :
  forall (s : trim_side) (l : trim_length) (p : list pchar) (v : str),
    TrimSpec s l p v (trim_value s l p v).
Proof. exact trim_value_spec_lemma. Qed.

Theorem decimal_correct :
  forall n : N,
    undecimal (decimal n) = n /\ forallb is_digit (decimal n) = true /\ decimal n <> [].
Proof. exact decimal_correct_lemma. Qed.

(* ---- assumptions ---- *)
(* here-documents (XCU 2.7.4), texts of literal characters and escapes: the
   value is the characters themselves with the backslash of every escape
   removed, as ONE string, whatever IFS is, and the environment is unchanged *)
Theorem heredoc_plain_text_value :
  forall (t : text) (s : str) (e : env),
    plain_value t = Some s -> expand_text_single t e = Ok s e.
Proof. exact plain_text_value_lemma. Qed.

(* a here-document with a quoted delimiter (all characters literal): no
   expansion at all *)
Theorem heredoc_quoted_delimiter_no_expansion :
  forall (s : str) (e : env), expand_text_single (literal_text s) e = Ok s e.
Proof. exact quoted_heredoc_lemma. Qed.

(* the specification never prescribes anything else for such a text *)
Theorem heredoc_plain_text_spec_agrees :
  forall (t : text) (s : str) (e : env),
    plain_value t = Some s ->
    spec_text_single t e = SUnspec \/ spec_text_single t e = SOk s e.
Proof. exact plain_text_spec_lemma. Qed.

Print Assumptions ranges_eq_split_spec.
Print Assumptions ranges_satisfy_split_spec.
Print Assumptions split_spec_functional.
Print Assumptions split_spec_fuel_sufficient.
Print Assumptions split_spec_computes_relation.
Print Assumptions split_no_loss.
Print Assumptions quoted_never_removed.
Print Assumptions quoted_never_split.
Print Assumptions empty_field_needs_delimiter.
Print Assumptions split_no_panic.
Print Assumptions split_oracle_accepts_model.
Print Assumptions ifs_non_whitespaces_is_filter.
Print Assumptions classify_attr_eq_spec.
Print Assumptions phrase_append_refines_concat.
Print Assumptions glue_assoc.
Print Assumptions glue_unit.
Print Assumptions glue_field_count.
Print Assumptions glue_keeps_characters.
Print Assumptions phrase_append_assoc.
Print Assumptions zero_fields_unit.
Print Assumptions ifs_join_is_join_with.
Print Assumptions param_forms_select.
Print Assumptions nounset_error_iff.
Print Assumptions special_never_unset.
Print Assumptions nounset_trim_unset.
Print Assumptions switch_never_unset_error.
Print Assumptions read_assign_eq_spec.
Print Assumptions read_no_panic.
Print Assumptions read_oracle_accepts_model.
Print Assumptions expand_model_eq_spec.
Print Assumptions expand_words_eq_spec.
Print Assumptions expand_word_single_eq_spec.
Print Assumptions expand_text_single_eq_spec.
Print Assumptions command_subst_newlines.
Print Assumptions spec_defined_on_core.
Print Assumptions words_oracle_accepts_model.
Print Assumptions pmatch_eq_matches.
Print Assumptions trim_value_spec.
Print Assumptions decimal_correct.
Print Assumptions heredoc_plain_text_value.
Print Assumptions heredoc_quoted_delimiter_no_expansion.
Print Assumptions heredoc_plain_text_spec_agrees.
