(* C01 — the switch table and the nounset rule. *)
From Yv Require Import Common.Base C01.Model C01.Spec.

Lemma param_forms_select_lemma a colon v st :
  value_state v = Some st ->
  decision_outcome st (switch_decide a (value_condition_with colon (vacancy_of v)))
  = posix_table a colon st.
Proof.
  destruct v as [[[|c s]|l]|]; cbn; intros H; inversion H; subst;
    destruct a, colon; reflexivity.
Qed.

Definition is_switch (m : modifier) : bool :=
  match m with MSwitch _ _ _ => true | _ => false end.

(* parameter expansion without a nested word: nounset error exactly for an
   unset parameter *)
Lemma nounset_error_iff_lemma ws p m e :
  m = MNone \/ m = MLength ->
  (expand_tunit ws (TParam p m) e = Err EUnset <-> nounset e = true /\ resolve e p = None).
Proof.
  intros [-> | ->]; cbn [expand_tunit]; destruct (resolve e p) as [v|] eqn:Ev.
  - unfold finish_param. split; [|intros [_ H]; discriminate].
    destruct (negb ws && is_star p); discriminate.
  - destruct (nounset e); [tauto|]. unfold finish_param.
    split; [|intros [H _]; discriminate]. destruct (negb ws && is_star p); discriminate.
  - unfold finish_param. split; [|intros [_ H]; discriminate].
    destruct (negb ws && is_star p); discriminate.
  - destruct (nounset e); [tauto|]. unfold finish_param.
    split; [|intros [H _]; discriminate]. destruct (negb ws && is_star p); discriminate.
Qed.

(* $@ $* $# are never "unset" *)
Lemma special_never_unset_lemma e p : p = PAt \/ p = PStar \/ p = PNum -> resolve e p <> None.
Proof. intros [-> | [-> | ->]]; discriminate. Qed.

(* a trim on an unset parameter is a nounset error; the pattern is not expanded *)
Lemma nounset_trim_lemma ws p s l w e :
  resolve e p = None -> nounset e = true ->
  expand_tunit ws (TParam p (MTrim s l w)) e = Err EUnset.
Proof. intros H1 H2. cbn [expand_tunit]. rewrite H1, H2. reflexivity. Qed.

(* a switch never raises the nounset error for its own parameter: if one
   comes out, it came out of the expansion of the nested word *)
Lemma switch_never_unset_lemma ws p a colon w e :
  expand_tunit ws (TParam p (MSwitch a colon w)) e = Err EUnset ->
  exists ws' e', expand_word ws' w e' = Err EUnset.
Proof.
  cbn [expand_tunit].
  destruct (switch_decide a (value_condition_with colon (vacancy_of (resolve e p)))).
  - unfold finish_param. destruct (negb ws && is_star p); discriminate.
  - fold (expand_word ws w e). destruct (expand_word ws w e) eqn:E; [discriminate|].
    intros H; inversion H; subst. eauto.
  - destruct (is_variable p); [|discriminate].
    fold (expand_word ws w e). destruct (expand_word ws w e) eqn:E; [discriminate|].
    intros H; inversion H; subst. eauto.
  - destruct (word_is_empty w) eqn:Ew; [discriminate|].
    destruct (expand_word_go true w zero_fields e) eqn:E; [discriminate|].
    intros H; inversion H; subst. exists true, e. unfold expand_word, expand_slice.
    rewrite Ew. exact E.
Qed.
