(* C01 — SPEC, part 1: POSIX field splitting (XCU 2.6.5) as a recursive-descent
   definition over any alphabet with a three-way classification, and its
   boolean form.  No indices, no state machine. *)
From Yv Require Import Common.Base C01.Model.

(* ---- which characters may delimit ---------------------------------------- *)

(* A character is protected from field splitting unless it is an unquoted
   result of a parameter expansion (command substitution, arithmetic
   expansion). *)
Definition protected (c : attrchar) : bool :=
  match origin_of c with
  | SoftExpansion => is_quoted c || is_quoting c
  | _ => true
  end.

(* XCU 2.6.5: IFS white space = the white-space characters that are in IFS;
   every other IFS character is a (non-white-space) delimiter. *)
Definition spec_class (is_ws : N -> bool) (ifs_chars : str) (c : attrchar) : class :=
  if protected c then NonIfs
  else if existsb (N.eqb (value c)) ifs_chars then
         if is_ws (value c) then IfsWhitespace else IfsNonWhitespace
       else NonIfs.

(* not a delimiter under the given IFS *)
Definition is_nonifs (is_ws : N -> bool) (ifs_chars : str) (c : attrchar) : bool :=
  match spec_class is_ws ifs_chars c with NonIfs => true | _ => false end.

(* ---- the fields of a string ------------------------------------------------- *)

Section Split.
  Context {A : Type}.
  Variable cls : A -> class.

  Definition isN (a : A) : bool := match cls a with NonIfs => true | _ => false end.
  Definition isW (a : A) : bool := match cls a with IfsWhitespace => true | _ => false end.
  Definition isD (a : A) : bool := match cls a with IfsNonWhitespace => true | _ => false end.

  (* W* : IFS white space is ignored *)
  Fixpoint dropW (l : list A) : list A :=
    match l with
    | a :: r => if isW a then dropW r else l
    | [] => []
    end.

  (* the maximal run of non-IFS characters, and what follows it *)
  Fixpoint spanN (l : list A) : list A * list A :=
    match l with
    | a :: r => if isN a then let (f, rest) := spanN r in (a :: f, rest) else ([], l)
    | [] => ([], [])
    end.

  (* D? : at most one non-white-space delimiter *)
  Definition dropD (l : list A) : list A :=
    match l with
    | a :: r => if isD a then r else l
    | [] => []
    end.

  (* one field delimiter:  W* D? W*  *)
  Definition eat_delim (l : list A) : list A := dropW (dropD (dropW l)).

  (* Declarative form.  [Fields l fs]: the input [l] (leading IFS white space
     already removed) consists of the fields [fs].  Nothing left: no field.
     Otherwise the next field is the maximal non-IFS run — empty when the input
     starts with a non-white-space delimiter — and the rest, after one
     delimiter, gives the remaining fields.  A delimiter at the very end does
     not start a further field. *)
  Inductive Fields : list A -> list (list A) -> Prop :=
  | Fields_nil : Fields [] []
  | Fields_cons a l f rest fs :
      spanN (a :: l) = (f, rest) ->
      Fields (eat_delim rest) fs ->
      Fields (a :: l) (f :: fs).

  Definition SplitSpec (l : list A) (fs : list (list A)) : Prop := Fields (dropW l) fs.

  (* Executable form; every step consumes at least one character, so the
     length of the input is enough fuel. *)
  Fixpoint fields_opt (fuel : nat) (l : list A) : option (list (list A)) :=
    match l with
    | [] => Some []
    | _ :: _ =>
        match fuel with
        | O => None                                   (* out of fuel *)
        | S n =>
            let (f, rest) := spanN l in
            option_map (cons f) (fields_opt n (eat_delim rest))
        end
    end.

  Definition split_spec (l : list A) : option (list (list A)) :=
    fields_opt (length l) (dropW l).
End Split.

(* ---- oracle for the splitting streams ------------------------------------------ *)

Definition fields_eqb : list field -> list field -> bool := list_eqb field_eqb.

(* the fields the implementation returned are the POSIX fields *)
Definition split_oracle (is_ws : N -> bool) (ifs_chars : str) (chars : field)
    (impl_fields : list field) : bool :=
  match split_spec (spec_class is_ws ifs_chars) chars with
  | Some fs => fields_eqb fs impl_fields
  | None => false
  end.

(* ======================================================================== *)
(* SPEC, part 2: phrases are lists of fields                                  *)
(* ======================================================================== *)

(* Concatenation of two expansion results: the last field of the first and the
   first field of the second are joined, all other fields stay as they are;
   no fields at all is the neutral element. *)
Definition glue {A} (a b : list (list A)) : list (list A) :=
  match a, b with
  | [], _ => b
  | _, [] => a
  | _ :: _, bf :: br => removelast a ++ [last a [] ++ bf] ++ br
  end.

(* the fields joined with a separator between them *)
Definition join_with {A} (sep : list A) (l : list (list A)) : list A :=
  match l with
  | [] => []
  | f :: r => f ++ flat_map (fun g => sep ++ g) r
  end.

(* the separator of ifs_join as a (possibly empty) string *)
Definition separator_list (iv : option varval) : field :=
  match join_separator iv with Some s => [s] | None => [] end.

(* ======================================================================== *)
(* SPEC, part 3: the fields of a word (XCU 2.2, 2.5.2, 2.6, 2.6.2, 2.6.5, 2.6.7) *)
(* ======================================================================== *)

(* What a word expands to before field splitting: fields of tokens.  There are
   no quote characters in the result; a pair of quotes leaves a mark that is
   not a character (it keeps an otherwise empty field alive, never delimits,
   and vanishes in the end). *)
Inductive tok :=
| TC (c : N) (quoted : bool) (expanded : bool)
    (* quoted: inside '...', "..." or after a backslash;
       expanded: the result of a parameter expansion *)
| TH (c : N) (quoted : bool)
    (* a character of a tilde expansion: never split, never marked as the
       result of a parameter expansion *)
| TQ.
Definition pfield := list tok.

Definition tok_quote (t : tok) : tok :=
  match t with TC c _ x => TC c true x | TH c _ => TH c true | TQ => TQ end.
Definition tok_expanded (t : tok) : tok :=
  match t with TC c q _ => TC c q true | TH c q => TH c q | TQ => TQ end.

Definition value_toks (s : str) : pfield := map (fun c => TC c false true) s.
Definition chars_of (pf : pfield) : str :=
  flat_map (fun t => match t with TC c _ _ | TH c _ => [c] | TQ => [] end) pf.

(* XCU 2.6.2, the table of ${parameter[:]-=?+word} *)
Inductive pstate := SetNotNull | SetNull | Unset.
Inductive outcome := SubstParameter | SubstWord | SubstNull | AssignWord | ErrorExit.

Definition posix_table (a : action) (colon : bool) (s : pstate) : outcome :=
  match a, colon, s with
  (* ${parameter:-word} *)
  | Default, true, SetNotNull => SubstParameter | Default, true, SetNull => SubstWord
  | Default, true, Unset => SubstWord
  (* ${parameter-word} *)
  | Default, false, SetNotNull => SubstParameter | Default, false, SetNull => SubstNull
  | Default, false, Unset => SubstWord
  (* ${parameter:=word} *)
  | Assign, true, SetNotNull => SubstParameter | Assign, true, SetNull => AssignWord
  | Assign, true, Unset => AssignWord
  (* ${parameter=word} *)
  | Assign, false, SetNotNull => SubstParameter | Assign, false, SetNull => SubstNull
  | Assign, false, Unset => AssignWord
  (* ${parameter:?word} *)
  | Error, true, SetNotNull => SubstParameter | Error, true, SetNull => ErrorExit
  | Error, true, Unset => ErrorExit
  (* ${parameter?word} *)
  | Error, false, SetNotNull => SubstParameter | Error, false, SetNull => SubstNull
  | Error, false, Unset => ErrorExit
  (* ${parameter:+word} *)
  | Alter, true, SetNotNull => SubstWord | Alter, true, SetNull => SubstNull
  | Alter, true, Unset => SubstNull
  (* ${parameter+word} *)
  | Alter, false, SetNotNull => SubstWord | Alter, false, SetNull => SubstWord
  | Alter, false, Unset => SubstNull
  end.

(* the POSIX state of a (scalar or missing) value *)
Definition value_state (v : option varval) : option pstate :=
  match v with
  | None => Some Unset
  | Some (Scalar []) => Some SetNull
  | Some (Scalar (_ :: _)) => Some SetNotNull
  | Some (Array _) => None
  end.

(* what a decision of switch::apply amounts to; [Continue] goes on with the
   parameter's own value, which is null unless the parameter is set and not
   null *)
Definition decision_outcome (st : pstate) (d : decision) : outcome :=
  match d with
  | Continue => match st with SetNotNull => SubstParameter | _ => SubstNull end
  | UseWord => SubstWord
  | DoAssign _ => AssignWord
  | DoError _ => ErrorExit
  end.

(* the value of a parameter *)
Inductive pvalue := PVUnset | PVScalar (s : str) | PVList (l : list str).

(* None: outside what this specification defines (array variables, ${00}) *)
Definition param_value (e : env) (p : param) : option pvalue :=
  match p with
  | PVar n =>
      match assoc n (vars e) with
      | None => Some PVUnset
      | Some (Scalar s) => Some (PVScalar s)
      | Some (Array _) => None
      end
  | PPos O => None
  | PPos (S i) =>
      match nth_error (positional e) i with
      | Some s => Some (PVScalar s)
      | None => Some PVUnset
      end
  | PAt | PStar => Some (PVList (positional e))
  | PNum => Some (PVScalar (decimal (N.of_nat (length (positional e)))))
  end.

Definition pstate_of (v : pvalue) : option pstate :=
  match v with
  | PVUnset => Some Unset
  | PVScalar [] => Some SetNull
  | PVScalar (_ :: _) => Some SetNotNull
  | PVList _ => None       (* switches on $@ and $* : unspecified *)
  end.

(* IFS: Some None = unset, Some (Some s) = set to s, None = an array *)
Definition ifs_value (e : env) : option (option str) :=
  match assoc IFS_name (vars e) with
  | None => Some None
  | Some (Scalar s) => Some (Some s)
  | Some (Array _) => None
  end.

(* XCU 2.5.2 "$*": separated by the first character of IFS; by a space if IFS
   is unset; by nothing if IFS is null *)
Definition star_separator (iv : option str) : pfield :=
  match iv with
  | None => [TC 32 false true]
  | Some [] => []
  | Some (c :: _) => [TC c false true]
  end.

(* the characters IFS splitting uses: <space><tab><newline> if IFS is unset *)
Definition splitting_chars (iv : option str) : str :=
  match iv with
  | None => [32; 9; 10]%N
  | Some s => s
  end.

Inductive sres (A : Type) :=
| SOk (a : A) (e : env)
| SErr (k : error)
| SUnspec.            (* the standard (or this specification) does not say *)
Arguments SOk {A}.
Arguments SErr {A}.
Arguments SUnspec {A}.

(* pattern of a trim: quoted characters are literal, an unquoted backslash
   (which can only come out of an expansion here) quotes the next character *)
Fixpoint tok_pattern (esc : bool) (pf : pfield) : list pchar :=
  match pf with
  | [] => []
  | TQ :: r => tok_pattern false r
  | TC c q _ :: r | TH c q :: r =>
      let q1 := q || esc in
      match r with
      | [] => [if q1 then PLiteral c else PNormal c]
      | _ :: _ =>
          if N.eqb c 92 && negb q1 then tok_pattern true r
          else (if q1 then PLiteral c else PNormal c) :: tok_pattern false r
      end
  end.

(* command substitution: the output without its trailing newlines (XCU 2.6.3) *)
Fixpoint strip_newlines (s : str) : str :=
  match s with
  | [] => []
  | c :: r =>
      match strip_newlines r with
      | [] => if N.eqb c 10 then [] else [c]
      | r' => c :: r'
      end
  end.

Definition top_or_empty {T} (sem : T -> env -> sres (list pfield)) (is_empty : T -> bool)
    (t : T) (e : env) : sres (list pfield) :=
  if is_empty t then SOk [[]] e else sem t e.

Definition quote_pfield (pf : pfield) : pfield := TQ :: map tok_quote pf ++ [TQ].

(* what a parameter's own value contributes ([dq]: inside double quotes) *)
Definition param_plain (p : param) (dq : bool) (v : pvalue) (e : env) : sres (list pfield) :=
  match v with
  | PVUnset => SOk [[]] e
  | PVScalar s => SOk [value_toks s] e
  | PVList l =>
      match p, dq with
      | PStar, true =>
          match ifs_value e with
          | Some iv => SOk [join_with (star_separator iv) (map value_toks l)] e
          | None => SUnspec
          end
      | _, _ => SOk (map value_toks l) e      (* one field per positional parameter *)
      end
  end.

(* [dq]: inside double quotes *)
Fixpoint sem_tunit (dq : bool) (u : tunit) (e : env) {struct u} : sres (list pfield) :=
  match u with
  | TLit c => SOk [[TC c false false]] e
  | TBs c => SOk [[TQ; TC c true false]] e
  | TParam p m =>
      match param_value e p with
      | None => SUnspec
      | Some v =>
          let plain := param_plain p dq in
          match m with
          | MNone =>
              match v with
              | PVUnset => if nounset e then SErr EUnset else plain v e
              | _ => plain v e
              end
          | MLength =>
              match v with
              | PVUnset => if nounset e then SErr EUnset else SOk [value_toks [48%N]] e
              | PVScalar s => SOk [value_toks (decimal (N.of_nat (length s)))] e
              | PVList _ => SUnspec
              end
          | MSwitch a colon w =>
              match pstate_of v with
              | None => SUnspec
              | Some st =>
                  match posix_table a colon st with
                  | SubstParameter => plain v e
                  | SubstNull => SOk [[]] e
                  | SubstWord =>
                      match top_or_empty (sem_word dq) word_is_empty w e with
                      | SOk fs e' => SOk (map (map tok_expanded) fs) e'
                      | SErr k => SErr k
                      | SUnspec => SUnspec
                      end
                  | AssignWord =>
                      match p with
                      | PVar name =>
                          match top_or_empty (sem_word dq) word_is_empty w e with
                          | SOk fs e' =>
                              match ifs_value e' with
                              | Some iv =>
                                  let s := chars_of (join_with (star_separator iv) fs) in
                                  SOk [value_toks s] (assign_scalar e' name s)
                              | None => SUnspec
                              end
                          | SErr k => SErr k
                          | SUnspec => SUnspec
                          end
                      | _ => SErr ENonassignable
                      end
                  | ErrorExit =>
                      if word_is_empty w then SErr EVacant
                      else
                        match sem_word false w e with
                        | SOk _ _ => SErr EVacant
                        | SErr k => SErr k
                        | SUnspec => SUnspec
                        end
                  end
              end
          | MTrim s l w =>
              match v with
              | PVUnset => if nounset e then SErr EUnset else SOk [[]] e
              | PVList _ => SUnspec
              | PVScalar val =>
                  match top_or_empty (sem_word dq) word_is_empty w e with
                  | SOk fs e' =>
                      match ifs_value e' with
                      | Some iv =>
                          let pat := tok_pattern false (join_with (star_separator iv) fs) in
                          if forallb pchar_supported pat
                          then SOk [value_toks (trim_value s l pat val)] e'
                          else SUnspec
                      | None => SUnspec
                      end
                  | SErr k => SErr k
                  | SUnspec => SUnspec
                  end
              end
          end
      end
  | TSubst raw => SOk [value_toks (strip_newlines raw)] e
  | TArith t v =>
      match top_or_empty (sem_text false) text_is_empty t e with
      | SOk _ e' => SOk [value_toks v] e'
      | SErr k => SErr k
      | SUnspec => SUnspec
      end
  end
with sem_text (dq : bool) (t : text) (e : env) {struct t} : sres (list pfield) :=
  match t with
  | TNil => SOk [] e
  | TCons u t' =>
      match sem_tunit dq u e with
      | SOk a e' =>
          match sem_text dq t' e' with
          | SOk b e'' => SOk (glue a b) e''
          | SErr k => SErr k
          | SUnspec => SUnspec
          end
      | SErr k => SErr k
      | SUnspec => SUnspec
      end
  end
with sem_wunit (dq : bool) (u : wunit) (e : env) {struct u} : sres (list pfield) :=
  match u with
  | WUnq t => sem_tunit dq t e
  | WSq s => SOk [TQ :: map (fun c => TC c true false) s ++ [TQ]] e
  | WDq t =>
      match top_or_empty (sem_text true) text_is_empty t e with
      | SOk fs e' => SOk (map quote_pfield fs) e'
      | SErr k => SErr k
      | SUnspec => SUnspec
      end
  | WDsq s => SOk [TQ :: TQ :: map (fun c => TC c true false) s ++ [TQ]] e
  | WTilde home slash =>
      (* the home directory, literally; without its final slash if a slash
         follows; if nothing is left the word still counts as non-empty *)
      let chars := if slash then match rev home with 47%N :: r => rev r | _ => home end else home in
      SOk [match chars with [] => [TQ] | _ => map (fun c => TH c false) chars end] e
  end
with sem_word (dq : bool) (w : word) (e : env) {struct w} : sres (list pfield) :=
  match w with
  | WNil => SOk [] e
  | WCons u w' =>
      match sem_wunit dq u e with
      | SOk a e' =>
          match sem_word dq w' e' with
          | SOk b e'' => SOk (glue a b) e''
          | SErr k => SErr k
          | SUnspec => SUnspec
          end
      | SErr k => SErr k
      | SUnspec => SUnspec
      end
  end.

(* ---- field splitting and quote removal of the result ---------------------------- *)

Section Final.
  Variable is_ws : N -> bool.

  (* only unquoted results of expansions are split *)
  Definition tok_class (ifs_chars : str) (t : tok) : class :=
    match t with
    | TQ | TH _ _ => NonIfs
    | TC c q x =>
        if x && negb q && existsb (N.eqb c) ifs_chars
        then if is_ws c then IfsWhitespace else IfsNonWhitespace
        else NonIfs
    end.

  Fixpoint all_some {A} (l : list (option A)) : option (list A) :=
    match l with
    | [] => Some []
    | None :: _ => None
    | Some a :: r => option_map (cons a) (all_some r)
    end.

  (* the fields of one word *)
  Definition spec_word_fields (w : word) (e : env) : sres (list str) :=
    match top_or_empty (sem_word false) word_is_empty w e with
    | SOk pfs e' =>
        match ifs_value e' with
        | Some iv =>
            match all_some (map (split_spec (tok_class (splitting_chars iv))) pfs) with
            | Some fss => SOk (map chars_of (concat fss)) e'
            | None => SUnspec
            end
        | None => SUnspec
        end
    | SErr k => SErr k
    | SUnspec => SUnspec
    end.

  (* a word in a context without field splitting (XCU 2.9.1 assignments, case
     words): one string; the fields of the list parameters @ and * are joined
     with the first character of IFS, as in the quoted form of the parameter *
     (for the parameter @ POSIX leaves this unspecified) *)
  Definition spec_word_single (w : word) (e : env) : sres str :=
    match top_or_empty (sem_word false) word_is_empty w e with
    | SOk pfs e' =>
        match ifs_value e' with
        | Some iv => SOk (chars_of (join_with (star_separator iv) pfs)) e'
        | None => SUnspec
        end
    | SErr k => SErr k
    | SUnspec => SUnspec
    end.

  (* a text in a context without field splitting (here-document bodies) *)
  Definition spec_text_single (t : text) (e : env) : sres str :=
    match top_or_empty (sem_text false) text_is_empty t e with
    | SOk pfs e' =>
        match ifs_value e' with
        | Some iv => SOk (chars_of (join_with (star_separator iv) pfs)) e'
        | None => SUnspec
        end
    | SErr k => SErr k
    | SUnspec => SUnspec
    end.

  (* the fields of the words of a command, left to right *)
  Fixpoint spec_words_fields (ws : list word) (e : env) : sres (list str) :=
    match ws with
    | [] => SOk [] e
    | w :: r =>
        match spec_word_fields w e with
        | SOk fs e' =>
            match spec_words_fields r e' with
            | SOk fs' e'' => SOk (fs ++ fs') e''
            | SErr k => SErr k
            | SUnspec => SUnspec
            end
        | SErr k => SErr k
        | SUnspec => SUnspec
        end
    end.

  (* ---- oracle for a list of commands --------------------------------------------------
     [out]: the fields the implementation produced for the commands it ran;
     [stop]: None = it ran them all, Some k = the next one failed (k = 0: kind
     unknown).  Result: 0 = as specified (or unspecified from some command
     on); otherwise the number of the clause that is violated. *)
  Definition kind_code (k : error) : N :=
    match k with EUnset => 1 | EVacant => 2 | ENonassignable => 3 | EDomain => 99 end%N.

  Fixpoint words_oracle (cmds : list (list word)) (e : env)
      (out : list (list str)) (stop : option N) : N :=
    match cmds with
    | [] =>
        match out, stop with
        | [], None => 0
        | _, _ => 8                 (* more results than commands *)
        end
    | ws :: r =>
        match spec_words_fields ws e with
        | SUnspec => 0
        | SOk fs e' =>
            match out with
            | o :: out' =>
                if list_eqb str_eqb fs o then words_oracle r e' out' stop
                else 4              (* not the fields POSIX prescribes *)
            | [] =>
                match stop with
                | Some _ => 5       (* an error where POSIX prescribes fields *)
                | None => 8
                end
            end
        | SErr k =>
            match out, stop with
            | [], Some c =>
                if N.eqb c 0 || N.eqb c (kind_code k) then 0
                else 7              (* an error, but not the one POSIX prescribes *)
            | _, _ => 6             (* no error where POSIX prescribes one *)
            end
        end
    end%N.
End Final.

(* ======================================================================== *)
(* SPEC, part 4: read (XCU read): the line is split as in 2.6.5; each        *)
(* variable gets one field, missing fields are empty, and if fields are left *)
(* over the last variable gets its field, the delimiters after it and the    *)
(* remaining fields with their delimiters, trailing IFS white space removed. *)
(* ======================================================================== *)

Section ReadSpec.
  Context {A : Type}.
  Variable cls : A -> class.

  Definition strip_trailing_W (l : list A) : list A := rev (dropW cls (rev l)).

  (* the value of the last variable; [l] has no leading IFS white space *)
  Definition last_value (l : list A) : list A :=
    match l with
    | [] => []
    | _ :: _ =>
        let (f, rest) := spanN cls l in
        match eat_delim cls rest with
        | [] => f                         (* exactly one field is left *)
        | _ :: _ => strip_trailing_W l    (* more than one *)
        end
    end.

  (* [n]: number of variables before the last one *)
  Fixpoint read_values (n : nat) (l : list A) : list (list A) :=
    match n with
    | O => [last_value l]
    | S n' =>
        match l with
        | [] => [] :: read_values n' []
        | _ :: _ => let (f, rest) := spanN cls l in f :: read_values n' (eat_delim cls rest)
        end
    end.

  Definition read_spec (n : nat) (l : list A) : list (list A) := read_values n (dropW cls l).
End ReadSpec.

Definition read_oracle (is_ws : N -> bool) (ifs_value : option str) (text : field) (n : nat)
    (impl_values : list str) : bool :=
  let ic := match ifs_value with Some s => s | None => [32; 9; 10]%N end in
  list_eqb str_eqb (map remove_quotes_and_strip (read_spec (spec_class is_ws ic) n text))
           impl_values.

(* ======================================================================== *)
(* The part of the word language on which the specification above always     *)
(* defines the result (used to show that [SUnspec] does not hide anything    *)
(* there): literals, quotes, backslashes, $x ${x} ${#x} ${x[:]-=?+word},     *)
(* $1.. $# and plain $@ $* — no modifier on $@ / $*, no trim, no ${00} —     *)
(* in environments whose variables are scalars.                              *)
(* ======================================================================== *)

Definition is_list_param (p : param) : bool :=
  match p with PAt | PStar => true | _ => false end.
Definition param_simple (p : param) : bool :=
  match p with PPos O => false | _ => true end.

Fixpoint core_tunit (u : tunit) : bool :=
  match u with
  | TLit _ | TBs _ => true
  | TParam p m =>
      param_simple p &&
      match m with
      | MNone => true
      | MLength => negb (is_list_param p)
      | MSwitch _ _ w => negb (is_list_param p) && core_word w
      | MTrim _ _ _ => false
      end
  | TSubst _ => true
  | TArith t _ => core_text t
  end
with core_text (t : text) : bool :=
  match t with TNil => true | TCons u t' => core_tunit u && core_text t' end
with core_wunit (u : wunit) : bool :=
  match u with
  | WUnq t => core_tunit t
  | WSq _ => true
  | WDq t => core_text t
  | WDsq _ | WTilde _ _ => true
  end
with core_word (w : word) : bool :=
  match w with WNil => true | WCons u w' => core_wunit u && core_word w' end.

Definition scalar_env (e : env) : bool :=
  forallb (fun kv => match snd kv with Scalar _ => true | Array _ => false end) (vars e).

(* ======================================================================== *)
(* SPEC, part 5: what ${x#p} ${x##p} ${x%p} ${x%%p} remove (XCU 2.6.2), for  *)
(* patterns of literals, ? and * (XCU 2.13.1/2.13.2)                         *)
(* ======================================================================== *)

Inductive Matches : list pchar -> str -> Prop :=
| Matches_nil : Matches [] []
| Matches_star p s1 s2 : Matches p s2 -> Matches (PNormal 42 :: p) (s1 ++ s2)   (* * : any string *)
| Matches_any p c s : Matches p s -> Matches (PNormal 63 :: p) (c :: s)         (* ? : any character *)
| Matches_literal p c s : Matches p s -> Matches (PLiteral c :: p) (c :: s)     (* quoted: itself *)
| Matches_normal p c s :
    c <> 42%N -> c <> 63%N -> Matches p s -> Matches (PNormal c :: p) (c :: s).

(* [r] is [v] with the smallest / largest prefix / suffix matching [p] removed;
   [v] itself when no prefix / suffix matches *)
Definition TrimSpec (s : trim_side) (l : trim_length) (p : list pchar) (v r : str) : Prop :=
  let removed k := match s with Prefix => firstn k v | Suffix => skipn (length v - k) v end in
  let kept k := match s with Prefix => skipn k v | Suffix => firstn (length v - k) v end in
  ((forall k, k <= length v -> ~ Matches p (removed k)) /\ r = v)
  \/ exists k, k <= length v /\ Matches p (removed k) /\ r = kept k
               /\ forall k', k' <= length v -> Matches p (removed k') ->
                             match l with Shortest => k <= k' | Longest => k' <= k end.

(* ${#x}: the decimal representation of the length *)
Definition undecimal (s : str) : N := fold_left (fun a d => (10 * a + (d - 48))%N) s 0%N.
Definition is_digit (d : N) : bool := N.leb 48 d && N.leb d 57.
