(* C01 — the pattern matcher and trim_value against their declarative
   specifications; decimal. *)
From Yv Require Import Common.Base C01.Model C01.Spec.

(* ---- pmatch = Matches ------------------------------------------------------- *)

Definition star_loop (p' : list pchar) : str -> bool :=
  fix star (s : str) : bool :=
    pmatch p' s || match s with [] => false | _ :: s' => star s' end.

Lemma pmatch_star p' s : pmatch (PNormal 42%N :: p') s = star_loop p' s.
Proof. reflexivity. Qed.

Lemma star_loop_iff p' s :
  star_loop p' s = true <-> exists s1 s2, s = s1 ++ s2 /\ pmatch p' s2 = true.
Proof.
  induction s as [|c s IH]; cbn.
  - rewrite orb_false_r. split.
    + intros H. exists [], []. auto.
    + intros [s1 [s2 [E H]]]. destruct s1, s2; try discriminate. exact H.
  - rewrite orb_true_iff, IH. split.
    + intros [H | [s1 [s2 [E H]]]].
      * exists [], (c :: s). auto.
      * exists (c :: s1), s2. subst. auto.
    + intros [s1 [s2 [E H]]]. destruct s1 as [|d s1].
      * left. cbn in E. subst. exact H.
      * right. inversion E; subst. eauto.
Qed.

Lemma pmatch_iff p : forall s, pmatch p s = true <-> Matches p s.
Proof.
  induction p as [|a p IH]; intros s.
  - destruct s; cbn; split; intros H; try discriminate; try constructor; inversion H.
  - destruct a as [c|c].
    + (* literal *)
      cbn. destruct s as [|d s]; [split; [discriminate|inversion 1]|].
      rewrite andb_true_iff, N.eqb_eq, IH. split.
      * intros [-> H]. constructor; exact H.
      * inversion 1; subst; auto.
    + destruct (N.eq_dec c 42) as [->|N42].
      * rewrite pmatch_star, star_loop_iff. split.
        -- intros [s1 [s2 [-> H]]]. constructor. apply IH; exact H.
        -- inversion 1; subst; [|congruence]. eexists _, _. split; [reflexivity|]. apply IH; assumption.
      * destruct (N.eq_dec c 63) as [->|N63].
        -- cbn. destruct s as [|d s]; [split; [discriminate|inversion 1]|].
           rewrite IH. split; [intros H; constructor; exact H|].
           inversion 1; subst; [assumption|congruence].
        -- assert (E : pmatch (PNormal c :: p) s
                       = match s with [] => false | d :: s' => N.eqb c d && pmatch p s' end).
           { destruct c as [|q]; [reflexivity|].
             cbn [pmatch].
             repeat (match goal with
                     | q : positive |- _ => destruct q; try reflexivity
                     end); congruence. }
           rewrite E. destruct s as [|d s]; [split; [discriminate|inversion 1; congruence]|].
           rewrite andb_true_iff, N.eqb_eq, IH. split.
           ++ intros [-> H]. constructor; assumption.
           ++ inversion 1; subst; try congruence. auto.
Qed.

(* ---- find over the candidate lengths ---------------------------------------------- *)

Lemma find_seq (f : nat -> bool) : forall len start k,
  find f (seq start len) = Some k ->
  start <= k < start + len /\ f k = true /\ forall j, start <= j < k -> f j = false.
Proof.
  induction len as [|len IH]; intros start k; cbn; [discriminate|].
  destruct (f start) eqn:E.
  - intros H; inversion H; subst. repeat split; try lia; auto; try (intros j Hj; lia).
  - intros H. apply IH in H as [H1 [H2 H3]]. repeat split; try lia; auto.
    intros j Hj. destruct (Nat.eq_dec j start) as [->|]; [exact E|]. apply H3; lia.
Qed.

Lemma find_rev_seq (f : nat -> bool) : forall len start k,
  find f (rev (seq start len)) = Some k ->
  start <= k < start + len /\ f k = true /\ forall j, k < j < start + len -> f j = false.
Proof.
  induction len as [|len IH]; intros start k; [cbn; discriminate|].
  rewrite seq_S, rev_app_distr. cbn [rev app find].
  destruct (f (start + len)) eqn:E.
  - intros H; inversion H; subst. repeat split; try lia; auto; try (intros j Hj; lia).
  - intros H. apply IH in H as [H1 [H2 H3]]. repeat split; try lia; auto.
    intros j Hj. destruct (Nat.eq_dec j (start + len)) as [->|]; [exact E|]. apply H3; lia.
Qed.

Lemma find_none_seq (f : nat -> bool) l n :
  find f (trim_lengths l n) = None -> forall k, k <= n -> f k = false.
Proof.
  intros H k Hk. apply (find_none _ _ H). unfold trim_lengths.
  destruct l; [|apply -> in_rev]; apply in_seq; lia.
Qed.

Lemma trim_value_spec_lemma s l p v : TrimSpec s l p v (trim_value s l p v).
Proof.
  unfold TrimSpec, trim_value.
  destruct s.
  - (* prefix *)
    destruct (find (fun k => pmatch p (firstn k v)) (trim_lengths l (length v))) as [k|] eqn:F.
    + right. exists k. unfold trim_lengths in F. destruct l.
      * apply find_seq in F as [H1 [H2 H3]]. repeat split; try lia; [apply pmatch_iff; exact H2|].
        intros k' Hk' Hm. apply pmatch_iff in Hm.
        destruct (Nat.le_gt_cases k k') as [L|L]; [exact L|].
        rewrite H3 in Hm by lia. discriminate.
      * apply find_rev_seq in F as [H1 [H2 H3]]. repeat split; try lia; [apply pmatch_iff; exact H2|].
        intros k' Hk' Hm. apply pmatch_iff in Hm.
        destruct (Nat.le_gt_cases k' k) as [L|L]; [exact L|].
        rewrite H3 in Hm by lia. discriminate.
    + left. split; [|reflexivity]. intros k Hk Hm. apply pmatch_iff in Hm.
      rewrite (find_none_seq _ _ _ F k Hk) in Hm. discriminate.
  - (* suffix *)
    destruct (find (fun k => pmatch p (skipn (length v - k) v)) (trim_lengths l (length v))) as [k|] eqn:F.
    + right. exists k. unfold trim_lengths in F. destruct l.
      * apply find_seq in F as [H1 [H2 H3]]. repeat split; try lia; [apply pmatch_iff; exact H2|].
        intros k' Hk' Hm. apply pmatch_iff in Hm.
        destruct (Nat.le_gt_cases k k') as [L|L]; [exact L|].
        rewrite H3 in Hm by lia. discriminate.
      * apply find_rev_seq in F as [H1 [H2 H3]]. repeat split; try lia; [apply pmatch_iff; exact H2|].
        intros k' Hk' Hm. apply pmatch_iff in Hm.
        destruct (Nat.le_gt_cases k' k) as [L|L]; [exact L|].
        rewrite H3 in Hm by lia. discriminate.
    + left. split; [|reflexivity]. intros k Hk Hm. apply pmatch_iff in Hm.
      rewrite (find_none_seq _ _ _ F k Hk) in Hm. discriminate.
Qed.

(* ---- decimal ---------------------------------------------------------------------------- *)

Lemma undecimal_snoc D d : undecimal (D ++ [d]) = (10 * undecimal D + (d - 48))%N.
Proof. unfold undecimal. rewrite fold_left_app. reflexivity. Qed.

Lemma decimal_go_S f n acc :
  decimal_go (S f) n acc
  = if N.eqb (n / 10) 0 then (48 + n mod 10)%N :: acc
    else decimal_go f (n / 10) ((48 + n mod 10)%N :: acc).
Proof. reflexivity. Qed.

Lemma decimal_go_spec : forall f n acc,
  (n < 2 ^ N.of_nat (S f))%N ->
  exists D, decimal_go (S f) n acc = D ++ acc /\ undecimal D = n
            /\ forallb is_digit D = true /\ D <> [].
Proof.
  induction f as [|f IH]; intros n acc Hn.
  - (* n < 2 *)
    assert (Hn' : (n < 2)%N) by exact Hn.
    assert (n = 0 \/ n = 1)%N as [-> | ->] by lia; cbn; eexists [_]; repeat split; discriminate.
  - rewrite decimal_go_S.
    pose proof (N.mod_upper_bound n 10 ltac:(lia)) as Hm.
    pose proof (N.div_mod n 10 ltac:(lia)) as Hdm.
    set (m := (n mod 10)%N) in *. set (q := (n / 10)%N) in *.
    set (d := (48 + m)%N).
    assert (Hd : is_digit d = true).
    { unfold is_digit, d. apply andb_true_iff; split; apply N.leb_le; lia. }
    assert (Hdv : (d - 48 = m)%N) by (unfold d; lia).
    destruct (N.eqb_spec q 0) as [E|E].
    + exists [d]. split; [reflexivity|]. split; [|split; [|discriminate]].
      * unfold undecimal. cbn [fold_left]. rewrite Hdv. lia.
      * cbn [forallb]. rewrite Hd. reflexivity.
    + assert (Hq : (q < 2 ^ N.of_nat (S f))%N).
      { rewrite Nat2N.inj_succ, N.pow_succ_r' in Hn.
        set (X := (2 ^ N.of_nat (S f))%N) in *. lia. }
      destruct (IH q (d :: acc) Hq) as [D [H1 [H2 [H3 H4]]]].
      exists (D ++ [d]). rewrite H1, <- app_assoc. split; [reflexivity|]. split; [|split].
      * rewrite undecimal_snoc, H2, Hdv. lia.
      * rewrite forallb_app, H3. cbn [forallb]. rewrite Hd. reflexivity.
      * destruct D; discriminate.
Qed.

Lemma decimal_correct_lemma n :
  undecimal (decimal n) = n /\ forallb is_digit (decimal n) = true /\ decimal n <> [].
Proof.
  unfold decimal.
  destruct (decimal_go_spec (N.to_nat (N.log2 n)) n []) as [D [H1 [H2 [H3 H4]]]].
  - rewrite Nat2N.inj_succ, N2Nat.id.
    destruct (N.eq_dec n 0) as [->|Hn]; [reflexivity|].
    apply N.log2_spec. lia.
  - rewrite H1, app_nil_r. auto.
Qed.
