(* C01 — the read built-in's assignment rule (ranges + rposition) equals the
   recursive specification. *)
From Yv Require Import Common.Base C01.Model C01.Spec C01.ProofsSplit.

Section ReadFacts.
  Context {A : Type}.
  Variable cls : A -> class.

  Notation isW := (isW cls).
  Notation dropW := (dropW cls).
  Notation spanN := (spanN cls).
  Notation eat_delim := (eat_delim cls).
  Notation FieldsS := (FieldsS cls).

  (* index of the last character that is not IFS white space *)
  Fixpoint last_nonW (l : list A) : option nat :=
    match l with
    | [] => None
    | c :: r =>
        match last_nonW r with
        | Some j => Some (S j)
        | None => if isW c then None else Some O
        end
    end.

  Lemma dropW_app_single m c :
    dropW (m ++ [c]) = match dropW m with
                       | [] => if isW c then [] else [c]
                       | d => d ++ [c]
                       end.
  Proof.
    induction m as [|a m IH]; cbn; [destruct (isW c); reflexivity|].
    destruct (isW a); [exact IH|reflexivity].
  Qed.

  Lemma strip_cons c r :
    strip_trailing_W cls (c :: r)
    = match strip_trailing_W cls r with
      | [] => if isW c then [] else [c]
      | s => c :: s
      end.
  Proof.
    unfold strip_trailing_W. cbn [rev]. rewrite dropW_app_single.
    destruct (dropW (rev r)) as [|d m] eqn:E.
    - cbn. destruct (isW c); reflexivity.
    - rewrite rev_app_distr. change (rev [c]) with [c]. cbn [app].
      destruct (rev (d :: m)) eqn:E2; [|reflexivity].
      apply (f_equal (@length A)) in E2. rewrite rev_length in E2. discriminate.
  Qed.

  Lemma strip_last_nonW l :
    strip_trailing_W cls l = match last_nonW l with
                             | Some j => firstn (S j) l
                             | None => []
                             end.
  Proof.
    induction l as [|c r IH]; [reflexivity|].
    rewrite strip_cons, IH. cbn [last_nonW].
    destruct (last_nonW r) as [j|] eqn:E.
    - destruct r as [|d r']; [discriminate E|]. reflexivity.
    - destruct (isW c); reflexivity.
  Qed.

  Lemma last_nonW_head a l : isW a = false -> exists j, last_nonW (a :: l) = Some j.
  Proof. intros H. cbn. destruct (last_nonW l); [eauto|]. rewrite H. eauto. Qed.

  Lemma last_nonW_app pre suf j :
    last_nonW suf = Some j -> last_nonW (pre ++ suf) = Some (length pre + j).
  Proof.
    intros H. induction pre as [|c pre IH]; [exact H|]. cbn. rewrite IH. reflexivity.
  Qed.

  (* ---- the spec in terms of the fields with their suffixes ---------------------- *)

  Definition last_of (ps : list (list A * list A)) : list A :=
    match ps with
    | [] => []
    | [(f, _)] => f
    | (_, suf) :: _ :: _ => strip_trailing_W cls suf
    end.

  Lemma FieldsS_nil_inv ps : FieldsS [] ps -> ps = [].
  Proof. inversion 1; reflexivity. Qed.

  Lemma FieldsS_cons_inv b l ps : FieldsS (b :: l) ps -> ps <> [].
  Proof. inversion 1; discriminate. Qed.

  Lemma read_values_FieldsS n : forall l ps,
    FieldsS l ps ->
    read_values cls n l
    = map (fun k => nth k (map fst ps) []) (seq 0 n) ++ [last_of (skipn n ps)].
  Proof.
    induction n as [|n IH]; intros l ps H.
    - cbn [read_values seq map app skipn].
      inversion H as [|a l' f rest fs Hs Hf]; subst; [reflexivity|].
      cbn [last_value last_of]. rewrite Hs.
      destruct (eat_delim rest) as [|b m] eqn:E.
      + apply FieldsS_nil_inv in Hf. subst. reflexivity.
      + pose proof (FieldsS_cons_inv _ _ _ Hf) as Hne.
        destruct fs; [congruence|]. reflexivity.
    - cbn [read_values seq]. rewrite <- seq_shift. cbn [map]. rewrite map_map. cbn [app].
      inversion H as [|a l' f rest fs Hs Hf]; subst.
      + rewrite (IH [] [] (FieldsS_nil cls)). cbn [map fst skipn].
        f_equal. f_equal.
        * apply map_ext. intros k. destruct k; reflexivity.
        * rewrite skipn_nil. reflexivity.
      + rewrite Hs. rewrite (IH _ _ Hf). cbn [map fst skipn nth]. reflexivity.
  Qed.

  (* the suffix recorded with every field starts with a character that is
     not IFS white space *)
  Definition head_nonW (l : list A) : Prop :=
    match l with [] => False | b :: _ => isW b = false end.

  Lemma FieldsS_heads l ps :
    match l with [] => True | b :: _ => isW b = false end ->
    FieldsS l ps -> Forall (fun p => head_nonW (snd p)) ps.
  Proof.
    intros Hh H. induction H as [|a l f rest fs Hs Hf IH]; constructor.
    - exact Hh.
    - apply IH. apply eat_delim_head.
  Qed.
End ReadFacts.

(* ---- the model ---------------------------------------------------------------------- *)

Section ReadModel.
  Variable is_ws : N -> bool.

  Lemma rposition_go_spec i l : forall k best,
    rposition_go i l k best
    = match last_nonW (classify_attr i) l with
      | Some j => Some (k + j)
      | None => best
      end.
  Proof.
    induction l as [|c r IH]; intros k best; [reflexivity|].
    cbn [rposition_go last_nonW]. rewrite IH.
    destruct (last_nonW (classify_attr i) r) as [j|].
    - f_equal. lia.
    - unfold isW. destruct (classify_attr i c); cbn; try reflexivity; f_equal; lia.
  Qed.

  Lemma slice_suffix {A} (text : list A) s j :
    slice text (s, S (s + j)) = firstn (S j) (skipn s text).
  Proof. unfold slice; cbn [fst snd]. f_equal. lia. Qed.

  Lemma read_assign_eq_spec_lemma ic text n :
    read_assign (ifs_new is_ws ic) text n
    = Some (map remove_quotes_and_strip (read_spec (spec_class is_ws ic) n text)).
  Proof.
    set (i := ifs_new is_ws ic). set (cls := spec_class is_ws ic).
    assert (Ecls : forall c, classify_attr i c = cls c) by (intros; apply classify_attr_spec).
    pose proof (machine_eq_specS cls text) as HF.
    set (rs := ranges_go AfterIfsNonWhitespace 0 (map cls text)) in HF.
    assert (Ers : ranges i text = rs).
    { unfold ranges, rs. f_equal. apply map_ext. exact Ecls. }
    set (ps := map (fun r => (slice text r, skipn (fst r) text)) rs) in HF.
    unfold read_spec. rewrite (read_values_FieldsS cls n _ _ HF).
    unfold read_assign. rewrite Ers.
    (* the variables before the last *)
    assert (Hfirst :
      map (fun k => match nth_error rs k with
                    | Some r => remove_quotes_and_strip (slice text r)
                    | None => []
                    end) (seq 0 n)
      = map remove_quotes_and_strip (map (fun k => nth k (map fst ps) []) (seq 0 n))).
    { rewrite map_map. apply map_ext. intros k. unfold ps. rewrite map_map. cbn [fst].
      destruct (nth_error rs k) as [r|] eqn:E.
      - rewrite (nth_indep _ [] (slice text (0, 0))) by
          (rewrite map_length; apply nth_error_Some; congruence).
        rewrite (map_nth (slice text)). erewrite nth_error_nth by exact E. reflexivity.
      - rewrite nth_overflow; [reflexivity|]. rewrite map_length. apply nth_error_None. exact E. }
    rewrite Hfirst, map_app. cbn [map].
    (* the last variable *)
    assert (Hlast :
      match skipn n rs with
      | [] => Some (0, 0)
      | [r] => Some r
      | r :: _ :: _ =>
          match rposition_non_ws i text with
          | Some p => Some (fst r, S p)
          | None => None
          end
      end = Some (match skipn n rs with
                  | [] => (0, 0)
                  | [r] => r
                  | r :: _ :: _ =>
                      (fst r, S (fst r + match last_nonW cls (skipn (fst r) text) with
                                         | Some j => j | None => 0 end))
                  end)
      /\ slice text (match skipn n rs with
                  | [] => (0, 0)
                  | [r] => r
                  | r :: _ :: _ =>
                      (fst r, S (fst r + match last_nonW cls (skipn (fst r) text) with
                                         | Some j => j | None => 0 end))
                  end) = last_of cls (skipn n ps)).
    { unfold ps. rewrite skipn_map.
      pose proof (FieldsS_heads cls _ _ (dropW_head cls text) HF) as Hh. fold ps in Hh.
      assert (Hh' : Forall (fun p => head_nonW cls (snd p)) (skipn n ps)).
      { rewrite <- (firstn_skipn n ps) in Hh. apply Forall_app in Hh. tauto. }
      unfold ps in Hh'. rewrite skipn_map in Hh'.
      destruct (skipn n rs) as [|r [|r2 rest]]; cbn [map last_of].
      - split; reflexivity.
      - split; reflexivity.
      - inversion Hh' as [|x xs Hx _]; subst. cbn [snd] in Hx.
        destruct (skipn (fst r) text) as [|b suf] eqn:Es; [contradiction|].
        destruct (last_nonW_head cls b suf Hx) as [j Hj].
        assert (Etext : text = firstn (fst r) text ++ b :: suf)
          by (rewrite <- Es; symmetry; apply firstn_skipn).
        assert (Hlen : length (firstn (fst r) text) = fst r).
        { apply firstn_length_le.
          destruct (Nat.le_gt_cases (fst r) (length text)) as [L|L]; [exact L|].
          rewrite skipn_all2 in Es by lia. discriminate. }
        unfold rposition_non_ws. rewrite rposition_go_spec.
        assert (Elast : last_nonW (classify_attr i) text = Some (fst r + j)).
        { rewrite Etext at 1.
          erewrite (last_nonW_app (classify_attr i)).
          - rewrite Hlen. reflexivity.
          - rewrite <- Hj. clear - Ecls. generalize (b :: suf). intros l.
            induction l as [|c l IH]; [reflexivity|]. cbn. rewrite IH.
            unfold isW. rewrite Ecls. reflexivity. }
        rewrite Elast, Hj. cbn [Nat.add]. split; [reflexivity|].
        rewrite slice_suffix, Es, strip_last_nonW, Hj. reflexivity. }
    destruct Hlast as [H1 H2]. rewrite H1, H2. reflexivity.
  Qed.

  Lemma read_no_panic_lemma ic text n : read_assign (ifs_new is_ws ic) text n <> None.
  Proof. rewrite read_assign_eq_spec_lemma. discriminate. Qed.

  Lemma read_oracle_sound_lemma iv text n vs :
    read_assign (read_ifs is_ws iv) text n = Some vs ->
    read_oracle is_ws iv text n vs = true.
  Proof.
    unfold read_ifs, read_oracle.
    destruct iv as [s|]; rewrite read_assign_eq_spec_lemma; intros H; inversion H; subst;
      (apply list_eqb_spec; [apply str_eqb_eq | reflexivity]).
  Qed.
End ReadModel.
