(* C01 — here-document bodies (expand_text): the corollaries about texts made of
   literal characters and backslash escapes only.

   A here-document with a quoted delimiter (<<'EOF', <<\EOF) is a text of
   literal characters only; in one with an unquoted delimiter the characters
   that are not part of an expansion are literal characters and the escapes
   \$ \` \\ (TBs).  XCU 2.7.4: no expansion at all in the first case; in the
   second the backslash of an escape is removed and every other character —
   the double and the single quote included — stands for itself.  The result is one string: no
   field splitting, no joining, whatever IFS is. *)
From Coq Require Import List NArith Bool.
Import ListNotations.
From Yv Require Import Common.Base C01.Model C01.Spec C01.ProofsWord.

(* the string a text of literal characters and escapes stands for; None if the
   text contains an expansion *)
Fixpoint plain_value (t : text) : option str :=
  match t with
  | TNil => Some []
  | TCons (TLit c) t' => option_map (cons c) (plain_value t')
  | TCons (TBs c) t' => option_map (cons c) (plain_value t')
  | TCons _ _ => None
  end.

(* a text of literal characters only (what the parser makes of a here-document
   with a quoted delimiter: Text::from_literal_chars) *)
Fixpoint literal_text (s : str) : text :=
  match s with
  | [] => TNil
  | c :: r => TCons (TLit c) (literal_text r)
  end.

(* the phrases that hold exactly one field or are the unit *)
Definition acc1 (p : phrase) : option field :=
  match p with
  | Char c => Some [c]
  | Field f => Some f
  | Full [] => Some []
  | Full (_ :: _) => None
  end.

Lemma acc1_append_char : forall acc f c,
  acc1 acc = Some f -> acc1 (append acc (Char c)) = Some (f ++ [c]).
Proof.
  intros acc f c H. destruct acc as [l | l | [| a r]]; cbn in *; try discriminate;
    injection H as <-; reflexivity.
Qed.

Lemma acc1_append_field : forall acc f g,
  acc1 acc = Some f -> acc1 (append acc (Field g)) = Some (f ++ g).
Proof.
  intros acc f g H. destruct acc as [l | l | [| a r]]; cbn in *; try discriminate;
    injection H as <-; reflexivity.
Qed.

Lemma acc1_ifs_join : forall p f iv, acc1 p = Some f -> ifs_join p iv = f.
Proof.
  intros p f iv H. destruct p as [l | l | [| a r]]; cbn in *; try discriminate;
    injection H as <-; reflexivity.
Qed.

Lemma rqs_app : forall a b,
  remove_quotes_and_strip (a ++ b) = remove_quotes_and_strip a ++ remove_quotes_and_strip b.
Proof.
  intros a b. unfold remove_quotes_and_strip, strip, skip_quotes.
  rewrite filter_app, map_app. reflexivity.
Qed.

Lemma expand_text_go_plain : forall ws t s acc f e,
  plain_value t = Some s -> acc1 acc = Some f ->
  exists ph f', expand_text_go ws t acc e = Ok ph e /\ acc1 ph = Some f'
    /\ remove_quotes_and_strip f' = remove_quotes_and_strip f ++ s.
Proof.
  intros ws t. induction t as [| u t' IH]; intros s acc f e Hp Ha.
  - cbn in Hp. injection Hp as <-. exists acc, f. cbn. rewrite app_nil_r. auto.
  - destruct u as [c | c | p m | raw | ta v]; cbn in Hp; try discriminate.
    + destruct (plain_value t') as [s' |] eqn:Hs'; cbn in Hp; [| discriminate].
      injection Hp as <-.
      destruct (IH s' (append acc (Char (AC c Literal false false))) _ e eq_refl
                  (acc1_append_char _ _ _ Ha)) as (ph & f' & Hgo & Hacc & Hr).
      exists ph, f'. cbn. split; [exact Hgo | split; [exact Hacc |]].
      rewrite Hr, rqs_app, <- app_assoc. reflexivity.
    + destruct (plain_value t') as [s' |] eqn:Hs'; cbn in Hp; [| discriminate].
      injection Hp as <-.
      destruct (IH s' (append acc (Field [AC 92 Literal false true; AC c Literal true false])) _ e
                  eq_refl (acc1_append_field _ _ _ Ha)) as (ph & f' & Hgo & Hacc & Hr).
      exists ph, f'. cbn. split; [exact Hgo | split; [exact Hacc |]].
      rewrite Hr, rqs_app, <- app_assoc. reflexivity.
Qed.

(* literal characters and escapes: the value is the characters themselves, the
   backslash of each escape removed; the environment (IFS in particular) plays
   no part and is unchanged *)
Lemma plain_text_value_lemma : forall (t : text) (s : str) (e : env),
  plain_value t = Some s -> expand_text_single t e = Ok s e.
Proof.
  intros t s e Hp. unfold expand_text_single, expand_text, expand_slice.
  destruct t as [| u t'].
  - cbn in Hp. injection Hp as <-. reflexivity.
  - cbn [text_is_empty].
    destruct (expand_text_go_plain true (TCons u t') s zero_fields [] e Hp eq_refl)
      as (ph & f' & Hgo & Hacc & Hr).
    rewrite Hgo, (acc1_ifs_join _ _ _ Hacc), Hr. reflexivity.
Qed.

Lemma plain_value_literal_text : forall s, plain_value (literal_text s) = Some s.
Proof. induction s as [| c r IH]; cbn; [| rewrite IH]; reflexivity. Qed.

(* quoted delimiter: no expansion at all *)
Lemma quoted_heredoc_lemma : forall (s : str) (e : env),
  expand_text_single (literal_text s) e = Ok s e.
Proof. intros s e. apply plain_text_value_lemma, plain_value_literal_text. Qed.

(* the same two facts about the SPECIFICATION: on plain texts it is defined
   and gives the same string (so the oracle demands exactly this) *)
Lemma plain_text_spec_lemma : forall (t : text) (s : str) (e : env),
  plain_value t = Some s ->
  spec_text_single t e = SUnspec \/ spec_text_single t e = SOk s e.
Proof.
  intros t s e Hp.
  pose proof (expand_text_single_refines_lemma t e) as H.
  rewrite (plain_text_value_lemma t s e Hp) in H.
  destruct (spec_text_single t e) as [v e' | k |]; [right | discriminate | left; reflexivity].
  injection H as <- <-. reflexivity.
Qed.

(* non-vacuity: the here-document line  a DQ BACKSLASH DQ BACKSLASH-DOLLAR x SQ  (DQ, SQ
   = double, single quote: both quotes and the backslash before DQ are literal,
   BACKSLASH-DOLLAR is an escape), under IFS = a and nounset *)
Example ex_plain_text :
  let t := TCons (TLit 97) (TCons (TLit 34) (TCons (TLit 92) (TCons (TLit 34)
           (TCons (TBs 36) (TCons (TLit 120) (TCons (TLit 39) TNil)))))) in
  let e := mkEnv [(IFS_name, Scalar [97%N])] [] true in
  plain_value t = Some [97; 34; 92; 34; 36; 120; 39]%N
  /\ expand_text_single t e = Ok [97; 34; 92; 34; 36; 120; 39]%N e
  /\ spec_text_single t e = SOk [97; 34; 92; 34; 36; 120; 39]%N e.
Proof. cbn. repeat split. Qed.
