(* C01 — on the core of the word language the specification always defines
   the result (fields or an error): SUnspec does not occur. *)
From Yv Require Import Common.Base C01.Model C01.Spec C01.ProofsSplit C01.ProofsWord.

Definition defined (s : sres (list pfield)) : Prop :=
  match s with
  | SOk _ e' => scalar_env e' = true
  | SErr _ => True
  | SUnspec => False
  end.

Lemma assoc_scalar k l : 
  forallb (fun kv : str * varval => match snd kv with Scalar _ => true | Array _ => false end) l = true ->
  match assoc k l with Some (Array _) => False | _ => True end.
Proof.
  induction l as [|[k' v] l IH]; cbn; [auto|]. intros H. apply andb_true_iff in H as [H1 H2].
  destruct (str_eqb k k').
  - destruct v; [exact I|discriminate].
  - apply IH. exact H2.
Qed.

Lemma scalar_env_assign e name s : scalar_env e = true -> scalar_env (assign_scalar e name s) = true.
Proof.
  unfold scalar_env, assign_scalar; cbn [vars]. generalize (vars e) as l.
  induction l as [|[k v] l IH]; cbn; [auto|]. intros H. apply andb_true_iff in H as [H1 H2].
  destruct (str_eqb name k); cbn; [exact H2|]. rewrite H1, IH; auto.
Qed.

Lemma ifs_value_defined e : scalar_env e = true -> exists iv, ifs_value e = Some iv.
Proof.
  intros H. unfold ifs_value. pose proof (assoc_scalar IFS_name _ H) as A.
  destruct (assoc IFS_name (vars e)) as [[s|l]|]; [eauto|contradiction|eauto].
Qed.

Lemma param_value_defined e p :
  scalar_env e = true -> param_simple p = true -> exists v, param_value e p = Some v.
Proof.
  intros H Hp. destruct p as [n|[|i]| | |]; cbn in *; try discriminate; eauto.
  - pose proof (assoc_scalar n _ H) as A.
    destruct (assoc n (vars e)) as [[s|l]|]; [eauto|contradiction|eauto].
  - destruct (nth_error (positional e) i); eauto.
Qed.

Lemma param_plain_defined p dq v e : scalar_env e = true -> defined (param_plain p dq v e).
Proof.
  intros H. destruct v as [|s|l]; cbn; auto.
  destruct p, dq; cbn; auto.
  destruct (ifs_value_defined e H) as [iv ->]. exact H.
Qed.

Lemma list_param_value e p v :
  param_value e p = Some v -> is_list_param p = false -> pstate_of v <> None.
Proof.
  intros Hv Hl. destruct v as [|[|c s]|l]; cbn; try discriminate.
  exfalso. destruct p as [n|[|i]| | |]; cbn in *; try discriminate.
  - destruct (assoc n (vars e)) as [[s|l']|]; discriminate.
  - destruct (nth_error (positional e) i); discriminate.
Qed.

Definition Q_tunit (u : tunit) : Prop :=
  core_tunit u = true -> forall dq e, scalar_env e = true -> defined (sem_tunit dq u e).
Definition Q_text (t : text) : Prop :=
  core_text t = true -> forall dq e, scalar_env e = true -> defined (sem_text dq t e).
Definition Q_wunit (u : wunit) : Prop :=
  core_wunit u = true -> forall dq e, scalar_env e = true -> defined (sem_wunit dq u e).
Definition Q_word (w : word) : Prop :=
  core_word w = true -> forall dq e, scalar_env e = true -> defined (sem_word dq w e).
Definition Q_modifier (m : modifier) : Prop :=
  match m with MSwitch _ _ w => Q_word w | _ => True end.

Lemma word_top_defined w dq e :
  Q_word w -> core_word w = true -> scalar_env e = true ->
  defined (top_or_empty (sem_word dq) word_is_empty w e).
Proof.
  intros Hq Hc He. unfold top_or_empty. destruct (word_is_empty w); [exact He|]. apply Hq; assumption.
Qed.

Lemma core_defined_all :
  (forall u, Q_tunit u) /\ (forall t, Q_text t) /\ (forall m, Q_modifier m)
  /\ (forall u, Q_wunit u) /\ (forall w, Q_word w).
Proof.
  apply ast_mutind.
  - intros c _ dq e He. exact He.
  - intros c _ dq e He. exact He.
  - intros p m Hm Hc dq e He. cbn [core_tunit] in Hc. apply andb_true_iff in Hc as [Hp Hc].
    cbn [sem_tunit]. destruct (param_value_defined e p He Hp) as [v Hv]. rewrite Hv.
    pose proof (param_plain_defined p dq v e He) as Hplain.
    destruct m as [| |a colon w|s l w]; cbn [Q_modifier] in Hm.
    + destruct v; try exact Hplain. destruct (nounset e); [exact I|exact Hplain].
    + pose proof (list_param_value e p v Hv) as Hl.
      destruct (is_list_param p); [discriminate|]. specialize (Hl eq_refl).
      destruct v as [|s|l]; cbn; [destruct (nounset e); [exact I|exact He] | exact He | cbn in Hl; congruence].
    + apply andb_true_iff in Hc as [Hlp Hw].
      pose proof (list_param_value e p v Hv) as Hl.
      destruct (is_list_param p); [discriminate|]. specialize (Hl eq_refl).
      destruct (pstate_of v) as [st|]; [|congruence].
      destruct (posix_table a colon st).
      * exact Hplain.
      * pose proof (word_top_defined w dq e Hm Hw He) as D.
        destruct (top_or_empty (sem_word dq) word_is_empty w e); cbn in *; auto.
      * exact He.
      * destruct p; try exact I.
        pose proof (word_top_defined w dq e Hm Hw He) as D.
        destruct (top_or_empty (sem_word dq) word_is_empty w e) as [fs e'|k|]; cbn in *; auto.
        destruct (ifs_value_defined e' D) as [iv ->]. cbn. apply scalar_env_assign. exact D.
      * destruct (word_is_empty w); [exact I|].
        specialize (Hm Hw false e He). destruct (sem_word false w e); cbn in *; auto.
    + discriminate.
  - intros raw _ dq e He. exact He.
  - intros t Ht v Hc dq e He. cbn [core_tunit] in Hc. cbn [sem_tunit].
    unfold top_or_empty. destruct (text_is_empty t); [exact He|].
    specialize (Ht Hc false e He). destruct (sem_text false t e); cbn in *; auto.
  - intros _ dq e He. exact He.
  - intros u Hu t Ht Hc dq e He. cbn [core_text] in Hc. apply andb_true_iff in Hc as [H1 H2].
    cbn [sem_text]. specialize (Hu H1 dq e He). destruct (sem_tunit dq u e) as [a e1|k|]; cbn in *; auto.
    specialize (Ht H2 dq e1 Hu). destruct (sem_text dq t e1); cbn in *; auto.
  - exact I.
  - exact I.
  - intros a colon w Hw. exact Hw.
  - intros; exact I.
  - intros u Hu Hc dq e He. cbn in *. apply Hu; assumption.
  - intros s _ dq e He. exact He.
  - intros t Ht Hc dq e He. cbn [core_wunit] in Hc. cbn [sem_wunit].
    unfold top_or_empty. destruct (text_is_empty t); [exact He|].
    specialize (Ht Hc true e He). destruct (sem_text true t e); cbn in *; auto.
  - intros s _ dq e He. exact He.
  - intros home slash _ dq e He. exact He.
  - intros _ dq e He. exact He.
  - intros u Hu w Hw Hc dq e He. cbn [core_word] in Hc. apply andb_true_iff in Hc as [H1 H2].
    cbn [sem_word]. specialize (Hu H1 dq e He). destruct (sem_wunit dq u e) as [a e1|k|]; cbn in *; auto.
    specialize (Hw H2 dq e1 Hu). destruct (sem_word dq w e1); cbn in *; auto.
Qed.

Lemma all_some_split (is_ws : N -> bool) ic (pfs : list pfield) :
  all_some (map (split_spec (tok_class is_ws ic)) pfs) <> None.
Proof.
  induction pfs as [|pf pfs IH]; [discriminate|]. cbn.
  destruct (split_spec_total (tok_class is_ws ic) pf) as [fs ->].
  destruct (all_some (map (split_spec (tok_class is_ws ic)) pfs)); [discriminate|congruence].
Qed.

Lemma spec_defined_on_core_lemma (is_ws : N -> bool) w e :
  core_word w = true -> scalar_env e = true -> spec_word_fields is_ws w e <> SUnspec.
Proof.
  intros Hc He. destruct core_defined_all as [_ [_ [_ [_ Hw]]]].
  pose proof (word_top_defined w false e (Hw w) Hc He) as D.
  unfold spec_word_fields.
  destruct (top_or_empty (sem_word false) word_is_empty w e) as [pfs e'|k|]; cbn in D; try discriminate; [|contradiction].
  destruct (ifs_value_defined e' D) as [iv ->].
  pose proof (all_some_split is_ws (splitting_chars iv) pfs) as A.
  destruct (all_some (map (split_spec (tok_class is_ws (splitting_chars iv))) pfs)); [discriminate|congruence].
Qed.
