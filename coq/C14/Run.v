(* C14 — what the correspondence check evaluates on every case. *)
From Yv Require Export Common.Base C14.Model C14.Spec C14.Blocking C14.Guard.

(* ------------------------------------------------------------------------ *)
(* Stream A: system calls on one pipe, with a snapshot of the pipe after each
   call: (content, readers > 0, writers > 0). *)
Definition snap := (digest * bool * bool)%type.

(* The harness writes runs of consecutive test bytes compactly. *)
Fixpoint sq (start : N) (len : nat) : list N :=
  match len with
  | O => []
  | S len => start :: sq (if (start + 1 =? 251)%N then 0%N else (start + 1)%N) len
  end.

Definition wres_eqb (a b : wres) : bool :=
  match a, b with
  | WOk n, WOk m => n =? m
  | WAgain, WAgain | WEpipe, WEpipe | WPanic, WPanic => true
  | _, _ => false
  end.
Definition rres_eqb (a b : rres) : bool :=
  match a, b with
  | ROk x, ROk y => bytes_eqb x y
  | RAgain, RAgain => true
  | _, _ => false
  end.
Definition obs_eqb (a b : obs) : bool :=
  match a, b with
  | BW x, BW y => wres_eqb x y
  | BR x, BR y => rres_eqb x y
  | BUnit, BUnit => true
  | BPoll r w, BPoll r' w' => Bool.eqb r r' && Bool.eqb w w'
  | _, _ => false
  end.
Definition snap_of (p : pipe) : snap := (digest_of (buf p), ropen p, wopen p).
Definition snap_eqb (a b : snap) : bool :=
  match a, b with
  | (x, r, w), (y, r', w') => digest_eqb x y && Bool.eqb r r' && Bool.eqb w w'
  end.

Fixpoint pipe_hist (c : cfg) (p : pipe) (h : list (op * obs * snap)) : verdict :=
  match h with
  | [] => 0%N
  | (o, b, sn) :: h =>
      if negb (op_ok p o) then 99%N
      else
        let (b', p') := pipe_step c p o in
        if obs_eqb b b' && snap_eqb sn (snap_of p') then pipe_hist c p' h
        else match pipe_hist c p' h with 99%N => 99%N | _ => 1%N end
  end.

(* The snapshot itself must respect the capacity (clause 1). *)
Definition snaps_within (c : cfg) (h : list (op * obs * snap)) : bool :=
  forallb (fun x => match x with (_, _, ((n, _, _), _, _)) => n <=? psize c end) h.

Definition run_pipe (c : cfg) (h : list (op * obs * snap)) : verdict :=
  match spec_run c stream0 (map fst h) with
  | Some k => (2 + k)%N
  | None =>
      if negb (snaps_within c h) then 3%N
      else if negb (cfg_okb c) then 1%N
      else pipe_hist c new_pipe h
  end.

(* ------------------------------------------------------------------------ *)
(* Stream B: `write_all` per chunk + close in one task, a reader in another,
   both on the real Concurrent<VirtualSystem>; the harness chooses which woken
   task is polled next and when `peek` (select with zero timeout) runs. *)
Inductive act := APollW | APollR | APeek.

(* What the harness sees after each action:
   (length of the pipe content, writer woken, reader woken, writer done, reader done) *)
Definition xsnap := (nat * bool * bool * bool * bool)%type.

Record xcase := mkXCase {
  xc_cfg : cfg;
  xc_chunks : list (list N);
  xc_caps : list nat;        (* reader buffer sizes (the last repeats) *)
  xc_dflt : nat;             (* buffer size when the list is exhausted *)
  xc_acts : list (act * xsnap);
  xc_received : list N;      (* what the reader task returned *)
  xc_stuck : bool;           (* no task could be woken although one was unfinished *)
  xc_panic : bool }.

Record cstate := mkC { cs : xstate; wflag : bool; rflag : bool; caps_left : list nat }.

Definition wdone (s : xstate) : bool :=
  match wst s with WDone | WFail => true | _ => false end.
Definition rdone (s : xstate) : bool := match rst s with RDone => true | _ => false end.

Definition xsnap_of (k : cstate) : xsnap :=
  (length (buf (pp (cs k))), wflag k, rflag k, wdone (cs k), rdone (cs k)).

Definition xsnap_eqb (a b : xsnap) : bool :=
  match a, b with
  | (n, a1, a2, a3, a4), (m, b1, b2, b3, b4) =>
      (n =? m) && Bool.eqb a1 b1 && Bool.eqb a2 b2 && Bool.eqb a3 b3 && Bool.eqb a4 b4
  end.

(* None = the action is not possible in the model (generator outside the domain) *)
Definition cstep (c : cfg) (dflt : nat) (k : cstate) (a : act) : option cstate :=
  match a with
  | APollW =>
      if wflag k && negb (wdone (cs k)) then
        match poll_w c (cs k) with
        | Some s' => Some (mkC s' false (rflag k) (caps_left k))
        | None => None
        end
      else None
  | APollR =>
      if rflag k && negb (rdone (cs k)) then
        match poll_r (cs k) (caps_left k) dflt with
        | Some (s', caps') => Some (mkC s' (wflag k) false caps')
        | None => None
        end
      else None
  | APeek =>
      (* select_impl + wake_tasks_for_ready_fds: a yielded task is woken iff its
         descriptor is ready *)
      let s := cs k in
      let w := wflag k || (wpc_eqb (wst s) WWait && ready_w c (pp s)) in
      let r := rflag k || (rpc_eqb (rst s) RWait && ready_r (pp s)) in
      Some (mkC s w r (caps_left k))
  end.

Fixpoint xfer_hist (c : cfg) (dflt : nat) (k : cstate) (h : list (act * xsnap))
  : verdict * cstate :=
  match h with
  | [] => (0%N, k)
  | (a, sn) :: h =>
      match cstep c dflt k a with
      | None => (99%N, k)
      | Some k' =>
          if xsnap_eqb sn (xsnap_of k') then xfer_hist c dflt k' h
          else match xfer_hist c dflt k' h with
               | (99%N, kf) => (99%N, kf)
               | (_, kf) => (1%N, kf)
               end
      end
  end.

Definition run_xfer (x : xcase) : verdict :=
  let c := xc_cfg x in
  (* oracle, on the implementation's results only *)
  if xc_panic x || xc_stuck x then 12%N
  else if negb (bytes_eqb (xc_received x) (concat (xc_chunks x))) then 13%N
  else if negb (forallb (fun p => match p with (_, (n, _, _, _, _)) => n <=? psize c end)
                        (xc_acts x)) then 3%N
  else if negb (cfg_okb c) then 1%N
  else if negb (forallb (fun n => 1 <=? n) (xc_dflt x :: xc_caps x)) then 99%N
  else
    let k0 := mkC (init (xc_chunks x)) true true (xc_caps x) in
    match xfer_hist c (xc_dflt x) k0 (xc_acts x) with
    | (0%N, kf) =>
        if finished (cs kf) && bytes_eqb (recvd (cs kf)) (xc_received x) then 0%N else 1%N
    | (v, _) => v
    end.

(* ------------------------------------------------------------------------ *)
(* Stream C: whole scripts.  The data that flows is described by an expression;
   Coq computes what has to arrive. *)
Inductive dexp :=
  | DGen (n : nat) (k : N) (t : nat)   (* `emit n k t`: gen_payload n k t *)
  | DLit (s : list N)                  (* literal bytes *)
  | DCat (l : list dexp)               (* commands in sequence on the same output *)
  | DSubst (e : dexp)                  (* `put "$( e )"`: output of e, trailing newlines removed *)
  | DPipe (e : dexp) (relays cap : nat)   (* `e | relay cap | ...` *)
  | DHere (e : dexp) (cap : nat).      (* `relay cap <<'EOF'` with the value of e as the body *)

(* How the data reaches the observer. *)
Inductive route :=
  | RPipe (stages : nat) (chunk : nat) (cap : nat)
      (* producer | relay | ... | sink: [stages] pipes (0 = straight to a file);
         the producer writes in pieces of [chunk] bytes (0 = all at once), the sink
         and the relays read with buffers of [cap] bytes *)
  | RHead (stages : nat) (k : nat) (cap : nat)
      (* producer | relay | ... | sinkk k: the last command reads [k] bytes and exits
         without draining its input; the writers must end by EPIPE *)
  | RVar                               (* x=$( producer ); the value of x is observed *)
  | RHere (cap : nat).                 (* sink <<'EOF' ... : the data is the body *)

Record sobs := mkSObs {
  so_digest : option digest;     (* what the observer received (None: no/several records) *)
  so_exact : option (list N);    (* the bytes themselves, for small payloads *)
  so_status : Z;                 (* exit status of the shell *)
  so_stuck : bool;               (* deadlock or step budget exhausted *)
  so_panic : bool;
  so_leftover : nat }.           (* children alive or unreaped at the end *)

(* MODEL side: command substitution as the code does it *)
Fixpoint eval_model (e : dexp) : list N :=
  match e with
  | DGen n k t => gen_payload n k t
  | DLit s => s
  | DCat l => flat_map eval_model l
  | DSubst e => strip_nl (eval_model e)
  | DPipe e _ _ => eval_model e
  | DHere e _ => eval_model e
  end.

(* SPEC side: remove [trailing_nl] bytes from the end *)
Fixpoint eval_spec (e : dexp) : list N :=
  match e with
  | DGen n k t => gen_payload n k t
  | DLit s => s
  | DCat l => flat_map eval_spec l
  | DSubst e => let v := eval_spec e in firstn (length v - trailing_nl v) v
  | DPipe e _ _ => eval_spec e
  | DHere e _ => eval_spec e
  end.

Fixpoint chunks_of (fuel : nat) (chunk : nat) (l : list N) : list (list N) :=
  match fuel with
  | O => [l]
  | S fuel =>
      match l with
      | [] => []
      | _ => firstn chunk l :: chunks_of fuel chunk (skipn chunk l)
      end
  end.

Definition chunked (chunk : nat) (l : list N) : list (list N) :=
  if chunk =? 0 then [l] else chunks_of (length l) chunk l.

(* MODEL: one pipe stage under the schedule "writer until it yields, then reader
   until it yields, peek" — any schedule gives the same result by
   transfer_complete_in_order; this one is run to tie the transition system to
   the scripts as well. *)
Fixpoint pump (fuel : nat) (c : cfg) (cap : nat) (s : xstate) : option (list N) :=
  match fuel with
  | O => None
  | S fuel =>
      if finished s then Some (recvd s)
      else
        match poll_w c s with
        | None => None
        | Some s1 =>
            match poll_r s1 [] cap with
            | None => None
            | Some (s2, _) => pump fuel c cap s2
            end
        end
  end.

Definition through_pipe (c : cfg) (chunk cap : nat) (l : list N) : option (list N) :=
  pump (S (step_bound (chunked chunk l))) c (Nat.max 1 cap) (init (chunked chunk l)).

Fixpoint through_pipes (n : nat) (c : cfg) (chunk cap : nat) (l : list N) : option (list N) :=
  match n with
  | O => Some l
  | S n =>
      match through_pipe c chunk cap l with
      | Some l' => through_pipes n c (Nat.max 1 cap) cap l'
      | None => None
      end
  end.

Definition model_route (c : cfg) (r : route) (l : list N) : option (list N) :=
  match r with
  | RPipe stages chunk cap => through_pipes stages c chunk cap l
  | RHead stages k cap =>
      match through_pipes stages c 0 cap l with
      | Some l' => Some (firstn k l')
      | None => None
      end
  | RVar =>
      match through_pipe c 0 (psize c) l with
      | Some l' => Some (strip_nl l')
      | None => None
      end
  | RHere cap => heredoc_transfer l [] (Nat.max 1 cap)
  end.

Definition spec_route (r : route) (l : list N) : list N :=
  match r with
  | RPipe _ _ _ | RHere _ => l
  | RHead _ k _ => firstn k l
  | RVar => firstn (length l - trailing_nl l) l
  end.

Definition run_script (c : cfg) (e : dexp) (r : route) (o : sobs) : verdict :=
  let want := spec_route r (eval_spec e) in
  if so_panic o || so_stuck o then 12%N
  else
    match so_digest o with
    | None => 13%N
    | Some d =>
        if negb (digest_eqb d (digest_of want)) then 13%N
        else if match so_exact o with Some bs => negb (bytes_eqb bs want) | None => false end
             then 13%N
        else if negb (so_leftover o =? 0) then 14%N
        else if negb (cfg_okb c) then 1%N
        else
          match model_route c r (eval_model e) with
          | Some got => if digest_eqb d (digest_of got) then 0%N else 1%N
          | None => 1%N
          end
    end.

(* ------------------------------------------------------------------------ *)
(* Stream D: the trailing-newline rule and here-documents on explicit strings
   (code points, so that non-ASCII text is covered). *)
Definition run_strip (input output : str) : verdict :=
  if negb (strip_okb input output) then 15%N
  else if str_eqb (strip_nl input) output then 0%N else 1%N.

(* Stream E: command substitution of raw bytes that need not be valid UTF-8.
   [decoded]: what the standard library's lossy decoder makes of the bytes (an
   external component: the model of it is checked here as well). *)
Definition run_raw (bytes : list N) (decoded value : str) : verdict :=
  if negb (strip_okb decoded value) then 15%N
  else if str_eqb (utf8_lossy bytes) decoded && str_eqb (subst_value bytes) value then 0%N else 1%N.

(* ------------------------------------------------------------------------ *)
(* Stream F: the blocking-mode write (poll_write_full) through the system API:
   one write future at a time is polled; reads on the other end make room. *)
Inductive bop :=
  | FStart (data : list N)   (* create the future of write(wfd, data) and poll it once *)
  | FPoll                    (* poll the pending future again *)
  | FReadN (cap : nat)       (* non-blocking read on the read end *)
  | FCloseRd.                (* close the read end *)

Inductive bobs := FoW (r : bres) | FoR (r : rres) | FoUnit.

Definition bres_eqb (a b : bres) : bool :=
  match a, b with
  | BReady n, BReady m => n =? m
  | BPending, BPending | BErr, BErr => true
  | _, _ => false
  end.
Definition bobs_eqb (a b : bobs) : bool :=
  match a, b with
  | FoW x, FoW y => bres_eqb x y
  | FoR x, FoR y => rres_eqb x y
  | FoUnit, FoUnit => true
  | _, _ => false
  end.

Definition bstep (c : cfg) (p : pipe) (pend : option (list N * nat)) (o : bop)
  : option (bobs * pipe * option (list N * nat)) :=
  match o, pend with
  | FStart d, None =>
      match write_full_poll c p d 0 with
      | (BPending, p', w) => Some (FoW BPending, p', Some (d, w))
      | (r, p', _) => Some (FoW r, p', None)
      end
  | FPoll, Some (d, w) =>
      match write_full_poll c p d w with
      | (BPending, p', w') => Some (FoW BPending, p', Some (d, w'))
      | (r, p', _) => Some (FoW r, p', None)
      end
  | FReadN cap, _ =>
      if ropen p then let (r, p') := fifo_read p cap in Some (FoR r, p', pend) else None
  | FCloseRd, _ =>
      if ropen p then Some (FoUnit, mkPipe (buf p) (pred (rrefs p)) (wrefs p), pend) else None
  | _, _ => None
  end.

Fixpoint block_hist (c : cfg) (p : pipe) (pend : option (list N * nat))
    (h : list (bop * bobs * snap)) : verdict :=
  match h with
  | [] => 0%N
  | (o, b, sn) :: h =>
      match bstep c p pend o with
      | None => 99%N
      | Some (b', p', pend') =>
          if bobs_eqb b b' && snap_eqb sn (snap_of p') then block_hist c p' pend' h
          else match block_hist c p' pend' h with 99%N => 99%N | _ => 1%N end
      end
  end.

(* oracle: what has been read is a prefix of what the writes were asked to
   transfer, in order; a write that completes with all readers present
   transfers its whole request; the capacity is respected *)
Definition breads (h : list (bop * bobs * snap)) : list N :=
  flat_map (fun x => match x with (_, FoR (ROk bs), _) => bs | _ => [] end) h.
Definition bwrites (h : list (bop * bobs * snap)) : list N :=
  flat_map (fun x => match x with (FStart d, _, _) => d | _ => [] end) h.
Definition bclosed (h : list (bop * bobs * snap)) : bool :=
  existsb (fun x => match x with (FCloseRd, _, _) => true | _ => false end) h.

Fixpoint bcomplete (h : list (bop * bobs * snap)) (cur : nat) : bool :=
  match h with
  | [] => true
  | (FStart d, FoW (BReady n), _) :: r => (n =? length d) && bcomplete r 0
  | (FStart d, _, _) :: r => bcomplete r (length d)
  | (FPoll, FoW (BReady n), _) :: r => (n =? cur) && bcomplete r 0
  | _ :: r => bcomplete r cur
  end.

Definition run_block (c : cfg) (h : list (bop * bobs * snap)) : verdict :=
  let rd := breads h in
  if negb (bytes_eqb rd (firstn (length rd) (bwrites h))) then 2%N
  else if negb (forallb (fun x => match x with (_, _, ((n, _, _), _, _)) => n <=? psize c end) h) then 3%N
  else if negb (bclosed h) && negb (bcomplete h 0) then 5%N
  else if negb (cfg_okb c) then 1%N
  else block_hist c new_pipe None h.

(* ------------------------------------------------------------------------ *)
(* Stream G: the `read` built-in (yash-builtin/src/read/input.rs read_char reads
   byte by byte until a UTF-8 character is complete) on a pipe whose writer
   splits multi-byte characters between chunks: `read -r a; read -r b` must
   give the first two lines of the text, whatever the chunking. *)
Fixpoint first_line (s : str) : str * str :=
  match s with
  | [] => ([], [])
  | x :: t => if N.eqb x NL then ([], t) else let (l, r) := first_line t in (x :: l, r)
  end.

Definition run_read (bytes : list N) (a b : str) : verdict :=
  let text := utf8_lossy bytes in
  let (l1, rest1) := first_line text in
  let (l2, _) := first_line rest1 in
  if str_eqb a l1 && str_eqb b l2 then 0%N else 16%N.

(* ------------------------------------------------------------------------ *)
(* Stream H: two or three holders of ONE open file description overlap inside
   Concurrent::read / Concurrent::write (TemporaryNonBlockingGuard).  [h]: the
   enter/leave steps the harness drove and the O_NONBLOCK flag it observed
   after each; [fin]: what a plain blocking read/write on the inner system got
   after the last holder had left (FinAgain = would-block, which is right only
   when the description was O_NONBLOCK from the start); [want]/[got]: the bytes put into the pipe in
   order / the bytes taken out in order (pieces). *)
Inductive fres := FinOk | FinAgain | FinOther.

Fixpoint bools_eqb (a b : list bool) : bool :=
  match a, b with
  | [], [] => true
  | x :: a, y :: b => Bool.eqb x y && bools_eqb a b
  | _, _ => false
  end.

Definition run_guard (f0 : bool) (h : list (gop * bool)) (fin : fres)
    (want got : list (list N)) : verdict :=
  if negb (guard_okb f0 0 h) then 17%N
  else if negb (match fin with FinOk => true | FinAgain => f0 | FinOther => false end) then 18%N
  else if negb (bytes_eqb (concat got) (concat want)) then 18%N
  else
    match gtrace (ginit f0) (map fst h) with
    | None => 99%N
    | Some t => if bools_eqb (map snd h) t then 0%N else 1%N
    end.

Inductive case :=
  | CGuard (f0 : bool) (h : list (gop * bool)) (fin : fres) (want got : list (list N))
  | CRead (bytes : list N) (a b : str)
  | CBlock (c : cfg) (h : list (bop * bobs * snap))
  | CRaw (bytes : list N) (decoded value : str)
  | CPipe (c : cfg) (h : list (op * obs * snap))
  | CXfer (x : xcase)
  | CScript (c : cfg) (e : dexp) (r : route) (o : sobs)
  | CStrip (input output : str).

Definition run_case (k : case) : verdict :=
  match k with
  | CGuard f0 h fin want got => run_guard f0 h fin want got
  | CRead bytes a b => run_read bytes a b
  | CBlock c h => run_block c h
  | CRaw b d v => run_raw b d v
  | CPipe c h => run_pipe c h
  | CXfer x => run_xfer x
  | CScript c e r o => run_script c e r o
  | CStrip i o => run_strip i o
  end.

Definition run_cases := run_cases_with run_case.
