(* C14 — Chain with spurious wake-ups: the four facts again. *)
From Yv Require Import Common.Base C14.Model C14.Spec C14.Proofs C14.Chain C14.ProofsChain C14.ChainSpur.
From Coq Require Import Arith.

Lemma spur_mode_rank c m m' cur b out :
  spur_mode m = Some m' -> mode_rank c m' cur b out <= S (mode_rank c m cur b out).
Proof.
  destruct m; cbn [spur_mode]; intros H; inversion H; subst; cbn [mode_rank].
  - destruct b; lia.
  - destruct cur; [lia|]. destruct (blocked_wp c (n :: cur) out); lia.
Qed.

Lemma uspur_ok c : forall u d u' out v,
  UInv c u out -> uspur u d = Some u' ->
  UInv c u' out /\ content u' = content u /\ umeasure c u' out v <= S (umeasure c u out v).
Proof.
  induction u as [cur rest m|up IH pin cur m]; intros d u' out v HI Hs.
  - destruct d; cbn [uspur] in Hs; [|discriminate].
    destruct (spur_mode m) as [m'|] eqn:Em; [|discriminate]. apply Some_inj in Hs. subst u'.
    destruct HI as [Hl [Hr [Hw [Hm [Hcl Hwt]]]]].
    split; [|split; [reflexivity|]].
    + destruct m; cbn [spur_mode] in Em; inversion Em; subst; cbn [UInv head_mode mode_done] in *; fin.
    + cbn [umeasure]. pose proof (spur_mode_rank c m m' cur false out Em). lia.
  - destruct HI as [Hl [Hr [Hw [Hup [Hcur [Hwt Hcl]]]]]].
    destruct d; cbn [uspur] in Hs.
    + destruct (spur_mode m) as [m'|] eqn:Em; [|discriminate]. apply Some_inj in Hs. subst u'.
      split; [|split; [reflexivity|]].
      * destruct m; cbn [spur_mode] in Em; inversion Em; subst; cbn [UInv head_mode mode_done] in *; fin.
      * cbn [umeasure]. pose proof (spur_mode_rank c m m' cur (blocked_rp pin) out Em). lia.
    + destruct (uspur up d) as [up'|] eqn:E; [|discriminate]. apply Some_inj in Hs. subst u'.
      destruct (IH d up' pin (v + 16) Hup E) as [HI' [Hc' Hm']].
      split; [|split].
      * cbn [UInv head_mode] in *. fin.
      * cbn [content]. rewrite Hc'. reflexivity.
      * cbn [umeasure]. lia.
Qed.

Lemma cevent_step_ok c chunks s e s' :
  cfg_ok c -> cevent_ok e -> CInv c chunks s -> cevent_step c s e = Some s' ->
  CInv c chunks s' /\ cmeasure c s' + (if is_spur e then 0 else 1) <= cmeasure c s + (if is_spur e then 1 else 0).
Proof.
  intros Hc He HI Hs. destruct e as [l|d]; cbn [cevent_step is_spur] in *.
  - destruct (cstep_ok c chunks s l s' Hc He HI Hs) as [H1 H2]. split; [assumption | lia].
  - destruct HI as [Hcons Hup Hdone]. destruct s as [u p rc rs]. cbn [top pout crecvd crst] in *.
    destruct d as [|d].
    + destruct rs; try discriminate. apply Some_inj in Hs. subst s'. split.
      * constructor; cbn [top pout crecvd crst]; auto. discriminate.
      * unfold cmeasure, sink_rank; cbn [top pout crecvd crst]. destruct (blocked_rp p); lia.
    + destruct (uspur u d) as [u'|] eqn:E; [|discriminate]. apply Some_inj in Hs. subst s'.
      destruct (uspur_ok c u d u' p 8 Hup E) as [HI' [Hc' Hm']]. split.
      * constructor; cbn [top pout crecvd crst]; auto. rewrite Hc'. assumption.
      * unfold cmeasure, sink_rank; cbn [top pout crecvd crst]. lia.
Qed.

Lemma crun2_ok c chunks es : forall s s',
  cfg_ok c -> Forall cevent_ok es -> CInv c chunks s -> crun2 c s es = Some s' ->
  CInv c chunks s' /\ length es + cmeasure c s' <= cmeasure c s + 2 * count_spur es.
Proof.
  induction es as [|e es IH]; intros s s' Hc Hes HI Hr; cbn [crun2] in Hr.
  - apply Some_inj in Hr. subst. split; [assumption | cbn; lia].
  - destruct (cevent_step c s e) as [s1|] eqn:E; [|discriminate].
    inversion Hes as [|? ? He Hes']; subst.
    destruct (cevent_step_ok c chunks s e s1 Hc He HI E) as [HI1 Hm1].
    destruct (IH s1 s' Hc Hes' HI1 Hr) as [HI' Hm'].
    split; [assumption|]. unfold count_spur in *. cbn [filter length].
    destruct (is_spur e); cbn [length]; lia.
Qed.

Lemma chain2_reach c chunks n es s :
  cfg_ok c -> Forall cevent_ok es -> crun2 c (cinit chunks n) es = Some s ->
  CInv c chunks s /\ length es + cmeasure c s <= chain_bound chunks n + 2 * count_spur es.
Proof.
  intros Hc Hes Hr.
  destruct (crun2_ok c chunks es _ _ Hc Hes (cinv_init c chunks n Hc) Hr) as [HI Hm].
  split; [assumption|]. pose proof (cmeasure_init c chunks n). lia.
Qed.

Lemma chain2_conservation_lemma c chunks n es s :
  cfg_ok c -> Forall cevent_ok es -> crun2 c (cinit chunks n) es = Some s ->
  crecvd s ++ buf (pout s) ++ content (top s) = concat chunks.
Proof. intros Hc Hes Hr. destruct (chain2_reach c chunks n es s Hc Hes Hr) as [[H _ _] _]. exact H. Qed.

Lemma chain2_terminates_lemma c chunks n es s :
  cfg_ok c -> Forall cevent_ok es -> crun2 c (cinit chunks n) es = Some s ->
  length es <= chain_bound chunks n + 2 * count_spur es.
Proof. intros Hc Hes Hr. destruct (chain2_reach c chunks n es s Hc Hes Hr). lia. Qed.

Lemma chain2_no_deadlock_lemma c chunks n es s :
  cfg_ok c -> Forall cevent_ok es -> crun2 c (cinit chunks n) es = Some s ->
  cfinished s = false -> exists l, clabel_ok l /\ cstep c s l <> None.
Proof.
  intros Hc Hes Hr Hf. destruct (chain2_reach c chunks n es s Hc Hes Hr) as [HI _].
  eapply chain_no_deadlock_inv; eauto.
Qed.

Lemma chain2_complete_lemma c chunks n es s :
  cfg_ok c -> Forall cevent_ok es -> crun2 c (cinit chunks n) es = Some s ->
  (forall l, clabel_ok l -> cstep c s l = None) ->
  cfinished s = true /\ crecvd s = concat chunks.
Proof.
  intros Hc Hes Hr Hstuck. destruct (chain2_reach c chunks n es s Hc Hes Hr) as [HI _].
  destruct (cfinished s) eqn:Hf.
  - split; [reflexivity|]. eapply chain_finished_complete; eauto.
  - destruct (chain_no_deadlock_inv c chunks s Hc HI Hf) as [l [Hl Hne]].
    exfalso. apply Hne. apply Hstuck. exact Hl.
Qed.

Example exs_run :
  exists s, crun2 exc_cfg (cinit exc_chunks 1)
              [EStep (1, 3); ESpur 1; EStep (2, 1); EStep (2, 1); EStep (2, 1); ESpur 2; EStep (2, 1);
               EStep (0, 1); ESpur 0; EStep (0, 1); EStep (1, 3)] = Some s
            /\ cfinished s = false.
Proof. eexists. vm_compute. split; reflexivity. Qed.
