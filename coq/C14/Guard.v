(* C14 — the O_NONBLOCK guard protocol of Concurrent::read / Concurrent::write
   (yash-env/src/system/concurrency.rs TemporaryNonBlockingGuard):
     new : original_nonblocking := get_and_set_nonblocking(fd, true) == Ok(true)
     drop: if !original_nonblocking { get_and_set_nonblocking(fd, false) }
   O_NONBLOCK is a flag of the OPEN FILE DESCRIPTION, so every holder (a task of
   the same process, or another process that inherited the descriptor) acts on
   the same flag.  State: the flag and, per holder inside, the value it saved. *)
From Yv Require Import Common.Base.

Definition holder := (nat * bool)%type.       (* identity, saved original_nonblocking *)
Record gst := mkG { gflag : bool; ginside : list holder }.
Inductive gop := GEnter (i : nat) | GLeave (i : nat).

Fixpoint gfind (i : nat) (l : list holder) : option bool :=
  match l with
  | [] => None
  | (j, b) :: t => if j =? i then Some b else gfind i t
  end.
Fixpoint gdel (i : nat) (l : list holder) : list holder :=
  match l with
  | [] => []
  | (j, b) :: t => if j =? i then t else (j, b) :: gdel i t
  end.

Definition gstep (s : gst) (o : gop) : option gst :=
  match o with
  | GEnter i =>
      match gfind i (ginside s) with
      | Some _ => None
      | None => Some (mkG true ((i, gflag s) :: ginside s))
      end
  | GLeave i =>
      match gfind i (ginside s) with
      | None => None
      | Some saved => Some (mkG (if saved then gflag s else false) (gdel i (ginside s)))
      end
  end.

Fixpoint grun (s : gst) (ops : list gop) : option gst :=
  match ops with
  | [] => Some s
  | o :: ops => match gstep s o with Some s' => grun s' ops | None => None end
  end.

Definition ginit (f0 : bool) : gst := mkG f0 [].

(* the flag after every step (what the harness observes with F_GETFL) *)
Fixpoint gtrace (s : gst) (ops : list gop) : option (list bool) :=
  match ops with
  | [] => Some []
  | o :: ops =>
      match gstep s o with
      | Some s' => match gtrace s' ops with Some t => Some (gflag s' :: t) | None => None end
      | None => None
      end
  end.

(* ORACLE (on the implementation's observations only; does not use the model):
   whenever nobody is inside, the flag is the one the description had before
   the first holder entered.  [n] = number of holders inside, counted from the
   operations the harness performed. *)
Fixpoint guard_okb (f0 : bool) (n : nat) (h : list (gop * bool)) : bool :=
  match h with
  | [] => true
  | (o, f) :: h =>
      let n' := match o with GEnter _ => S n | GLeave _ => pred n end in
      (if n' =? 0 then Bool.eqb f f0 else true) && guard_okb f0 n' h
  end.
