(* C14 — the blocking-mode write only ever appends the next bytes of its request. *)
From Yv Require Import Common.Base C14.Model C14.Proofs C14.Blocking.
From Coq Require Import Arith.

(* what is in the pipe after a poll is what was there plus the newly written part of the data *)
Lemma write_full_appends fuel : forall c p data written r p' w',
  write_full fuel c p data written = (r, p', w') ->
  written <= w' /\ buf p' = buf p ++ firstn (w' - written) (skipn written data)
  /\ rrefs p' = rrefs p /\ wrefs p' = wrefs p.
Proof.
  induction fuel as [|fuel IH]; intros c p data written r p' w' H; cbn [write_full] in H.
  - inversion H; subst. rewrite Nat.sub_diag. cbn. rewrite app_nil_r. auto.
  - destruct (is_nil (skipn written data)) eqn:En.
    + inversion H; subst. rewrite Nat.sub_diag. cbn. rewrite app_nil_r. auto.
    + unfold fifo_write in H.
      destruct (negb (ropen p)).
      { destruct (0 <? written); inversion H; subst; rewrite Nat.sub_diag; cbn; rewrite app_nil_r; auto. }
      destruct (psize c <? length (buf p)).
      { destruct (0 <? written); inversion H; subst; rewrite Nat.sub_diag; cbn; rewrite app_nil_r; auto. }
      set (rem := skipn written data) in *.
      destruct (psize c - length (buf p) <? length rem) eqn:E1.
      * destruct ((psize c - length (buf p) =? 0) || (length rem <=? pbuf c)).
        { inversion H; subst. rewrite Nat.sub_diag. cbn. rewrite app_nil_r. auto. }
        apply Nat.ltb_lt in E1.
        set (room := psize c - length (buf p)) in *.
        destruct (Nat.eqb_spec room 0) as [E0|E0].
        -- inversion H; subst. split; [lia|]. split; [|auto]. cbn [set_buf buf].
           replace (written + room - written) with room by lia. reflexivity.
        -- apply IH in H. destruct H as [H1 [H2 [H3 H4]]]. cbn [set_buf buf rrefs wrefs] in *.
           split; [lia|]. split; [|auto].
           rewrite H2. rewrite <- app_assoc. f_equal.
           replace (w' - written) with (room + (w' - (written + room))) by lia.
           unfold rem. rewrite <- (firstn_skipn room (skipn written data)) at 2.
           rewrite firstn_app. rewrite firstn_length, skipn_length.
           replace (Nat.min room (length data - written)) with room
             by (unfold rem in E1; rewrite skipn_length in E1; lia).
           rewrite firstn_firstn. replace (Nat.min (room + (w' - (written + room))) room) with room by lia.
           f_equal. replace (room + (w' - (written + room)) - room) with (w' - (written + room)) by lia.
           rewrite <- skipn_add. reflexivity.
      * apply Nat.ltb_ge in E1.
        destruct (Nat.eqb_spec (length rem) 0) as [E0|E0].
        { destruct rem; [discriminate En | discriminate E0]. }
        apply IH in H. destruct H as [H1 [H2 [H3 H4]]]. cbn [set_buf buf rrefs wrefs] in *.
        split; [lia|]. split; [|auto].
        rewrite H2. rewrite <- app_assoc. f_equal.
        assert (Hs : skipn (written + length rem) data = []).
        { apply skipn_all2. unfold rem. rewrite skipn_length. lia. }
        rewrite Hs. rewrite firstn_nil, app_nil_r.
        rewrite firstn_all2; [reflexivity|]. lia.
Qed.
