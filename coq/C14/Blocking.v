(* C14 — the blocking-mode write of the simulated OS
   (yash-env/src/system/virtual/io.rs OpenFileDescription::poll_write_full,
   virtual.rs `impl Write for VirtualSystem`): one `write` call on a pipe
   without O_NONBLOCK keeps writing what fits until the whole request has been
   transferred; it is Pending while the pipe is full.  The shell itself never
   takes this path (Concurrent sets O_NONBLOCK around every read and write);
   it is reachable through the system API only. *)
From Yv Require Import Common.Base C14.Model.

Inductive bres :=
  | BReady (n : nat)      (* the call returned Ok(n) *)
  | BPending              (* the future is pending; [written] bytes are in the pipe already *)
  | BErr.                 (* EPIPE with nothing written *)

(* one poll of the future of write(data) that has transferred [written] bytes so far *)
Fixpoint write_full (fuel : nat) (c : cfg) (p : pipe) (data : list N) (written : nat)
  : bres * pipe * nat :=
  match fuel with
  | O => (BPending, p, written)
  | S fuel =>
      let remaining := skipn written data in
      if is_nil remaining then (BReady written, p, written)
      else
        match fifo_write c p remaining with
        | (WOk n, p') =>
            if n =? 0 then (BReady (written + n), p', written + n)
            else write_full fuel c p' data (written + n)
        | (WAgain, _) => (BPending, p, written)
        | (WEpipe, _) | (WPanic, _) =>
            if 0 <? written then (BReady written, p, written) else (BErr, p, written)
        end
  end.

Definition write_full_poll (c : cfg) (p : pipe) (data : list N) (written : nat) : bres * pipe * nat :=
  write_full (S (length data)) c p data written.

