(* C14 — proofs about the O_NONBLOCK guard protocol (Guard.v). *)
From Yv Require Import Common.Base C14.Guard.
From Coq Require Import Lia.

(* number of holders inside that saved `false` (they will clear the flag) *)
Definition nf (l : list holder) : nat := length (filter (fun h => negb (snd h)) l).

Definition ginv (f0 : bool) (s : gst) : Prop :=
  (f0 = true -> gflag s = true) /\
  nf (ginside s) = (if f0 then 0 else if gflag s then 1 else 0).

Lemma nf_cons i b l : nf ((i, b) :: l) = (if b then 0 else 1) + nf l.
Proof. unfold nf. cbn [filter snd negb]. destruct b; reflexivity. Qed.

Lemma gfind_del_nf i l b :
  gfind i l = Some b -> nf l = nf (gdel i l) + (if b then 0 else 1).
Proof.
  induction l as [|[j c] t IH]; cbn [gfind gdel]; intros H; [discriminate|].
  destruct (j =? i).
  - inversion H; subst. rewrite nf_cons. lia.
  - rewrite !nf_cons. rewrite (IH H). lia.
Qed.

Lemma gfind_del_len i l b : gfind i l = Some b -> length l = S (length (gdel i l)).
Proof.
  induction l as [|[j c] t IH]; cbn [gfind gdel]; intros H; [discriminate|].
  destruct (j =? i); cbn [length]; [reflexivity|]. rewrite (IH H). reflexivity.
Qed.

Lemma nf_in i l : In (i, false) l -> 1 <= nf l.
Proof.
  induction l as [|[j c] t IH]; intros H; [destruct H|].
  rewrite nf_cons. destruct H as [H|H]; [inversion H; subst; lia|]. specialize (IH H). lia.
Qed.

Lemma ginv_init f0 : ginv f0 (ginit f0).
Proof. unfold ginv, ginit; cbn. split; [auto|]. destruct f0; reflexivity. Qed.

Lemma gstep_inv f0 s o s' : ginv f0 s -> gstep s o = Some s' -> ginv f0 s'.
Proof.
  intros [Ha Hb] H. destruct o as [i|i]; cbn [gstep] in H.
  - destruct (gfind i (ginside s)); [discriminate|]. inversion H; subst; clear H.
    unfold ginv; cbn [gflag ginside]. split; [auto|]. rewrite nf_cons, Hb.
    destruct f0; [rewrite (Ha eq_refl); reflexivity|]. destruct (gflag s); reflexivity.
  - destruct (gfind i (ginside s)) as [saved|] eqn:E; [|discriminate].
    inversion H; subst; clear H. pose proof (gfind_del_nf _ _ _ E) as Hn.
    unfold ginv; cbn [gflag ginside]. rewrite Hb in Hn.
    destruct f0.
    + assert (Hf := Ha eq_refl). destruct saved; [|lia]. split; [auto|]. lia.
    + split; [discriminate|]. destruct saved; destruct (gflag s); lia.
Qed.

Lemma grun_inv f0 ops : forall s s', ginv f0 s -> grun s ops = Some s' -> ginv f0 s'.
Proof.
  induction ops as [|o ops IH]; cbn [grun]; intros s s' Hi H.
  - inversion H; subst; exact Hi.
  - destruct (gstep s o) as [s1|] eqn:E; [|discriminate]. eapply IH; [|exact H]. eapply gstep_inv; eauto.
Qed.

Lemma ginv_empty f0 s : ginv f0 s -> ginside s = [] -> gflag s = f0.
Proof.
  intros [Ha Hb] He. rewrite He in Hb. unfold nf in Hb; cbn in Hb.
  destruct f0; [auto|]. destruct (gflag s); [discriminate|reflexivity].
Qed.

(* after the last holder has left, the flag is the one before the first entered *)
Lemma guard_restores_lemma :
  forall f0 ops s, grun (ginit f0) ops = Some s -> ginside s = [] -> gflag s = f0.
Proof. intros f0 ops s H. apply ginv_empty. eapply grun_inv; [apply ginv_init|exact H]. Qed.

(* the holder that found the description blocking keeps it non-blocking for as
   long as IT is inside *)
Lemma guard_first_holder_lemma :
  forall f0 ops s i, grun (ginit f0) ops = Some s -> In (i, false) (ginside s) -> gflag s = true.
Proof.
  intros f0 ops s i H Hin. assert (Hi : ginv f0 s) by (eapply grun_inv; [apply ginv_init|exact H]).
  destruct Hi as [Ha Hb]. apply nf_in in Hin. rewrite Hb in Hin.
  destruct f0; [lia|]. destruct (gflag s); [reflexivity|lia].
Qed.

(* at most one holder inside will clear the flag *)
Lemma guard_one_clearer_lemma :
  forall f0 ops s, grun (ginit f0) ops = Some s ->
    length (filter (fun h => negb (snd h)) (ginside s)) <= 1.
Proof.
  intros f0 ops s H. assert (Hi : ginv f0 s) by (eapply grun_inv; [apply ginv_init|exact H]).
  destruct Hi as [_ Hb]. unfold nf in Hb. rewrite Hb. destruct f0; [lia|]. destruct (gflag s); lia.
Qed.

(* a description that was non-blocking already stays so throughout *)
Lemma guard_keeps_nonblocking_lemma :
  forall ops s, grun (ginit true) ops = Some s -> gflag s = true.
Proof.
  intros ops s H. assert (Hi : ginv true s) by (eapply grun_inv; [apply ginv_init|exact H]).
  destruct Hi as [Ha _]. auto.
Qed.

(* FALSE of the code as it is: "while some holder is inside, the flag is set".
   A enters, B enters, A leaves: B is inside a description that blocks. *)
Lemma guard_flag_while_inside_refuted_lemma :
  exists f0 ops s, grun (ginit f0) ops = Some s /\ ginside s <> [] /\ gflag s = false.
Proof.
  exists false, [GEnter 0; GEnter 1; GLeave 0], (mkG false [(1, true)]).
  split; [vm_compute; reflexivity|]. split; [discriminate|reflexivity].
Qed.

(* oracle soundness: the oracle accepts the flags of every run of the model *)
Lemma guard_okb_sound_gen f0 ops : forall s t,
  ginv f0 s -> gtrace s ops = Some t ->
  guard_okb f0 (length (ginside s)) (combine ops t) = true.
Proof.
  induction ops as [|o ops IH]; cbn [gtrace]; intros s t Hi H.
  - inversion H; reflexivity.
  - destruct (gstep s o) as [s1|] eqn:E; [|discriminate].
    destruct (gtrace s1 ops) as [t1|] eqn:E1; [|discriminate]. inversion H; subst; clear H.
    assert (Hi1 : ginv f0 s1) by (eapply gstep_inv; eauto).
    cbn [combine guard_okb].
    assert (Hl : length (ginside s1) = match o with GEnter _ => S (length (ginside s)) | GLeave _ => pred (length (ginside s)) end).
    { destruct o as [i|i]; cbn [gstep] in E.
      - destruct (gfind i (ginside s)); [discriminate|]. inversion E; subst. reflexivity.
      - destruct (gfind i (ginside s)) eqn:F; [|discriminate]. inversion E; subst. cbn [ginside].
        rewrite (gfind_del_len _ _ _ F). reflexivity. }
    rewrite <- Hl. rewrite (IH _ _ Hi1 E1). rewrite Bool.andb_true_r.
    destruct (length (ginside s1) =? 0) eqn:Z; [|reflexivity].
    apply Nat.eqb_eq in Z. apply length_zero_iff_nil in Z.
    rewrite (ginv_empty _ _ Hi1 Z). apply Bool.eqb_reflx.
Qed.

Lemma guard_okb_sound_lemma :
  forall f0 ops t, gtrace (ginit f0) ops = Some t -> guard_okb f0 0 (combine ops t) = true.
Proof. intros f0 ops t H. exact (guard_okb_sound_gen f0 ops (ginit f0) t (ginv_init f0) H). Qed.
