(* C14 — pipelines of any number of stages: conservation, no deadlock,
   termination and complete in-order delivery for every schedule. *)
From Yv Require Import Common.Base C14.Model C14.Spec C14.Proofs C14.Chain.
From Coq Require Import Arith.

Definition mode_done (m : mode) : bool := match m with MDone => true | _ => false end.

(* [UInv c u out]: the upstream [u] is the (only) writer of the pipe [out] *)
Fixpoint UInv (c : cfg) (u : upstream) (out : pipe) : Prop :=
  length (buf out) <= psize c /\ rrefs out = 1 /\
  wrefs out = (if mode_done (head_mode u) then 0 else 1) /\
  match u with
  | USrc cur rest m =>
      (m = MWrite \/ m = MWriteWait \/ m = MClose \/ m = MDone) /\
      ((m = MClose \/ m = MDone) -> cur = [] /\ rest = []) /\
      (m = MWriteWait -> cur <> [])
  | URelay up pin cur m =>
      UInv c up pin /\
      ((m = MRead \/ m = MReadWait \/ m = MClose \/ m = MDone) -> cur = []) /\
      (m = MWriteWait -> cur <> []) /\
      ((m = MClose \/ m = MDone) -> buf pin = [] /\ wrefs pin = 0)
  end.

Record CInv (c : cfg) (chunks : list (list N)) (s : cstate) : Prop := mkCInv {
  ci_cons : crecvd s ++ buf (pout s) ++ content (top s) = concat chunks;
  ci_up : UInv c (top s) (pout s);
  ci_done : crst s = RDone -> buf (pout s) = [] /\ wrefs (pout s) = 0 }.

(* ------------------------------------------------------------------------ *)
(* the termination measure *)
Definition blocked_wp (c : cfg) (cur : list N) (out : pipe) : bool :=
  let room := psize c - length (buf out) in
  (room <? length cur) && ((room =? 0) || (length cur <=? pbuf c)).

Definition blocked_rp (p : pipe) : bool := (length (buf p) =? 0) && wopen p.

Definition mode_rank (c : cfg) (m : mode) (cur : list N) (in_blocked : bool) (out : pipe) : nat :=
  match m with
  | MDone => 0
  | MClose => 1
  | MRead => if in_blocked then 4 else 2
  | MReadWait => 3
  | MWrite => match cur with [] => 5 | _ :: _ => if blocked_wp c cur out then 7 else 5 end
  | MWriteWait => 6
  end.

(* [v]: the weight of a byte in the buffer of [out]; a byte further upstream
   weighs 8 more for every read and every write it still has to go through *)
Fixpoint umeasure (c : cfg) (u : upstream) (out : pipe) (v : nat) : nat :=
  match u with
  | USrc cur rest m =>
      (v + 8) * (length cur + length (concat rest)) + 8 * length rest + mode_rank c m cur false out
  | URelay up pin cur m =>
      (v + 8) * length cur + mode_rank c m cur (blocked_rp pin) out
      + (v + 16) * length (buf pin) + umeasure c up pin (v + 16)
  end.

Definition sink_rank (s : cstate) : nat :=
  match crst s with
  | RDone => 0
  | RWait => 2
  | RTry => if blocked_rp (pout s) then 3 else 1
  end.

Definition cmeasure (c : cfg) (s : cstate) : nat :=
  8 * length (buf (pout s)) + sink_rank s + umeasure c (top s) (pout s) 8.

(* ------------------------------------------------------------------------ *)
(* UInv and umeasure look at [out] only through its three fields *)
Lemma UInv_out c u out out' :
  UInv c u out -> length (buf out') <= psize c -> rrefs out' = rrefs out -> wrefs out' = wrefs out ->
  UInv c u out'.
Proof.
  destruct u; cbn [UInv]; intros [H1 [H2 [H3 H4]]] Hl Hr Hw; rewrite Hr, Hw; auto.
Qed.

Lemma blocked_wp_mono c cur out out' :
  length (buf out') <= length (buf out) ->
  blocked_wp c cur out' = true -> blocked_wp c cur out = true.
Proof.
  unfold blocked_wp. intros Hl H.
  apply andb_true_iff in H. destruct H as [H1 H2]. apply Nat.ltb_lt in H1.
  apply andb_true_iff. split; [apply Nat.ltb_lt; lia|].
  apply orb_true_iff in H2. apply orb_true_iff.
  destruct H2 as [H2|H2]; [left; apply Nat.eqb_eq in H2; apply Nat.eqb_eq; lia | right; assumption].
Qed.

Lemma mode_rank_mono c m cur b out out' :
  length (buf out') <= length (buf out) ->
  mode_rank c m cur b out' <= mode_rank c m cur b out.
Proof.
  intros Hl. destruct m; cbn [mode_rank]; try lia.
  destruct cur; [lia|].
  destruct (blocked_wp c (n :: cur) out') eqn:E.
  - rewrite (blocked_wp_mono c _ out out' Hl E). lia.
  - destruct (blocked_wp c (n :: cur) out); lia.
Qed.

Lemma mode_rank_in_mono c m cur b b' out :
  (b' = true -> b = true) -> mode_rank c m cur b' out <= mode_rank c m cur b out.
Proof.
  intros H. destruct m; cbn [mode_rank]; try lia.
  destruct b'; [rewrite (H eq_refl); lia | destruct b; lia].
Qed.

Lemma umeasure_out_mono c u out out' h :
  length (buf out') <= length (buf out) -> umeasure c u out' h <= umeasure c u out h.
Proof.
  intros Hl. destruct u; cbn [umeasure].
  - pose proof (mode_rank_mono c m cur false out out' Hl). lia.
  - pose proof (mode_rank_mono c m cur (blocked_rp pin) out out' Hl). lia.
Qed.

Lemma all_done_content c u : forall out,
  UInv c u out -> wrefs out = 0 -> content u = [].
Proof.
  induction u as [cur rest m|up IH pin cur m]; intros out [_ [_ [Hw H]]] H0; cbn [content].
  - rewrite H0 in Hw. cbn [head_mode] in Hw. destruct m; cbn in Hw; try discriminate.
    destruct H as [_ [H _]]. destruct (H (or_intror eq_refl)) as [-> ->]. reflexivity.
  - rewrite H0 in Hw. cbn [head_mode] in Hw. destruct m; cbn in Hw; try discriminate.
    destruct H as [Hup [Hc [_ Hd]]].
    rewrite (Hc (or_intror (or_intror (or_intror eq_refl)))).
    destruct (Hd (or_intror eq_refl)) as [-> Hw0].
    rewrite (IH pin Hup Hw0). reflexivity.
Qed.

Lemma all_done_no_step c u : forall out d cap,
  UInv c u out -> wrefs out = 0 -> ustep c u out d cap = None.
Proof.
  induction u as [cur rest m|up IH pin cur m]; intros out d cap [_ [_ [Hw H]]] H0.
  - rewrite H0 in Hw. cbn [head_mode] in Hw. destruct m; cbn in Hw; try discriminate.
    destruct d; reflexivity.
  - rewrite H0 in Hw. cbn [head_mode] in Hw. destruct m; cbn in Hw; try discriminate.
    destruct H as [Hup [_ [_ Hd]]]. destruct (Hd (or_intror eq_refl)) as [_ Hw0].
    destruct d; [reflexivity|]. cbn [ustep]. rewrite (IH pin d cap Hup Hw0). reflexivity.
Qed.

(* ------------------------------------------------------------------------ *)
(* one write attempt *)
Lemma ready_not_blocked c cur out :
  cfg_ok c -> cur <> [] -> rrefs out = 1 -> ready_w c out = true -> blocked_wp c cur out = false.
Proof.
  intros [Hc1 Hc2] Hcur Hr Hrw. unfold ready_w, ropen in Hrw. rewrite Hr in Hrw.
  change (negb (0 <? 1)) with false in Hrw. cbn [orb] in Hrw. apply Nat.leb_le in Hrw.
  unfold blocked_wp.
  destruct (Nat.ltb_spec (psize c - length (buf out)) (length cur)); [|reflexivity]. cbn [andb].
  apply orb_false_iff. split; [apply Nat.eqb_neq; lia | apply Nat.leb_gt; lia].
Qed.

Lemma blocked_rp_app p x :
  blocked_rp (set_buf p (buf p ++ x)) = true -> blocked_rp p = true.
Proof.
  unfold blocked_rp, wopen, set_buf; cbn [buf wrefs]. rewrite app_length.
  intros H. apply andb_true_iff in H. destruct H as [H1 H2]. apply Nat.eqb_eq in H1.
  apply andb_true_iff. split; [apply Nat.eqb_eq; lia | assumption].
Qed.

Lemma write_step_ok c cur out :
  cfg_ok c -> cur <> [] -> length (buf out) <= psize c -> rrefs out = 1 ->
  exists cur' out' y, write_step c cur out = Some (cur', out', y) /\
    buf out' ++ cur' = buf out ++ cur /\ length (buf out') <= psize c /\
    rrefs out' = rrefs out /\ wrefs out' = wrefs out /\
    (blocked_rp out' = true -> blocked_rp out = true) /\
    (if y then cur' = cur /\ out' = out /\ blocked_wp c cur out = true
     else blocked_wp c cur out = false /\ cur' <> cur /\
          exists n, 1 <= n /\ length cur = length cur' + n /\
                    length (buf out') = length (buf out) + n).
Proof.
  intros [Hc1 Hc2] Hcur Hl Hr.
  assert (Hlc : 1 <= length cur) by (destruct cur; [congruence | cbn; lia]).
  unfold write_step, fifo_write, ropen, blocked_wp. rewrite Hr.
  change (negb (0 <? 1)) with false. cbv iota.
  destruct (Nat.ltb_spec (psize c) (length (buf out))) as [|_]; [lia|].
  destruct (Nat.ltb_spec (psize c - length (buf out)) (length cur)) as [Hroom|Hroom]; cbn [andb].
  - destruct ((psize c - length (buf out) =? 0) || (length cur <=? pbuf c)) eqn:E.
    + exists cur, out, true. repeat split; auto.
    + apply orb_false_iff in E. destruct E as [E1 E2]. apply Nat.eqb_neq in E1.
      remember (psize c - length (buf out)) as room eqn:Er.
      destruct room as [|room']; [lia|].
      assert (Hfl : length (firstn (S room') cur) = S room') by (rewrite firstn_length; lia).
      assert (Hsl : length (skipn (S room') cur) = length cur - S room') by (rewrite skipn_length; reflexivity).
      exists (skipn (S room') cur), (set_buf out (buf out ++ firstn (S room') cur)), false.
      split; [reflexivity|]. unfold set_buf; cbn [buf rrefs wrefs].
      split; [rewrite <- app_assoc, firstn_skipn; reflexivity|].
      split; [rewrite app_length, Hfl; lia|].
      split; [first [reflexivity | assumption]|]. split; [reflexivity|].
      split; [apply (blocked_rp_app out)|].
      split; [reflexivity|]. split.
      * intros H. rewrite H in Hsl at 1. lia.
      * exists (S room'). rewrite app_length, Hfl, Hsl. lia.
  - remember (length cur) as n eqn:En. destruct n as [|n']; [lia|].
    exists (skipn (S n') cur), (set_buf out (buf out ++ cur)), false.
    split; [reflexivity|]. unfold set_buf; cbn [buf rrefs wrefs].
    assert (Hsk : skipn (S n') cur = []) by (apply length_zero_nil; rewrite skipn_length; lia).
    rewrite Hsk.
    split; [rewrite app_nil_r; reflexivity|].
    split; [rewrite app_length; lia|].
    split; [first [reflexivity | assumption]|]. split; [reflexivity|].
    split; [apply (blocked_rp_app out)|].
    split; [reflexivity|]. split; [congruence|].
    exists (S n'). rewrite app_length. cbn [length]. lia.
Qed.

Lemma blocked_rp_close p : blocked_rp (close_w p) = true -> blocked_rp p = true.
Proof.
  unfold blocked_rp, close_w, wopen; cbn [buf wrefs].
  intros H. apply andb_true_iff in H. destruct H as [H1 H2]. rewrite H1. cbn [andb].
  destruct (wrefs p) as [|[|w]]; cbn in *; auto.
Qed.

Definition step_goal (c : cfg) (u : upstream) (out : pipe) (v : nat) (u' : upstream) (out' : pipe) : Prop :=
  UInv c u' out' /\ buf out' ++ content u' = buf out ++ content u /\
  v * length (buf out') + umeasure c u' out' v < v * length (buf out) + umeasure c u out v /\
  (blocked_rp out' = true -> blocked_rp out = true).

Ltac fin :=
  repeat split; auto;
  try (let H := fresh in intros [H|H]; discriminate);
  try (let H := fresh in intros H; discriminate H);
  try (intros _; discriminate); try discriminate; try tauto;
  try solve [intuition discriminate]; try solve [intuition congruence].

Lemma src_step_ok c cur rest m out cap v u' out' :
  cfg_ok c -> UInv c (USrc cur rest m) out ->
  head_step c (USrc cur rest m) out cap = Some (u', out') ->
  step_goal c (USrc cur rest m) out v u' out'.
Proof.
  intros Hc [Hl [Hr [Hw [Hm [Hcl Hwt]]]]] Hs. unfold step_goal. cbn [head_step head_mode] in *.
  destruct m; try discriminate.
  - (* MWrite *)
    destruct cur as [|x cur].
    + destruct rest as [|ch r]; apply Some_inj in Hs; inversion Hs; subst u' out'; clear Hs.
      * split; [|split; [reflexivity|split; [cbn [umeasure mode_rank]; lia | auto]]].
        cbn [UInv head_mode mode_done]. fin.
      * split; [|split; [reflexivity|split; [|auto]]].
        -- cbn [UInv head_mode mode_done]. fin.
        -- cbn [umeasure mode_rank concat length]. rewrite app_length.
           destruct ch; [|destruct (blocked_wp c (n :: ch) out)]; cbn [length]; lia.
    + destruct (write_step_ok c (x :: cur) out Hc ltac:(discriminate) Hl Hr)
        as [cur' [o' [y [Hws [Hcons [Hl' [Hr' [Hw' [Hbr Hy]]]]]]]]].
      rewrite Hws in Hs. destruct y; apply Some_inj in Hs; inversion Hs; subst u' out'; clear Hs.
      * destruct Hy as [-> [-> Hb]].
        split; [|split; [reflexivity|split; [cbn [umeasure mode_rank]; rewrite Hb; lia | auto]]].
        cbn [UInv head_mode mode_done]. fin.
      * destruct Hy as [Hb [Hne [n [Hn1 [Hn2 Hn3]]]]].
        split; [|split; [|split; [|exact Hbr]]].
        -- cbn [UInv head_mode mode_done] in *. rewrite Hr', Hw'. fin.
        -- cbn [content]. rewrite app_assoc, Hcons, <- app_assoc. reflexivity.
        -- cbn [umeasure mode_rank]. rewrite Hb, Hn2, Hn3.
           destruct cur' as [|y cur']; [|destruct (blocked_wp c (y :: cur') o')]; cbn [length]; lia.
  - (* MWriteWait *)
    destruct (ready_w c out) eqn:Er; [|discriminate].
    apply Some_inj in Hs; inversion Hs; subst u' out'; clear Hs.
    specialize (Hwt eq_refl).
    split; [|split; [reflexivity|split; [|auto]]].
    + cbn [UInv head_mode mode_done]. fin.
    + cbn [umeasure mode_rank]. destruct cur as [|x cur]; [congruence|].
      rewrite (ready_not_blocked c (x :: cur) out Hc ltac:(discriminate) Hr Er). lia.
  - (* MClose *)
    apply Some_inj in Hs; inversion Hs; subst u' out'; clear Hs.
    destruct (Hcl (or_introl eq_refl)) as [-> ->].
    split; [|split; [reflexivity|split; [|apply blocked_rp_close]]].
    + cbn [UInv head_mode mode_done close_w buf rrefs wrefs]. cbn [mode_done head_mode] in Hw. rewrite Hw.
      fin.
    + cbn [umeasure mode_rank close_w buf]. lia.
Qed.

Lemma relay_step_ok c up pin cur m out cap v u' out' :
  cfg_ok c -> 1 <= cap -> UInv c (URelay up pin cur m) out ->
  head_step c (URelay up pin cur m) out cap = Some (u', out') ->
  step_goal c (URelay up pin cur m) out v u' out'.
Proof.
  intros Hc Hcap [Hl [Hr [Hw [Hup [Hcur [Hwt Hcl]]]]]] Hs. unfold step_goal.
  cbn [head_step head_mode] in *.
  pose proof Hup as Hup0.
  assert (Hpin : length (buf pin) <= psize c /\ rrefs pin = 1).
  { destruct up; cbn [UInv] in Hup; tauto. }
  destruct Hpin as [Hpl Hpr].
  destruct m.
  - (* MRead *)
    rewrite (Hcur (or_introl eq_refl)) in *.
    unfold fifo_read in Hs. destruct (Nat.eqb_spec cap 0) as [|_]; [lia|].
    fold (blocked_rp pin) in Hs.
    destruct (blocked_rp pin) eqn:Eb.
    + apply Some_inj in Hs; inversion Hs; subst u' out'; clear Hs.
      split; [|split; [reflexivity|split; [cbn [umeasure mode_rank]; rewrite Eb; lia | auto]]].
      cbn [UInv head_mode mode_done]. fin.
    + remember (firstn cap (buf pin)) as bs eqn:Hbs.
      assert (Hfs : length bs + length (skipn cap (buf pin)) = length (buf pin))
        by (rewrite Hbs; apply firstn_skipn_len).
      assert (Hup' : UInv c up (set_buf pin (skipn cap (buf pin)))).
      { eapply UInv_out; [exact Hup | | reflexivity | reflexivity].
        unfold set_buf; cbn [buf]. lia. }
      assert (Hum : umeasure c up (set_buf pin (skipn cap (buf pin))) (v + 16) <= umeasure c up pin (v + 16)).
      { apply umeasure_out_mono. unfold set_buf; cbn [buf]. lia. }
      destruct bs as [|y bs].
      * (* end of file *)
        assert (Hb0 : buf pin = []).
        { destruct (buf pin); [reflexivity|]. destruct cap; [lia|]. discriminate. }
        apply Some_inj in Hs; inversion Hs; subst u' out'; clear Hs.
        assert (Hw0 : wrefs pin = 0).
        { unfold blocked_rp, wopen in Eb. rewrite Hb0 in Eb. cbn [length Nat.eqb andb] in Eb.
          apply Nat.ltb_ge in Eb. lia. }
        rewrite Hb0 in *. rewrite skipn_nil in *.
        replace (set_buf pin []) with pin in * by (destruct pin; cbn in *; subst; reflexivity).
        split; [|split; [reflexivity|split; [cbn [umeasure mode_rank]; rewrite Eb; lia | auto]]].
        cbn [UInv head_mode mode_done]. fin.
      * apply Some_inj in Hs; inversion Hs; subst u' out'; clear Hs.
        split; [|split; [|split; [|auto]]].
        -- cbn [UInv head_mode mode_done]. fin.
        -- cbn [content set_buf buf app]. f_equal.
           change (y :: bs ++ skipn cap (buf pin) ++ content up)
             with ((y :: bs) ++ skipn cap (buf pin) ++ content up).
           rewrite Hbs. rewrite app_assoc. rewrite firstn_skipn. reflexivity.
        -- cbn [umeasure mode_rank]. rewrite Eb. unfold set_buf in *; cbn [buf].
           cbn [length] in *.
           assert (Hrk : mode_rank c MWrite (y :: bs) false out <= 7)
             by (cbn [mode_rank]; destruct (blocked_wp c (y :: bs) out); lia).
           cbn [mode_rank] in Hrk |- *.
           destruct (blocked_wp c (y :: bs) out); lia.
  - (* MReadWait *)
    destruct (ready_r pin) eqn:Er; [|discriminate].
    apply Some_inj in Hs; inversion Hs; subst u' out'; clear Hs.
    split; [|split; [reflexivity|split; [|auto]]].
    + cbn [UInv head_mode mode_done]. fin.
    + cbn [umeasure mode_rank].
      assert (Eb : blocked_rp pin = false).
      { unfold ready_r in Er. unfold blocked_rp.
        destruct (wopen pin); destruct (length (buf pin) =? 0); cbn in *; congruence. }
      rewrite Eb. lia.
  - (* MWrite *)
    destruct cur as [|x cur].
    + apply Some_inj in Hs; inversion Hs; subst u' out'; clear Hs.
      split; [|split; [reflexivity|split; [|auto]]].
      * cbn [UInv head_mode mode_done]. fin.
      * cbn [umeasure mode_rank]. destruct (blocked_rp pin); lia.
    + destruct (write_step_ok c (x :: cur) out Hc ltac:(discriminate) Hl Hr)
        as [cur' [o' [y [Hws [Hcons [Hl' [Hr' [Hw' [Hbr Hy]]]]]]]]].
      rewrite Hws in Hs. destruct y; apply Some_inj in Hs; inversion Hs; subst u' out'; clear Hs.
      * destruct Hy as [-> [-> Hb]].
        split; [|split; [reflexivity|split; [cbn [umeasure mode_rank]; rewrite Hb; lia | auto]]].
        cbn [UInv head_mode mode_done]. fin.
      * destruct Hy as [Hb [Hne [n [Hn1 [Hn2 Hn3]]]]].
        split; [|split; [|split; [|exact Hbr]]].
        -- cbn [UInv head_mode mode_done] in *. rewrite Hr', Hw'. fin.
        -- cbn [content]. rewrite app_assoc, Hcons, <- app_assoc. reflexivity.
        -- cbn [umeasure mode_rank]. rewrite Hb, Hn2, Hn3.
           destruct cur' as [|z cur']; [|destruct (blocked_wp c (z :: cur') o')]; cbn [length]; lia.
  - (* MWriteWait *)
    destruct (ready_w c out) eqn:Er; [|discriminate].
    apply Some_inj in Hs; inversion Hs; subst u' out'; clear Hs.
    specialize (Hwt eq_refl).
    split; [|split; [reflexivity|split; [|auto]]].
    + cbn [UInv head_mode mode_done]. fin.
    + cbn [umeasure mode_rank]. destruct cur as [|x cur]; [congruence|].
      rewrite (ready_not_blocked c (x :: cur) out Hc ltac:(discriminate) Hr Er). lia.
  - (* MClose *)
    apply Some_inj in Hs; inversion Hs; subst u' out'; clear Hs.
    split; [|split; [reflexivity|split; [|apply blocked_rp_close]]].
    + cbn [UInv head_mode mode_done close_w buf rrefs wrefs]. cbn [mode_done head_mode] in Hw. rewrite Hw.
      fin.
    + cbn [umeasure mode_rank close_w buf]. lia.
  - discriminate.
Qed.

Lemma head_step_ok c u out cap v u' out' :
  cfg_ok c -> 1 <= cap -> UInv c u out -> head_step c u out cap = Some (u', out') ->
  step_goal c u out v u' out'.
Proof.
  intros Hc Hcap HI Hs. destruct u.
  - eapply src_step_ok; eauto.
  - eapply relay_step_ok; eauto.
Qed.

Lemma ustep_ok c d : forall u out cap v u' out',
  cfg_ok c -> 1 <= cap -> UInv c u out -> ustep c u out d cap = Some (u', out') ->
  step_goal c u out v u' out'.
Proof.
  induction d as [|d IH]; intros u out cap v u' out' Hc Hcap HI Hs.
  - destruct u; exact (head_step_ok c _ out cap v u' out' Hc Hcap HI Hs).
  - destruct u as [|up pin cur m]; cbn [ustep] in Hs; [discriminate|].
    destruct (ustep c up pin d cap) as [[up' pin']|] eqn:E; [|discriminate].
    apply Some_inj in Hs. inversion Hs; subst u' out'. clear Hs.
    pose proof HI as [Hl [Hr [Hw [Hup [Hcur [Hwt Hcl]]]]]].
    destruct (IH up pin cap (v + 16) up' pin' Hc Hcap Hup E) as [HI' [Hcons [Hm Hb]]].
    unfold step_goal. split; [|split; [|split; [|auto]]].
    + cbn [UInv head_mode] in *. split; [assumption|]. split; [assumption|]. split; [assumption|].
      split; [assumption|]. split; [assumption|]. split; [assumption|].
      intros Hd. exfalso. destruct (Hcl Hd) as [_ Hw0].
      rewrite (all_done_no_step c up pin d cap Hup Hw0) in E. discriminate.
    + cbn [content]. f_equal. f_equal. exact Hcons.
    + cbn [umeasure].
      pose proof (mode_rank_in_mono c m cur (blocked_rp pin) (blocked_rp pin') out Hb). lia.
Qed.

(* ------------------------------------------------------------------------ *)
(* the whole chain *)
Lemma cinv_init c chunks n : cfg_ok c -> CInv c chunks (cinit chunks n).
Proof.
  intros [Hc1 Hc2]. constructor; unfold cinit; cbn [top pout crecvd crst buf new_pipe].
  - cbn [app]. induction n as [|n IH]; cbn [relays content]; [reflexivity|].
    cbn [buf new_pipe app]. exact IH.
  - induction n as [|n IH]; cbn [relays UInv head_mode mode_done new_pipe buf rrefs wrefs length].
    + fin. lia.
    + fin; try lia.
  - discriminate.
Qed.

Lemma blocked_rp_read p cap :
  blocked_rp p = false -> forall q, snd (fifo_read p cap) = q -> length (buf q) <= length (buf p) /\
  rrefs q = rrefs p /\ wrefs q = wrefs p.
Proof.
  intros _ q <-. unfold fifo_read.
  destruct (cap =? 0); [cbn; auto|].
  destruct ((length (buf p) =? 0) && wopen p); [cbn; auto|].
  cbn [snd set_buf buf rrefs wrefs]. rewrite skipn_length. repeat split; lia.
Qed.

Lemma cstep_ok c chunks s l s' :
  cfg_ok c -> clabel_ok l -> CInv c chunks s -> cstep c s l = Some s' ->
  CInv c chunks s' /\ cmeasure c s' < cmeasure c s.
Proof.
  intros Hc Hl [Hcons Hup Hdone] Hs. destruct l as [d cap]. unfold clabel_ok in Hl. cbn [fst snd] in *.
  destruct s as [u p rc rs]. cbn [top pout crecvd crst] in *. unfold cstep in Hs; cbn [fst snd top pout crecvd crst] in Hs.
  destruct d as [|d].
  - (* the sink *)
    assert (Hp : length (buf p) <= psize c /\ rrefs p = 1) by (destruct u; cbn [UInv] in Hup; tauto).
    destruct Hp as [Hpl Hpr].
    destruct rs.
    + unfold fifo_read in Hs. destruct (Nat.eqb_spec cap 0) as [|_]; [lia|].
      fold (blocked_rp p) in Hs. destruct (blocked_rp p) eqn:Eb.
      * apply Some_inj in Hs. subst s'. split.
        -- constructor; cbn [top pout crecvd crst]; auto. discriminate.
        -- unfold cmeasure, sink_rank; cbn [top pout crecvd crst]. rewrite Eb. lia.
      * remember (firstn cap (buf p)) as bs eqn:Hbs.
        assert (Hfs : length bs + length (skipn cap (buf p)) = length (buf p))
          by (rewrite Hbs; apply firstn_skipn_len).
        assert (Hup' : UInv c u (set_buf p (skipn cap (buf p)))).
        { eapply UInv_out; [exact Hup | | reflexivity | reflexivity]. unfold set_buf; cbn [buf]. lia. }
        assert (Hum : umeasure c u (set_buf p (skipn cap (buf p))) 8 <= umeasure c u p 8).
        { apply umeasure_out_mono. unfold set_buf; cbn [buf]. lia. }
        destruct bs as [|y bs]; apply Some_inj in Hs; subst s'.
        -- assert (Hb0 : buf p = []).
           { destruct (buf p); [reflexivity|]. destruct cap; [lia|]. discriminate. }
           assert (Hw0 : wrefs p = 0).
           { unfold blocked_rp, wopen in Eb. rewrite Hb0 in Eb. cbn [length Nat.eqb andb] in Eb.
             apply Nat.ltb_ge in Eb. lia. }
           split.
           ++ constructor; cbn [top pout crecvd crst set_buf buf wrefs]; auto.
              ** rewrite Hb0 in *. rewrite skipn_nil. assumption.
              ** intros _. rewrite Hb0, skipn_nil. auto.
           ++ unfold cmeasure, sink_rank; cbn [top pout crecvd crst]. rewrite Eb.
              unfold set_buf in *; cbn [buf] in *. lia.
        -- split.
           ++ constructor; cbn [top pout crecvd crst set_buf buf wrefs]; auto; [|discriminate].
              rewrite <- Hcons. rewrite Hbs. rewrite <- !app_assoc. f_equal.
              rewrite app_assoc. rewrite firstn_skipn. reflexivity.
           ++ unfold cmeasure, sink_rank; cbn [top pout crecvd crst]. rewrite Eb.
              unfold set_buf in *; cbn [buf length] in *.
              destruct (blocked_rp {| buf := skipn cap (buf p); rrefs := rrefs p; wrefs := wrefs p |}); lia.
    + destruct (ready_r p) eqn:Er; [|discriminate]. apply Some_inj in Hs. subst s'. split.
      * constructor; cbn [top pout crecvd crst]; auto. discriminate.
      * unfold cmeasure, sink_rank; cbn [top pout crecvd crst].
        assert (Eb : blocked_rp p = false).
        { unfold ready_r in Er. unfold blocked_rp.
          destruct (wopen p); destruct (length (buf p) =? 0); cbn in *; congruence. }
        rewrite Eb. lia.
    + discriminate.
  - (* a writer *)
    destruct (ustep c u p d cap) as [[u' p']|] eqn:E; [|discriminate].
    apply Some_inj in Hs. subst s'.
    destruct (ustep_ok c d u p cap 8 u' p' Hc Hl Hup E) as [HI' [Hc' [Hm Hb]]].
    split.
    + constructor; cbn [top pout crecvd crst]; auto.
      * rewrite Hc'. assumption.
      * intros Hd. exfalso. destruct (Hdone Hd) as [_ Hw0].
        rewrite (all_done_no_step c u p d cap Hup Hw0) in E. discriminate.
    + unfold cmeasure, sink_rank; cbn [top pout crecvd crst].
      destruct rs; try lia.
      destruct (blocked_rp p') eqn:E1; [rewrite (Hb eq_refl); lia | destruct (blocked_rp p); lia].
Qed.

Lemma crun_ok c chunks ls : forall s s',
  cfg_ok c -> Forall clabel_ok ls -> CInv c chunks s -> crun c s ls = Some s' ->
  CInv c chunks s' /\ length ls + cmeasure c s' <= cmeasure c s.
Proof.
  induction ls as [|l ls IH]; intros s s' Hc Hls HI Hr; cbn [crun] in Hr.
  - apply Some_inj in Hr. subst. split; [assumption | cbn; lia].
  - destruct (cstep c s l) as [s1|] eqn:E; [|discriminate].
    inversion Hls as [|? ? Hl Hls']; subst.
    destruct (cstep_ok c chunks s l s1 Hc Hl HI E) as [HI1 Hm1].
    destruct (IH s1 s' Hc Hls' HI1 Hr) as [HI' Hm'].
    split; [assumption | cbn [length]; lia].
Qed.

Lemma umeasure_relays c chunks n : forall v,
  umeasure c (relays n (USrc [] chunks MWrite)) new_pipe v =
  4 * n + (v + 16 * n + 8) * length (concat chunks) + 8 * length chunks + 5.
Proof.
  induction n as [|n IH]; intros v; cbn [relays umeasure mode_rank length].
  - cbn [Nat.add]. lia.
  - rewrite IH. change (blocked_rp new_pipe) with true. cbn [buf new_pipe length]. lia.
Qed.

Lemma cmeasure_init c chunks n : cmeasure c (cinit chunks n) <= chain_bound chunks n.
Proof.
  unfold cmeasure, cinit, sink_rank, chain_bound; cbn [top pout crecvd crst].
  rewrite umeasure_relays. change (blocked_rp new_pipe) with true. cbn [buf new_pipe length]. lia.
Qed.

Lemma chain_reach c chunks n ls s :
  cfg_ok c -> Forall clabel_ok ls -> crun c (cinit chunks n) ls = Some s ->
  CInv c chunks s /\ length ls + cmeasure c s <= chain_bound chunks n.
Proof.
  intros Hc Hls Hr.
  destruct (crun_ok c chunks ls _ _ Hc Hls (cinv_init c chunks n Hc) Hr) as [HI Hm].
  split; [assumption|]. pose proof (cmeasure_init c chunks n). lia.
Qed.

(* ------------------------------------------------------------------------ *)
(* no deadlock *)
Lemma empty_pipe_ready c p :
  cfg_ok c -> buf p = [] -> ready_w c p = true.
Proof.
  intros [Hc1 Hc2] Hb. unfold ready_w. rewrite Hb. cbn [length]. rewrite Nat.sub_0_r.
  apply orb_true_iff. right. apply Nat.leb_le. assumption.
Qed.

Lemma not_ready_r p : ready_r p = false -> buf p = [] /\ wrefs p <> 0.
Proof.
  unfold ready_r, wopen. intros H. apply orb_false_iff in H. destruct H as [H1 H2].
  apply negb_false_iff in H1. apply negb_false_iff in H2.
  apply Nat.ltb_lt in H1. apply Nat.eqb_eq in H2. split; [apply length_zero_nil; assumption | lia].
Qed.

Lemma upstream_enabled c u : forall out,
  cfg_ok c -> UInv c u out -> head_mode u <> MDone ->
  (head_mode u = MWriteWait -> ready_w c out = true) ->
  exists d, ustep c u out d 1 <> None.
Proof.
  induction u as [cur rest m|up IH pin cur m]; intros out Hc HI Hnd Hrw.
  - destruct HI as [Hl [Hr [Hw [Hm _]]]]. cbn [head_mode] in *.
    exists 0. cbn [ustep head_step].
    destruct m.
    1, 2: exfalso; destruct Hm as [Hm|[Hm|[Hm|Hm]]]; discriminate.
    + destruct cur as [|x cur]; [destruct rest; discriminate|].
      destruct (write_step_ok c (x :: cur) out Hc ltac:(discriminate) Hl Hr) as [c' [o' [y [Hws _]]]].
      rewrite Hws. destruct y; discriminate.
    + rewrite (Hrw eq_refl). discriminate.
    + discriminate.
    + congruence.
  - destruct HI as [Hl [Hr [Hw [Hup _]]]]. cbn [head_mode] in *.
    destruct m; try congruence.
    + exists 0. cbn [ustep head_step]. destruct (fifo_read pin 1) as [[[|b bs]|] p']; discriminate.
    + destruct (ready_r pin) eqn:Er.
      * exists 0. cbn [ustep head_step]. rewrite Er. discriminate.
      * destruct (not_ready_r pin Er) as [Hb Hw1].
        assert (Hnd' : head_mode up <> MDone).
        { intros H. destruct up; cbn [UInv head_mode] in *; destruct Hup as [_ [_ [Hw2 _]]];
            rewrite H in Hw2; cbn in Hw2; congruence. }
        destruct (IH pin Hc Hup Hnd' (fun _ => empty_pipe_ready c pin Hc Hb)) as [d Hd].
        exists (S d). cbn [ustep]. destruct (ustep c up pin d 1) as [[u' p']|]; [discriminate | contradiction].
    + exists 0. cbn [ustep head_step]. destruct cur as [|x cur]; [discriminate|].
      destruct (write_step_ok c (x :: cur) out Hc ltac:(discriminate) Hl Hr) as [c' [o' [y [Hws _]]]].
      rewrite Hws. destruct y; discriminate.
    + exists 0. cbn [ustep head_step]. rewrite (Hrw eq_refl). discriminate.
    + exists 0. cbn [ustep head_step]. discriminate.
Qed.

Lemma chain_no_deadlock_inv c chunks s :
  cfg_ok c -> CInv c chunks s -> cfinished s = false ->
  exists l, clabel_ok l /\ cstep c s l <> None.
Proof.
  intros Hc [Hcons Hup Hdone] Hf. destruct s as [u p rc rs]. cbn [top pout crecvd crst] in *.
  unfold cfinished in Hf; cbn [crst] in Hf.
  destruct rs; try discriminate.
  - exists (0, 1). split; [unfold clabel_ok; cbn; lia|]. unfold cstep; cbn [fst snd crst pout top crecvd].
    destruct (fifo_read p 1) as [[[|b bs]|] p']; discriminate.
  - destruct (ready_r p) eqn:Er.
    + exists (0, 1). split; [unfold clabel_ok; cbn; lia|]. unfold cstep; cbn [fst snd crst pout top crecvd].
      rewrite Er. discriminate.
    + destruct (not_ready_r p Er) as [Hb Hw1].
      assert (Hnd : head_mode u <> MDone).
      { intros H. destruct u; cbn [UInv head_mode] in *; destruct Hup as [_ [_ [Hw2 _]]];
          rewrite H in Hw2; cbn in Hw2; congruence. }
      destruct (upstream_enabled c u p Hc Hup Hnd (fun _ => empty_pipe_ready c p Hc Hb)) as [d Hd].
      exists (S d, 1). split; [unfold clabel_ok; cbn; lia|].
      unfold cstep; cbn [fst snd crst pout top crecvd].
      destruct (ustep c u p d 1) as [[u' p']|]; [discriminate | contradiction].
Qed.

Lemma chain_finished_complete c chunks s :
  CInv c chunks s -> cfinished s = true -> crecvd s = concat chunks.
Proof.
  intros [Hcons Hup Hdone] Hf. unfold cfinished in Hf.
  destruct (crst s) eqn:Er; try discriminate.
  destruct (Hdone eq_refl) as [Hb Hw].
  rewrite Hb, (all_done_content c _ _ Hup Hw) in Hcons. cbn [app] in Hcons.
  rewrite app_nil_r in Hcons. exact Hcons.
Qed.

(* ------------------------------------------------------------------------ *)
Lemma chain_conservation_lemma c chunks n ls s :
  cfg_ok c -> Forall clabel_ok ls -> crun c (cinit chunks n) ls = Some s ->
  crecvd s ++ buf (pout s) ++ content (top s) = concat chunks.
Proof. intros Hc Hls Hr. destruct (chain_reach c chunks n ls s Hc Hls Hr) as [[H _ _] _]. exact H. Qed.

Lemma chain_terminates_lemma c chunks n ls s :
  cfg_ok c -> Forall clabel_ok ls -> crun c (cinit chunks n) ls = Some s ->
  length ls <= chain_bound chunks n.
Proof. intros Hc Hls Hr. destruct (chain_reach c chunks n ls s Hc Hls Hr). lia. Qed.

Lemma chain_no_deadlock_lemma c chunks n ls s :
  cfg_ok c -> Forall clabel_ok ls -> crun c (cinit chunks n) ls = Some s ->
  cfinished s = false -> exists l, clabel_ok l /\ cstep c s l <> None.
Proof.
  intros Hc Hls Hr Hf. destruct (chain_reach c chunks n ls s Hc Hls Hr) as [HI _].
  eapply chain_no_deadlock_inv; eauto.
Qed.

Lemma chain_complete_lemma c chunks n ls s :
  cfg_ok c -> Forall clabel_ok ls -> crun c (cinit chunks n) ls = Some s ->
  (forall l, clabel_ok l -> cstep c s l = None) ->
  cfinished s = true /\ crecvd s = concat chunks.
Proof.
  intros Hc Hls Hr Hstuck. destruct (chain_reach c chunks n ls s Hc Hls Hr) as [HI _].
  destruct (cfinished s) eqn:Hf.
  - split; [reflexivity|]. eapply chain_finished_complete; eauto.
  - destruct (chain_no_deadlock_inv c chunks s Hc HI Hf) as [l [Hl Hne]].
    exfalso. apply Hne. apply Hstuck. exact Hl.
Qed.

(* non-vacuity: a complete run through two relays (three pipes), found by a
   rotating scheduler *)
Definition exc_cfg : cfg := mkCfg 2 4.
Definition exc_chunks : list (list N) := [[1; 2; 3; 4; 5; 6; 7]; [8; 9]]%N.

Fixpoint exc_auto (fuel : nat) (k : nat) (s : cstate) : list clabel :=
  match fuel with
  | O => []
  | S fuel =>
      let cands := map (fun d => ((d + k) mod 5, 1 + (k mod 3))) (seq 0 5) in
      let fix pick (l : list clabel) : option (clabel * cstate) :=
        match l with
        | [] => None
        | x :: t => match cstep exc_cfg s x with Some s' => Some (x, s') | None => pick t end
        end in
      match pick cands with
      | Some (l, s') => l :: exc_auto fuel (S k) s'
      | None => []
      end
  end.

Definition exc_sched : list clabel := exc_auto 400 0 (cinit exc_chunks 2).

Example exc_sched_ok : Forall clabel_ok exc_sched.
Proof. vm_compute. repeat constructor. Qed.

Example exc_run_complete :
  exists s, crun exc_cfg (cinit exc_chunks 2) exc_sched = Some s
            /\ cfinished s = true /\ crecvd s = [1; 2; 3; 4; 5; 6; 7; 8; 9]%N
            /\ forall l, clabel_ok l -> cstep exc_cfg s l = None.
Proof.
  eexists. split; [vm_compute; reflexivity|]. split; [reflexivity|]. split; [reflexivity|].
  intros [[|[|[|[|d]]]] cap] _; reflexivity.
Qed.

Example exc_run_midway :
  exists s, crun exc_cfg (cinit exc_chunks 2) (firstn 40 exc_sched) = Some s
            /\ cfinished s = false /\ length (crecvd s) = 3.
Proof. eexists. vm_compute. repeat split. Qed.
