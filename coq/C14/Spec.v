(* C14 — the property, stated without the implementation's data structures,
   and its boolean form (the ORACLE), which is evaluated on what the
   implementation returned.

   "Bytes written to a pipeline or produced inside a command substitution reach
    the reader completely, exactly once and in order, for every payload size and
    every interleaving of writer and reader; command substitution then removes
    exactly the trailing newlines and nothing else.  Here-document bodies reach
    the command's standard input byte for byte." *)
From Yv Require Import Common.Base C14.Model.

(* ------------------------------------------------------------------------ *)
(* 1. A pipe as an abstract byte stream.  Nothing but the history of accepted
   writes and the number of bytes delivered so far: the k-th byte delivered is
   the k-th byte accepted (complete, exactly once, in order). *)
Record stream := mkStream {
  accepted : list N;    (* every byte a write call reported as written, in order *)
  delivered : nat;      (* how many of them read calls have returned *)
  r_open : nat;         (* descriptors of the read end *)
  w_open : nat }.       (* descriptors of the write end *)

Definition stream0 : stream := mkStream [] 0 1 1.
Definition occupancy (t : stream) : nat := length (accepted t) - delivered t.

Definition bytes_eqb : list N -> list N -> bool := list_eqb N.eqb.

(* One observed system call against the stream.  Returns the clause that is
   violated (None = fine) and the stream afterwards. *)
Definition spec_step (c : cfg) (t : stream) (o : op) (b : obs) : option N * stream :=
  match o, b with
  | OWrite d, BW r =>
      let room := psize c - occupancy t in
      match r with
      | WEpipe => (if 0 <? r_open t then Some 5%N else None, t)
      | WPanic => (Some 7%N, t)
      | WAgain =>
          (* would-block is legitimate only if the request does not fit, and a
             request larger than PIPE_BUF must take whatever room there is *)
          (if negb (0 <? r_open t) then Some 5%N
           else if length d <=? room then Some 3%N
           else if (pbuf c <? length d) && (0 <? room) then Some 3%N
           else None, t)
      | WOk n =>
          let t' := mkStream (accepted t ++ firstn n d) (delivered t) (r_open t) (w_open t) in
          (if is_nil d then (if n =? 0 then None else Some 1%N)  (* empty request: no-op *)
           else if negb (0 <? r_open t) then Some 5%N
           else if length d <? n then Some 1%N                  (* more than requested *)
           else if psize c <? occupancy t' then Some 1%N        (* capacity exceeded *)
           else if (length d <=? pbuf c) && negb (n =? length d) then Some 2%N   (* atomicity *)
           else if (n <? length d) && negb (n =? room) then Some 3%N  (* partial yet room left *)
           else if (n =? 0) && negb (length d =? 0) then Some 3%N
           else None, t')
      end
  | ORead cap, BR r =>
      match r with
      | RAgain =>
          (if (0 <? occupancy t) || negb (0 <? w_open t) || (cap =? 0) then Some 4%N else None, t)
      | ROk bs =>
          let expect := firstn (length bs) (skipn (delivered t) (accepted t)) in
          let t' := mkStream (accepted t) (delivered t + length bs) (r_open t) (w_open t) in
          (if negb (bytes_eqb bs expect) then Some 0%N        (* order / loss / duplication *)
           else if cap <? length bs then Some 0%N
           else if is_nil bs && negb (cap =? 0) && ((0 <? occupancy t) || (0 <? w_open t))
                then Some 4%N                                   (* end of file too early *)
           else None, t')
      end
  | ODupW, BUnit => (None, mkStream (accepted t) (delivered t) (r_open t) (S (w_open t)))
  | ODupR, BUnit => (None, mkStream (accepted t) (delivered t) (S (r_open t)) (w_open t))
  | OCloseW, BUnit => (None, mkStream (accepted t) (delivered t) (r_open t) (pred (w_open t)))
  | OCloseR, BUnit => (None, mkStream (accepted t) (delivered t) (pred (r_open t)) (w_open t))
  | OPoll, BPoll r w =>
      (* readable iff data or end of file; writable iff a PIPE_BUF request fits *)
      (if negb (Bool.eqb r ((0 <? occupancy t) || negb (0 <? w_open t))) then Some 6%N
       else if negb (Bool.eqb w (negb (0 <? r_open t) || (pbuf c <=? psize c - occupancy t)))
            then Some 6%N
       else None, t)
  | _, _ => (Some 7%N, t)
  end.

Fixpoint spec_run (c : cfg) (t : stream) (h : list (op * obs)) : option N :=
  match h with
  | [] => None
  | (o, b) :: h =>
      match spec_step c t o b with
      | (Some k, _) => Some k
      | (None, t') => spec_run c t' h
      end
  end.

(* The declarative reading of clause 0 for a whole history: what the read calls
   returned, concatenated, is a prefix of what the write calls accepted. *)
Definition reads_of (h : list (op * obs)) : list N :=
  flat_map (fun ob => match ob with (ORead _, BR (ROk bs)) => bs | _ => [] end) h.
Definition writes_of (h : list (op * obs)) : list N :=
  flat_map (fun ob => match ob with (OWrite d, BW (WOk n)) => firstn n d | _ => [] end) h.

Definition in_order_exactly_once (h : list (op * obs)) : Prop :=
  exists rest_, writes_of h = reads_of h ++ rest_.

(* ------------------------------------------------------------------------ *)
(* 2. A complete transfer. *)
Definition transfer_spec (chunks : list (list N)) (received : list N) : Prop :=
  received = concat chunks.

(* ------------------------------------------------------------------------ *)
(* 3. Command substitution: exactly the trailing newlines are removed. *)
Definition strip_spec (s o : str) : Prop :=
  (exists k, s = o ++ repeat NL k) /\ (o = [] \/ last o 0%N <> NL).

Fixpoint all_nl (s : str) : bool :=
  match s with [] => true | x :: t => N.eqb x NL && all_nl t end.

Definition strip_okb (s o : str) : bool :=
  bytes_eqb (firstn (length o) s) o
  && all_nl (skipn (length o) s)
  && (is_nil o || negb (N.eqb (last o 0%N) NL)).

(* Number of trailing newlines, counted from the end. *)
Definition trailing_nl (s : str) : nat :=
  (fix go (r : str) : nat :=
     match r with
     | x :: t => if N.eqb x NL then S (go t) else 0
     | [] => 0
     end) (rev s).

(* ------------------------------------------------------------------------ *)
(* 4. Payloads and checksums shared with the harness (generated identically on
   both sides; large payloads are compared by length and two checksums). *)
Local Open Scope N_scope.

Definition gen_byte (k i : N) : N :=
  let x := (i * i + 7 * i * k + 13 * k + 5) mod 251 in
  if x mod 9 =? 0 then 10 else 33 + x mod 90.

Fixpoint gen_from (k : N) (i : N) (n : nat) : list N :=
  match n with
  | O => []
  | S n => gen_byte k i :: gen_from k (i + 1) n
  end.

(* [n] pseudo-random printable bytes with embedded newlines, then [t] newlines. *)
Definition gen_payload (n : nat) (k : N) (t : nat) : list N :=
  gen_from k 0 n ++ repeat 10 t.

(* A position-sensitive checksum without division: with s1 = running sum of
   (byte + 1), s2 = running sum of s1, s3 = running sum of s2, the digest is
   (length, s2, s3). *)
Definition sums (l : list N) : N * N * N :=
  fold_left (fun acc b => match acc with
                          | (s1, s2, s3) =>
                              let s1' := s1 + b + 1 in
                              let s2' := s2 + s1' in
                              (s1', s2', s3 + s2')
                          end) l (0, 0, 0).

Definition digest := (nat * N * N)%type.    (* length, two checksums *)
Definition digest_of (l : list N) : digest :=
  match sums l with (_, s2, s3) => (length l, s2, s3) end.

Definition digest_eqb (a b : digest) : bool :=
  match a, b with
  | (la, a1, a2), (lb, b1, b2) => (la =? lb)%nat && (a1 =? b1) && (a2 =? b2)
  end.
