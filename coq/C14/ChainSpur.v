(* C14 — the pipeline model of Chain.v with spurious wake-ups: the run loop of
   a process may poll its task again for an unrelated reason (a signal, an
   error from select), and the yielded process re-tries its system call
   although its descriptor was not reported ready. *)
From Yv Require Import Common.Base C14.Model C14.Chain.

Definition spur_mode (m : mode) : option mode :=
  match m with MReadWait => Some MRead | MWriteWait => Some MWrite | _ => None end.

(* the process at depth [d] of [u] is woken spuriously (0 = the head) *)
Fixpoint uspur (u : upstream) (d : nat) : option upstream :=
  match u, d with
  | USrc cur rest m, O =>
      match spur_mode m with Some m' => Some (USrc cur rest m') | None => None end
  | URelay up pin cur m, O =>
      match spur_mode m with Some m' => Some (URelay up pin cur m') | None => None end
  | USrc _ _ _, S _ => None
  | URelay up pin cur m, S d' =>
      match uspur up d' with Some up' => Some (URelay up' pin cur m) | None => None end
  end.

Inductive cevent :=
  | EStep (l : clabel)      (* a system call or a regular wake-up (Chain.cstep) *)
  | ESpur (d : nat).        (* a spurious wake-up of process d (0 = the sink) *)

Definition cevent_ok (e : cevent) : Prop :=
  match e with EStep l => clabel_ok l | ESpur _ => True end.

Definition is_spur (e : cevent) : bool := match e with ESpur _ => true | _ => false end.
Definition count_spur (es : list cevent) : nat := length (filter is_spur es).

Definition cevent_step (c : cfg) (s : cstate) (e : cevent) : option cstate :=
  match e with
  | EStep l => cstep c s l
  | ESpur O =>
      match crst s with
      | RWait => Some (mkCS (top s) (pout s) (crecvd s) RTry)
      | _ => None
      end
  | ESpur (S d) =>
      match uspur (top s) d with
      | Some u' => Some (mkCS u' (pout s) (crecvd s) (crst s))
      | None => None
      end
  end.

Fixpoint crun2 (c : cfg) (s : cstate) (es : list cevent) : option cstate :=
  match es with
  | [] => Some s
  | e :: es => match cevent_step c s e with Some s' => crun2 c s' es | None => None end
  end.
