(* C14 — facts about the definitions of Run.v (the script oracle asks for
   exactly what the model computes). *)
From Yv Require Import Common.Base C14.Model C14.Spec C14.Proofs C14.Run.

Lemma eval_model_spec_lemma : forall e, eval_model e = eval_spec e.
Proof.
  fix IH 1. intros [n k t|s|l|e|e r c|e c]; cbn [eval_model eval_spec]; try reflexivity.
  - induction l as [|a l IHl]; cbn [flat_map]; [reflexivity|]. rewrite (IH a), IHl. reflexivity.
  - rewrite (IH e). apply strip_nl_as_trailing_lemma.
  - apply IH.
  - apply IH.
Qed.

(* ------------------------------------------------------------------------ *)
(* The coarse polls and the pump never run out of fuel, and the pump delivers
   the payload: the MODEL side of the script check is total and agrees with the
   ORACLE side. *)
From Coq Require Import Arith.

Lemma measure_lt_fuel c s : measure c s + 3 <= poll_fuel s.
Proof.
  unfold measure, mw, mr, poll_fuel, bytes_left.
  destruct (wst s); destruct (cur s); destruct (rst s);
    repeat match goal with |- context [if ?b then _ else _] => destruct b end; lia.
Qed.

Lemma step_w_some c s :
  (wst s = WTry \/ wst s = WClose) -> step_w c s <> None.
Proof.
  unfold step_w. intros [->| ->]; [|discriminate].
  destruct (cur s); [destruct (rest s); discriminate|].
  destruct (fifo_write c (pp s) (n :: l)) as [[[|k]| | |] p']; discriminate.
Qed.

Lemma poll_w_loop_total chunks fuel : forall c s,
  cfg_ok c -> Inv c chunks s -> measure c s < fuel ->
  exists s', poll_w_loop fuel c s = Some s' /\ Inv c chunks s' /\
             measure c s' <= measure c s /\
             ((wst s = WTry \/ wst s = WClose) -> measure c s' < measure c s).
Proof.
  induction fuel as [|fuel IH]; intros c s Hc HI Hm; [lia|].
  cbn [poll_w_loop].
  assert (Hstop : wst s <> WTry -> wst s <> WClose ->
     exists s', Some s = Some s' /\ Inv c chunks s' /\ measure c s' <= measure c s /\
                ((wst s = WTry \/ wst s = WClose) -> measure c s' < measure c s)).
  { intros H1 H2. exists s. split; [reflexivity|]. split; [assumption|]. split; [lia|].
    intros [H|H]; contradiction. }
  destruct (wst s) eqn:Ew; try (apply Hstop; discriminate).
  - destruct (step_w c s) as [s1|] eqn:Es;
      [|exfalso; apply (step_w_some c s); auto].
    destruct (step_w_ok c chunks s s1 Hc HI Es) as [HI1 Hm1].
    destruct (IH c s1 Hc HI1 ltac:(lia)) as [s' [H1 [H2 [H3 _]]]].
    exists s'. split; [assumption|]. split; [assumption|]. split; [lia|]. intros _; lia.
  - destruct (step_w c s) as [s1|] eqn:Es;
      [|exfalso; apply (step_w_some c s); auto].
    destruct (step_w_ok c chunks s s1 Hc HI Es) as [HI1 Hm1].
    destruct (IH c s1 Hc HI1 ltac:(lia)) as [s' [H1 [H2 [H3 _]]]].
    exists s'. split; [assumption|]. split; [assumption|]. split; [lia|]. intros _; lia.
Qed.

Lemma poll_fuel_spur s :
  poll_fuel (mkX (cur s) (rest s) (pp s) (recvd s) WTry (rst s)) = poll_fuel s.
Proof. reflexivity. Qed.

Lemma poll_w_total chunks c s :
  cfg_ok c -> Inv c chunks s ->
  exists s', poll_w c s = Some s' /\ Inv c chunks s' /\ measure c s' <= measure c s /\
             (step_w c s <> None -> measure c s' < measure c s).
Proof.
  intros Hc HI. unfold poll_w. pose proof (measure_lt_fuel c s) as Hf.
  destruct (wst s) eqn:Ew.
  - destruct (poll_w_loop_total chunks (poll_fuel s) c s Hc HI ltac:(lia)) as [s' [H1 [H2 [H3 H4]]]].
    exists s'. split; [assumption|]. split; [assumption|]. split; [assumption|].
    intros _. apply H4. auto.
  - (* WWait *)
    set (s0 := mkX (cur s) (rest s) (pp s) (recvd s) WTry (rst s)).
    destruct (ready_w c (pp s)) eqn:Er.
    + (* the regular wake-up *)
      assert (Es : step_w c s = Some s0) by (unfold step_w; rewrite Ew, Er; reflexivity).
      destruct (step_w_ok c chunks s s0 Hc HI Es) as [HI0 Hm0].
      destruct (poll_w_loop_total chunks (poll_fuel s) c s0 Hc HI0 ltac:(lia)) as [s' [H1 [H2 [H3 _]]]].
      exists s'. split; [assumption|]. split; [assumption|]. split; [lia|]. intros _; lia.
    + (* a spurious one *)
      assert (Es : step c s LSpurW = Some s0) by (cbn [step]; rewrite Ew; reflexivity).
      destruct (step_spur_ok c chunks s LSpurW s0 HI eq_refl Es) as [HI0 Hm0].
      destruct (poll_w_loop_total chunks (poll_fuel s) c s0 Hc HI0 ltac:(lia)) as [s' [H1 [H2 [H3 H4]]]].
      specialize (H4 (or_introl eq_refl)).
      exists s'. split; [assumption|]. split; [assumption|]. split; [lia|].
      intros Hn. exfalso. apply Hn. unfold step_w. rewrite Ew, Er. reflexivity.
  - destruct (poll_w_loop_total chunks (poll_fuel s) c s Hc HI ltac:(lia)) as [s' [H1 [H2 [H3 H4]]]].
    exists s'. split; [assumption|]. split; [assumption|]. split; [assumption|].
    intros _. apply H4. auto.
  - exists s. unfold poll_fuel. cbn [poll_w_loop Nat.add]. rewrite Nat.add_comm. cbn [Nat.add poll_w_loop].
    rewrite Ew. split; [reflexivity|]. split; [assumption|]. split; [lia|].
    intros Hn. exfalso. apply Hn. unfold step_w. rewrite Ew. reflexivity.
  - exists s. unfold poll_fuel. rewrite Nat.add_comm. cbn [Nat.add poll_w_loop].
    rewrite Ew. split; [reflexivity|]. split; [assumption|]. split; [lia|].
    intros Hn. exfalso. apply Hn. unfold step_w. rewrite Ew. reflexivity.
Qed.

Lemma step_r_some s cap : rst s = RTry -> step_r s cap <> None.
Proof.
  unfold step_r. intros ->. destruct (fifo_read (pp s) cap) as [[[|b bs]|] p']; discriminate.
Qed.

Lemma poll_r_loop_total c chunks fuel : forall s caps dflt,
  cfg_ok c -> Inv c chunks s -> Forall (fun n => 1 <= n) caps -> 1 <= dflt ->
  measure c s < fuel ->
  exists s' caps', poll_r_loop fuel s caps dflt = Some (s', caps') /\ Inv c chunks s' /\
                   measure c s' <= measure c s /\ (rst s = RTry -> measure c s' < measure c s).
Proof.
  induction fuel as [|fuel IH]; intros s caps dflt Hc HI Hcaps Hd Hm; [lia|].
  cbn [poll_r_loop].
  destruct (rst s) eqn:Er.
  - assert (Hcap : exists cap caps', (match caps with [] => (dflt, []) | x :: r => (x, r) end) = (cap, caps')
                   /\ 1 <= cap /\ Forall (fun n => 1 <= n) caps').
    { destruct caps as [|x r]; [exists dflt, []; auto|].
      inversion Hcaps; subst. exists x, r; auto. }
    destruct Hcap as [cap [caps' [-> [Hc1 Hcaps']]]].
    destruct (step_r s cap) as [s1|] eqn:Es; [|exfalso; apply (step_r_some s cap); auto].
    destruct (step_r_ok c chunks s cap s1 Hc HI Hc1 Es) as [HI1 Hm1].
    destruct (IH s1 caps' dflt Hc HI1 Hcaps' Hd ltac:(lia)) as [s' [cl [H1 [H2 [H3 _]]]]].
    exists s', cl. split; [assumption|]. split; [assumption|]. split; [lia|]. intros _; lia.
  - exists s, caps. split; [reflexivity|]. split; [assumption|]. split; [lia|]. discriminate.
  - exists s, caps. split; [reflexivity|]. split; [assumption|]. split; [lia|]. discriminate.
Qed.

Definition reader_enabled (s : xstate) : bool :=
  match rst s with RTry => true | RWait => ready_r (pp s) | RDone => false end.

Lemma poll_r_total c chunks s caps dflt :
  cfg_ok c -> Inv c chunks s -> Forall (fun n => 1 <= n) caps -> 1 <= dflt ->
  exists s' caps', poll_r s caps dflt = Some (s', caps') /\ Inv c chunks s' /\
                   measure c s' <= measure c s /\
                   (reader_enabled s = true -> measure c s' < measure c s).
Proof.
  intros Hc HI Hcaps Hd. unfold poll_r, reader_enabled. pose proof (measure_lt_fuel c s) as Hf.
  destruct (rst s) eqn:Er.
  - destruct (poll_r_loop_total c chunks (poll_fuel s) s caps dflt Hc HI Hcaps Hd ltac:(lia))
      as [s' [cl [H1 [H2 [H3 H4]]]]].
    exists s', cl. split; [assumption|]. split; [assumption|]. split; [assumption|]. intros _. auto.
  - set (s0 := mkX (cur s) (rest s) (pp s) (recvd s) (wst s) RTry).
    destruct (ready_r (pp s)) eqn:Erd.
    + assert (Es : step_r s 1 = Some s0) by (unfold step_r; rewrite Er, Erd; reflexivity).
      destruct (step_r_ok c chunks s 1 s0 Hc HI ltac:(lia) Es) as [HI0 Hm0].
      destruct (poll_r_loop_total c chunks (poll_fuel s) s0 caps dflt Hc HI0 Hcaps Hd ltac:(lia))
        as [s' [cl [H1 [H2 [H3 _]]]]].
      exists s', cl. split; [assumption|]. split; [assumption|]. split; [lia|]. intros _; lia.
    + assert (Es : step c s LSpurR = Some s0) by (cbn [step]; rewrite Er; reflexivity).
      destruct (step_spur_ok c chunks s LSpurR s0 HI eq_refl Es) as [HI0 Hm0].
      destruct (poll_r_loop_total c chunks (poll_fuel s) s0 caps dflt Hc HI0 Hcaps Hd ltac:(lia))
        as [s' [cl [H1 [H2 [H3 H4]]]]].
      specialize (H4 eq_refl).
      exists s', cl. split; [assumption|]. split; [assumption|]. split; [lia|]. discriminate.
  - exists s, caps. unfold poll_fuel. rewrite Nat.add_comm. cbn [Nat.add poll_r_loop]. rewrite Er.
    split; [reflexivity|]. split; [assumption|]. split; [lia|]. discriminate.
Qed.

(* steps of the writer never disable the reader *)
Lemma ready_r_app b x rr wr :
  ready_r (mkPipe b rr wr) = true -> ready_r (mkPipe (b ++ x) rr wr) = true.
Proof.
  unfold ready_r, wopen; cbn [buf wrefs]. rewrite app_length.
  destruct (negb (0 <? wr)); [reflexivity|]. cbn [orb].
  destruct (Nat.eqb_spec (length b) 0); [discriminate|]. intros _.
  destruct (Nat.eqb_spec (length b + length x) 0); [lia | reflexivity].
Qed.

Lemma ready_r_close b rr wr :
  ready_r (mkPipe b rr wr) = true -> ready_r (mkPipe b rr (pred wr)) = true.
Proof.
  unfold ready_r, wopen; cbn [buf wrefs].
  destruct wr as [|[|w]]; cbn; auto.
Qed.

Lemma writer_step_keeps_reader c s l s' :
  (l = LW \/ l = LSpurW) -> step c s l = Some s' ->
  reader_enabled s = true -> reader_enabled s' = true.
Proof.
  intros Hl Hs. unfold reader_enabled.
  destruct s as [cu re [b rr wr] rc ws rs]. cbn [rst pp].
  assert (Happ : forall x, match rs with RTry => true | RWait => ready_r (mkPipe b rr wr) | RDone => false end = true ->
                           match rs with RTry => true | RWait => ready_r (mkPipe (b ++ x) rr wr) | RDone => false end = true)
    by (intros x; destruct rs; auto; apply ready_r_app).
  destruct Hl as [-> | ->]; cbn [step] in Hs.
  - unfold step_w in Hs; cbn [cur rest pp recvd wst rst] in Hs.
    destruct ws; try discriminate.
    + destruct cu as [|x cu].
      * destruct re; apply Some_inj in Hs; subst s'; cbn [rst pp]; auto.
      * unfold fifo_write, set_buf in Hs; cbn [buf rrefs wrefs] in Hs.
        destruct (negb (ropen {| buf := b; rrefs := rr; wrefs := wr |}));
          [apply Some_inj in Hs; subst s'; cbn [rst pp]; auto|].
        destruct (psize c <? length b); [apply Some_inj in Hs; subst s'; cbn [rst pp]; auto|].
        destruct (psize c - length b <? length (x :: cu)).
        -- destruct ((psize c - length b =? 0) || (length (x :: cu) <=? pbuf c));
             [apply Some_inj in Hs; subst s'; cbn [rst pp]; auto|].
           destruct (psize c - length b) as [|room'];
             cbv beta match in Hs; apply Some_inj in Hs; subst s'; cbn [rst pp]; apply Happ.
        -- remember (length (x :: cu)) as n eqn:En. cbn [length] in En. subst n.
           cbv beta match in Hs. apply Some_inj in Hs; subst s'; cbn [rst pp]. apply Happ.
    + destruct (ready_w c {| buf := b; rrefs := rr; wrefs := wr |}); [|discriminate].
      apply Some_inj in Hs; subst s'; cbn [rst pp]; auto.
    + apply Some_inj in Hs; subst s'; cbn [rst pp buf rrefs wrefs].
      destruct rs; auto. apply ready_r_close.
  - cbn [wst] in Hs. destruct ws; try discriminate. apply Some_inj in Hs; subst s'; cbn [rst pp]; auto.
Qed.

Lemma writer_run_keeps_reader c ls : forall s s',
  Forall (fun l => l = LW \/ l = LSpurW) ls -> run c s ls = Some s' ->
  reader_enabled s = true -> reader_enabled s' = true.
Proof.
  induction ls as [|l ls IH]; intros s s' Hls Hr He; cbn [run] in Hr.
  - apply Some_inj in Hr. subst. assumption.
  - destruct (step c s l) as [s1|] eqn:E; [|discriminate].
    inversion Hls; subst. eapply IH; eauto. eapply writer_step_keeps_reader; eauto.
Qed.

Lemma pump_total chunks fuel : forall c cap s,
  cfg_ok c -> 1 <= cap -> Inv c chunks s -> measure c s < fuel ->
  pump fuel c cap s = Some (concat chunks).
Proof.
  induction fuel as [|fuel IH]; intros c cap s Hc Hcap HI Hm; [lia|].
  cbn [pump]. destruct (finished s) eqn:Hf.
  - f_equal. eapply inv_finished_complete; eauto.
  - destruct (poll_w_total chunks c s Hc HI) as [s1 [H1 [HI1 [Hm1 Hs1]]]].
    rewrite H1.
    destruct (poll_r_total c chunks s1 [] cap Hc HI1 ltac:(constructor) Hcap) as [s2 [cl [H2 [HI2 [Hm2 Hs2]]]]].
    rewrite H2. apply IH; auto.
    destruct (step_w c s) as [sw|] eqn:Ew.
    + assert (measure c s1 < measure c s) by (apply Hs1; discriminate). lia.
    + (* the writer cannot move: the reader can *)
      destruct (inv_no_deadlock c chunks s Hc HI Hf) as [l [Hl Hne]].
      assert (Hre : reader_enabled s = true).
      { destruct l as [|k| |]; cbn [proper step] in *; try contradiction; try congruence.
        unfold reader_enabled. unfold step_r in Hne. destruct (rst s); auto.
        destruct (ready_r (pp s)); [reflexivity | contradiction]. }
      destruct (poll_w_run c s s1 H1) as [ls [Hls Hrun]].
      pose proof (writer_run_keeps_reader c ls s s1 Hls Hrun Hre) as Hre1.
      specialize (Hs2 Hre1). lia.
Qed.

Lemma chunked_concat chunk l : concat (chunked chunk l) = l.
Proof.
  unfold chunked. destruct (chunk =? 0); [cbn; apply app_nil_r|].
  remember (length l) as n eqn:Hn. clear Hn. revert l.
  induction n as [|n IH]; intros l; cbn [chunks_of]; [cbn; apply app_nil_r|].
  destruct l as [|x t]; [reflexivity|]. cbn [concat]. rewrite IH. apply firstn_skipn.
Qed.

Lemma through_pipe_identity c chunk cap l :
  cfg_ok c -> through_pipe c chunk cap l = Some l.
Proof.
  intros Hc. unfold through_pipe.
  rewrite (pump_total (chunked chunk l)); [rewrite chunked_concat; reflexivity | assumption | lia | apply inv_init |].
  pose proof (measure_init c (chunked chunk l)). lia.
Qed.

Lemma through_pipes_identity n : forall c chunk cap l,
  cfg_ok c -> through_pipes n c chunk cap l = Some l.
Proof.
  induction n as [|n IH]; intros c chunk cap l Hc; [reflexivity|].
  cbn [through_pipes]. rewrite through_pipe_identity by assumption. apply IH. assumption.
Qed.

Lemma model_route_is_spec c r l :
  cfg_ok c -> model_route c r l = Some (spec_route r l).
Proof.
  intros Hc. destruct r as [stages chunk cap|stages k cap| |cap]; cbn [model_route spec_route].
  - apply through_pipes_identity. assumption.
  - rewrite through_pipes_identity by assumption. reflexivity.
  - rewrite through_pipe_identity by assumption. f_equal. apply strip_nl_as_trailing_lemma.
  - apply heredoc_bytes_exact_lemma; [constructor | lia].
Qed.
