(* C14 — facts about the definitions of Run.v (the script oracle asks for
   exactly what the model computes). *)
From Yv Require Import Common.Base C14.Model C14.Spec C14.Proofs C14.Run.

Lemma eval_model_spec_lemma : forall e, eval_model e = eval_spec e.
Proof.
  fix IH 1. intros [n k t|s|l|e|e r c|e c]; cbn [eval_model eval_spec]; try reflexivity.
  - induction l as [|a l IHl]; cbn [flat_map]; [reflexivity|]. rewrite (IH a), IHl. reflexivity.
  - rewrite (IH e). apply strip_nl_as_trailing_lemma.
  - apply IH.
  - apply IH.
Qed.
