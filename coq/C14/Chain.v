(* C14 — pipelines of any number of stages: a source that runs `write_all` on
   each of its chunks, any number of relays (`read` a buffer, `write_all` it;
   at end of file close the output), and a sink that reads to the end of file,
   connected by pipes.  Same pipe functions and same per-process loops as in
   Model.v; one label = one system call (or regular wake-up) of one process.

   The state is built from the sink backwards: an [upstream] is whatever
   writes into a pipe. *)
From Yv Require Import Common.Base C14.Model.

Inductive mode :=
  | MRead        (* about to call read on the input pipe *)
  | MReadWait    (* got EAGAIN on read; yielded until the input is readable *)
  | MWrite       (* about to call write with the rest of the chunk (or between two chunks) *)
  | MWriteWait   (* got EAGAIN on write; yielded until the output is writable *)
  | MClose       (* end of input: about to close the output *)
  | MDone.

Inductive upstream :=
  | USrc (cur : list N) (rest : list (list N)) (m : mode)
      (* the first command: `write_all` per chunk, then close *)
  | URelay (up : upstream) (pin : pipe) (cur : list N) (m : mode).
      (* a relay: [up] writes into [pin], which this process reads *)

Record cstate := mkCS {
  top : upstream;      (* everything that (transitively) writes into [pout] *)
  pout : pipe;         (* the last pipe *)
  crecvd : list N;     (* what the sink has collected *)
  crst : rpc }.

Definition head_mode (u : upstream) : mode :=
  match u with USrc _ _ m => m | URelay _ _ _ m => m end.

Definition close_w (p : pipe) : pipe := mkPipe (buf p) (rrefs p) (pred (wrefs p)).

(* the writing half of a process: [cur] is the rest of the chunk, [out] the pipe
   written to; [idle] is the mode entered between two chunks *)
Definition write_step (c : cfg) (cur : list N) (out : pipe) : option (list N * pipe * bool) :=
  (* Some (cur', out', yielded) *)
  match fifo_write c out cur with
  | (WOk 0, p') | (WAgain, p') => Some (cur, p', true)
  | (WOk n, p') => Some (skipn n cur, p', false)
  | (WEpipe, _) | (WPanic, _) => None
  end.

(* one step of the process at the head of [u]; [out] is the pipe it writes *)
Definition head_step (c : cfg) (u : upstream) (out : pipe) (cap : nat)
  : option (upstream * pipe) :=
  match u with
  | USrc cur rest m =>
      match m with
      | MWrite =>
          match cur with
          | [] =>
              match rest with
              | [] => Some (USrc [] [] MClose, out)
              | ch :: r => Some (USrc ch r MWrite, out)
              end
          | _ :: _ =>
              match write_step c cur out with
              | Some (cur', out', true) => Some (USrc cur' rest MWriteWait, out')
              | Some (cur', out', false) => Some (USrc cur' rest MWrite, out')
              | None => None
              end
          end
      | MWriteWait => if ready_w c out then Some (USrc cur rest MWrite, out) else None
      | MClose => Some (USrc cur rest MDone, close_w out)
      | _ => None
      end
  | URelay up pin cur m =>
      match m with
      | MRead =>
          match fifo_read pin cap with
          | (RAgain, pin') => Some (URelay up pin' cur MReadWait, out)
          | (ROk [], pin') => Some (URelay up pin' cur MClose, out)
          | (ROk bs, pin') => Some (URelay up pin' bs MWrite, out)
          end
      | MReadWait => if ready_r pin then Some (URelay up pin cur MRead, out) else None
      | MWrite =>
          match cur with
          | [] => Some (URelay up pin [] MRead, out)
          | _ :: _ =>
              match write_step c cur out with
              | Some (cur', out', true) => Some (URelay up pin cur' MWriteWait, out')
              | Some (cur', out', false) => Some (URelay up pin cur' MWrite, out')
              | None => None
              end
          end
      | MWriteWait => if ready_w c out then Some (URelay up pin cur MWrite, out) else None
      | MClose => Some (URelay up pin cur MDone, close_w out)
      | MDone => None
      end
  end.

(* the process at depth [d] of [u] acts (0 = the head) *)
Fixpoint ustep (c : cfg) (u : upstream) (out : pipe) (d : nat) (cap : nat)
  : option (upstream * pipe) :=
  match d with
  | O => head_step c u out cap
  | S d' =>
      match u with
      | USrc _ _ _ => None
      | URelay up pin cur m =>
          match ustep c up pin d' cap with
          | Some (up', pin') => Some (URelay up' pin' cur m, out)
          | None => None
          end
      end
  end.

(* label: which process acts (0 = the sink, 1 = the last writer, ...) and, if
   it reads, with which buffer size *)
Definition clabel := (nat * nat)%type.

Definition clabel_ok (l : clabel) : Prop := 1 <= snd l.

Definition cstep (c : cfg) (s : cstate) (l : clabel) : option cstate :=
  match fst l with
  | O =>
      match crst s with
      | RTry =>
          match fifo_read (pout s) (snd l) with
          | (RAgain, p') => Some (mkCS (top s) p' (crecvd s) RWait)
          | (ROk [], p') => Some (mkCS (top s) p' (crecvd s) RDone)
          | (ROk bs, p') => Some (mkCS (top s) p' (crecvd s ++ bs) RTry)
          end
      | RWait => if ready_r (pout s) then Some (mkCS (top s) (pout s) (crecvd s) RTry) else None
      | RDone => None
      end
  | S d =>
      match ustep c (top s) (pout s) d (snd l) with
      | Some (u', p') => Some (mkCS u' p' (crecvd s) (crst s))
      | None => None
      end
  end.

Fixpoint crun (c : cfg) (s : cstate) (ls : list clabel) : option cstate :=
  match ls with
  | [] => Some s
  | l :: ls => match cstep c s l with Some s' => crun c s' ls | None => None end
  end.

(* [n] relays between the source and the sink: n + 1 pipes *)
Fixpoint relays (n : nat) (u : upstream) : upstream :=
  match n with
  | O => u
  | S n => URelay (relays n u) new_pipe [] MRead
  end.

Definition cinit (chunks : list (list N)) (n : nat) : cstate :=
  mkCS (relays n (USrc [] chunks MWrite)) new_pipe [] RTry.

Definition cfinished (s : cstate) : bool :=
  match crst s with RDone => true | _ => false end.

(* the bytes still on their way, nearest to the sink first *)
Fixpoint content (u : upstream) : list N :=
  match u with
  | USrc cur rest _ => cur ++ concat rest
  | URelay up pin cur _ => cur ++ buf pin ++ content up
  end.

Fixpoint depth (u : upstream) : nat :=
  match u with USrc _ _ _ => 1 | URelay up _ _ _ => S (depth up) end.

(* an upper bound on the length of every run (ProofsChain.cmeasure) *)
Definition chain_bound (chunks : list (list N)) (n : nat) : nat :=
  16 * (n + 1) * length (concat chunks) + 8 * length chunks + 8 * (n + 2).
