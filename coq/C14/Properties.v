(* C14 — property theorems only.  Each is closed by [exact] of a lemma from
   Proofs.v; the driver pins the statements with [Check] and prints the
   assumptions on every run. *)
From Yv Require Import Common.Base C14.Model C14.Spec C14.Run C14.Chain C14.Proofs C14.ProofsPipe C14.ProofsRun C14.ProofsChain C14.ProofsUtf8 C14.ChainSpur C14.ProofsChainSpur C14.Blocking C14.ProofsBlocking C14.Guard C14.ProofsGuard.
From Yv Require Import Gen.Gen_Consts.

(* received ++ pipe content ++ unsent = payload, in every reachable state, for
   every configuration and every schedule (no hypothesis at all) *)
Theorem pipe_conservation :
  forall c chunks ls s, run c (init chunks) ls = Some s ->
    recvd s ++ buf (pp s) ++ cur s ++ concat (rest s) = concat chunks.
Proof. exact pipe_conservation_lemma. Qed.

(* wherever a schedule can go no further (no system call or regular wake-up of
   either party is possible), both parties have finished and the reader holds
   exactly the payload: complete, once, in order *)
Theorem transfer_complete_in_order :
  forall c chunks ls s, cfg_ok c -> Forall label_ok ls ->
    run c (init chunks) ls = Some s ->
    (forall l, proper l -> step c s l = None) ->
    finished s = true /\ recvd s = concat chunks.
Proof. exact transfer_complete_lemma. Qed.

Theorem finished_means_complete :
  forall c chunks ls s, cfg_ok c -> Forall label_ok ls ->
    run c (init chunks) ls = Some s -> finished s = true -> recvd s = concat chunks.
Proof. exact finished_complete_lemma. Qed.

(* as long as one party has not finished, one of them can take a proper step *)
Theorem no_deadlock_writer_reader :
  forall c chunks ls s, cfg_ok c -> Forall label_ok ls ->
    run c (init chunks) ls = Some s -> finished s = false ->
    exists l, proper l /\ step c s l <> None.
Proof. exact no_deadlock_lemma. Qed.

(* every schedule is finite: at most step_bound steps plus two per spurious wake-up *)
Theorem transfer_terminates :
  forall c chunks ls s, cfg_ok c -> Forall label_ok ls ->
    run c (init chunks) ls = Some s ->
    length ls <= step_bound chunks + 2 * count_spurious ls.
Proof. exact transfer_bounded_lemma. Qed.

(* no EPIPE, no arithmetic underflow, the capacity is respected *)
Theorem writer_never_fails :
  forall c chunks ls s, cfg_ok c -> Forall label_ok ls ->
    run c (init chunks) ls = Some s ->
    wst s <> WFail /\ length (buf (pp s)) <= psize c.
Proof. exact writer_never_fails_lemma. Qed.

Theorem strip_trailing_newlines_spec : forall s, strip_spec s (strip_nl s).
Proof. exact strip_nl_spec_lemma. Qed.

Theorem strip_trailing_newlines_unique : forall s o, strip_spec s o -> o = strip_nl s.
Proof. exact strip_spec_unique_lemma. Qed.

Theorem strip_oracle_iff : forall s o, strip_okb s o = true <-> strip_spec s o.
Proof. exact strip_okb_iff. Qed.

Theorem strip_nl_as_trailing :
  forall s, strip_nl s = firstn (length s - trailing_nl s) s.
Proof. exact strip_nl_as_trailing_lemma. Qed.

Theorem heredoc_bytes_exact :
  forall content caps dflt, Forall (fun n => 1 <= n) caps -> 1 <= dflt ->
    heredoc_transfer content caps dflt = Some content.
Proof. exact heredoc_bytes_exact_lemma. Qed.

(* the pipe model satisfies the abstract byte-stream specification (complete,
   exactly once, in order, capacity, PIPE_BUF atomicity, would-block, end of
   file, EPIPE, select readiness) for every history of system calls on every
   set of descriptors: the stream-A oracle is sound *)
Theorem pipe_refines_stream :
  forall c ops, cfg_ok c -> ops_ok c new_pipe ops = true ->
    spec_run c stream0 (model_hist c new_pipe ops) = None.
Proof. exact pipe_refines_stream_lemma. Qed.

(* what the script oracle demands is what the model computes *)
Theorem eval_model_is_spec : forall e, eval_model e = eval_spec e.
Proof. exact eval_model_spec_lemma. Qed.

(* one poll of a task in the coarse model is a run of the transition system *)
Theorem poll_w_is_run :
  forall c s s', poll_w c s = Some s' ->
    exists ls, Forall (fun l => l = LW \/ l = LSpurW) ls /\ run c s ls = Some s'.
Proof. exact poll_w_run. Qed.

(* the executable side of the script check is total (the fuel computed from the
   input never runs out) and moves the data unchanged through any number of
   pipes, for every chunking and every reader buffer *)
Theorem pump_delivers :
  forall c chunk cap l, cfg_ok c -> through_pipe c chunk cap l = Some l.
Proof. exact through_pipe_identity. Qed.

Theorem model_route_meets_spec :
  forall c r l, cfg_ok c -> model_route c r l = Some (spec_route r l).
Proof. exact model_route_is_spec. Qed.

(* pipelines of any number of stages: a source, n relays (read a buffer,
   write_all it) and a sink connected by n + 1 pipes, every schedule of the
   n + 2 processes, every buffer size >= 1 *)
Theorem chain_conservation :
  forall c chunks n ls s, cfg_ok c -> Forall clabel_ok ls ->
    crun c (cinit chunks n) ls = Some s ->
    crecvd s ++ buf (pout s) ++ content (top s) = concat chunks.
Proof. exact chain_conservation_lemma. Qed.

Theorem chain_transfer_complete_in_order :
  forall c chunks n ls s, cfg_ok c -> Forall clabel_ok ls ->
    crun c (cinit chunks n) ls = Some s ->
    (forall l, clabel_ok l -> cstep c s l = None) ->
    cfinished s = true /\ crecvd s = concat chunks.
Proof. exact chain_complete_lemma. Qed.

Theorem chain_no_deadlock :
  forall c chunks n ls s, cfg_ok c -> Forall clabel_ok ls ->
    crun c (cinit chunks n) ls = Some s -> cfinished s = false ->
    exists l, clabel_ok l /\ cstep c s l <> None.
Proof. exact chain_no_deadlock_lemma. Qed.

Theorem chain_terminates :
  forall c chunks n ls s, cfg_ok c -> Forall clabel_ok ls ->
    crun c (cinit chunks n) ls = Some s -> length ls <= chain_bound chunks n.
Proof. exact chain_terminates_lemma. Qed.

(* output that is not valid UTF-8: after the lossy decoding exactly the
   trailing newlines are removed, and the newline bytes at the end of the
   output are all that is dropped, whatever bytes precede them *)
Theorem subst_value_is_stripped_decoding :
  forall bytes, strip_spec (utf8_lossy bytes) (subst_value bytes).
Proof. exact subst_value_spec. Qed.

Theorem lossy_decoding_keeps_trailing_newlines :
  forall s k, utf8_lossy (s ++ repeat NL k) = utf8_lossy s ++ repeat NL k.
Proof. exact utf8_lossy_app_newlines. Qed.

Theorem subst_value_ignores_trailing_newlines :
  forall s k, subst_value (s ++ repeat NL k) = subst_value s.
Proof. exact subst_value_newlines. Qed.

(* the same four facts for pipelines when every process may also be woken
   spuriously at any time *)
Theorem chain_spurious_conservation :
  forall c chunks n es s, cfg_ok c -> Forall cevent_ok es ->
    crun2 c (cinit chunks n) es = Some s ->
    crecvd s ++ buf (pout s) ++ content (top s) = concat chunks.
Proof. exact chain2_conservation_lemma. Qed.

Theorem chain_spurious_complete_in_order :
  forall c chunks n es s, cfg_ok c -> Forall cevent_ok es ->
    crun2 c (cinit chunks n) es = Some s ->
    (forall l, clabel_ok l -> cstep c s l = None) ->
    cfinished s = true /\ crecvd s = concat chunks.
Proof. exact chain2_complete_lemma. Qed.

Theorem chain_spurious_no_deadlock :
  forall c chunks n es s, cfg_ok c -> Forall cevent_ok es ->
    crun2 c (cinit chunks n) es = Some s -> cfinished s = false ->
    exists l, clabel_ok l /\ cstep c s l <> None.
Proof. exact chain2_no_deadlock_lemma. Qed.

Theorem chain_spurious_terminates :
  forall c chunks n es s, cfg_ok c -> Forall cevent_ok es ->
    crun2 c (cinit chunks n) es = Some s ->
    length es <= chain_bound chunks n + 2 * count_spur es.
Proof. exact chain2_terminates_lemma. Qed.

(* the blocking-mode write (poll_write_full): whatever it does in one poll, it
   only appends the next bytes of its request to the pipe *)
Theorem blocking_write_appends_in_order :
  forall fuel c p data written r p' w',
    write_full fuel c p data written = (r, p', w') ->
    written <= w' /\ buf p' = buf p ++ firstn (w' - written) (skipn written data)
    /\ rrefs p' = rrefs p /\ wrefs p' = wrefs p.
Proof. exact write_full_appends. Qed.

(* O_NONBLOCK guard protocol of Concurrent::read/write (TemporaryNonBlockingGuard): for every
   number of holders of one open file description and every order of entering and
   leaving, once nobody is inside the flag is what it was before the first entered *)
Theorem guard_restores_flag :
  forall f0 ops s, grun (ginit f0) ops = Some s -> ginside s = [] -> gflag s = f0.
Proof. exact guard_restores_lemma. Qed.

(* what IS true while holders are inside: the flag is set as long as the holder that
   found the description blocking (saved `false`) is inside *)
Theorem guard_first_holder_keeps_nonblocking :
  forall f0 ops s i, grun (ginit f0) ops = Some s -> In (i, false) (ginside s) -> gflag s = true.
Proof. exact guard_first_holder_lemma. Qed.

(* at most one holder inside is going to clear the flag *)
Theorem guard_one_clearer :
  forall f0 ops s, grun (ginit f0) ops = Some s -> length (filter (fun h => negb (snd h)) (ginside s)) <= 1.
Proof. exact guard_one_clearer_lemma. Qed.

(* a description that was O_NONBLOCK before stays so at every moment *)
Theorem guard_keeps_nonblocking_description :
  forall ops s, grun (ginit true) ops = Some s -> gflag s = true.
Proof. exact guard_keeps_nonblocking_lemma. Qed.

(* FALSE of the code as it is (witness: A enters, B enters, A leaves): 'the flag is set
   while some holder is inside'.  B then runs its next read/write on a BLOCKING
   description (finding F48 is the consequence on the simulator) *)
Theorem guard_flag_while_inside_refuted :
  exists f0 ops s, grun (ginit f0) ops = Some s /\ ginside s <> [] /\ gflag s = false.
Proof. exact guard_flag_while_inside_refuted_lemma. Qed.

(* the run-time oracle of stream H accepts the flags of every run of the model *)
Theorem guard_oracle_sound :
  forall f0 ops t, gtrace (ginit f0) ops = Some t -> guard_okb f0 0 (combine ops t) = true.
Proof. exact guard_okb_sound_lemma. Qed.

(* non-vacuity of guard_restores_flag / guard_first_holder_keeps_nonblocking:
   three holders, the first leaves in the middle *)
Example guard_run_example :
  grun (ginit false) [GEnter 0; GEnter 1; GLeave 0; GEnter 2; GLeave 1]
    = Some (mkG true [(2, false)]) /\
  grun (ginit false) [GEnter 0; GEnter 1; GLeave 0; GEnter 2; GLeave 1; GLeave 2]
    = Some (mkG false []).
Proof. split; vm_compute; reflexivity. Qed.

(* TIE BY TRANSLATION: the configuration the theorems are instantiated with is
   the one the source declares now (translator/consts.py reads PIPE_BUF and
   PIPE_SIZE out of yash-env/src/system/virtual/file_body.rs on every run), and
   it satisfies the hypothesis [cfg_ok] of the theorems above *)
Theorem cfg_repo_is_source : cfg_repo = mkCfg gen_pipe_buf gen_pipe_size.
Proof. reflexivity. Qed.
Theorem source_cfg_ok : cfg_ok (mkCfg gen_pipe_buf gen_pipe_size).
Proof. rewrite <- cfg_repo_is_source. unfold cfg_ok, cfg_repo. cbn [pbuf psize]. split; apply Nat.leb_le; vm_compute; reflexivity. Qed.

Print Assumptions pipe_conservation.
Print Assumptions guard_restores_flag.
Print Assumptions guard_first_holder_keeps_nonblocking.
Print Assumptions guard_one_clearer.
Print Assumptions guard_keeps_nonblocking_description.
Print Assumptions guard_flag_while_inside_refuted.
Print Assumptions guard_oracle_sound.
Print Assumptions blocking_write_appends_in_order.
Print Assumptions chain_spurious_conservation.
Print Assumptions chain_spurious_complete_in_order.
Print Assumptions chain_spurious_no_deadlock.
Print Assumptions chain_spurious_terminates.
Print Assumptions subst_value_is_stripped_decoding.
Print Assumptions lossy_decoding_keeps_trailing_newlines.
Print Assumptions subst_value_ignores_trailing_newlines.
Print Assumptions chain_conservation.
Print Assumptions chain_transfer_complete_in_order.
Print Assumptions chain_no_deadlock.
Print Assumptions chain_terminates.
Print Assumptions pump_delivers.
Print Assumptions model_route_meets_spec.
Print Assumptions pipe_refines_stream.
Print Assumptions eval_model_is_spec.
Print Assumptions poll_w_is_run.
Print Assumptions transfer_complete_in_order.
Print Assumptions finished_means_complete.
Print Assumptions no_deadlock_writer_reader.
Print Assumptions transfer_terminates.
Print Assumptions writer_never_fails.
Print Assumptions strip_trailing_newlines_spec.
Print Assumptions strip_trailing_newlines_unique.
Print Assumptions strip_oracle_iff.
Print Assumptions strip_nl_as_trailing.
Print Assumptions heredoc_bytes_exact.
Print Assumptions cfg_repo_is_source.
Print Assumptions source_cfg_ok.
