(* C14 — lemmas: the writer/reader transition system. *)
From Yv Require Import Common.Base C14.Model C14.Spec.
From Coq Require Import Arith.

(* ------------------------------------------------------------------------ *)
(* Boolean tests to propositions. *)
Ltac bd :=
  repeat match goal with
  | H : context [?a <? ?b] |- _ => destruct (Nat.ltb_spec a b)
  | |- context [?a <? ?b] => destruct (Nat.ltb_spec a b)
  | H : context [?a <=? ?b] |- _ => destruct (Nat.leb_spec a b)
  | |- context [?a <=? ?b] => destruct (Nat.leb_spec a b)
  | H : context [?a =? ?b] |- _ => destruct (Nat.eqb_spec a b)
  | |- context [?a =? ?b] => destruct (Nat.eqb_spec a b)
  end.

(* ------------------------------------------------------------------------ *)
(* Would the next system call of either party report "would block"? *)
Definition blocked_w (c : cfg) (s : xstate) : bool :=
  let room := psize c - length (buf (pp s)) in
  (room <? length (cur s)) && ((room =? 0) || (length (cur s) <=? pbuf c)).

Definition blocked_r (s : xstate) : bool := (length (buf (pp s)) =? 0) && wopen (pp s).

(* The termination measure: every step of either party decreases it. *)
Definition mw (c : cfg) (s : xstate) : nat :=
  4 * bytes_left s + 4 * length (rest s) +
  match wst s with
  | WDone | WFail => 0
  | WClose => 1
  | WWait => 3
  | WTry => match cur s with [] => 2 | _ :: _ => if blocked_w c s then 4 else 2 end
  end.

Definition mr (s : xstate) : nat :=
  4 * (bytes_left s + length (buf (pp s))) +
  match rst s with
  | RDone => 0
  | RWait => 2
  | RTry => if blocked_r s then 3 else 1
  end.

Definition measure (c : cfg) (s : xstate) : nat := mw c s + mr s.

Record Inv (c : cfg) (chunks : list (list N)) (s : xstate) : Prop := mkInv {
  inv_cons : recvd s ++ buf (pp s) ++ cur s ++ concat (rest s) = concat chunks;
  inv_cap : length (buf (pp s)) <= psize c;
  inv_rr : rrefs (pp s) = 1;
  inv_wr : wrefs (pp s) = match wst s with WDone => 0 | _ => 1 end;
  inv_nofail : wst s <> WFail;
  inv_close : (wst s = WClose \/ wst s = WDone) -> cur s = [] /\ rest s = [];
  inv_wait : wst s = WWait -> cur s <> [];
  inv_rdone : rst s = RDone -> wst s = WDone /\ buf (pp s) = [] }.

Lemma inv_init c chunks : Inv c chunks (init chunks).
Proof.
  constructor; cbn; try reflexivity; try lia; try discriminate.
  - intros [H|H]; discriminate.
Qed.

Lemma measure_init c chunks : measure c (init chunks) <= step_bound chunks.
Proof.
  unfold measure, mw, mr, step_bound, init, bytes_left, blocked_r; cbn [cur rest pp recvd wst rst buf new_pipe wopen wrefs length].
  cbn. lia.
Qed.

Lemma firstn_skipn_len {A} n (l : list A) : length (firstn n l) + length (skipn n l) = length l.
Proof. rewrite <- (firstn_skipn n l) at 3. rewrite app_length. reflexivity. Qed.

Lemma Some_inj {A} (a b : A) : Some a = Some b -> a = b.
Proof. congruence. Qed.

Lemma length_zero_nil {A} (l : list A) : length l = 0 -> l = [].
Proof. destruct l; [reflexivity | discriminate]. Qed.

(* ------------------------------------------------------------------------ *)
(* One step keeps the invariant and decreases the measure. *)

Ltac simp_fields := cbn [cur rest pp recvd wst rst buf rrefs wrefs] in *.

Ltac dec_ifs :=
  repeat match goal with
  | |- context [?a <? ?b] => destruct (Nat.ltb_spec a b)
  | |- context [?a <=? ?b] => destruct (Nat.leb_spec a b)
  | |- context [?a =? ?b] => destruct (Nat.eqb_spec a b)
  end;
  cbn [andb orb negb];
  repeat match goal with |- context [if ?b then _ else _] => destruct b end.

Ltac unfold_measure :=
  unfold measure, mw, mr, bytes_left, blocked_r, blocked_w, wopen;
  cbn [cur rest pp recvd wst rst buf rrefs wrefs].

(* the eight fields of Inv, in order *)
Ltac inv_fields := constructor; cbn [cur rest pp recvd wst rst buf rrefs wrefs].
Ltac triv :=
  first [ assumption | reflexivity | discriminate | lia
        | (let H := fresh in intros [H|H]; discriminate)
        | (let H := fresh in intros H; discriminate H)
        | (intros _; auto; fail) | tauto ].

Lemma step_w_ok c chunks s s' :
  cfg_ok c -> Inv c chunks s -> step_w c s = Some s' ->
  Inv c chunks s' /\ measure c s' < measure c s.
Proof.
  intros [Hc1 Hc2] HI Hs.
  destruct s as [cu re [b rr wr] rc ws rs].
  destruct HI as [Hcons Hcap Hrr Hwr Hnf Hcl Hwt Hrd]; simp_fields.
  assert (Hrd' : rs = RDone -> ws = WDone) by (intros H; apply Hrd in H; tauto).
  unfold step_w in Hs; cbn [cur rest pp recvd wst rst buf rrefs wrefs] in Hs.
  destruct ws.
  - (* WTry *)
    destruct cu as [|x cu].
    + destruct re as [|ch re]; inversion Hs; subst; clear Hs.
      * split.
        -- inv_fields; [> triv | triv | triv | triv | triv | triv | triv | ].
           intros H; apply Hrd' in H; discriminate.
        -- unfold_measure. cbn [concat length app]. destruct rs; dec_ifs; lia.
      * split.
        -- inv_fields; [> | triv | triv | triv | triv | triv | triv | ].
           ++ rewrite <- Hcons. cbn [concat app]. reflexivity.
           ++ intros H; apply Hrd' in H; discriminate.
        -- unfold_measure. cbn [concat length app]. rewrite !app_length.
           destruct ch; cbn [length]; destruct rs; dec_ifs; lia.
    + (* a write attempt *)
      unfold fifo_write, ropen, set_buf in Hs; cbn [cur rest pp recvd wst rst buf rrefs wrefs] in Hs.
      rewrite Hrr in Hs. change (negb (0 <? 1)) with false in Hs. cbv iota in Hs.
      remember (x :: cu) as d eqn:Hd.
      assert (Hdl : 1 <= length d) by (subst d; cbn; lia).
      destruct (psize c <? length b) eqn:E1; [apply Nat.ltb_lt in E1; lia|].
      destruct (psize c - length b <? length d) eqn:E2.
      * apply Nat.ltb_lt in E2.
        destruct ((psize c - length b =? 0) || (length d <=? pbuf c)) eqn:E3.
        -- (* EAGAIN *)
           inversion Hs; subst s'; clear Hs. split.
           ++ inv_fields; [> triv | triv | triv | triv | triv | triv | | ].
              ** intros _. subst d. discriminate.
              ** intros H; apply Hrd' in H; discriminate.
           ++ unfold_measure.
              assert (Hb : (psize c - length b <? length d) = true) by (apply Nat.ltb_lt; lia).
              rewrite Hb, E3. cbn [andb]. subst d. lia.
        -- (* partial write of [room] bytes *)
           apply orb_false_iff in E3. destruct E3 as [E3 E4].
           apply Nat.eqb_neq in E3. apply Nat.leb_gt in E4.
           remember (psize c - length b) as room eqn:Er.
           destruct room as [|room']; [lia|].
           cbv beta match in Hs. apply Some_inj in Hs. subst s'.
           assert (Hfl : length (firstn (S room') d) = S room') by (rewrite firstn_length; lia).
           assert (Hsl : length (skipn (S room') d) = length d - S room') by (rewrite skipn_length; lia).
           split.
           ++ inv_fields; [> | | triv | triv | triv | triv | triv | ].
              ** rewrite <- Hcons. rewrite <- !app_assoc. f_equal. f_equal.
                 rewrite app_assoc. rewrite firstn_skipn. reflexivity.
              ** rewrite app_length, Hfl. lia.
              ** intros H; apply Hrd' in H; discriminate.
           ++ unfold_measure.
              rewrite !app_length, Hfl, Hsl.
              assert (Hb : (S room' <? length d) = true) by (apply Nat.ltb_lt; lia).
              assert (Hb2 : ((S room' =? 0) || (length d <=? pbuf c)) = false).
              { apply orb_false_iff; split; [apply Nat.eqb_neq; lia | apply Nat.leb_gt; lia]. }
              rewrite <- Er, Hb, Hb2. cbn [andb].
              subst d. cbn [length] in *.
              destruct (skipn (S room') (x :: cu)) eqn:Esk;
                destruct rs; cbn [length]; dec_ifs; lia.
      * (* the whole request fits *)
        apply Nat.ltb_ge in E2.
        destruct (length d) as [|n] eqn:Eld; [lia|].
        cbv beta match in Hs. apply Some_inj in Hs. subst s'.
        assert (Hsk : skipn (S n) d = []).
        { apply length_zero_nil. rewrite skipn_length. lia. }
        rewrite Hsk. split.
        -- inv_fields; [> | | triv | triv | triv | triv | triv | ].
           ++ rewrite <- Hcons. rewrite <- !app_assoc. reflexivity.
           ++ rewrite app_length. lia.
           ++ intros H; apply Hrd' in H; discriminate.
        -- unfold_measure. cbn [length].
           rewrite !app_length, Eld.
           destruct rs; dec_ifs; lia.
  - (* WWait *)
    unfold ready_w, ropen in Hs; cbn [cur rest pp recvd wst rst buf rrefs wrefs] in Hs.
    rewrite Hrr in Hs. change (negb (0 <? 1)) with false in Hs. cbn [orb] in Hs.
    destruct (pbuf c <=? psize c - length b) eqn:E; [|discriminate].
    apply Nat.leb_le in E. inversion Hs; subst s'; clear Hs.
    specialize (Hwt eq_refl).
    split.
    + inv_fields; [> triv | triv | triv | triv | triv | triv | triv | ].
      intros H; apply Hrd' in H; discriminate.
    + unfold_measure.
      destruct cu as [|x cu]; [congruence|].
      assert (Hb : ((psize c - length b <? length (x :: cu))
                    && ((psize c - length b =? 0) || (length (x :: cu) <=? pbuf c))) = false).
      { destruct (psize c - length b <? length (x :: cu)) eqn:E1; [|reflexivity].
        apply Nat.ltb_lt in E1. cbn [andb]. apply orb_false_iff.
        split; [apply Nat.eqb_neq; lia | apply Nat.leb_gt; lia]. }
      rewrite Hb. lia.
  - (* WClose *)
    inversion Hs; subst s'; clear Hs.
    destruct (Hcl (or_introl eq_refl)) as [-> ->].
    split.
    + inv_fields; [> triv | triv | triv | | triv | triv | triv | ].
      * rewrite Hwr. reflexivity.
      * intros H. split; [reflexivity|]. apply Hrd in H. tauto.
    + unfold_measure. cbn [length concat].
      rewrite Hwr. cbn [pred Nat.ltb Nat.leb andb].
      destruct rs; dec_ifs; lia.
  - discriminate.
  - discriminate.
Qed.

Lemma step_r_ok c chunks s cap s' :
  cfg_ok c -> Inv c chunks s -> 1 <= cap -> step_r s cap = Some s' ->
  Inv c chunks s' /\ measure c s' < measure c s.
Proof.
  intros [Hc1 Hc2] HI Hcap1 Hs.
  destruct s as [cu re [b rr wr] rc ws rs].
  destruct HI as [Hcons Hcap Hrr Hwr Hnf Hcl Hwt Hrd]; simp_fields.
  unfold step_r in Hs; cbn [cur rest pp recvd wst rst buf rrefs wrefs] in Hs.
  destruct rs.
  - (* RTry *)
    unfold fifo_read, wopen, set_buf in Hs; cbn [cur rest pp recvd wst rst buf rrefs wrefs] in Hs.
    destruct (Nat.eqb_spec cap 0) as [|_]; [lia|].
    destruct ((length b =? 0) && (0 <? wr)) eqn:E.
    + (* EAGAIN *)
      apply Some_inj in Hs. subst s'. split.
      * inv_fields; [> triv | triv | triv | triv | triv | triv | triv | triv ].
      * unfold_measure. rewrite E. destruct ws; destruct cu; dec_ifs; lia.
    + remember (firstn cap b) as bs eqn:Hbs.
      destruct bs as [|y bs].
      * (* end of file *)
        assert (Hb : b = []).
        { destruct b; [reflexivity|]. destruct cap; [lia|]. discriminate. }
        subst b. cbn [length Nat.eqb andb] in E. apply Nat.ltb_ge in E.
        assert (Hw0 : wr = 0) by lia.
        assert (Hws : ws = WDone) by (destruct ws; congruence).
        apply Some_inj in Hs. subst s'. rewrite skipn_nil. split.
        -- inv_fields; [> triv | triv | triv | triv | triv | triv | triv | ].
           intros _. auto.
        -- unfold_measure. subst ws wr. cbn [length Nat.eqb Nat.ltb Nat.leb andb]. lia.
      * (* some bytes *)
        apply Some_inj in Hs. subst s'.
        assert (Hfl : length (firstn cap b) + length (skipn cap b) = length b)
          by apply firstn_skipn_len.
        rewrite <- Hbs in Hfl. cbn [length] in Hfl.
        split.
        -- inv_fields; [> | | triv | triv | triv | triv | triv | triv ].
           ++ rewrite <- Hcons. rewrite Hbs. rewrite <- !app_assoc. f_equal.
              rewrite app_assoc. rewrite firstn_skipn. reflexivity.
           ++ lia.
        -- unfold_measure.
           destruct ws; destruct cu; dec_ifs; lia.
  - (* RWait *)
    unfold ready_r, wopen in Hs; cbn [cur rest pp recvd wst rst buf rrefs wrefs] in Hs.
    destruct (negb (0 <? wr) || negb (length b =? 0)) eqn:E; [|discriminate].
    apply Some_inj in Hs. subst s'. split.
    + inv_fields; [> triv | triv | triv | triv | triv | triv | triv | triv ].
    + unfold_measure.
      assert (Hb : ((length b =? 0) && (0 <? wr)) = false).
      { destruct (length b =? 0), (0 <? wr); cbn in *; congruence. }
      rewrite Hb. lia.
  - discriminate.
Qed.

Lemma step_ok c chunks s l s' :
  cfg_ok c -> Inv c chunks s -> proper l -> step c s l = Some s' ->
  Inv c chunks s' /\ measure c s' < measure c s.
Proof.
  intros Hc HI Hl Hs. destruct l as [|cap| |]; cbn [step proper] in *; try contradiction.
  - eapply step_w_ok; eauto.
  - eapply step_r_ok; eauto.
Qed.

(* A spurious wake-up keeps the invariant and costs at most one unit. *)
Lemma step_spur_ok c chunks s l s' :
  Inv c chunks s -> spurious l = true -> step c s l = Some s' ->
  Inv c chunks s' /\ measure c s' <= S (measure c s).
Proof.
  intros HI Hl Hs.
  destruct s as [cu re [b rr wr] rc ws rs].
  destruct HI as [Hcons Hcap Hrr Hwr Hnf Hcl Hwt Hrd]; simp_fields.
  destruct l; try discriminate; cbn [step wst rst cur rest pp recvd] in Hs.
  - destruct ws; try discriminate. apply Some_inj in Hs. subst s'. split.
    + inv_fields; [> triv | triv | triv | triv | triv | triv | triv | ].
      intros H; apply Hrd in H. destruct H; discriminate.
    + unfold_measure. destruct cu; dec_ifs; lia.
  - destruct rs; try discriminate. apply Some_inj in Hs. subst s'. split.
    + inv_fields; [> triv | triv | triv | triv | triv | triv | triv | triv ].
    + unfold_measure. dec_ifs; lia.
Qed.

Lemma label_cases l : label_ok l -> proper l \/ spurious l = true.
Proof. destruct l; cbn; auto. Qed.

Lemma run_ok c chunks ls : forall s s',
  cfg_ok c -> Inv c chunks s -> Forall label_ok ls -> run c s ls = Some s' ->
  Inv c chunks s' /\ length ls + measure c s' <= measure c s + 2 * count_spurious ls.
Proof.
  induction ls as [|l ls IH]; intros s s' Hc HI Hls Hr; cbn [run] in Hr.
  - apply Some_inj in Hr. subst s'. split; [assumption | cbn; lia].
  - destruct (step c s l) as [s1|] eqn:Es; [|discriminate].
    inversion Hls as [|? ? Hl Hls']; subst.
    unfold count_spurious in *. cbn [filter].
    destruct (label_cases l Hl) as [Hp|Hsp].
    + destruct (step_ok c chunks s l s1 Hc HI Hp Es) as [HI1 Hm1].
      destruct (IH s1 s' Hc HI1 Hls' Hr) as [HI' Hm'].
      split; [assumption|]. destruct (spurious l); cbn [length]; lia.
    + destruct (step_spur_ok c chunks s l s1 HI Hsp Es) as [HI1 Hm1].
      destruct (IH s1 s' Hc HI1 Hls' Hr) as [HI' Hm'].
      split; [assumption|]. rewrite Hsp. cbn [length]. lia.
Qed.

(* ------------------------------------------------------------------------ *)
(* Conservation needs no assumption at all. *)
Definition conserved (chunks : list (list N)) (s : xstate) : Prop :=
  recvd s ++ buf (pp s) ++ cur s ++ concat (rest s) = concat chunks.

Lemma step_conserved c chunks s l s' :
  conserved chunks s -> step c s l = Some s' -> conserved chunks s'.
Proof.
  unfold conserved. intros Hcons Hs.
  destruct s as [cu re [b rr wr] rc ws rs]; simp_fields.
  destruct l as [|cap| |]; cbn [step] in Hs;
    [ | | cbn [wst] in Hs; destruct ws; try discriminate; apply Some_inj in Hs; subst s'; exact Hcons
        | cbn [rst] in Hs; destruct rs; try discriminate; apply Some_inj in Hs; subst s'; exact Hcons ].
  - unfold step_w in Hs; cbn [cur rest pp recvd wst rst buf rrefs wrefs] in Hs.
    destruct ws; try discriminate.
    + destruct cu as [|x cu].
      * destruct re as [|ch re]; apply Some_inj in Hs; subst s'; simp_fields; exact Hcons.
      * unfold fifo_write, set_buf in Hs; cbn [cur rest pp recvd wst rst buf rrefs wrefs] in Hs.
        remember (x :: cu) as d eqn:Hd.
        destruct (negb (ropen {| buf := b; rrefs := rr; wrefs := wr |}));
          [apply Some_inj in Hs; subst s'; exact Hcons|].
        destruct (psize c <? length b); [apply Some_inj in Hs; subst s'; exact Hcons|].
        destruct (psize c - length b <? length d).
        -- destruct ((psize c - length b =? 0) || (length d <=? pbuf c));
             [apply Some_inj in Hs; subst s'; exact Hcons|].
           remember (psize c - length b) as room.
           destruct room as [|room']; cbv beta match in Hs; apply Some_inj in Hs; subst s';
             simp_fields; [cbn [firstn]; rewrite app_nil_r; exact Hcons|].
           rewrite <- Hcons. rewrite <- !app_assoc. f_equal. f_equal.
           rewrite app_assoc. rewrite firstn_skipn. reflexivity.
        -- destruct (length d) as [|n] eqn:Eld; cbv beta match in Hs; apply Some_inj in Hs; subst s';
             simp_fields; [subst d; discriminate Eld|].
           assert (Hsk : skipn (S n) d = []).
           { apply length_zero_nil. rewrite skipn_length. lia. }
           rewrite Hsk. rewrite <- Hcons. rewrite <- !app_assoc. reflexivity.
    + destruct (ready_w c {| buf := b; rrefs := rr; wrefs := wr |}); [|discriminate].
      apply Some_inj in Hs; subst s'; exact Hcons.
    + apply Some_inj in Hs; subst s'; exact Hcons.
  - unfold step_r in Hs; cbn [cur rest pp recvd wst rst buf rrefs wrefs] in Hs.
    destruct rs; try discriminate.
    + unfold fifo_read, set_buf in Hs; cbn [cur rest pp recvd wst rst buf rrefs wrefs] in Hs.
      destruct (cap =? 0); [apply Some_inj in Hs; subst s'; exact Hcons|].
      destruct ((length b =? 0) && wopen {| buf := b; rrefs := rr; wrefs := wr |});
        [apply Some_inj in Hs; subst s'; exact Hcons|].
      remember (firstn cap b) as bs eqn:Hbs.
      destruct bs as [|y bs]; apply Some_inj in Hs; subst s'; simp_fields.
      * rewrite <- Hcons. f_equal. rewrite <- (firstn_skipn cap b) at 2. rewrite <- Hbs. reflexivity.
      * rewrite <- Hcons. rewrite Hbs. rewrite <- !app_assoc. f_equal.
        rewrite app_assoc. rewrite firstn_skipn. reflexivity.
    + destruct (ready_r {| buf := b; rrefs := rr; wrefs := wr |}); [|discriminate].
      apply Some_inj in Hs; subst s'; exact Hcons.
Qed.

Lemma run_conserved c chunks ls : forall s s',
  conserved chunks s -> run c s ls = Some s' -> conserved chunks s'.
Proof.
  induction ls as [|l ls IH]; intros s s' Hc Hr; cbn [run] in Hr.
  - apply Some_inj in Hr. subst; assumption.
  - destruct (step c s l) as [s1|] eqn:Es; [|discriminate].
    eapply IH; [|eassumption]. eapply step_conserved; eassumption.
Qed.

Lemma conserved_init chunks : conserved chunks (init chunks).
Proof. unfold conserved, init; cbn. reflexivity. Qed.

Lemma pipe_conservation_lemma c chunks ls s :
  run c (init chunks) ls = Some s ->
  recvd s ++ buf (pp s) ++ cur s ++ concat (rest s) = concat chunks.
Proof. intros Hr. exact (run_conserved c chunks ls _ _ (conserved_init chunks) Hr). Qed.

(* ------------------------------------------------------------------------ *)
(* Reachable states. *)
Lemma reach_inv c chunks ls s :
  cfg_ok c -> Forall label_ok ls -> run c (init chunks) ls = Some s ->
  Inv c chunks s /\ length ls + measure c s <= step_bound chunks + 2 * count_spurious ls.
Proof.
  intros Hc Hls Hr.
  destruct (run_ok c chunks ls _ _ Hc (inv_init c chunks) Hls Hr) as [HI Hm].
  split; [assumption|]. pose proof (measure_init c chunks). lia.
Qed.

Lemma transfer_bounded_lemma c chunks ls s :
  cfg_ok c -> Forall label_ok ls -> run c (init chunks) ls = Some s ->
  length ls <= step_bound chunks + 2 * count_spurious ls.
Proof. intros Hc Hls Hr. destruct (reach_inv c chunks ls s Hc Hls Hr). lia. Qed.

Lemma inv_no_deadlock c chunks s :
  cfg_ok c -> Inv c chunks s -> finished s = false ->
  exists l, proper l /\ step c s l <> None.
Proof.
  intros [Hc1 Hc2] HI Hf.
  destruct s as [cu re [b rr wr] rc ws rs].
  destruct HI as [Hcons Hcap Hrr Hwr Hnf Hcl Hwt Hrd]; simp_fields.
  unfold finished in Hf; cbn [wst rst] in Hf.
  assert (HR : rs = RTry -> exists l, proper l /\
             step c (mkX cu re (mkPipe b rr wr) rc ws rs) l <> None).
  { intros ->. exists (LR 1). split; [cbn; lia|].
    cbn [step]. unfold step_r; cbn [rst].
    destruct (fifo_read _ 1) as [[bs|] p']; [destruct bs|]; discriminate. }
  destruct ws.
  - (* WTry *)
    exists LW. split; [exact I|]. cbn [step]. unfold step_w; cbn [wst cur rest].
    destruct cu; [destruct re; discriminate|].
    destruct (fifo_write _ _ _) as [[[|k]| | |] p']; discriminate.
  - (* WWait *)
    destruct (ready_w c (mkPipe b rr wr)) eqn:Erw.
    + exists LW. split; [exact I|]. cbn [step]. unfold step_w; cbn [wst pp]. rewrite Erw. discriminate.
    + destruct rs.
      * apply HR; reflexivity.
      * exists (LR 1). split; [cbn; lia|]. cbn [step]. unfold step_r; cbn [rst pp].
        unfold ready_w, ropen in Erw; cbn [buf rrefs] in Erw. rewrite Hrr in Erw.
        change (negb (0 <? 1)) with false in Erw. cbn [orb] in Erw. apply Nat.leb_gt in Erw.
        assert (Hrr2 : ready_r (mkPipe b rr wr) = true).
        { unfold ready_r; cbn [buf]. destruct (Nat.eqb_spec (length b) 0); [lia|].
          cbn. apply orb_true_r. }
        rewrite Hrr2. discriminate.
      * destruct (Hrd eq_refl); discriminate.
  - (* WClose *)
    exists LW. split; [exact I|]. cbn [step]. unfold step_w; cbn [wst]. discriminate.
  - (* WDone *)
    destruct rs.
    + apply HR; reflexivity.
    + exists (LR 1). split; [cbn; lia|]. cbn [step]. unfold step_r; cbn [rst pp].
      assert (Hrr2 : ready_r (mkPipe b rr wr) = true).
      { unfold ready_r, wopen; cbn [wrefs]. rewrite Hwr. reflexivity. }
      rewrite Hrr2. discriminate.
    + discriminate.
  - congruence.
Qed.

Lemma no_deadlock_lemma c chunks ls s :
  cfg_ok c -> Forall label_ok ls -> run c (init chunks) ls = Some s ->
  finished s = false -> exists l, proper l /\ step c s l <> None.
Proof.
  intros Hc Hls Hr Hf. destruct (reach_inv c chunks ls s Hc Hls Hr) as [HI _].
  eapply inv_no_deadlock; eassumption.
Qed.

Lemma inv_finished_complete c chunks s :
  Inv c chunks s -> finished s = true -> recvd s = concat chunks.
Proof.
  intros HI Hf. destruct s as [cu re [b rr wr] rc ws rs].
  destruct HI as [Hcons Hcap Hrr Hwr Hnf Hcl Hwt Hrd]; simp_fields.
  unfold finished in Hf; cbn [wst rst] in Hf.
  destruct ws; try discriminate. destruct rs; try discriminate.
  destruct (Hcl (or_intror eq_refl)) as [-> ->].
  destruct (Hrd eq_refl) as [_ ->].
  cbn [app concat] in Hcons. rewrite app_nil_r in Hcons. exact Hcons.
Qed.

Lemma transfer_complete_lemma c chunks ls s :
  cfg_ok c -> Forall label_ok ls -> run c (init chunks) ls = Some s ->
  (forall l, proper l -> step c s l = None) ->
  finished s = true /\ recvd s = concat chunks.
Proof.
  intros Hc Hls Hr Hstuck.
  destruct (reach_inv c chunks ls s Hc Hls Hr) as [HI _].
  destruct (finished s) eqn:Hf.
  - split; [reflexivity|]. eapply inv_finished_complete; eassumption.
  - destruct (inv_no_deadlock c chunks s Hc HI Hf) as [l [Hl Hne]].
    exfalso. apply Hne. apply Hstuck. exact Hl.
Qed.

Lemma finished_complete_lemma c chunks ls s :
  cfg_ok c -> Forall label_ok ls -> run c (init chunks) ls = Some s ->
  finished s = true -> recvd s = concat chunks.
Proof.
  intros Hc Hls Hr Hf. destruct (reach_inv c chunks ls s Hc Hls Hr) as [HI _].
  eapply inv_finished_complete; eassumption.
Qed.

Lemma writer_never_fails_lemma c chunks ls s :
  cfg_ok c -> Forall label_ok ls -> run c (init chunks) ls = Some s ->
  wst s <> WFail /\ length (buf (pp s)) <= psize c.
Proof.
  intros Hc Hls Hr. destruct (reach_inv c chunks ls s Hc Hls Hr) as [HI _].
  destruct HI; split; assumption.
Qed.

(* ------------------------------------------------------------------------ *)
(* Command substitution: trailing newlines. *)

Lemma strip_nl_repeat k : strip_nl (repeat NL k) = [].
Proof.
  induction k as [|k IH]; [reflexivity|].
  cbn [repeat strip_nl]. rewrite IH. rewrite N.eqb_refl. reflexivity.
Qed.

Lemma strip_nl_app_repeat o k :
  (o = [] \/ last o 0%N <> NL) -> strip_nl (o ++ repeat NL k) = o.
Proof.
  induction o as [|x o IH]; intros Hl.
  - cbn [app]. apply strip_nl_repeat.
  - cbn [app strip_nl].
    destruct o as [|y o].
    + cbn [app]. rewrite strip_nl_repeat. cbn [is_nil].
      destruct Hl as [Hl|Hl]; [discriminate|]. cbn [last] in Hl.
      destruct (N.eqb_spec x NL); [contradiction|]. reflexivity.
    + rewrite IH.
      * cbn [is_nil]. rewrite andb_false_r. reflexivity.
      * right. destruct Hl as [Hl|Hl]; [discriminate|]. exact Hl.
Qed.

Lemma strip_nl_spec_lemma s : strip_spec s (strip_nl s).
Proof.
  induction s as [|x t [[k Hk] Hl]].
  - split; [exists 0; reflexivity | left; reflexivity].
  - cbn [strip_nl].
    destruct (N.eqb_spec x NL) as [Hx|Hx]; cbn [andb].
    + destruct (strip_nl t) as [|y t'] eqn:Et; cbn [is_nil].
      * split; [|left; reflexivity]. exists (S k). cbn [repeat app]. subst x. rewrite Hk at 1. reflexivity.
      * split.
        -- exists k. cbn [app]. f_equal. exact Hk.
        -- right. destruct Hl as [Hl|Hl]; [discriminate|]. exact Hl.
    + split.
      * exists k. cbn [app]. f_equal. exact Hk.
      * right. destruct (strip_nl t) as [|y t'] eqn:Et.
        -- cbn [last]. exact Hx.
        -- destruct Hl as [Hl|Hl]; [discriminate|]. exact Hl.
Qed.

Lemma strip_spec_unique_lemma s o : strip_spec s o -> o = strip_nl s.
Proof.
  intros [[k Hk] Hl]. subst s. symmetry. apply strip_nl_app_repeat. exact Hl.
Qed.

Lemma all_nl_repeat k : all_nl (repeat NL k) = true.
Proof. induction k; cbn [repeat all_nl]; [reflexivity|]. rewrite IHk. reflexivity. Qed.

Lemma all_nl_is_repeat s : all_nl s = true -> s = repeat NL (length s).
Proof.
  induction s as [|x t IH]; intros H; [reflexivity|].
  cbn [all_nl] in H. apply andb_true_iff in H. destruct H as [Hx Ht].
  apply N.eqb_eq in Hx. subst x. cbn [length repeat]. f_equal. apply IH. exact Ht.
Qed.

Lemma bytes_eqb_eq a b : bytes_eqb a b = true <-> a = b.
Proof. apply list_eqb_spec. intros; apply N.eqb_eq. Qed.

Lemma bytes_eqb_refl a : bytes_eqb a a = true.
Proof. apply bytes_eqb_eq. reflexivity. Qed.

Lemma strip_okb_iff s o : strip_okb s o = true <-> strip_spec s o.
Proof.
  unfold strip_okb, strip_spec. rewrite !andb_true_iff. split.
  - intros [[H1 H2] H3]. apply bytes_eqb_eq in H1. split.
    + exists (length (skipn (length o) s)). rewrite <- (all_nl_is_repeat _ H2).
      rewrite <- H1 at 1. symmetry. apply firstn_skipn.
    + destruct o as [|y o]; [left; reflexivity|]. right. cbn [is_nil orb] in H3.
      apply negb_true_iff in H3. apply N.eqb_neq in H3. exact H3.
  - intros [[k Hk] Hl]. subst s.
    rewrite firstn_app, Nat.sub_diag, firstn_all. cbn [firstn]. rewrite app_nil_r.
    rewrite skipn_app, Nat.sub_diag, skipn_all. cbn [skipn app].
    rewrite bytes_eqb_refl, all_nl_repeat. split; [split; reflexivity|].
    destruct Hl as [->|Hl]; [reflexivity|].
    destruct o; [reflexivity|]. cbn [is_nil orb]. apply negb_true_iff. apply N.eqb_neq. exact Hl.
Qed.

Lemma strip_oracle_sound_lemma s : strip_okb s (strip_nl s) = true.
Proof. apply strip_okb_iff. apply strip_nl_spec_lemma. Qed.

(* The "count from the end" reading used by the script oracle agrees. *)
Definition tnl_go := fix go (r : str) : nat :=
  match r with
  | x :: t => if N.eqb x NL then S (go t) else 0
  | [] => 0
  end.

Lemma trailing_nl_unfold s : trailing_nl s = tnl_go (rev s).
Proof. reflexivity. Qed.

Lemma tnl_go_repeat k r : tnl_go (repeat NL k ++ r) = k + tnl_go r.
Proof. induction k as [|k IH]; [reflexivity|]. cbn [repeat app tnl_go]. rewrite N.eqb_refl, IH. reflexivity. Qed.

Lemma rev_repeat {A} (x : A) k : rev (repeat x k) = repeat x k.
Proof.
  induction k as [|k IH]; [reflexivity|]. cbn [repeat rev]. rewrite IH.
  clear IH. induction k as [|k IH]; [reflexivity|]. cbn [repeat app]. rewrite IH. reflexivity.
Qed.

Lemma tnl_go_rev_last o : (o = [] \/ last o 0%N <> NL) -> tnl_go (rev o) = 0.
Proof.
  intros [->|Hl]; [reflexivity|].
  destruct o as [|x o] using rev_ind; [reflexivity|].
  rewrite rev_app_distr. cbn [rev app tnl_go]. rewrite last_last in Hl.
  destruct (N.eqb_spec x NL); [contradiction|reflexivity].
Qed.

Lemma strip_nl_as_trailing_lemma s :
  strip_nl s = firstn (length s - trailing_nl s) s.
Proof.
  destruct (strip_nl_spec_lemma s) as [[k Hk] Hl].
  set (o := strip_nl s) in *.
  rewrite Hk. rewrite trailing_nl_unfold, rev_app_distr, rev_repeat, tnl_go_repeat.
  rewrite (tnl_go_rev_last o Hl). rewrite app_length, repeat_length.
  replace (length o + k - (k + 0)) with (length o) by lia.
  rewrite firstn_app, Nat.sub_diag, firstn_all. cbn [firstn]. rewrite app_nil_r. reflexivity.
Qed.

(* ------------------------------------------------------------------------ *)
(* Here-documents. *)

Lemma reg_write_fresh data : reg_write [] 0 data = (data, length data).
Proof.
  unfold reg_write. cbn [length Nat.ltb Nat.leb Nat.sub firstn skipn app].
  rewrite Nat.min_0_r. cbn [firstn skipn app Nat.add]. reflexivity.
Qed.

Lemma skipn_add {A} a : forall b (l : list A), skipn (a + b) l = skipn b (skipn a l).
Proof.
  induction a as [|a IH]; intros b l; [reflexivity|].
  destruct l as [|x l]; cbn [Nat.add skipn]; [destruct b; reflexivity | apply IH].
Qed.

Lemma skipn_firstn_len {A} cap (l : list A) : skipn (length (firstn cap l)) l = skipn cap l.
Proof.
  rewrite firstn_length.
  destruct (Nat.le_ge_cases cap (length l)) as [Hle|Hge].
  - rewrite Nat.min_l by assumption. reflexivity.
  - rewrite Nat.min_r by assumption. rewrite !skipn_all2; [reflexivity | assumption | lia].
Qed.

Lemma reg_read_all_ok fuel : forall content off caps dflt,
  Forall (fun n => 1 <= n) caps -> 1 <= dflt -> length content - off < fuel ->
  reg_read_all fuel content off caps dflt = Some (skipn off content).
Proof.
  induction fuel as [|fuel IH]; intros content off caps dflt Hcaps Hd Hf; [lia|].
  cbn [reg_read_all].
  assert (Hcap : exists cap caps', (match caps with [] => (dflt, []) | x :: r => (x, r) end) = (cap, caps')
                 /\ 1 <= cap /\ Forall (fun n => 1 <= n) caps').
  { destruct caps as [|x r]; [exists dflt, []; auto|].
    inversion Hcaps; subst. exists x, r; auto. }
  destruct Hcap as [cap [caps' [-> [Hc1 Hcaps']]]].
  unfold reg_read.
  remember (firstn cap (skipn off content)) as bs eqn:Hbs.
  destruct bs as [|y bs].
  - assert (Hsk : skipn off content = []).
    { destruct (skipn off content); [reflexivity|]. destruct cap; [lia|]. discriminate. }
    rewrite Hsk. reflexivity.
  - rewrite IH; auto.
    + f_equal. rewrite Hbs. rewrite skipn_add, skipn_firstn_len. apply firstn_skipn.
    + assert (Hl : length (firstn cap (skipn off content)) <= length (skipn off content)).
      { rewrite firstn_length. apply Nat.le_min_r. }
      rewrite <- Hbs in Hl. rewrite skipn_length in Hl. cbn [length] in *. lia.
Qed.

Lemma heredoc_bytes_exact_lemma content caps dflt :
  Forall (fun n => 1 <= n) caps -> 1 <= dflt ->
  heredoc_transfer content caps dflt = Some content.
Proof.
  intros Hcaps Hd. unfold heredoc_transfer. rewrite reg_write_fresh.
  rewrite reg_read_all_ok; auto. cbn [length]. lia.
Qed.

(* ------------------------------------------------------------------------ *)
(* The coarse polls used by the correspondence check are runs of the fine
   transition system. *)

Lemma poll_w_loop_run fuel : forall c s s',
  poll_w_loop fuel c s = Some s' ->
  exists ls, Forall (fun l => l = LW) ls /\ run c s ls = Some s'.
Proof.
  induction fuel as [|fuel IH]; intros c s s' H; [discriminate|].
  cbn [poll_w_loop] in H.
  assert (Hstop : Some s = Some s' -> exists ls, Forall (fun l => l = LW) ls /\ run c s ls = Some s').
  { intros E. exists []. split; [constructor | exact E]. }
  destruct (wst s) eqn:Ew; auto.
  - destruct (step_w c s) as [s1|] eqn:Es; auto.
    destruct (IH c s1 s' H) as [ls [Hls Hr]].
    exists (LW :: ls). split; [constructor; auto|]. cbn [run step]. rewrite Es. exact Hr.
  - destruct (step_w c s) as [s1|] eqn:Es; auto.
    destruct (IH c s1 s' H) as [ls [Hls Hr]].
    exists (LW :: ls). split; [constructor; auto|]. cbn [run step]. rewrite Es. exact Hr.
Qed.

Lemma poll_w_run c s s' :
  poll_w c s = Some s' ->
  exists ls, Forall (fun l => l = LW \/ l = LSpurW) ls /\ run c s ls = Some s'.
Proof.
  unfold poll_w. intros H.
  destruct (wst s) eqn:Ew;
    try (destruct (poll_w_loop_run _ _ _ _ H) as [ls [Hls Hr]]; exists ls; split; [|exact Hr];
         eapply Forall_impl; [|exact Hls]; intros; left; assumption).
  destruct (poll_w_loop_run _ _ _ _ H) as [ls [Hls Hr]].
  exists (LSpurW :: ls). split.
  - constructor; [right; reflexivity|]. eapply Forall_impl; [|exact Hls]. intros; left; assumption.
  - cbn [run step]. rewrite Ew. exact Hr.
Qed.

Lemma poll_r_loop_run fuel : forall s caps dflt s' caps',
  poll_r_loop fuel s caps dflt = Some (s', caps') ->
  exists ls, Forall (fun l => exists cap, l = LR cap /\ (In cap caps \/ cap = dflt)) ls
             /\ run cfg_repo s ls = Some s'.
Proof.
  induction fuel as [|fuel IH]; intros s caps dflt s' caps' H; [discriminate|].
  cbn [poll_r_loop] in H.
  assert (Hstop : forall x, Some (s, x) = Some (s', caps') ->
            exists ls, Forall (fun l => exists cap, l = LR cap /\ (In cap caps \/ cap = dflt)) ls
                       /\ run cfg_repo s ls = Some s').
  { intros x E. inversion E; subst. exists []. split; [constructor | reflexivity]. }
  destruct (rst s) eqn:Er; eauto.
  destruct caps as [|x r].
  - destruct (step_r s dflt) as [s1|] eqn:Es; eauto.
    destruct (IH _ _ _ _ _ H) as [ls [Hls Hr]].
    exists (LR dflt :: ls). split.
    + constructor; [exists dflt; auto|]. exact Hls.
    + cbn [run step]. rewrite Es. exact Hr.
  - destruct (step_r s x) as [s1|] eqn:Es; eauto.
    destruct (IH _ _ _ _ _ H) as [ls [Hls Hr]].
    exists (LR x :: ls). split.
    + constructor; [exists x; split; [reflexivity | left; left; reflexivity]|].
      eapply Forall_impl; [|exact Hls]. intros l [cap [E [Hin|Hd]]]; exists cap; split; auto.
      left. right. exact Hin.
    + cbn [run step]. rewrite Es. exact Hr.
Qed.

(* ------------------------------------------------------------------------ *)
(* Non-vacuity: concrete runs that meet the hypotheses of the theorems. *)
Definition ex_cfg : cfg := mkCfg 2 4.
Definition ex_chunks : list (list N) := [[1; 2; 3; 4; 5; 6; 7]; []; [8; 9]]%N.
Definition ex_sched : list label :=
  [LR 3; LW; LW; LSpurR; LW; LR 1; LR 1; LR 3; LW; LW; LW; LW; LW;
   LR 1; LR 3; LW; LW; LW; LW; LR 1; LR 1; LR 3].

Example ex_cfg_ok : cfg_ok ex_cfg.
Proof. unfold cfg_ok, ex_cfg; cbn; lia. Qed.

Example ex_labels_ok : Forall label_ok ex_sched.
Proof. repeat constructor. Qed.

Example ex_run_finishes :
  exists s, run ex_cfg (init ex_chunks) ex_sched = Some s /\ finished s = true
            /\ recvd s = [1; 2; 3; 4; 5; 6; 7; 8; 9]%N.
Proof. eexists. vm_compute. repeat split. Qed.

(* a reachable state in which both parties wait and the pipe is full: the
   hypotheses of no_deadlock hold with finished = false *)
Example ex_run_midway :
  exists s, run ex_cfg (init ex_chunks) [LW; LW; LW] = Some s /\ finished s = false
            /\ wst s = WWait /\ length (buf (pp s)) = 4.
Proof. eexists. vm_compute. repeat split. Qed.

(* the hypothesis "no proper label is enabled" of transfer_complete_in_order is
   satisfiable: it holds in the final state of the run above *)
Example ex_final_is_stuck :
  exists s, run ex_cfg (init ex_chunks) ex_sched = Some s /\
            forall l, proper l -> step ex_cfg s l = None.
Proof.
  eexists. split; [vm_compute; reflexivity|].
  intros [|cap| |] H; try contradiction; reflexivity.
Qed.

Example ex_strip : strip_nl [97; 10; 10; 98; 10; 10; 10]%N = [97; 10; 10; 98]%N.
Proof. reflexivity. Qed.
