(* C14 — the pipe model refines the abstract byte stream of Spec.v for every
   history of system calls (= the stream-A oracle never rejects the model). *)
From Yv Require Import Common.Base C14.Model C14.Spec C14.Proofs.
From Coq Require Import Arith.

Fixpoint model_hist (c : cfg) (p : pipe) (ops : list op) : list (op * obs) :=
  match ops with
  | [] => []
  | o :: r => let (b, p') := pipe_step c p o in (o, b) :: model_hist c p' r
  end.

(* every operation is applied to an end that is still open *)
Fixpoint ops_ok (c : cfg) (p : pipe) (ops : list op) : bool :=
  match ops with
  | [] => true
  | o :: r => op_ok p o && ops_ok c (snd (pipe_step c p o)) r
  end.

Record Sim (c : cfg) (p : pipe) (t : stream) : Prop := mkSim {
  sim_buf : buf p = skipn (delivered t) (accepted t);
  sim_del : delivered t <= length (accepted t);
  sim_r : rrefs p = r_open t;
  sim_w : wrefs p = w_open t;
  sim_cap : length (buf p) <= psize c }.

Lemma sim_occ c p t : Sim c p t -> occupancy t = length (buf p).
Proof. intros [Hb Hd _ _ _]. unfold occupancy. rewrite Hb, skipn_length. reflexivity. Qed.

Lemma sim_init c : Sim c new_pipe stream0.
Proof. constructor; cbn; auto; lia. Qed.

Lemma skipn_app_le {A} n (l1 l2 : list A) : n <= length l1 -> skipn n (l1 ++ l2) = skipn n l1 ++ l2.
Proof.
  intros H. rewrite skipn_app. replace (n - length l1) with 0 by lia. reflexivity.
Qed.

Lemma firstn_firstn_len {A} cap (l : list A) : firstn (length (firstn cap l)) l = firstn cap l.
Proof.
  rewrite firstn_length.
  destruct (Nat.le_ge_cases cap (length l)) as [Hle|Hge].
  - rewrite Nat.min_l by assumption. reflexivity.
  - rewrite Nat.min_r by assumption. rewrite !firstn_all2; [reflexivity | assumption | lia].
Qed.

Ltac bdall :=
  repeat match goal with
  | |- context [?a <? ?b] => destruct (Nat.ltb_spec a b)
  | |- context [?a <=? ?b] => destruct (Nat.leb_spec a b)
  | |- context [?a =? ?b] => destruct (Nat.eqb_spec a b)
  end; cbn [andb orb negb].

Lemma sim_step c p t o b p' :
  cfg_ok c -> Sim c p t -> op_ok p o = true -> pipe_step c p o = (b, p') ->
  exists t', spec_step c t o b = (None, t') /\ Sim c p' t'.
Proof.
  intros [Hc1 Hc2] HS Hok Hst.
  pose proof (sim_occ c p t HS) as Hocc.
  destruct HS as [Hb Hd Hr Hw Hcap].
  destruct p as [bf rr wr]; cbn [buf rrefs wrefs] in *.
  destruct o; cbn [pipe_step op_ok] in *.
  - (* write *)
    destruct data as [|x data'] eqn:Ed; cbn [is_nil] in Hst.
    + inversion Hst; subst b p'; clear Hst.
      eexists. split; [cbn [spec_step is_nil]; reflexivity|].
      constructor; cbn [buf rrefs wrefs accepted delivered r_open w_open firstn]; auto.
      rewrite app_nil_r. assumption. rewrite app_nil_r. assumption.
    + rewrite <- Ed in *. assert (Hdl : 1 <= length data) by (subst data; cbn; lia).
      assert (Hnil : is_nil data = false) by (subst data; reflexivity).
      clear Ed x data'.
      unfold fifo_write, ropen, set_buf in Hst; cbn [buf rrefs wrefs] in Hst.
      destruct (Nat.ltb_spec 0 rr) as [Hrr|Hrr]; cbn [negb] in Hst.
      2:{ inversion Hst; subst b p'; clear Hst. eexists. split.
          - cbn [spec_step]. rewrite <- Hr.
            destruct (Nat.ltb_spec 0 rr); [lia|]. reflexivity.
          - constructor; auto. }
      destruct (Nat.ltb_spec (psize c) (length bf)) as [|_]; [lia|].
      destruct (Nat.ltb_spec (psize c - length bf) (length data)) as [Hroom|Hroom].
      * destruct ((psize c - length bf =? 0) || (length data <=? pbuf c)) eqn:E3.
        -- (* EAGAIN *)
           inversion Hst; subst b p'; clear Hst. eexists. split.
           ++ cbn [spec_step]. rewrite <- Hr, Hocc.
              destruct (Nat.ltb_spec 0 rr); [|lia]. cbn [negb].
              destruct (Nat.leb_spec (length data) (psize c - length bf)); [lia|].
              apply orb_true_iff in E3. destruct E3 as [E3|E3].
              ** apply Nat.eqb_eq in E3. rewrite E3. rewrite andb_false_r. reflexivity.
              ** apply Nat.leb_le in E3.
                 destruct (Nat.ltb_spec (pbuf c) (length data)); [lia|]. reflexivity.
           ++ constructor; auto.
        -- (* partial *)
           apply orb_false_iff in E3. destruct E3 as [E3 E4].
           apply Nat.eqb_neq in E3. apply Nat.leb_gt in E4.
           inversion Hst; subst b p'; clear Hst.
           set (room := psize c - length bf) in *.
           assert (Hfl : length (firstn room data) = room) by (rewrite firstn_length; lia).
           eexists. split.
           ++ cbn [spec_step]. rewrite Hnil. rewrite <- Hr.
              unfold occupancy; cbn [accepted delivered].
              rewrite app_length, Hfl.
              assert (Ho : length (accepted t) - delivered t = length bf)
                by (unfold occupancy in Hocc; exact Hocc).
              replace (length (accepted t) + room - delivered t) with (length bf + room) by lia.
              rewrite Ho. fold room.
              bdall; try lia; reflexivity.
           ++ constructor; cbn [buf rrefs wrefs accepted delivered r_open w_open]; auto.
              ** rewrite skipn_app_le by assumption. rewrite <- Hb. reflexivity.
              ** rewrite app_length. lia.
              ** rewrite app_length, Hfl. unfold room. lia.
      * (* everything fits *)
        inversion Hst; subst b p'; clear Hst.
        eexists. split.
        -- cbn [spec_step]. rewrite Hnil. rewrite <- Hr. rewrite firstn_all.
           unfold occupancy; cbn [accepted delivered]. rewrite app_length.
           assert (Ho : length (accepted t) - delivered t = length bf)
             by (unfold occupancy in Hocc; exact Hocc).
           replace (length (accepted t) + length data - delivered t) with (length bf + length data) by lia.
           rewrite Ho.
           bdall; try lia; reflexivity.
        -- constructor; cbn [buf rrefs wrefs accepted delivered r_open w_open]; auto.
           ++ try rewrite firstn_all. rewrite skipn_app_le by assumption. rewrite <- Hb. reflexivity.
           ++ rewrite app_length. lia.
           ++ rewrite app_length. lia.
  - (* read *)
    unfold fifo_read, wopen, set_buf in Hst; cbn [buf rrefs wrefs] in Hst.
    destruct (Nat.eqb_spec cap 0) as [Hc0|Hc0].
    + inversion Hst; subst b p'; clear Hst. subst cap.
      eexists. split.
      * cbn [spec_step length firstn]. cbn. reflexivity.
      * constructor; cbn [buf rrefs wrefs accepted delivered r_open w_open length]; auto.
        -- rewrite Nat.add_0_r. assumption.
        -- lia.
    + destruct ((length bf =? 0) && (0 <? wr)) eqn:E.
      * inversion Hst; subst b p'; clear Hst.
        apply andb_true_iff in E. destruct E as [E1 E2].
        apply Nat.eqb_eq in E1. apply Nat.ltb_lt in E2.
        eexists. split.
        -- cbn [spec_step]. rewrite Hocc, <- Hw, E1.
           destruct (Nat.ltb_spec 0 0); [lia|].
           destruct (Nat.ltb_spec 0 wr); [|lia].
           destruct (Nat.eqb_spec cap 0); [lia|]. reflexivity.
        -- constructor; auto.
      * inversion Hst; subst b p'; clear Hst.
        assert (Hle : length (firstn cap bf) <= length bf) by (rewrite firstn_length; lia).
        exists (mkStream (accepted t) (delivered t + length (firstn cap bf)) (r_open t) (w_open t)).
        split.
        -- cbn [spec_step]. f_equal.
           rewrite <- Hb. rewrite firstn_firstn_len.
           rewrite bytes_eqb_refl. cbn [negb].
           destruct (Nat.ltb_spec cap (length (firstn cap bf))) as [Hx|_];
             [rewrite firstn_length in Hx; lia|].
           rewrite Hocc, <- Hw.
           destruct (firstn cap bf) eqn:Ef; cbn [is_nil andb]; [|reflexivity].
           assert (Hbf : bf = []) by (destruct bf; [reflexivity|]; destruct cap; [lia|discriminate]).
           rewrite Hbf in E |- *. cbn [length Nat.eqb andb] in E. cbn [length].
           destruct (Nat.eqb_spec cap 0); [lia|]. cbn [negb andb].
           destruct (Nat.ltb_spec 0 0); [lia|]. cbn [orb].
           rewrite E. reflexivity.
        -- constructor; cbn [buf rrefs wrefs accepted delivered r_open w_open]; auto.
           ++ rewrite skipn_add. rewrite <- Hb. rewrite skipn_firstn_len. reflexivity.
           ++ assert (length bf = length (accepted t) - delivered t)
                by (rewrite Hb, skipn_length; reflexivity). lia.
           ++ rewrite skipn_length. lia.
  - inversion Hst; subst b p'. eexists. split; [reflexivity|]. constructor; cbn; auto.
  - inversion Hst; subst b p'. eexists. split; [reflexivity|]. constructor; cbn; auto.
  - inversion Hst; subst b p'. eexists. split; [reflexivity|]. constructor; cbn; auto.
  - inversion Hst; subst b p'. eexists. split; [reflexivity|]. constructor; cbn; auto.
  - inversion Hst; subst b p'; clear Hst. exists t. split; [|constructor; cbn [buf rrefs wrefs]; auto].
    cbn [spec_step]. rewrite Hocc, <- Hw, <- Hr.
    unfold ready_r, ready_w, wopen, ropen; cbn [buf rrefs wrefs].
    assert (E1 : Bool.eqb (negb (0 <? wr) || negb (length bf =? 0))
                          ((0 <? length bf) || negb (0 <? wr)) = true).
    { destruct (Nat.ltb_spec 0 wr), (Nat.eqb_spec (length bf) 0), (Nat.ltb_spec 0 (length bf));
        cbn; try reflexivity; lia. }
    rewrite E1. cbn [negb]. rewrite Bool.eqb_reflx. reflexivity.
Qed.

Lemma model_hist_accepted c ops : forall p t,
  cfg_ok c -> Sim c p t -> ops_ok c p ops = true ->
  spec_run c t (model_hist c p ops) = None.
Proof.
  induction ops as [|o r IH]; intros p t Hc HS Hok; [reflexivity|].
  cbn [ops_ok] in Hok. apply andb_true_iff in Hok. destruct Hok as [Ho Hr].
  cbn [model_hist]. destruct (pipe_step c p o) as [b p'] eqn:Est. cbn [snd] in Hr.
  destruct (sim_step c p t o b p' Hc HS Ho Est) as [t' [Hsp HS']].
  cbn [spec_run]. rewrite Hsp. apply IH; assumption.
Qed.

Lemma pipe_refines_stream_lemma c ops :
  cfg_ok c -> ops_ok c new_pipe ops = true ->
  spec_run c stream0 (model_hist c new_pipe ops) = None.
Proof. intros Hc Hok. apply model_hist_accepted; auto using sim_init. Qed.

Example ex_pipe_hist :
  ops_ok ex_cfg new_pipe [OWrite [1;2;3]%N; OWrite [4;5;6]%N; ORead 2; ODupW; OCloseW; OWrite [7;8]%N;
                          OCloseW; ORead 9; ORead 1; OCloseR] = true.
Proof. reflexivity. Qed.
