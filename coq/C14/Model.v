(* C14 — executable model of the simulated pipe and of the retry loops that move
   data through it.

   Anchors (yash-rs):
     yash-env/src/system/virtual/file_body.rs   FileBody::Fifo, poll_read, poll_write,
                                                is_ready_for_reading / _writing, open, close,
                                                PIPE_BUF, PIPE_SIZE; FileBody::Regular
     yash-env/src/system/virtual/io.rs          OpenFileDescription::{poll_read, poll_write,
                                                poll_write_full, seek} (non-blocking => EAGAIN)
     yash-env/src/system/concurrency/rw_all.rs  write_all / read_all_to
     yash-env/src/system/concurrency.rs         Read/Write for Rc<Concurrent<S>>, yield_once,
                                                select_impl / wake_tasks_for_ready_fds
     yash-semantics/src/expansion/initial/command_subst.rs  expand_common (trailing newlines)
     yash-semantics/src/redir/here_doc.rs       open_fd / fill_content

   Bytes and characters are [N]; lengths, capacities and reference counts are
   [nat] (they are lengths of lists here). *)
From Yv Require Import Common.Base.

(* ------------------------------------------------------------------------ *)
(* Configuration: the two constants of file_body.rs.  The harness reads the
   real constants from the crate and sends them with every case; the theorems
   hold for every configuration with 1 <= PIPE_BUF <= PIPE_SIZE. *)
Record cfg := mkCfg { pbuf : nat; psize : nat }.

Definition cfg_ok (c : cfg) : Prop := 1 <= pbuf c /\ pbuf c <= psize c.
Definition cfg_okb (c : cfg) : bool := (1 <=? pbuf c) && (pbuf c <=? psize c).

(* The values in the tree at the time of writing (PIPE_SIZE = PIPE_BUF * 2). *)
Definition cfg_repo : cfg := mkCfg 512 1024.

(* ------------------------------------------------------------------------ *)
(* The pipe.  An anonymous pipe has one open file description per end; file
   descriptors (dup, fork) share it, and [FileBody::close] runs when the last
   descriptor of an end goes away (Drop of OpenFileDescription).  [rrefs] and
   [wrefs] count the descriptors; "readers > 0" in the code is [0 < rrefs]. *)
Record pipe := mkPipe { buf : list N; rrefs : nat; wrefs : nat }.

Definition ropen (p : pipe) : bool := 0 <? rrefs p.
Definition wopen (p : pipe) : bool := 0 <? wrefs p.
Definition set_buf (p : pipe) (b : list N) : pipe := mkPipe b (rrefs p) (wrefs p).

Definition new_pipe : pipe := mkPipe [] 1 1.

Definition is_nil {A} (l : list A) : bool := match l with [] => true | _ => false end.

Inductive wres := WOk (n : nat) | WAgain | WEpipe | WPanic.
Inductive rres := ROk (bytes : list N) | RAgain.

(* FileBody::poll_write on a Fifo through a non-blocking open file description
   (Pending => EAGAIN).  [WPanic]: `PIPE_SIZE - content.len()` would underflow. *)
Definition fifo_write (c : cfg) (p : pipe) (data : list N) : wres * pipe :=
  if negb (ropen p) then (WEpipe, p)
  else if psize c <? length (buf p) then (WPanic, p)
  else
    let room := psize c - length (buf p) in
    if room <? length data then
      if (room =? 0) || (length data <=? pbuf c) then (WAgain, p)
      else (WOk room, set_buf p (buf p ++ firstn room data))
    else (WOk (length data), set_buf p (buf p ++ data)).

(* FileBody::poll_read on a Fifo, non-blocking. *)
Definition fifo_read (p : pipe) (cap : nat) : rres * pipe :=
  if cap =? 0 then (ROk [], p)
  else if (length (buf p) =? 0) && wopen p then (RAgain, p)
  else (ROk (firstn cap (buf p)), set_buf p (skipn cap (buf p))).

Definition ready_r (p : pipe) : bool := negb (wopen p) || negb (length (buf p) =? 0).
Definition ready_w (c : cfg) (p : pipe) : bool :=
  negb (ropen p) || (pbuf c <=? psize c - length (buf p)).

(* ------------------------------------------------------------------------ *)
(* Stream A: operations on one pipe through the public system-call API. *)
Inductive op :=
  | OWrite (data : list N)        (* write(wfd, data), O_NONBLOCK set *)
  | ORead (cap : nat)             (* read(rfd, buffer of cap bytes), O_NONBLOCK set *)
  | ODupW | ODupR                 (* dup of the write / read descriptor *)
  | OCloseW | OCloseR             (* close one descriptor of that end *)
  | OPoll.                        (* select readiness of both ends *)

Inductive obs :=
  | BW (r : wres)
  | BR (r : rres)
  | BUnit
  | BPoll (r w : bool).

Definition op_ok (p : pipe) (o : op) : bool :=
  match o with
  | OWrite _ | ODupW | OCloseW => wopen p
  | ORead _ | ODupR | OCloseR => ropen p
  | OPoll => wopen p && ropen p
  end.

Definition pipe_step (c : cfg) (p : pipe) (o : op) : obs * pipe :=
  match o with
  | OWrite d =>
      (* OpenFileDescription::poll_write_full: an empty request returns Ok(0)
         before the file is looked at *)
      if is_nil d then (BW (WOk 0), p)
      else let (r, p') := fifo_write c p d in (BW r, p')
  | ORead cap => let (r, p') := fifo_read p cap in (BR r, p')
  | ODupW => (BUnit, mkPipe (buf p) (rrefs p) (S (wrefs p)))
  | ODupR => (BUnit, mkPipe (buf p) (S (rrefs p)) (wrefs p))
  | OCloseW => (BUnit, mkPipe (buf p) (rrefs p) (pred (wrefs p)))
  | OCloseR => (BUnit, mkPipe (buf p) (pred (rrefs p)) (wrefs p))
  | OPoll => (BPoll (ready_r p) (ready_w c p), p)
  end.

(* ------------------------------------------------------------------------ *)
(* Stream B / the theorems: a writer that runs `write_all` on each chunk of a
   list of chunks and then closes its end, and a reader that reads until end of
   file, as a transition system.  One label = one system call (or one wake-up)
   of one party; the scheduler is the list of labels. *)

Inductive wpc :=
  | WTry      (* about to call write (or to fetch the next chunk) *)
  | WWait     (* got EAGAIN / Ok(0); registered for write readiness, yielded *)
  | WClose    (* all chunks written; about to close the write end *)
  | WDone
  | WFail.    (* write_all returned an error (EPIPE) or the model panicked *)

Inductive rpc :=
  | RTry      (* about to call read *)
  | RWait     (* got EAGAIN; registered for read readiness, yielded *)
  | RDone.    (* read returned 0: end of file *)

Record xstate := mkX {
  cur : list N;            (* rest of the chunk being written *)
  rest : list (list N);    (* chunks not yet started *)
  pp : pipe;
  recvd : list N;          (* bytes the reader has collected, in order *)
  wst : wpc;
  rst : rpc }.

(* LW / LR cap: the writer / the reader does its next action (a system call, or
   the wake-up by `select` when its descriptor is ready).
   LSpurW / LSpurR: a spurious wake-up: the run loop polls the task again for an
   unrelated reason (a signal, an error from select) and the yielded party
   re-tries its system call although its descriptor was not reported ready. *)
Inductive label := LW | LR (cap : nat) | LSpurW | LSpurR.

Definition label_ok (l : label) : Prop :=
  match l with LR cap => 1 <= cap | _ => True end.
Definition label_okb (l : label) : bool :=
  match l with LR cap => 1 <=? cap | _ => true end.

(* labels that stand for real progress (everything but spurious wake-ups) *)
Definition proper (l : label) : Prop :=
  match l with LW => True | LR cap => 1 <= cap | _ => False end.

Definition spurious (l : label) : bool :=
  match l with LSpurW | LSpurR => true | _ => false end.
Definition count_spurious (ls : list label) : nat := length (filter spurious ls).

Definition init (chunks : list (list N)) : xstate := mkX [] chunks new_pipe [] WTry RTry.

Definition step_w (c : cfg) (s : xstate) : option xstate :=
  match wst s with
  | WTry =>
      match cur s with
      | [] =>
          (* write_all returns at once for empty data; between two chunks *)
          match rest s with
          | [] => Some (mkX [] [] (pp s) (recvd s) WClose (rst s))
          | ch :: r => Some (mkX ch r (pp s) (recvd s) WTry (rst s))
          end
      | _ :: _ =>
          match fifo_write c (pp s) (cur s) with
          | (WOk 0, p') | (WAgain, p') => Some (mkX (cur s) (rest s) p' (recvd s) WWait (rst s))
          | (WOk n, p') => Some (mkX (skipn n (cur s)) (rest s) p' (recvd s) WTry (rst s))
          | (WEpipe, p') | (WPanic, p') => Some (mkX (cur s) (rest s) p' (recvd s) WFail (rst s))
          end
      end
  | WWait =>
      (* woken by select only when the descriptor is ready for writing *)
      if ready_w c (pp s) then Some (mkX (cur s) (rest s) (pp s) (recvd s) WTry (rst s)) else None
  | WClose =>
      Some (mkX (cur s) (rest s) (mkPipe (buf (pp s)) (rrefs (pp s)) (pred (wrefs (pp s))))
                (recvd s) WDone (rst s))
  | WDone | WFail => None
  end.

Definition step_r (s : xstate) (cap : nat) : option xstate :=
  match rst s with
  | RTry =>
      match fifo_read (pp s) cap with
      | (RAgain, p') => Some (mkX (cur s) (rest s) p' (recvd s) (wst s) RWait)
      | (ROk [], p') => Some (mkX (cur s) (rest s) p' (recvd s) (wst s) RDone)
      | (ROk bs, p') => Some (mkX (cur s) (rest s) p' (recvd s ++ bs) (wst s) RTry)
      end
  | RWait =>
      if ready_r (pp s) then Some (mkX (cur s) (rest s) (pp s) (recvd s) (wst s) RTry) else None
  | RDone => None
  end.

Definition step (c : cfg) (s : xstate) (l : label) : option xstate :=
  match l with
  | LW => step_w c s
  | LR cap => step_r s cap
  | LSpurW =>
      match wst s with
      | WWait => Some (mkX (cur s) (rest s) (pp s) (recvd s) WTry (rst s))
      | _ => None
      end
  | LSpurR =>
      match rst s with
      | RWait => Some (mkX (cur s) (rest s) (pp s) (recvd s) (wst s) RTry)
      | _ => None
      end
  end.

Fixpoint run (c : cfg) (s : xstate) (ls : list label) : option xstate :=
  match ls with
  | [] => Some s
  | l :: ls => match step c s l with Some s' => run c s' ls | None => None end
  end.

Definition finished (s : xstate) : bool :=
  match wst s, rst s with WDone, RDone => true | _, _ => false end.

(* An upper bound on the number of steps of any run (see Proofs.measure). *)
Definition bytes_left (s : xstate) : nat := length (cur s) + length (concat (rest s)).

Definition step_bound (chunks : list (list N)) : nat :=
  8 * length (concat chunks) + 4 * length chunks + 7.

(* ------------------------------------------------------------------------ *)
(* The coarse steps the harness can observe: one poll of a task runs that
   party until it yields (WWait / RWait) or finishes.  Fuel = an upper bound on
   the number of system calls in one poll; [None] = out of fuel. *)

Definition wpc_eqb (a b : wpc) : bool :=
  match a, b with
  | WTry, WTry | WWait, WWait | WClose, WClose | WDone, WDone | WFail, WFail => true
  | _, _ => false
  end.
Definition rpc_eqb (a b : rpc) : bool :=
  match a, b with RTry, RTry | RWait, RWait | RDone, RDone => true | _, _ => false end.

(* more than the termination measure of the state (Proofs.measure) plus one *)
Definition poll_fuel (s : xstate) : nat :=
  8 * bytes_left s + 4 * length (rest s) + 4 * length (buf (pp s)) + 10.

Fixpoint poll_w_loop (fuel : nat) (c : cfg) (s : xstate) : option xstate :=
  match fuel with
  | O => None
  | S fuel =>
      match wst s with
      | WTry | WClose =>
          match step_w c s with Some s' => poll_w_loop fuel c s' | None => Some s end
      | _ => Some s
      end
  end.

(* A poll of the writer task: a task that yielded re-tries its system call
   whatever woke it. *)
Definition poll_w (c : cfg) (s : xstate) : option xstate :=
  let s0 := match wst s with
            | WWait => mkX (cur s) (rest s) (pp s) (recvd s) WTry (rst s)
            | _ => s
            end in
  poll_w_loop (poll_fuel s) c s0.

(* The reader's buffer sizes are consumed from a list (the last one repeats). *)
Fixpoint poll_r_loop (fuel : nat) (s : xstate) (caps : list nat) (dflt : nat)
  : option (xstate * list nat) :=
  match fuel with
  | O => None
  | S fuel =>
      match rst s with
      | RTry =>
          let (cap, caps') := match caps with [] => (dflt, []) | x :: r => (x, r) end in
          match step_r s cap with
          | Some s' => poll_r_loop fuel s' caps' dflt
          | None => Some (s, caps)
          end
      | _ => Some (s, caps)
      end
  end.

Definition poll_r (s : xstate) (caps : list nat) (dflt : nat) : option (xstate * list nat) :=
  let s0 := match rst s with
            | RWait => mkX (cur s) (rest s) (pp s) (recvd s) (wst s) RTry
            | _ => s
            end in
  poll_r_loop (poll_fuel s) s0 caps dflt.

(* ------------------------------------------------------------------------ *)
(* Command substitution: expand_common removes the trailing newlines
   (`result.trim_end_matches('\n')`). *)
Definition NL : N := 10%N.

Fixpoint strip_nl (s : str) : str :=
  match s with
  | [] => []
  | x :: t =>
      let t' := strip_nl t in
      if N.eqb x NL && is_nil t' then [] else x :: t'
  end.

(* The output of the command is bytes; expand_common turns it into text with
   String::from_utf8, falling back to String::from_utf8_lossy: every maximal
   invalid byte sequence (as delimited by core::str::Utf8Chunks) becomes one
   U+FFFD.  On valid UTF-8 this is plain decoding. *)
Local Open Scope N_scope.
Definition REPL : N := 65533.
Definition is_cont (b : N) : bool := (128 <=? b) && (b <=? 191).
Definition second3 (b c : N) : bool :=
  ((b =? 224) && (160 <=? c) && (c <=? 191))
  || ((225 <=? b) && (b <=? 236) && is_cont c)
  || ((b =? 237) && (128 <=? c) && (c <=? 159))
  || ((238 <=? b) && (b <=? 239) && is_cont c).
Definition second4 (b c : N) : bool :=
  ((b =? 240) && (144 <=? c) && (c <=? 191))
  || ((241 <=? b) && (b <=? 243) && is_cont c)
  || ((b =? 244) && (128 <=? c) && (c <=? 143)).

Fixpoint utf8_lossy (l : list N) : list N :=
  match l with
  | [] => []
  | b :: t =>
      if b <? 128 then b :: utf8_lossy t
      else if (194 <=? b) && (b <=? 223) then
        match t with
        | c :: t1 =>
            if is_cont c then ((b - 192) * 64 + (c - 128)) :: utf8_lossy t1
            else REPL :: utf8_lossy t
        | [] => [REPL]
        end
      else if (224 <=? b) && (b <=? 239) then
        match t with
        | c :: t1 =>
            if second3 b c then
              match t1 with
              | d :: t2 =>
                  if is_cont d
                  then ((b - 224) * 4096 + (c - 128) * 64 + (d - 128)) :: utf8_lossy t2
                  else REPL :: utf8_lossy t1
              | [] => [REPL]
              end
            else REPL :: utf8_lossy t
        | [] => [REPL]
        end
      else if (240 <=? b) && (b <=? 244) then
        match t with
        | c :: t1 =>
            if second4 b c then
              match t1 with
              | d :: t2 =>
                  if is_cont d then
                    match t2 with
                    | e :: t3 =>
                        if is_cont e
                        then ((b - 240) * 262144 + (c - 128) * 4096 + (d - 128) * 64 + (e - 128))
                               :: utf8_lossy t3
                        else REPL :: utf8_lossy t2
                    | [] => [REPL]
                    end
                  else REPL :: utf8_lossy t1
              | [] => [REPL]
              end
            else REPL :: utf8_lossy t
        | [] => [REPL]
        end
      else REPL :: utf8_lossy t
  end.
Local Close Scope N_scope.

(* the value of a command substitution whose command wrote [bytes] *)
Definition subst_value (bytes : list N) : str := strip_nl (utf8_lossy bytes).

(* ------------------------------------------------------------------------ *)
(* Here-documents: the content is written to an anonymous regular file, the
   offset is reset with lseek, and the command reads the file.
   FileBody::Regular poll_write / poll_read. *)
Definition reg_write (content : list N) (off : nat) (data : list N) : list N * nat :=
  let content' := if length content <? off
                  then content ++ repeat 0%N (off - length content) else content in
  let limit := Nat.min (length data) (length content' - off) in
  (firstn off content' ++ firstn limit data ++ skipn (off + limit) content' ++ skipn limit data,
   off + length data).

Definition reg_read (content : list N) (off : nat) (cap : nat) : list N * nat :=
  let bs := firstn cap (skipn off content) in (bs, off + length bs).

(* Reading a regular file to the end with the given buffer sizes (the last
   size repeats); [fuel] bounds the number of reads. *)
Fixpoint reg_read_all (fuel : nat) (content : list N) (off : nat) (caps : list nat) (dflt : nat)
  : option (list N) :=
  match fuel with
  | O => None
  | S fuel =>
      let (cap, caps') := match caps with [] => (dflt, []) | x :: r => (x, r) end in
      match reg_read content off cap with
      | ([], _) => Some []
      | (bs, off') =>
          match reg_read_all fuel content off' caps' dflt with
          | Some r => Some (bs ++ r)
          | None => None
          end
      end
  end.

(* here_doc::open_fd followed by the command reading its standard input. *)
Definition heredoc_transfer (content : list N) (caps : list nat) (dflt : nat) : option (list N) :=
  let (file, _) := reg_write [] 0 content in
  reg_read_all (S (length file)) file 0 caps dflt.
