(* C14 — the lossy decoder keeps trailing newline bytes as trailing newline
   characters: the newlines that command substitution removes are exactly the
   newline bytes at the end of the output, whatever (invalid) bytes precede. *)
From Yv Require Import Common.Base C14.Model C14.Spec C14.Proofs.
From Coq Require Import Arith.

Lemma utf8_lossy_newlines k : utf8_lossy (repeat NL k) = repeat NL k.
Proof. induction k as [|k IH]; [reflexivity|]. cbn [repeat]. cbn [utf8_lossy]. change (NL <? 128)%N with true. cbv iota. rewrite IH. reflexivity. Qed.

Lemma nl_not_cont : is_cont NL = false.
Proof. reflexivity. Qed.

Lemma utf8_lossy_app_newlines_len n : forall s k,
  length s <= n -> utf8_lossy (s ++ repeat NL k) = utf8_lossy s ++ repeat NL k.
Proof.
  induction n as [|n IH]; intros s k Hl.
  - destruct s; [|cbn in Hl; lia]. cbn [app utf8_lossy]. apply utf8_lossy_newlines.
  - destruct s as [|b t]; [cbn [app utf8_lossy]; apply utf8_lossy_newlines|].
    cbn [length] in Hl.
    assert (IHt : forall u, length u <= length t -> utf8_lossy (u ++ repeat NL k) = utf8_lossy u ++ repeat NL k)
      by (intros u Hu; apply IH; lia).
    (* what happens when the sequence is cut short by the newlines *)
    assert (Hcut : utf8_lossy (repeat NL k) = repeat NL k) by apply utf8_lossy_newlines.
    assert (Hnl : forall j, match repeat NL j with [] => True | c :: _ => c = NL end)
      by (intros [|j]; cbn; auto).
    cbn [app utf8_lossy].
    destruct (b <? 128)%N; [rewrite (IHt t) by lia; reflexivity|].
    destruct ((194 <=? b) && (b <=? 223))%N.
    { destruct t as [|c t1]; cbn [app].
      - destruct k as [|k]; cbn [repeat]; [reflexivity|].
        rewrite nl_not_cont. change (NL :: repeat NL k) with (repeat NL (S k)). rewrite Hcut. reflexivity.
      - destruct (is_cont c).
        + rewrite (IHt t1) by (cbn; lia). reflexivity.
        + change (c :: t1 ++ repeat NL k) with ((c :: t1) ++ repeat NL k). rewrite (IHt (c :: t1)) by lia. reflexivity. }
    destruct ((224 <=? b) && (b <=? 239))%N.
    { destruct t as [|c t1]; cbn [app].
      - destruct k as [|k]; cbn [repeat]; [reflexivity|].
        assert (E : second3 b NL = false).
        { unfold second3. change (is_cont NL) with false. change (160 <=? NL)%N with false.
          change (128 <=? NL)%N with false. rewrite !andb_false_r. reflexivity. }
        rewrite E. change (NL :: repeat NL k) with (repeat NL (S k)). rewrite Hcut. reflexivity.
      - destruct (second3 b c).
        + destruct t1 as [|d t2]; cbn [app].
          * destruct k as [|k]; cbn [repeat]; [reflexivity|].
            rewrite nl_not_cont. change (NL :: repeat NL k) with (repeat NL (S k)). rewrite Hcut. reflexivity.
          * destruct (is_cont d).
            -- rewrite (IHt t2) by (cbn; lia). reflexivity.
            -- change (d :: t2 ++ repeat NL k) with ((d :: t2) ++ repeat NL k).
               rewrite (IHt (d :: t2)) by (cbn; lia). reflexivity.
        + change (c :: t1 ++ repeat NL k) with ((c :: t1) ++ repeat NL k). rewrite (IHt (c :: t1)) by lia. reflexivity. }
    destruct ((240 <=? b) && (b <=? 244))%N.
    { destruct t as [|c t1]; cbn [app].
      - destruct k as [|k]; cbn [repeat]; [reflexivity|].
        assert (E : second4 b NL = false).
        { unfold second4. change (is_cont NL) with false. change (144 <=? NL)%N with false.
          change (128 <=? NL)%N with false. rewrite !andb_false_r. reflexivity. }
        rewrite E. change (NL :: repeat NL k) with (repeat NL (S k)). rewrite Hcut. reflexivity.
      - destruct (second4 b c).
        + destruct t1 as [|d t2]; cbn [app].
          * destruct k as [|k]; cbn [repeat]; [reflexivity|].
            rewrite nl_not_cont. change (NL :: repeat NL k) with (repeat NL (S k)). rewrite Hcut. reflexivity.
          * destruct (is_cont d).
            -- destruct t2 as [|e t3]; cbn [app].
               ++ destruct k as [|k]; cbn [repeat]; [reflexivity|].
                  rewrite nl_not_cont. change (NL :: repeat NL k) with (repeat NL (S k)). rewrite Hcut. reflexivity.
               ++ destruct (is_cont e).
                  ** rewrite (IHt t3) by (cbn; lia). reflexivity.
                  ** change (e :: t3 ++ repeat NL k) with ((e :: t3) ++ repeat NL k).
                     rewrite (IHt (e :: t3)) by (cbn; lia). reflexivity.
            -- change (d :: t2 ++ repeat NL k) with ((d :: t2) ++ repeat NL k).
               rewrite (IHt (d :: t2)) by (cbn; lia). reflexivity.
        + change (c :: t1 ++ repeat NL k) with ((c :: t1) ++ repeat NL k). rewrite (IHt (c :: t1)) by lia. reflexivity. }
    rewrite (IHt t) by lia. reflexivity.
Qed.

Lemma utf8_lossy_app_newlines s k :
  utf8_lossy (s ++ repeat NL k) = utf8_lossy s ++ repeat NL k.
Proof. apply (utf8_lossy_app_newlines_len (length s)). lia. Qed.

(* the value of $(...) for output [s] followed by k newline bytes is the value
   for [s] alone: only newline bytes at the very end are dropped, and all of them *)
Lemma subst_value_newlines s k : subst_value (s ++ repeat NL k) = subst_value s.
Proof.
  unfold subst_value. rewrite utf8_lossy_app_newlines.
  destruct (strip_nl_spec_lemma (utf8_lossy s)) as [[j Hj] Hl].
  rewrite Hj at 1. rewrite <- app_assoc, <- repeat_app.
  apply strip_nl_app_repeat. exact Hl.
Qed.

Lemma subst_value_spec bytes : strip_spec (utf8_lossy bytes) (subst_value bytes).
Proof. apply strip_nl_spec_lemma. Qed.

Example ex_lossy :
  utf8_lossy [97; 255; 195; 169; 192; 128; 232; 170; 10; 240; 159; 10]%N
  = [97; 65533; 233; 65533; 65533; 65533; 10; 65533; 10]%N.
Proof. reflexivity. Qed.
