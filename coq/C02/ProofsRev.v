(* C02 — the converse refinement: every terminating run of the specification
   interpreter is matched by a terminating run of the model with the
   corresponding result (so model and specification define the same partial
   function on well-formed scripts). *)
From Yv Require Import Common.Base C02.Model C02.Spec C02.ProofsMono C02.ProofsSim.

Section Rev.

(* the model side of a result *)
Definition rpost (f : nat -> option res) (sv : option N) (out : sres) : Prop :=
  exists r s', ok f (r, s') /\ abs sv r s' = out.

Lemma ok_det {A} (f : nat -> option A) a b : ok f a -> ok f b -> a = b.
Proof.
  intros [m Hm] [m' Hm']. specialize (Hm (m + m') ltac:(lia)). specialize (Hm' (m + m') ltac:(lia)).
  congruence.
Qed.

(* invariants of model results, from the forward theorem *)
Lemma fwd_cmd stk c s r s' d infun ex :
  ok (fun k => exec_cmd k stk c s) (r, s') -> ctx_ok stk d infun ex ->
  wf_cmd d infun c = true -> state_ok s ->
  state_ok s' /\ res_ok infun d r.
Proof.
  intros [m Hm] Hc Hw Hs. specialize (Hm m (le_n m)).
  destruct (sa_cmd _ (sim_holds m) _ _ _ _ _ _ _ _ Hm Hc Hw Hs) as (A & B & _). auto.
Qed.

Lemma fwd_list stk l s r s' d infun ex :
  ok (fun k => exec_list k stk l s) (r, s') -> ctx_ok stk d infun ex ->
  wf_list d infun l = true -> state_ok s ->
  state_ok s' /\ res_ok infun d r.
Proof.
  intros [m Hm] Hc Hw Hs. specialize (Hm m (le_n m)).
  destruct (sa_list _ (sim_holds m) _ _ _ _ _ _ _ _ Hm Hc Hw Hs) as (A & B & _). auto.
Qed.

Lemma fwd_andor stk a s r s' d infun ex :
  ok (fun k => exec_andor k stk a s) (r, s') -> ctx_ok stk d infun ex ->
  wf_andor d infun a = true -> state_ok s ->
  state_ok s' /\ res_ok infun d r.
Proof.
  intros [m Hm] Hc Hw Hs. specialize (Hm m (le_n m)).
  destruct (sa_andor _ (sim_holds m) _ _ _ _ _ _ _ _ Hm Hc Hw Hs) as (A & B & _). auto.
Qed.

Lemma fwd_pipeline stk p s r s' d infun ex :
  ok (fun k => exec_pipeline k stk p s) (r, s') -> ctx_ok stk d infun ex ->
  wf_pipeline d infun p = true -> state_ok s ->
  state_ok s' /\ res_ok infun d r.
Proof.
  intros [m Hm] Hc Hw Hs. specialize (Hm m (le_n m)).
  destruct (sa_pipeline _ (sim_holds m) _ _ _ _ _ _ _ _ Hm Hc Hw Hs) as (A & B & _). auto.
Qed.

Lemma fwd_commands stk cs s r s' d infun ex :
  ok (fun k => exec_commands k stk cs s) (r, s') -> ctx_ok stk d infun ex ->
  wf_pipeline d infun (Pipe false cs) = true -> state_ok s ->
  state_ok s' /\ res_ok infun d r.
Proof.
  intros [m Hm] Hc Hw Hs. specialize (Hm m (le_n m)).
  destruct (sa_commands _ (sim_holds m) _ _ _ _ _ _ _ _ Hm Hc Hw Hs) as (A & B & _). auto.
Qed.

(* ---- the claims ---- *)
Definition rsim_cmd (n : nat) : Prop := forall stk c s out d infun ex sv,
  sem_cmd n d ex sv c s = Some out -> ctx_ok stk d infun ex ->
  wf_cmd d infun c = true -> state_ok s ->
  rpost (fun k => exec_cmd k stk c s) sv out.

Definition rsim_list (n : nat) : Prop := forall stk l s out d infun ex sv,
  sem_list n d ex sv l s = Some out -> ctx_ok stk d infun ex ->
  wf_list d infun l = true -> state_ok s ->
  rpost (fun k => exec_list k stk l s) sv out.

Definition rsim_andor (n : nat) : Prop := forall stk a s out d infun ex sv,
  sem_andor n d ex sv a s = Some out -> ctx_ok stk d infun ex ->
  wf_andor d infun a = true -> state_ok s ->
  rpost (fun k => exec_andor k stk a s) sv out.

Definition rsim_pipeline (n : nat) : Prop := forall stk p s out d infun ex sv,
  sem_pipeline n d ex sv p s = Some out -> ctx_ok stk d infun ex ->
  wf_pipeline d infun p = true -> state_ok s ->
  rpost (fun k => exec_pipeline k stk p s) sv out.

Definition rsim_commands (n : nat) : Prop := forall stk cs s out d infun ex sv,
  sem_commands n d ex sv cs s = Some out -> ctx_ok stk d infun ex ->
  wf_pipeline d infun (Pipe false cs) = true -> state_ok s ->
  rpost (fun k => exec_commands k stk cs s) sv out.

Definition rsim_multi (n : nat) : Prop := forall stk cs s0 acc acc' infun ex,
  sem_multi n ex cs s0 acc = Some acc' -> ex = has_cond stk ->
  wf_cmds infun cs = true -> state_ok s0 ->
  ok (fun k => exec_multi k stk cs s0 acc) acc'.

Definition rsim_subshell (n : nat) : Prop := forall stk body s c' infun ex,
  sem_subshell n ex body s = Some c' -> ex = has_cond stk ->
  wf_list 0 infun body = true -> state_ok s ->
  ok (fun k => run_subshell k stk body s) c'.

Definition rsim_trap (n : nat) : Prop := forall stk s s' ex,
  sem_exit_trap n ex s = Some s' -> ex = has_cond stk -> state_ok s ->
  ok (fun k => run_exit_trap k stk s) s'.

Definition rsim_else (n : nat) : Prop := forall stk e has_else els s out d infun ex sv,
  sem_else n d ex sv e has_else els s = Some out -> ctx_ok stk d infun ex ->
  wf_elifs d infun e = true -> wf_list d infun els = true -> state_ok s ->
  rpost (fun k => exec_elifs k stk e has_else els s) sv out.

Definition rsim_for (n : nat) : Prop := forall stk x values body s out d infun ex sv,
  sem_for n d ex sv x values body s = Some out -> ctx_ok stk (S d) infun ex ->
  wf_list (S d) infun body = true -> state_ok s ->
  rpost (fun k => exec_for k stk x values body s) sv out.

(* loops: the model result of Loop::execute, with its register *)
Definition rsim_loop (n : nat) : Prop := forall stk cond u body s reg out d infun ex sv,
  sem_loop n d ex sv u cond body reg s = Some out -> ctx_ok stk (S d) infun ex ->
  wf_list (S d) infun cond = true -> wf_list (S d) infun body = true ->
  state_ok s ->
  exists r s1 reg1,
    ok (fun k => loop_execute k stk cond (negb u) body s reg) (r, s1, reg1) /\
    (match r with Cont => (Normal, set_status reg1 s1) | _ => abs sv r s1 end) = out.

Definition rsim_clause (n : nat) : Prop := forall stk subject body kc rest pats upd s out d infun ex sv,
  sem_clause n d ex sv subject body kc rest s = Some out -> ctx_ok stk d infun ex ->
  wf_list d infun body = true -> wf_items d infun rest = true -> state_ok s ->
  forall ft, ft || existsb (match_pat subject) pats = true ->
  rpost (fun k => exec_items k stk subject (ICons pats body kc rest) ft upd s) sv out.

Record rsim_all (n : nat) : Prop := {
  ra_cmd : rsim_cmd n; ra_list : rsim_list n; ra_andor : rsim_andor n;
  ra_pipeline : rsim_pipeline n; ra_commands : rsim_commands n; ra_multi : rsim_multi n;
  ra_subshell : rsim_subshell n; ra_trap : rsim_trap n; ra_else : rsim_else n;
  ra_for : rsim_for n; ra_loop : rsim_loop n; ra_clause : rsim_clause n
}.

(* abs and the shape of results *)
Lemma abs_normal sv r s s1 : abs sv r s = (Normal, s1) -> r = Cont /\ s1 = s.
Proof. destruct r as [|[c|c|[v|]|[v|]|[v|]|[v|]]]; cbn; intros E; inversion E; auto. Qed.

Lemma abs_brk sv r s c s1 : abs sv r s = (c, s1) -> c <> Normal -> exists dv, r = Brk dv.
Proof. destruct r as [|dv]; cbn; intros E Hc; [inversion E; congruence | eauto]. Qed.

Lemma abs_split sv r s c s1 : abs sv r s = (c, s1) ->
  (c = Normal /\ r = Cont /\ s1 = s) \/ (c <> Normal /\ exists dv, r = Brk dv).
Proof.
  destruct r as [|dv]; cbn; intros E.
  - inversion E; auto.
  - right. split; [|eauto]. pose proof (abs_not_normal sv dv s) as Hn. cbn in Hn.
    destruct dv as [k|k|[v|]|[v|]|[v|]|[v|]]; inversion E; subst; discriminate.
Qed.

(* ---- lists ---- *)
Lemma rstep_list n : rsim_andor n -> rsim_list n -> rsim_list (S n).
Proof.
  intros Iandor Ilist stk l s out d infun ex sv H Hc Hw Hs.
  cbn [sem_list] in H. destruct l as [|a l'].
  - inversion H; subst out. exists Cont, s. split; [|reflexivity].
    exists 1. intros [|k] Hk; [lia|]. reflexivity.
  - cbn [wf_list] in Hw. apply andb_true_iff in Hw as [Hwa Hwl].
    destruct (sem_andor n d ex sv a s) as [[c1 s1]|] eqn:Ea; [|discriminate].
    destruct (Iandor stk _ _ _ _ _ _ _ Ea Hc Hwa Hs) as (r1 & s1' & Hok1 & Habs1).
    destruct (fwd_andor _ _ _ _ _ _ _ _ Hok1 Hc Hwa Hs) as [Hs1 _].
    destruct (abs_split _ _ _ _ _ Habs1) as [(-> & -> & ->) | (Hne & dv & ->)].
    + destruct (Ilist stk _ _ _ _ _ _ _ H Hc Hwl Hs1) as (r2 & s2 & Hok2 & Habs2).
      exists r2, s2. split; [|exact Habs2].
      ok_start. cbn [exec_list]. ok_rw. reflexivity.
    + exists (Brk dv), s1'. split; [ok_start; cbn [exec_list]; ok_rw; reflexivity|].
      destruct c1 as [|kk|kk| |]; [congruence|..]; inversion H; subst out; exact Habs1.
Qed.

(* the non-normal case, uniformly: the model propagates the divert *)
Ltac brk_case H Habs c1 out :=
  destruct c1 as [|?kk|?kk| |]; [congruence|..]; inversion H; subst out; exact Habs.

(* ---- and-or lists ---- *)
Lemma tree_prefix P ex s0 : forall rs t out, rs <> RNil ->
  sem_tree P ex (aotree_of t rs) true s0 = Some out ->
  exists rt, sem_tree P ex t false s0 = Some rt.
Proof.
  induction rs as [|op p rs IH]; intros t out Hn H; [congruence|].
  cbn [aotree_of] in H. destruct rs as [|op' p' rs'].
  - cbn [aotree_of sem_tree] in H. destruct (sem_tree P ex t false s0); [eauto | discriminate].
  - destruct (IH (AONode t op p) out ltac:(discriminate) H) as [rt Hrt].
    cbn [sem_tree] in Hrt. destruct (sem_tree P ex t false s0); [eauto | discriminate].
Qed.

Lemma rrest n : rsim_pipeline n -> forall rs stk s1 d infun ex sv t s0 out,
  rs <> RNil ->
  sem_tree (tree_P n d sv) ex (aotree_of t rs) true s0 = Some out ->
  sem_tree (tree_P n d sv) ex t false s0 = Some (Normal, s1) ->
  ctx_ok stk d infun ex -> wf_rest d infun rs = true -> state_ok s1 ->
  rpost (fun k => exec_rest k stk rs s1) sv out.
Proof.
  intros Ipipe. induction rs as [|op p rs IH]; intros stk s1 d infun ex sv t s0 out Hn H Ht Hc Hw Hs;
    [congruence|].
  cbn [wf_rest] in Hw. apply andb_true_iff in Hw as [Hwp Hwr].
  destruct rs as [|op' p' rs'].
  - (* the last pipeline *)
    cbn [aotree_of sem_tree] in H. rewrite Ht in H. rewrite eqb_negb1 in H.
    destruct (Bool.eqb (N.eqb (status s1) 0) op) eqn:Erun; cbn [negb] in H.
    + rewrite orb_false_r in H. unfold tree_P in H.
      destruct (Ipipe stk _ _ _ _ _ _ _ H Hc Hwp Hs) as (r & s' & Hok & Habs).
      exists r, s'. split; [|exact Habs]. ok_start. cbn [exec_rest]. rewrite Erun. ok_rw. reflexivity.
    + inversion H; subst out. exists Cont, s1. split; [|reflexivity].
      exists 1. intros [|k] Hk; [lia|]. cbn [exec_rest]. rewrite Erun. reflexivity.
  - remember (RCons op' p' rs') as rs eqn:Ers.
    assert (Hn' : rs <> RNil) by (subst rs; discriminate).
    cbn [aotree_of] in H.
    destruct (tree_prefix _ _ _ _ _ _ Hn' H) as [rt Hrt].
    pose proof Hrt as Hrt0. cbn [sem_tree] in Hrt. rewrite Ht in Hrt. rewrite eqb_negb1 in Hrt.
    destruct (Bool.eqb (N.eqb (status s1) 0) op) eqn:Erun; cbn [negb] in Hrt.
    + rewrite orb_true_r in Hrt. unfold tree_P in Hrt.
      destruct (Ipipe (FCondition :: stk) _ _ _ _ _ _ _ Hrt (ctx_cond _ _ _ _ Hc) Hwp Hs)
        as (rp & sp & Hokp & Habsp).
      destruct (fwd_pipeline _ _ _ _ _ _ _ _ Hokp (ctx_cond _ _ _ _ Hc) Hwp Hs) as [Hsp _].
      destruct rt as [c1 s2].
      destruct (abs_split _ _ _ _ _ Habsp) as [(-> & -> & ->) | (Hne & dv & ->)].
      * destruct (IH stk sp d infun ex sv (AONode t op p) s0 out Hn' H Hrt0 Hc Hwr Hsp)
          as (r & s' & Hok & Habs).
        exists r, s'. split; [|exact Habs].
        ok_start. cbn [exec_rest]. rewrite Ers, <- Ers, Erun. ok_rw. reflexivity.
      * pose proof (tree_stop _ ex c1 s2 s0 Hne rs (AONode t op p) Hn' Hrt0) as Hstop.
        rewrite H in Hstop. inversion Hstop; subst out.
        exists (Brk dv), sp. split; [|exact Habsp].
        ok_start. cbn [exec_rest]. rewrite Ers, <- Ers, Erun. ok_rw. reflexivity.
    + inversion Hrt; subst rt.
      destruct (IH stk s1 d infun ex sv (AONode t op p) s0 out Hn' H Hrt0 Hc Hwr Hs)
        as (r & s' & Hok & Habs).
      exists r, s'. split; [|exact Habs].
      ok_start. cbn [exec_rest]. rewrite Ers, <- Ers, Erun. ok_rw. reflexivity.
Qed.

Lemma rstep_andor n : rsim_pipeline n -> rsim_andor (S n).
Proof.
  intros Ipipe stk a s out d infun ex sv H Hc Hw Hs.
  cbn [sem_andor] in H. fold (tree_P n d sv) in H. destruct a as [first rest].
  cbn [wf_andor] in Hw. apply andb_true_iff in Hw as [Hwf Hwr]. cbn [andor_tree] in H.
  destruct rest as [|op p rest'].
  - cbn [aotree_of sem_tree negb] in H. rewrite orb_false_r in H. unfold tree_P in H.
    destruct (Ipipe stk _ _ _ _ _ _ _ H Hc Hwf Hs) as (r & s' & Hok & Habs).
    exists r, s'. split; [|exact Habs]. ok_start. cbn [exec_andor]. ok_rw. reflexivity.
  - remember (RCons op p rest') as rest eqn:Er.
    assert (Hn : rest <> RNil) by (subst rest; discriminate).
    destruct (tree_prefix _ _ _ _ _ _ Hn H) as [rt Hrt]. pose proof Hrt as Hrt0.
    cbn [sem_tree negb] in Hrt. rewrite orb_true_r in Hrt. unfold tree_P in Hrt.
    destruct (Ipipe (FCondition :: stk) _ _ _ _ _ _ _ Hrt (ctx_cond _ _ _ _ Hc) Hwf Hs)
      as (rp & sp & Hokp & Habsp).
    destruct (fwd_pipeline _ _ _ _ _ _ _ _ Hokp (ctx_cond _ _ _ _ Hc) Hwf Hs) as [Hsp _].
    destruct rt as [c1 s2].
    destruct (abs_split _ _ _ _ _ Habsp) as [(-> & -> & ->) | (Hne & dv & ->)].
    + destruct (rrest n Ipipe rest stk sp d infun ex sv (AOLeaf first) s out Hn H Hrt0 Hc Hwr Hsp)
        as (r & s' & Hok & Habs).
      exists r, s'. split; [|exact Habs].
      ok_start. cbn [exec_andor]. rewrite Er, <- Er. ok_rw. reflexivity.
    + pose proof (tree_stop _ ex c1 s2 s Hne rest (AOLeaf first) Hn Hrt0) as Hstop.
      rewrite H in Hstop. inversion Hstop; subst out.
      exists (Brk dv), sp. split; [|exact Habsp].
      ok_start. cbn [exec_andor]. rewrite Er, <- Er. ok_rw. reflexivity.
Qed.

(* ---- pipelines ---- *)
Lemma rstep_pipeline n : rsim_commands n -> rsim_pipeline (S n).
Proof.
  intros Icmds stk p s out d infun ex sv H Hc Hw Hs.
  destruct p as [neg cs]. rewrite sem_pipeline_eq in H.
  assert (Hw' : wf_pipeline d infun (Pipe false cs) = true) by exact Hw.
  destruct (sem_commands n d (ex || neg) sv cs s) as [[c1 s1]|] eqn:Ec; [|discriminate].
  destruct neg.
  - rewrite orb_true_r in Ec.
    destruct (Icmds (FCondition :: stk) _ _ _ _ _ _ _ Ec (ctx_cond _ _ _ _ Hc) Hw' Hs)
      as (rc & sc & Hokc & Habsc).
    destruct (abs_split _ _ _ _ _ Habsc) as [(-> & -> & ->) | (Hne & dv & ->)].
    + inversion H; subst out.
      exists Cont, (set_status (if N.eqb (status sc) 0 then 1%N else 0%N) sc). split.
      * ok_start. cbn [exec_pipeline]. ok_rw. reflexivity.
      * cbn [abs]. unfold fails. destruct (N.eqb (status sc) 0); reflexivity.
    + exists (Brk dv), sc. split; [ok_start; cbn [exec_pipeline]; ok_rw; reflexivity|].
      brk_case H Habsc c1 out.
  - rewrite orb_false_r in Ec.
    destruct (Icmds stk _ _ _ _ _ _ _ Ec Hc Hw' Hs) as (rc & sc & Hokc & Habsc).
    exists rc, sc. split; [ok_start; cbn [exec_pipeline]; ok_rw; reflexivity|].
    destruct c1 as [|kk|kk| |]; inversion H; subst out; exact Habsc.
Qed.

Lemma rcommands n : rsim_cmd n -> rsim_multi n -> rsim_commands n.
Proof.
  intros Icmd Imulti stk cs s out d infun ex sv H Hc Hw Hs.
  unfold sem_commands in H. destruct cs as [|c [|c2 cs2]].
  - inversion H; subst out. exists Cont, (set_status 0 s). split; [|reflexivity].
    exists 1. intros [|k] Hk; [lia|]. reflexivity.
  - cbn [wf_pipeline] in Hw.
    destruct (Icmd stk _ _ _ _ _ _ _ H Hc Hw Hs) as (r & s' & Hok & Habs).
    exists r, s'. split; [|exact Habs]. ok_start. cbn [exec_commands]. ok_rw. reflexivity.
  - remember (CCons c (CCons c2 cs2)) as cs eqn:Ecs.
    destruct (sem_multi n ex cs s s) as [s1|] eqn:Em; [|discriminate].
    inversion H; subst out.
    assert (Hwm : wf_cmds infun cs = true) by (subst cs; exact Hw).
    pose proof (Imulti stk _ _ _ _ infun ex Em (co_ex _ _ _ _ Hc) Hwm Hs) as Hok.
    exists (apply_errexit stk s1), s1. split.
    + ok_start. cbn [exec_commands]. rewrite Ecs, <- Ecs. ok_rw. reflexivity.
    + apply abs_apply_errexit. exact (co_ex _ _ _ _ Hc).
Qed.

Lemma rstep_multi n : rsim_cmd n -> rsim_trap n -> rsim_multi n -> rsim_multi (S n).
Proof.
  intros Icmd Itrap Imulti stk cs s0 acc acc' infun ex H He Hw Hs.
  cbn [sem_multi] in H. destruct cs as [|c cs'].
  - inversion H; subst acc'. exists 1. intros [|k] Hk; [lia|]. reflexivity.
  - cbn [wf_cmds] in Hw. apply andb_true_iff in Hw as [Hwc Hwr].
    destruct (sem_cmd n 0 ex None c (child_state (set_trace (trace acc) s0)))
      as [[c1 c1s]|] eqn:Ec; [|discriminate].
    destruct (sem_exit_trap n ex c1s) as [c2|] eqn:Et; [|discriminate].
    assert (Hctx : ctx_ok (FSubshell :: stk) 0 infun ex) by (split; cbn; auto).
    assert (Hs0 : state_ok (child_state (set_trace (trace acc) s0))).
    { apply state_ok_child. eapply state_ok_same; [..|exact Hs]; reflexivity. }
    destruct (Icmd (FSubshell :: stk) _ _ _ _ _ _ _ Ec Hctx Hwc Hs0) as (r & cs1 & Hok1 & Habs1).
    destruct (fwd_cmd _ _ _ _ _ _ _ _ Hok1 Hctx Hwc Hs0) as [Hs1 _].
    assert (E1 : c1s = apply_result r cs1).
    { rewrite <- abs_none_apply_result, Habs1. reflexivity. }
    subst c1s.
    pose proof (Itrap (FSubshell :: stk) _ _ ex Et He (state_ok_apply_result r _ Hs1)) as Hok2.
    pose proof (Imulti stk _ _ _ _ infun ex H He Hwr Hs) as Hok3.
    ok_start. cbn [exec_multi]. ok_rw. reflexivity.
Qed.

(* ---- the EXIT trap and subshells ---- *)
Lemma rstep_trap n : rsim_list n -> rsim_trap (S n).
Proof.
  intros Ilist stk s s' ex H He Hs.
  cbn [sem_exit_trap] in H. destruct (exit_trap s) as [action|] eqn:Etrap.
  - destruct (sem_list n 0 ex (Some (status s)) action s) as [[c1 s1]|] eqn:El; [|discriminate].
    pose proof (so_trap _ Hs _ Etrap) as Hwa.
    destruct (Ilist (FTrap :: stk) _ _ _ _ _ _ _ El (ctx_trap stk ex false He) Hwa Hs)
      as (r & s1' & Hok1 & Habs1).
    destruct (fwd_list _ _ _ _ _ _ _ _ Hok1 (ctx_trap stk ex false He) Hwa Hs) as [_ [R1 R3 _ _]].
    specialize (R1 eq_refl).
    destruct r as [|[c|c|o|[v|]|[v|]|o]];
      try (exfalso; eapply R1; reflexivity); try (exfalso; eapply R3; reflexivity);
      cbn [abs exit_no_operand] in Habs1; inversion Habs1; subst c1 s1; inversion H; subst s';
      (ok_start; cbn [run_exit_trap]; rewrite Etrap; ok_rw; reflexivity).
  - inversion H; subst s'. exists 1. intros [|k] Hk; [lia|]. cbn [run_exit_trap]. rewrite Etrap.
    reflexivity.
Qed.

Lemma rstep_subshell n : rsim_list n -> rsim_trap n -> rsim_subshell (S n).
Proof.
  intros Ilist Itrap stk body s c' infun ex H He Hw Hs.
  cbn [sem_subshell] in H.
  destruct (sem_list n 0 ex None body (child_state s)) as [[c1 c1s]|] eqn:El; [|discriminate].
  assert (Hctx : ctx_ok (FSubshell :: stk) 0 infun ex) by (split; cbn; auto).
  destruct (Ilist (FSubshell :: stk) _ _ _ _ _ _ _ El Hctx Hw (state_ok_child _ Hs))
    as (r & cs1 & Hok1 & Habs1).
  destruct (fwd_list _ _ _ _ _ _ _ _ Hok1 Hctx Hw (state_ok_child _ Hs)) as [Hs1 _].
  assert (E1 : c1s = apply_result r cs1).
  { rewrite <- abs_none_apply_result, Habs1. reflexivity. }
  subst c1s.
  pose proof (Itrap (FSubshell :: stk) _ _ ex H He (state_ok_apply_result r _ Hs1)) as Hok2.
  ok_start. cbn [run_subshell]. ok_rw. reflexivity.
Qed.

(* ---- if ---- *)
Lemma rstep_else n : rsim_list n -> rsim_else n -> forall stk cond body e has_else els s out d infun ex sv,
  sem_cmd (S n) d ex sv (CIf cond body e has_else els) s = Some out -> ctx_ok stk d infun ex ->
  wf_list d infun cond = true -> wf_list d infun body = true ->
  wf_elifs d infun e = true -> wf_list d infun els = true -> state_ok s ->
  exists r s',
    ok (fun k => match exec_list k (FCondition :: stk) cond s with
                 | None => None
                 | Some (Brk dv, s1) => Some (Brk dv, s1)
                 | Some (Cont, s1) =>
                     if N.eqb (status s1) 0 then exec_list k stk body s1
                     else exec_elifs k stk e has_else els s1
                 end) (r, s') /\ abs sv r s' = out.
Proof.
  intros Ilist Ielse stk cond body e has_else els s out d infun ex sv H Hc Hwc Hwb Hwe Hwl Hs.
  cbn [sem_cmd] in H.
  destruct (sem_list n d true sv cond s) as [[c1 s1]|] eqn:Ec; [|discriminate].
  destruct (Ilist (FCondition :: stk) _ _ _ _ _ _ _ Ec (ctx_cond _ _ _ _ Hc) Hwc Hs)
    as (rc & sc & Hokc & Habsc).
  destruct (fwd_list _ _ _ _ _ _ _ _ Hokc (ctx_cond _ _ _ _ Hc) Hwc Hs) as [Hsc _].
  destruct (abs_split _ _ _ _ _ Habsc) as [(-> & -> & ->) | (Hne & dv & ->)].
  - unfold fails in H. destruct (N.eqb (status sc) 0) eqn:Est; cbn [negb] in H.
    + destruct (Ilist stk _ _ _ _ _ _ _ H Hc Hwb Hsc) as (r & s' & Hok & Habs).
      exists r, s'. split; [|exact Habs]. ok_start. ok_rw. rewrite Est. ok_rw. reflexivity.
    + fold (sem_else n d ex sv e has_else els sc) in H.
      destruct (Ielse stk _ _ _ _ _ _ _ _ _ H Hc Hwe Hwl Hsc) as (r & s' & Hok & Habs).
      exists r, s'. split; [|exact Habs]. ok_start. ok_rw. rewrite Est. ok_rw. reflexivity.
  - exists (Brk dv), sc. split; [ok_start; ok_rw; reflexivity|]. brk_case H Habsc c1 out.
Qed.

Lemma relse n : rsim_list n -> rsim_cmd n -> rsim_else n.
Proof.
  intros Ilist Icmd stk e has_else els s out d infun ex sv H Hc Hwe Hwl Hs.
  unfold sem_else in H. destruct e as [|cond body e'].
  - destruct has_else.
    + destruct (Ilist stk _ _ _ _ _ _ _ H Hc Hwl Hs) as (r & s' & Hok & Habs).
      exists r, s'. split; [|exact Habs]. ok_start. cbn [exec_elifs]. ok_rw. reflexivity.
    + inversion H; subst out. exists Cont, (set_status 0 s). split; [|reflexivity].
      exists 1. intros [|k] Hk; [lia|]. reflexivity.
  - cbn [wf_elifs] in Hwe. apply andb_true_iff in Hwe as [Hwe Hwe'].
    apply andb_true_iff in Hwe as [Hwc Hwb].
    assert (Hw : wf_cmd d infun (CIf cond body e' has_else els) = true).
    { cbn [wf_cmd]. rewrite Hwc, Hwb, Hwe', Hwl. reflexivity. }
    destruct (Icmd stk _ _ _ _ _ _ _ H Hc Hw Hs) as (r & s' & Hok & Habs).
    exists r, s'. split; [|exact Habs].
    destruct Hok as [m Hm]. exists (S m). intros [|k] Hk; [lia|].
    specialize (Hm (S k) ltac:(lia)). cbn [exec_cmd] in Hm. cbn [exec_elifs]. exact Hm.
Qed.

(* ---- for ---- *)
Lemma rstep_for n : rsim_list n -> rsim_for n -> rsim_for (S n).
Proof.
  intros Ilist Ifor stk x values body s out d infun ex sv H Hc Hw Hs.
  cbn [sem_for] in H. destruct values as [|v values'].
  - inversion H; subst out. exists Cont, s. split; [|reflexivity].
    exists 1. intros [|k] Hk; [lia|]. reflexivity.
  - destruct (is_ronly x s) eqn:Ero.
    + inversion H; subst out. exists (handle_expansion_error stk s), s. split.
      * exists 1. intros [|k] Hk; [lia|]. cbn [exec_for]. rewrite Ero. reflexivity.
      * apply (abs_expansion_error stk sv s ErrAssignment eq_refl eq_refl ex).
    + destruct (sem_list n (S d) ex sv body (set_var x (Some v) s)) as [[c1 s1]|] eqn:Eb; [|discriminate].
      assert (Hsv : state_ok (set_var x (Some v) s))
        by (eapply state_ok_same; [..|exact Hs]; reflexivity).
      destruct (Ilist stk _ _ _ _ _ _ _ Eb Hc Hw Hsv) as (rb & sb & Hokb & Habsb).
      destruct (fwd_list _ _ _ _ _ _ _ _ Hokb Hc Hw Hsv) as [Hsb _].
      destruct rb as [|[[|c]|[|c]|[v0|]|[v0|]|[v0|]|[v0|]]]; cbn [abs] in Habsb;
        injection Habsb as <- <-; cbn [loop_react] in H.
      * destruct (Ifor stk _ _ _ _ _ _ _ _ _ H Hc Hw Hsb) as (r & s' & Hok & Habs).
        exists r, s'. split; [|exact Habs]. ok_start. cbn [exec_for]. rewrite Ero. ok_rw. reflexivity.
      * destruct (Ifor stk _ _ _ _ _ _ _ _ _ H Hc Hw Hsb) as (r & s' & Hok & Habs).
        exists r, s'. split; [|exact Habs]. ok_start. cbn [exec_for]. rewrite Ero. ok_rw. reflexivity.
      * inversion H; subst out. exists (Brk (DContinue c)), sb. split; [|reflexivity].
        ok_start. cbn [exec_for]. rewrite Ero. ok_rw. reflexivity.
      * inversion H; subst out. exists Cont, sb. split; [|reflexivity].
        ok_start. cbn [exec_for]. rewrite Ero. ok_rw. reflexivity.
      * inversion H; subst out. exists (Brk (DBreak c)), sb. split; [|reflexivity].
        ok_start. cbn [exec_for]. rewrite Ero. ok_rw. reflexivity.
      * inversion H; subst out. eexists; eexists; split;
          [ok_start; cbn [exec_for]; rewrite Ero; ok_rw; reflexivity | reflexivity].
      * inversion H; subst out. eexists; eexists; split;
          [ok_start; cbn [exec_for]; rewrite Ero; ok_rw; reflexivity | reflexivity].
      * inversion H; subst out. eexists; eexists; split;
          [ok_start; cbn [exec_for]; rewrite Ero; ok_rw; reflexivity | reflexivity].
      * inversion H; subst out. eexists; eexists; split;
          [ok_start; cbn [exec_for]; rewrite Ero; ok_rw; reflexivity | reflexivity].
      * inversion H; subst out. eexists; eexists; split;
          [ok_start; cbn [exec_for]; rewrite Ero; ok_rw; reflexivity | reflexivity].
      * inversion H; subst out. eexists; eexists; split;
          [ok_start; cbn [exec_for]; rewrite Ero; ok_rw; reflexivity | reflexivity].
      * inversion H; subst out. eexists; eexists; split;
          [ok_start; cbn [exec_for]; rewrite Ero; ok_rw; reflexivity | reflexivity].
      * inversion H; subst out. eexists; eexists; split;
          [ok_start; cbn [exec_for]; rewrite Ero; ok_rw; reflexivity | reflexivity].
Qed.

(* ---- while / until ---- *)
Definition loop_post (k : nat) (stk : list frame) (c : clist) (e : bool) (b : clist)
    (x : option (flow * state * N)) : option (flow * state * N) :=
  match x with
  | None => None
  | Some (Brk (DBreak O), s1, _) => Some (Cont, s1, status s1)
  | Some (Brk (DBreak (S c0)), s1, reg1) => Some (Brk (DBreak c0), s1, reg1)
  | Some (Brk (DContinue O), s1, reg1) => loop_execute k stk c e b s1 reg1
  | Some (Brk (DContinue (S c0)), s1, reg1) => Some (Brk (DContinue c0), s1, reg1)
  | Some other => Some other
  end.

Lemma loop_execute_eq k stk c e b s reg :
  loop_execute (S k) stk c e b s reg = loop_post k stk c e b (loop_iterate k stk c e b s reg).
Proof. reflexivity. Qed.

Lemma loop_post_mono k stk c e b y X :
  loop_post k stk c e b y = Some X -> loop_post (S k) stk c e b y = Some X.
Proof.
  unfold loop_post. destruct y as [[[[|[[|c0]|[|c0]|o|o|o|o]] s1] reg1]|]; auto.
  apply loop_execute_mono. lia.
Qed.

(* the body ran to its end: the next round *)
Lemma loop_next stk cond e body s reg sc sb X :
  ok (fun k => exec_list k (FCondition :: stk) cond s) (Cont, sc) ->
  Bool.eqb (N.eqb (status sc) 0) e = true ->
  ok (fun k => exec_list k stk body sc) (Cont, sb) ->
  ok (fun k => loop_execute k stk cond e body sb (status sb)) X ->
  ok (fun k => loop_execute k stk cond e body s reg) X.
Proof.
  intros [m1 H1] Ht [m2 H2] [m3 H3].
  exists (S (S (m1 + m2 + m3))). intros [|[|k]] Hk; try lia.
  rewrite loop_execute_eq. cbn [loop_iterate].
  rewrite (H1 k) by lia. rewrite Ht. rewrite (H2 k) by lia.
  apply loop_post_mono. rewrite <- loop_execute_eq. apply H3. lia.
Qed.

(* Loop::iterate ended with `continue` for this loop: run the loop again *)
Lemma loop_again stk cond e body s reg s1 reg1 X :
  ok (fun k => loop_iterate k stk cond e body s reg) (Brk (DContinue 0), s1, reg1) ->
  ok (fun k => loop_execute k stk cond e body s1 reg1) X ->
  ok (fun k => loop_execute k stk cond e body s reg) X.
Proof.
  intros [m1 H1] [m2 H2]. exists (S (m1 + m2)). intros [|k] Hk; [lia|].
  rewrite loop_execute_eq, (H1 k) by lia. cbn [loop_post]. apply H2. lia.
Qed.

(* Loop::iterate ended otherwise *)
Lemma loop_stop stk cond e body s reg ri si regi :
  ok (fun k => loop_iterate k stk cond e body s reg) (ri, si, regi) ->
  ri <> Brk (DContinue 0) ->
  ok (fun k => loop_execute k stk cond e body s reg)
     (match ri with
      | Brk (DBreak O) => (Cont, si, status si)
      | Brk (DBreak (S c0)) => (Brk (DBreak c0), si, regi)
      | Brk (DContinue (S c0)) => (Brk (DContinue c0), si, regi)
      | other => (other, si, regi)
      end).
Proof.
  intros [m1 H1] Hne. exists (S m1). intros [|k] Hk; [lia|].
  rewrite loop_execute_eq, (H1 k) by lia. unfold loop_post.
  destruct ri as [|[[|c0]|[|c0]|o|o|o|o]]; try reflexivity. congruence.
Qed.

Lemma rstep_loop n : rsim_list n -> rsim_loop n -> rsim_loop (S n).
Proof.
  intros Ilist Iloop stk cond u body s reg out d infun ex sv H Hc Hwc Hwb Hs.
  cbn [sem_loop] in H.
  destruct (sem_list n (S d) true sv cond s) as [[c1 s1]|] eqn:Ec; [|discriminate].
  destruct (Ilist (FCondition :: stk) _ _ _ _ _ _ _ Ec (ctx_cond _ _ _ _ Hc) Hwc Hs)
    as (rc & sc & Hokc & Habsc).
  destruct (fwd_list _ _ _ _ _ _ _ _ Hokc (ctx_cond _ _ _ _ Hc) Hwc Hs) as [Hsc _].
  destruct rc as [|[[|c]|[|c]|[v0|]|[v0|]|[v0|]|[v0|]]]; cbn [abs] in Habsc;
    injection Habsc as <- <-; cbn [loop_react] in H.
  - (* the condition completed *)
    destruct (Bool.eqb (fails sc) u) eqn:Et.
    + assert (Ht : Bool.eqb (N.eqb (status sc) 0) (negb u) = true)
        by (rewrite test_eq; exact Et).
      destruct (sem_list n (S d) ex sv body sc) as [[c2 s2]|] eqn:Eb; [|discriminate].
      destruct (Ilist stk _ _ _ _ _ _ _ Eb Hc Hwb Hsc) as (rb & sb & Hokb & Habsb).
      destruct (fwd_list _ _ _ _ _ _ _ _ Hokb Hc Hwb Hsc) as [Hsb _].
      assert (Hiter : forall dvb, rb = Brk dvb ->
                ok (fun k => loop_iterate k stk cond (negb u) body s reg)
                   (Brk dvb, sb, match dvb with DContinue O => status sb | _ => reg end)).
      { intros dvb ->. ok_start. cbn [loop_iterate]. ok_rw. rewrite Ht. ok_rw.
        destruct dvb as [[|c0]|c0|o|o|o|o]; reflexivity. }
      destruct rb as [|[[|c]|[|c]|[v0|]|[v0|]|[v0|]|[v0|]]]; cbn [abs] in Habsb;
        injection Habsb as <- <-; cbn [loop_react] in H.
      * destruct (Iloop stk _ _ _ _ _ _ _ _ _ _ H Hc Hwc Hwb Hsb) as (r & s1 & reg1 & Hok & Hout).
        exists r, s1, reg1. split; [|exact Hout].
        eapply loop_next; eassumption.
      * destruct (Iloop stk _ _ _ _ _ _ _ _ _ _ H Hc Hwc Hwb Hsb) as (r & s1 & reg1 & Hok & Hout).
        exists r, s1, reg1. split; [|exact Hout].
        eapply loop_again; [exact (Hiter _ eq_refl) | exact Hok].
      * inversion H; subst out. do 3 eexists. split;
          [exact (loop_stop _ _ _ _ _ _ _ _ _ (Hiter _ eq_refl) ltac:(discriminate)) | reflexivity].
      * inversion H; subst out. do 3 eexists. split;
          [exact (loop_stop _ _ _ _ _ _ _ _ _ (Hiter _ eq_refl) ltac:(discriminate)) |].
        cbn. rewrite set_status_same. reflexivity.
      * inversion H; subst out. do 3 eexists. split;
          [exact (loop_stop _ _ _ _ _ _ _ _ _ (Hiter _ eq_refl) ltac:(discriminate)) | reflexivity].
      * inversion H; subst out. do 3 eexists. split;
          [exact (loop_stop _ _ _ _ _ _ _ _ _ (Hiter _ eq_refl) ltac:(discriminate)) | reflexivity].
      * inversion H; subst out. do 3 eexists. split;
          [exact (loop_stop _ _ _ _ _ _ _ _ _ (Hiter _ eq_refl) ltac:(discriminate)) | reflexivity].
      * inversion H; subst out. do 3 eexists. split;
          [exact (loop_stop _ _ _ _ _ _ _ _ _ (Hiter _ eq_refl) ltac:(discriminate)) | reflexivity].
      * inversion H; subst out. do 3 eexists. split;
          [exact (loop_stop _ _ _ _ _ _ _ _ _ (Hiter _ eq_refl) ltac:(discriminate)) | reflexivity].
      * inversion H; subst out. do 3 eexists. split;
          [exact (loop_stop _ _ _ _ _ _ _ _ _ (Hiter _ eq_refl) ltac:(discriminate)) | reflexivity].
      * inversion H; subst out. do 3 eexists. split;
          [exact (loop_stop _ _ _ _ _ _ _ _ _ (Hiter _ eq_refl) ltac:(discriminate)) | reflexivity].
      * inversion H; subst out. do 3 eexists. split;
          [exact (loop_stop _ _ _ _ _ _ _ _ _ (Hiter _ eq_refl) ltac:(discriminate)) | reflexivity].
      * inversion H; subst out. do 3 eexists. split;
          [exact (loop_stop _ _ _ _ _ _ _ _ _ (Hiter _ eq_refl) ltac:(discriminate)) | reflexivity].
    + (* the condition says stop *)
      assert (Ht : Bool.eqb (N.eqb (status sc) 0) (negb u) = false)
        by (rewrite test_eq; exact Et).
      inversion H; subst out.
      assert (Hiter : ok (fun k => loop_iterate k stk cond (negb u) body s reg) (Cont, sc, reg)).
      { ok_start. cbn [loop_iterate]. ok_rw. rewrite Ht. reflexivity. }
      do 3 eexists. split;
        [exact (loop_stop _ _ _ _ _ _ _ _ _ Hiter ltac:(discriminate)) | reflexivity].
  - (* `continue` in the condition *)
    assert (Hiter : ok (fun k => loop_iterate k stk cond (negb u) body s reg) (Brk (DContinue 0), sc, reg)).
    { ok_start. cbn [loop_iterate]. ok_rw. reflexivity. }
    destruct (Iloop stk _ _ _ _ _ _ _ _ _ _ H Hc Hwc Hwb Hsc) as (r & s1 & reg1 & Hok & Hout).
    exists r, s1, reg1. split; [|exact Hout]. eapply loop_again; eassumption.
  - inversion H; subst out.
    assert (Hiter : ok (fun k => loop_iterate k stk cond (negb u) body s reg) (Brk (DContinue (S c)), sc, reg))
      by (ok_start; cbn [loop_iterate]; ok_rw; reflexivity).
    do 3 eexists. split; [exact (loop_stop _ _ _ _ _ _ _ _ _ Hiter ltac:(discriminate)) | reflexivity].
  - inversion H; subst out.
    assert (Hiter : ok (fun k => loop_iterate k stk cond (negb u) body s reg) (Brk (DBreak 0), sc, reg))
      by (ok_start; cbn [loop_iterate]; ok_rw; reflexivity).
    do 3 eexists. split; [exact (loop_stop _ _ _ _ _ _ _ _ _ Hiter ltac:(discriminate)) |].
    cbn. rewrite set_status_same. reflexivity.
  - inversion H; subst out.
    assert (Hiter : ok (fun k => loop_iterate k stk cond (negb u) body s reg) (Brk (DBreak (S c)), sc, reg))
      by (ok_start; cbn [loop_iterate]; ok_rw; reflexivity).
    do 3 eexists. split; [exact (loop_stop _ _ _ _ _ _ _ _ _ Hiter ltac:(discriminate)) | reflexivity].
  - inversion H; subst out.
    assert (Hiter : ok (fun k => loop_iterate k stk cond (negb u) body s reg) (Brk (DReturn (Some v0)), sc, reg))
      by (ok_start; cbn [loop_iterate]; ok_rw; reflexivity).
    do 3 eexists. split; [exact (loop_stop _ _ _ _ _ _ _ _ _ Hiter ltac:(discriminate)) | reflexivity].
  - inversion H; subst out.
    assert (Hiter : ok (fun k => loop_iterate k stk cond (negb u) body s reg) (Brk (DReturn None), sc, reg))
      by (ok_start; cbn [loop_iterate]; ok_rw; reflexivity).
    do 3 eexists. split; [exact (loop_stop _ _ _ _ _ _ _ _ _ Hiter ltac:(discriminate)) | reflexivity].
  - inversion H; subst out.
    assert (Hiter : ok (fun k => loop_iterate k stk cond (negb u) body s reg) (Brk (DInterrupt (Some v0)), sc, reg))
      by (ok_start; cbn [loop_iterate]; ok_rw; reflexivity).
    do 3 eexists. split; [exact (loop_stop _ _ _ _ _ _ _ _ _ Hiter ltac:(discriminate)) | reflexivity].
  - inversion H; subst out.
    assert (Hiter : ok (fun k => loop_iterate k stk cond (negb u) body s reg) (Brk (DInterrupt None), sc, reg))
      by (ok_start; cbn [loop_iterate]; ok_rw; reflexivity).
    do 3 eexists. split; [exact (loop_stop _ _ _ _ _ _ _ _ _ Hiter ltac:(discriminate)) | reflexivity].
  - inversion H; subst out.
    assert (Hiter : ok (fun k => loop_iterate k stk cond (negb u) body s reg) (Brk (DExit (Some v0)), sc, reg))
      by (ok_start; cbn [loop_iterate]; ok_rw; reflexivity).
    do 3 eexists. split; [exact (loop_stop _ _ _ _ _ _ _ _ _ Hiter ltac:(discriminate)) | reflexivity].
  - inversion H; subst out.
    assert (Hiter : ok (fun k => loop_iterate k stk cond (negb u) body s reg) (Brk (DExit None), sc, reg))
      by (ok_start; cbn [loop_iterate]; ok_rw; reflexivity).
    do 3 eexists. split; [exact (loop_stop _ _ _ _ _ _ _ _ _ Hiter ltac:(discriminate)) | reflexivity].
  - inversion H; subst out.
    assert (Hiter : ok (fun k => loop_iterate k stk cond (negb u) body s reg) (Brk (DAbort (Some v0)), sc, reg))
      by (ok_start; cbn [loop_iterate]; ok_rw; reflexivity).
    do 3 eexists. split; [exact (loop_stop _ _ _ _ _ _ _ _ _ Hiter ltac:(discriminate)) | reflexivity].
  - inversion H; subst out.
    assert (Hiter : ok (fun k => loop_iterate k stk cond (negb u) body s reg) (Brk (DAbort None), sc, reg))
      by (ok_start; cbn [loop_iterate]; ok_rw; reflexivity).
    do 3 eexists. split; [exact (loop_stop _ _ _ _ _ _ _ _ _ Hiter ltac:(discriminate)) | reflexivity].
Qed.

(* ---- case ---- *)
Lemma items_skip stk subject upd s : forall items,
  find_clause subject items = None ->
  ok (fun k => exec_items k stk subject items false upd s)
     (Cont, if upd then s else set_status 0 s).
Proof.
  induction items as [|pats body kc items IH]; intros Hf.
  - exists 1. intros [|k] Hk; [lia|]. reflexivity.
  - cbn [find_clause] in Hf. destruct (existsb (match_pat subject) pats) eqn:Em; [discriminate|].
    specialize (IH Hf). ok_start. cbn [exec_items orb]. rewrite Em. ok_rw. reflexivity.
Qed.

Lemma items_find stk subject upd s : forall items b' k' rest',
  find_clause subject items = Some (b', k', rest') ->
  exists pats', existsb (match_pat subject) pats' = true /\
    forall X,
    ok (fun k => exec_items k stk subject (ICons pats' b' k' rest') false upd s) X ->
    ok (fun k => exec_items k stk subject items false upd s) X.
Proof.
  induction items as [|pats body kc items IH]; intros b' k' rest' Hf; [discriminate|].
  cbn [find_clause] in Hf. destruct (existsb (match_pat subject) pats) eqn:Em.
  - inversion Hf; subst. exists pats. split; [exact Em | auto].
  - destruct (IH _ _ _ Hf) as (pats' & Hm & Himp). exists pats'. split; [exact Hm|].
    intros X Hok. specialize (Himp X Hok). ok_start. cbn [exec_items orb]. rewrite Em. ok_rw. reflexivity.
Qed.

Lemma find_clause_wf subject d infun : forall items b' k' rest',
  find_clause subject items = Some (b', k', rest') -> wf_items d infun items = true ->
  wf_list d infun b' = true /\ wf_items d infun rest' = true.
Proof.
  induction items as [|p0 b0 k0 r0 IH]; intros b' k' rest' Ef Hw; [discriminate|].
  cbn [find_clause wf_items] in *. apply andb_true_iff in Hw as [A B].
  destruct (existsb (match_pat subject) p0); [inversion Ef; subst; auto | eauto].
Qed.

Lemma rstep_clause n : rsim_list n -> rsim_clause n -> rsim_clause (S n).
Proof.
  intros Ilist Iclause stk subject body kc rest pats upd s out d infun ex sv H Hc Hwb Hwr Hs ft Hsel.
  cbn [sem_clause] in H.
  destruct (sem_list n d ex sv body s) as [[c1 s1]|] eqn:Eb; [|discriminate].
  destruct (Ilist stk _ _ _ _ _ _ _ Eb Hc Hwb Hs) as (rb & sb & Hokb & Habsb).
  destruct (fwd_list _ _ _ _ _ _ _ _ Hokb Hc Hwb Hs) as [Hsb _].
  destruct (abs_split _ _ _ _ _ Habsb) as [(-> & -> & ->) | (Hne & dv & ->)].
  - assert (Hclause : (Normal, clause_status body sb)
                      = abs sv Cont (if negb (clist_is_empty body) then sb else set_status 0 sb)).
    { unfold clause_status. destruct (clist_is_empty body); reflexivity. }
    destruct kc.
    + inversion H; subst out. eexists; eexists. split; [|symmetry; exact Hclause].
      ok_start. cbn [exec_items]. rewrite Hsel. ok_rw. reflexivity.
    + destruct rest as [|pats' b' k' rest'].
      * cbn [next_clause] in H. inversion H; subst out. eexists; eexists.
        split; [|symmetry; exact Hclause].
        destruct Hokb as [m Hm]. exists (S (S m)). intros [|[|k]] Hk; try lia.
        cbn [exec_items]. rewrite Hsel. rewrite (Hm (S k)) by lia. reflexivity.
      * cbn [next_clause] in H. cbn [wf_items] in Hwr. apply andb_true_iff in Hwr as [Hwb' Hwr'].
        destruct (Iclause stk _ _ _ _ pats' (negb (clist_is_empty body)) _ _ _ _ _ _ H Hc Hwb' Hwr' Hsb true eq_refl)
          as (r & s' & Hok & Habs).
        exists r, s'. split; [|exact Habs].
        ok_start. cbn [exec_items]. rewrite Hsel. ok_rw. reflexivity.
    + destruct (find_clause subject rest) as [[[b' k'] rest']|] eqn:Ef.
      * destruct (find_clause_wf _ _ _ _ _ _ _ Ef Hwr) as [Hwb' Hwr'].
        destruct (items_find stk subject (negb (clist_is_empty body)) sb rest _ _ _ Ef)
          as (pats' & Hm' & Himp).
        destruct (Iclause stk _ _ _ _ pats' (negb (clist_is_empty body)) _ _ _ _ _ _ H Hc Hwb' Hwr' Hsb false Hm')
          as (r & s' & Hok & Habs).
        specialize (Himp _ Hok).
        exists r, s'. split; [|exact Habs].
        ok_start. cbn [exec_items]. rewrite Hsel. ok_rw. reflexivity.
      * inversion H; subst out. eexists; eexists. split; [|symmetry; exact Hclause].
        pose proof (items_skip stk subject (negb (clist_is_empty body)) sb rest Ef) as Hskip.
        ok_start. cbn [exec_items]. rewrite Hsel. ok_rw. reflexivity.
  - exists (Brk dv), sb. split; [ok_start; cbn [exec_items]; rewrite Hsel; ok_rw; reflexivity|].
    brk_case H Habsb c1 out.
Qed.

(* ---- simple commands ---- *)
Ltac now1 := let k := fresh "k" in let Hk := fresh "Hk" in exists 1; intros [|k] Hk; [lia|].

Lemma rstep_call n : rsim_cmd n -> forall stk dc nm args s out d infun ex sv,
  sem_cmd (S n) d ex sv (CCall dc nm args) s = Some out -> ctx_ok stk d infun ex ->
  wf_cmd d infun (CCall dc nm args) = true -> state_ok s ->
  rpost (fun k => exec_cmd k stk (CCall dc nm args) s) sv out.
Proof.
  intros Icmd stk dc nm args s out d infun ex sv H Hc Hw Hs.
  pose proof (co_ex _ _ _ _ Hc) as Hex.
  cbn [sem_cmd] in H.
  (* a built-in run by the model, as the specification's utility *)
  assert (Hbuiltin : forall spf stk0,
            ctx_ok stk0 d infun ex -> apply_errexit stk0 = apply_errexit stk ->
            bad_redir dc = false ->
            forall st dv sb, run_builtin nm spf (FBuiltin :: stk0) args s = ((st, dv), sb) ->
            abs sv (match dv with Cont => apply_errexit stk (set_status st sb) | _ => dv end)
                (set_status st sb) = run_utility nm spf d ex sv args s).
  { intros spf stk0 Hc0 Happ Ebad st dv sb Eb.
    destruct (builtin_sim nm spf stk0 d infun ex sv args s st dv sb Hc0
                (wf_call_of_cmd _ _ _ _ _ Hw Ebad) Eb) as (Habs & _).
    cbv zeta in Habs. rewrite Happ in Habs. exact Habs. }
  destruct (via_command dc) eqn:Evia.
  - destruct (bad_redir dc) eqn:Ebad.
    + inversion H; subst out. exists (apply_errexit stk (set_status 2 s)), (set_status 2 s). split.
      * now1. cbn [exec_cmd]. rewrite Evia, Ebad. reflexivity.
      * apply abs_apply_errexit. exact Hex.
    + destruct (is_special nm || is_regular_builtin nm) eqn:Eb.
      * inversion H; subst out.
        destruct (run_builtin nm false (FBuiltin :: FBuiltin :: stk) args s) as [[st dv] sb] eqn:Er.
        exists (match dv with Cont => apply_errexit stk (set_status st sb) | _ => dv end), (set_status st sb).
        split.
        -- now1. cbn [exec_cmd]. rewrite Evia, Ebad. unfold classify_via_command.
           apply orb_true_iff in Eb. destruct (is_special nm).
           ++ rewrite Er. destruct dv; reflexivity.
           ++ destruct Eb as [Eb|Eb]; [discriminate|]. rewrite Eb, Er. destruct dv; reflexivity.
        -- exact (Hbuiltin false (FBuiltin :: stk) (ctx_builtin _ _ _ _ Hc) eq_refl eq_refl _ _ _ Er).
      * inversion H; subst out. apply orb_false_iff in Eb as [E1 E2].
        exists (apply_errexit stk (set_status 127 s)), (set_status 127 s). split.
        -- now1. cbn [exec_cmd]. rewrite Evia, Ebad. unfold classify_via_command. rewrite E1, E2.
           reflexivity.
        -- apply abs_apply_errexit. exact Hex.
  - unfold resolve in H.
    destruct (is_special nm) eqn:Esp.
    + destruct (bad_redir dc) eqn:Ebad.
      * inversion H; subst out. exists (Brk (DInterrupt None)), (set_status 2 s). split; [|reflexivity].
        now1. cbn [exec_cmd]. rewrite Evia. unfold classify. rewrite Esp. unfold execute_builtin.
        rewrite Ebad. reflexivity.
      * inversion H; subst out.
        destruct (run_builtin nm true (FBuiltin :: stk) args s) as [[st dv] sb] eqn:Er.
        exists (match dv with Cont => apply_errexit stk (set_status st sb) | _ => dv end), (set_status st sb).
        split.
        -- now1. cbn [exec_cmd]. rewrite Evia. unfold classify. rewrite Esp. unfold execute_builtin.
           rewrite Ebad, Er. destruct dv; reflexivity.
        -- exact (Hbuiltin true stk Hc eq_refl eq_refl _ _ _ Er).
    + destruct (lookup_fun nm (funs s)) as [body|] eqn:Efun.
      * destruct (bad_redir dc) eqn:Ebad.
        -- inversion H; subst out. exists (apply_errexit stk (set_status 2 s)), (set_status 2 s). split.
           ++ now1. cbn [exec_cmd]. rewrite Evia. unfold classify. rewrite Esp, Efun, Ebad. reflexivity.
           ++ apply abs_apply_errexit. exact Hex.
        -- destruct (sem_cmd n 0 ex sv body s) as [[c1 s1]|] eqn:Eb; [|discriminate].
           destruct (Icmd stk _ _ _ _ _ _ _ Eb (ctx_fun _ _ _ _ Hc) (so_funs _ Hs _ _ Efun) Hs)
             as (rb & sb & Hokb & Habsb).
           assert (Hrun : forall r s',
                     (match rb with
                      | Brk (DReturn o) => Some (Cont, match o with Some st => set_status st sb | None => sb end)
                      | _ => Some (rb, sb)
                      end) = Some (r, s') ->
                     ok (fun k => exec_cmd k stk (CCall dc nm args) s)
                        (match r with Cont => apply_errexit stk s' | _ => r end, s')).
           { intros r s' E. ok_start. cbn [exec_cmd]. rewrite Evia. unfold classify.
             rewrite Esp, Efun, Ebad. ok_rw.
             destruct rb as [|[c|c|[v|]|o|o|o]]; inversion E; subst; reflexivity. }
           destruct rb as [|[c|c|[v|]|[v|]|[v|]|[v|]]]; cbn [abs] in Habsb; injection Habsb as <- <-;
             inversion H; subst out;
             (eexists; eexists; split; [apply Hrun; reflexivity |]);
             cbv iota; try reflexivity; apply abs_apply_errexit; exact Hex.
      * destruct (is_regular_builtin nm) eqn:Ereg.
        -- destruct (bad_redir dc) eqn:Ebad.
           ++ inversion H; subst out. exists (apply_errexit stk (set_status 2 s)), (set_status 2 s). split.
              ** now1. cbn [exec_cmd]. rewrite Evia. unfold classify. rewrite Esp, Efun, Ereg.
                 unfold execute_builtin. rewrite Ebad. reflexivity.
              ** apply abs_apply_errexit. exact Hex.
           ++ inversion H; subst out.
              destruct (run_builtin nm false (FBuiltin :: stk) args s) as [[st dv] sb] eqn:Er.
              exists (match dv with Cont => apply_errexit stk (set_status st sb) | _ => dv end), (set_status st sb).
              split.
              ** now1. cbn [exec_cmd]. rewrite Evia. unfold classify. rewrite Esp, Efun, Ereg.
                 unfold execute_builtin. rewrite Ebad, Er. destruct dv; reflexivity.
              ** exact (Hbuiltin false stk Hc eq_refl eq_refl _ _ _ Er).
        -- assert (Hout : out = done ex sv (set_status (if bad_redir dc then 2%N else 127%N) s)).
           { destruct (bad_redir dc); inversion H; reflexivity. }
           subst out.
           exists (apply_errexit stk (set_status (if bad_redir dc then 2%N else 127%N) s)),
                  (set_status (if bad_redir dc then 2%N else 127%N) s). split.
           ++ now1. cbn [exec_cmd]. rewrite Evia. unfold classify. rewrite Esp, Efun, Ereg. reflexivity.
           ++ apply abs_apply_errexit. exact Hex.
Qed.

(* ---- commands ---- *)
Lemma rstep_cmd n : rsim_all n -> rsim_cmd (S n).
Proof.
  intros [Icmd Ilist Iandor Ipipe Icmds Imulti Isub Itrap Ielse Ifor Iloop Iclause].
  intros stk c s out d infun ex sv H Hc Hw Hs.
  pose proof (co_ex _ _ _ _ Hc) as Hex.
  destruct c.
  - (* assignment *)
    cbn [sem_cmd] in H.
    destruct (expand_word w s) as [fields|] eqn:Ew.
    + destruct (is_ronly x s) eqn:Ero.
      * inversion H; subst out. exists (handle_expansion_error stk s), s. split.
        -- now1. cbn [exec_cmd]. rewrite Ew, Ero. reflexivity.
        -- apply (abs_expansion_error stk sv s ErrAssignment eq_refl eq_refl ex).
      * inversion H; subst out. eexists; eexists. split.
        -- now1. cbn [exec_cmd]. rewrite Ew, Ero. reflexivity.
        -- rewrite apply_errexit_zero by reflexivity. reflexivity.
    + inversion H; subst out. exists (handle_expansion_error stk s), s. split.
      * now1. cbn [exec_cmd]. rewrite Ew. reflexivity.
      * apply (abs_expansion_error stk sv s ErrExpansion eq_refl eq_refl ex).
  - (* readonly *)
    cbn [sem_cmd] in H. inversion H; subst out. eexists; eexists. split.
    + now1. reflexivity.
    + rewrite apply_errexit_zero by reflexivity. reflexivity.
  - (* x=$(body) *)
    cbn [sem_cmd] in H. cbn [wf_cmd] in Hw. apply andb_true_iff in Hw as [_ Hwb].
    destruct (sem_subshell n ex body s) as [child|] eqn:Esub; [|discriminate].
    pose proof (Isub stk _ _ _ infun ex Esub Hex Hwb Hs) as Hok.
    destruct (is_ronly x s) eqn:Ero.
    + inversion H; subst out. eexists; eexists. split.
      * ok_start. cbn [exec_cmd]. ok_rw. rewrite Ero. reflexivity.
      * apply (abs_expansion_error stk sv _ ErrAssignment eq_refl eq_refl ex).
    + inversion H; subst out. eexists; eexists. split.
      * ok_start. cbn [exec_cmd]. ok_rw. rewrite Ero. reflexivity.
      * apply abs_apply_errexit. exact Hex.
  - (* : $(body) *)
    cbn [sem_cmd] in H. cbn [wf_cmd] in Hw. apply andb_true_iff in Hw as [_ Hwb].
    destruct (sem_subshell n ex body s) as [child|] eqn:Esub; [|discriminate].
    pose proof (Isub stk _ _ _ infun ex Esub Hex Hwb Hs) as Hok.
    inversion H; subst out. eexists; eexists. split.
    + ok_start. cbn [exec_cmd]. ok_rw. reflexivity.
    + rewrite apply_errexit_zero by reflexivity. reflexivity.
  - (* { a & } *)
    cbn [sem_cmd] in H. cbn [wf_cmd] in Hw.
    assert (Hwb : wf_list 0 infun (LCons a LNil) = true) by (cbn [wf_list]; rewrite Hw; reflexivity).
    destruct (sem_subshell n ex (LCons a LNil) s) as [child|] eqn:Esub; [|discriminate].
    pose proof (Isub stk _ _ _ infun ex Esub Hex Hwb Hs) as Hok.
    inversion H; subst out. eexists; eexists. split.
    + ok_start. cbn [exec_cmd]. ok_rw. reflexivity.
    + reflexivity.
  - (* x=w NAME ARGS *)
    cbn [sem_cmd] in H. rewrite wf_prefix_call in Hw.
    destruct (expand_word w s) as [fields|] eqn:Ew.
    + destruct (is_ronly x s) eqn:Ero.
      * inversion H; subst out. exists (handle_expansion_error stk s), s. split.
        -- now1. cbn [exec_cmd]. rewrite Ew, Ero. reflexivity.
        -- apply (abs_expansion_error stk sv s ErrAssignment eq_refl eq_refl ex).
      * destruct (sem_cmd n d ex sv (CCall plain nm args) (set_var x (hd_error fields) s))
          as [[c1 t1]|] eqn:Ecall; [|discriminate].
        inversion H; subst out.
        assert (Hs0 : state_ok (set_var x (hd_error fields) s))
          by (eapply state_ok_same; [..|exact Hs]; reflexivity).
        destruct (Icmd stk _ _ _ _ _ _ _ Ecall Hc Hw Hs0) as (r1 & s1 & Hok1 & Habs1).
        exists r1, (if is_special nm then s1 else restore_var x s s1). split.
        -- ok_start. cbn [exec_cmd]. rewrite Ew, Ero. ok_rw. reflexivity.
        -- destruct (is_special nm); [exact Habs1|]. rewrite abs_restore, Habs1. reflexivity.
    + inversion H; subst out. exists (handle_expansion_error stk s), s. split.
      * now1. cbn [exec_cmd]. rewrite Ew. reflexivity.
      * apply (abs_expansion_error stk sv s ErrExpansion eq_refl eq_refl ex).
  - exact (rstep_call n Icmd _ _ _ _ _ _ _ _ _ _ H Hc Hw Hs).
  - (* brace group *)
    cbn [sem_cmd] in H. cbn [wf_cmd] in Hw.
    destruct (Ilist stk _ _ _ _ _ _ _ H Hc Hw Hs) as (r & s' & Hok & Habs).
    exists r, s'. split; [|exact Habs]. ok_start. cbn [exec_cmd]. ok_rw. reflexivity.
  - (* subshell *)
    cbn [sem_cmd] in H. cbn [wf_cmd] in Hw.
    destruct (sem_subshell n ex body s) as [child|] eqn:Esub; [|discriminate].
    inversion H; subst out.
    pose proof (Isub stk _ _ _ infun ex Esub Hex Hw Hs) as Hok.
    exists (apply_errexit stk (absorb_child s child)), (absorb_child s child). split.
    + ok_start. cbn [exec_cmd]. ok_rw. reflexivity.
    + apply abs_apply_errexit. exact Hex.
  - (* if *)
    cbn [wf_cmd] in Hw.
    apply andb_true_iff in Hw as [Hw Hwl]. apply andb_true_iff in Hw as [Hw Hwe].
    apply andb_true_iff in Hw as [Hwc Hwb].
    destruct (rstep_else n Ilist Ielse stk _ _ _ _ _ _ _ _ _ _ _ H Hc Hwc Hwb Hwe Hwl Hs)
      as (r & s' & Hok & Habs).
    exists r, s'. split; [|exact Habs].
    destruct Hok as [m Hm]. exists (S m). intros [|k] Hk; [lia|]. cbn [exec_cmd]. apply Hm. lia.
  - (* while / until *)
    cbn [sem_cmd] in H. cbn [wf_cmd] in Hw. apply andb_true_iff in Hw as [Hwc Hwb].
    destruct (Iloop (FLoop :: stk) _ _ _ _ _ _ _ _ _ _ H (ctx_loop _ _ _ _ Hc) Hwc Hwb Hs)
      as (r & s1 & reg1 & Hok & Hout).
    destruct r as [|dv].
    + exists Cont, (set_status reg1 s1). split; [|exact Hout].
      ok_start. cbn [exec_cmd]. ok_rw. reflexivity.
    + exists (Brk dv), s1. split; [|exact Hout].
      ok_start. cbn [exec_cmd]. ok_rw. reflexivity.
  - (* for *)
    cbn [sem_cmd] in H. cbn [wf_cmd] in Hw.
    apply andb_true_iff in Hw as [Hne Hwb].
    destruct (expand_words ws s) as [values|] eqn:Ew.
    + destruct values as [|v values'].
      * inversion H; subst out. exists Cont, (set_status 0 s). split; [|reflexivity].
        now1. cbn [exec_cmd]. rewrite Ew, Hne. reflexivity.
      * destruct (Ifor (FLoop :: stk) _ _ _ _ _ _ _ _ _ H (ctx_loop _ _ _ _ Hc) Hwb Hs)
          as (r & s' & Hok & Habs).
        exists r, s'. split; [|exact Habs]. ok_start. cbn [exec_cmd]. rewrite Ew. ok_rw. reflexivity.
    + inversion H; subst out. exists (handle_expansion_error stk s), s. split.
      * now1. cbn [exec_cmd]. rewrite Ew. reflexivity.
      * apply (abs_expansion_error stk sv s ErrExpansion eq_refl eq_refl ex).
  - (* case *)
    cbn [sem_cmd] in H. cbn [wf_cmd] in Hw. pose proof Hw as Hwi.
    destruct (expand_word w s) as [fields|] eqn:Ew.
    + destruct (find_clause (hd_error fields) items) as [[[b kc] rest]|] eqn:Ef.
      * destruct (find_clause_wf _ _ _ _ _ _ _ Ef Hwi) as [Hwb' Hwr'].
        destruct (items_find stk (hd_error fields) false s items _ _ _ Ef) as (pats' & Hm' & Himp).
        destruct (Iclause stk _ _ _ _ pats' false _ _ _ _ _ _ H Hc Hwb' Hwr' Hs false Hm')
          as (r & s' & Hok & Habs).
        specialize (Himp _ Hok).
        exists r, s'. split; [|exact Habs]. ok_start. cbn [exec_cmd]. rewrite Ew. ok_rw. reflexivity.
      * inversion H; subst out. exists Cont, (set_status 0 s). split; [|reflexivity].
        pose proof (items_skip stk (hd_error fields) false s items Ef) as Hskip.
        ok_start. cbn [exec_cmd]. rewrite Ew. ok_rw. reflexivity.
    + inversion H; subst out. exists (handle_expansion_error stk s), s. split.
      * now1. cbn [exec_cmd]. rewrite Ew. reflexivity.
      * apply (abs_expansion_error stk sv s ErrExpansion eq_refl eq_refl ex).
  - (* function definition *)
    cbn [sem_cmd] in H. inversion H; subst out. eexists; eexists. split.
    + now1. reflexivity.
    + rewrite apply_errexit_zero by reflexivity. reflexivity.
  - (* trap *)
    cbn [sem_cmd] in H. inversion H; subst out. eexists; eexists. split.
    + now1. reflexivity.
    + rewrite apply_errexit_zero by reflexivity. reflexivity.
  - (* compound command with a failing redirection *)
    cbn [sem_cmd] in H. inversion H; subst out.
    exists (apply_errexit stk (set_status 2 s)), (set_status 2 s). split.
    + now1. reflexivity.
    + apply abs_apply_errexit. exact Hex.
Qed.

Theorem rsim_holds : forall n, rsim_all n.
Proof.
  induction n as [|n IH].
  - split; repeat intro; try discriminate.
    + (* rsim_commands 0: sem_commands 0 of an empty pipeline is defined *)
      unfold sem_commands in H. destruct cs as [|c [|c2 cs2]]; try discriminate.
      inversion H; subst. exists Cont, (set_status 0 s). split; [|reflexivity].
      exists 1. intros [|k] Hk; [lia|]. reflexivity.
    + (* rsim_else 0 *)
      unfold sem_else in H. destruct e; [destruct has_else|]; try discriminate.
      inversion H; subst. exists Cont, (set_status 0 s). split; [|reflexivity].
      exists 1. intros [|k] Hk; [lia|]. reflexivity.
  - pose proof IH as [Icmd Ilist Iandor Ipipe Icmds Imulti Isub Itrap Ielse Ifor Iloop Iclause].
    assert (Jcmd : rsim_cmd (S n)) by (apply rstep_cmd; exact IH).
    assert (Jlist : rsim_list (S n)) by (apply rstep_list; assumption).
    assert (Jtrap : rsim_trap (S n)) by (apply rstep_trap; assumption).
    assert (Jmulti : rsim_multi (S n)) by (apply rstep_multi; assumption).
    split.
    + exact Jcmd.
    + exact Jlist.
    + apply rstep_andor; assumption.
    + apply rstep_pipeline; assumption.
    + apply rcommands; assumption.
    + exact Jmulti.
    + apply rstep_subshell; assumption.
    + exact Jtrap.
    + apply relse; assumption.
    + apply rstep_for; assumption.
    + apply rstep_loop; assumption.
    + apply rstep_clause; assumption.
Qed.
End Rev.
