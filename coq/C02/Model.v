(* C02 / C10 — MODEL: an executable re-statement of how yash-rs executes the
   core command language.

   Mirrors (file by file)
     yash-semantics/src/command.rs                      List::execute
     yash-semantics/src/command/item.rs                 (synchronous items only)
     yash-semantics/src/command/and_or.rs               AndOrList::execute
     yash-semantics/src/command/pipeline.rs             Pipeline::execute
     yash-semantics/src/command/compound_command.rs     evaluate_condition
     yash-semantics/src/command/compound_command/{if,while_loop,for_loop,case,subshell}.rs
     yash-semantics/src/command/function_definition.rs
     yash-semantics/src/command/simple_command{,/builtin,/function,/absent}.rs
     yash-semantics/src/runner.rs                       read_eval_loop_impl
     yash-semantics/src/trap/exit.rs, trap.rs           run_exit_trap / run_trap
     yash-semantics/src/handle.rs                       error handlers
     yash-builtin/src/{break,continue,return,exit}.rs   and common/report.rs
     yash-env/src/stack.rs                              Frame, Stack::loop_count
     yash-env/src/semantics.rs                          Divert, Result
     yash-env/src/semantics/command/search.rs           classify
     yash-env/src/lib.rs                                errexit_is_applicable,
                                                        apply_errexit, apply_result

   Conventions.  Exit statuses, probe keys, tokens and variable names are [N].
   The runtime context stack is a [list frame] whose head is the innermost
   frame; it is passed as an argument instead of being stored in the
   environment: in the Rust code every frame is pushed through an RAII guard
   ([Env::push_frame]) and is popped when the guard goes out of scope, so the
   stack seen by a callee is exactly "frame :: stack of the caller".
   All loops run on explicit fuel; [None] means "out of fuel" (never "error").
   Multi-command pipelines and subshells are modelled as "run the body on a
   copy of the state; keep only the exit status and the probe trace". *)
From Yv Require Import Common.Base.

(* ------------------------------------------------------------------ *)
(* Syntax                                                              *)
(* ------------------------------------------------------------------ *)

(* Command names.  The first group are special built-ins of yash-rs ([NExec] is
   `exec` without operands, [NDot] is `.` applied to a file that does not exist), the
   second group the regular ("mandatory") built-ins that the harness
   registers, [NCommand] the `command` built-in; [NUser i] is any other name
   (rendered f<i>): a function if one is defined, else not found. *)
Inductive name :=
| NColon | NBreak | NContinue | NReturn | NExit | NSet | NExec | NDot
| NProbe | NTrue | NFalse | NWait
| NUser (i : N).

Definition name_eqb (a b : name) : bool :=
  match a, b with
  | NColon, NColon | NBreak, NBreak | NContinue, NContinue | NReturn, NReturn
  | NExit, NExit | NSet, NSet | NExec, NExec | NDot, NDot | NProbe, NProbe | NTrue, NTrue | NFalse, NFalse | NWait, NWait => true
  | NUser i, NUser j => N.eqb i j
  | _, _ => false
  end.

Definition is_special (nm : name) : bool :=
  match nm with
  | NColon | NBreak | NContinue | NReturn | NExit | NSet | NExec | NDot => true
  | _ => false
  end.

Definition is_regular_builtin (nm : name) : bool :=
  match nm with NProbe | NTrue | NFalse | NWait => true | _ => false end.

(* Words: a literal token, `$x` (expands to no field if x is unset or empty:
   tokens contain neither blanks nor pattern characters), or `${x?}` (an
   expansion error if x is unset; no field if x is set but empty).  An
   assignment `x=w` stores the single field of w, or the empty string. *)
Inductive word := WLit (t : N) | WVar (x : N) | WReq (x : N).
Inductive pat := PLit (t : N) | PStar.
(* case item terminators  ;;  ;&  ;;&  (CaseContinuation::{Break,FallThrough,Continue}) *)
Inductive cont := KBreak | KFall | KCont.

(* How a simple command is decorated (C10): a redirection that fails
   (`</nonexistent/file`), and/or a call through the `command` built-in. *)
Record deco := mkDeco { bad_redir : bool; via_command : bool }.
Definition plain : deco := mkDeco false false.

Inductive cmd :=
| CAssign (x : N) (w : word)                 (* x=w          (no command word) *)
| CReadonly (x : N)                          (* readonly x   (special built-in) *)
| CAssignSub (x : N) (body : clist)          (* x=$(body)    (no command word) *)
| CSubstArg (body : clist)                   (* : $(body)    (the substitution's status is ignored) *)
| CAsync (a : andor)                         (* { a & }      (asynchronous and-or list) *)
| CPrefixCall (x : N) (w : word) (nm : name) (args : list N)   (* x=w NAME ARGS *)
| CCall (d : deco) (nm : name) (args : list N)
| CBrace (body : clist)
| CSubshell (body : clist)
| CIf (cond body : clist) (elifs : eliflist) (has_else : bool) (els : clist)
| CWhile (is_until : bool) (cond body : clist)
| CFor (x : N) (ws : list word) (body : clist)
| CCase (w : word) (items : itemlist)
| CFunDef (nm : name) (body : cmd)
| CTrapExit (action : clist)                 (* trap '...' EXIT *)
| CRedirFail (c : cmd)                       (* compound command with a failing redirection *)
with clist := LNil | LCons (a : andor) (l : clist)
with andor := AndOr (first : pipeline) (rest : aorest)
with aorest := RNil | RCons (is_and : bool) (p : pipeline) (r : aorest)
with pipeline := Pipe (neg : bool) (cs : cmds)
with cmds := CNil | CCons (c : cmd) (cs : cmds)
with eliflist := ENil | ECons (cond body : clist) (e : eliflist)
with itemlist := INil | ICons (pats : list pat) (body : clist) (k : cont) (is : itemlist).

(* One line of the script as the read-eval loop sees it: a complete command
   that parses, or a syntax error. *)
Inductive line := LCmd (l : clist) | LSyntaxError.
Definition prog := list line.

(* ------------------------------------------------------------------ *)
(* Runtime data                                                        *)
(* ------------------------------------------------------------------ *)

(* yash-env/src/stack.rs Frame (the variants that can occur here) *)
Inductive frame := FLoop | FSubshell | FCondition | FBuiltin | FTrap.

Definition frame_is_loop (f : frame) : bool := match f with FLoop => true | _ => false end.
Definition frame_is_condition (f : frame) : bool :=
  match f with FCondition => true | _ => false end.

(* Stack::loop_count: retains_context / take_while / filter / take / count *)
Definition retains_context (f : frame) : bool :=
  match f with
  | FLoop | FCondition | FBuiltin => true
  | FSubshell | FTrap => false
  end.

Fixpoint take_while {A} (p : A -> bool) (l : list A) : list A :=
  match l with
  | [] => []
  | x :: l => if p x then x :: take_while p l else []
  end.

Definition loop_count (stk : list frame) (max_count : nat) : nat :=
  length (firstn max_count (filter frame_is_loop (take_while retains_context stk))).

(* yash-env/src/semantics.rs Divert, Result *)
Inductive divert :=
| DContinue (count : nat)
| DBreak (count : nat)
| DReturn (o : option N)
| DInterrupt (o : option N)
| DExit (o : option N)
| DAbort (o : option N).

Inductive flow := Cont | Brk (d : divert).

Definition divert_exit_status (d : divert) : option N :=
  match d with
  | DContinue _ | DBreak _ => None
  | DReturn o | DInterrupt o | DExit o | DAbort o => o
  end.

(* the derived Ord of Divert (used by Command::execute for main/trap results) *)
Definition divert_rank (d : divert) : nat :=
  match d with
  | DContinue _ => 0 | DBreak _ => 1 | DReturn _ => 2
  | DInterrupt _ => 3 | DExit _ => 4 | DAbort _ => 5
  end.

Record state := mkState {
  vars : list (N * option N);     (* variable -> token; [None] = the empty string *)
  ronly : list N;                 (* read-only variables *)
  funs : list (name * cmd);       (* function table *)
  errexit : bool;                 (* option ErrExit *)
  status : N;                     (* Env::exit_status, `$?` *)
  trace : list (N * N);           (* probe calls (key, `$?` on entry), newest first *)
  exit_trap : option clist;       (* action of the EXIT trap set in this shell environment *)
  jobs : list (N * N);            (* asynchronous jobs not yet waited for: id, exit status *)
  last_async : option N;          (* `$!` *)
  next_job : N                    (* the id the next asynchronous job gets *)
}.

Definition init_state : state := mkState [] [] [] false 0 [] None [] None 0.

Definition set_status (st : N) (s : state) : state :=
  mkState (vars s) (ronly s) (funs s) (errexit s) st (trace s) (exit_trap s) (jobs s) (last_async s) (next_job s).
Definition set_errexit (b : bool) (s : state) : state :=
  mkState (vars s) (ronly s) (funs s) b (status s) (trace s) (exit_trap s) (jobs s) (last_async s) (next_job s).
Definition set_trace (t : list (N * N)) (s : state) : state :=
  mkState (vars s) (ronly s) (funs s) (errexit s) (status s) t (exit_trap s) (jobs s) (last_async s) (next_job s).
Definition set_exit_trap (t : option clist) (s : state) : state :=
  mkState (vars s) (ronly s) (funs s) (errexit s) (status s) (trace s) t (jobs s) (last_async s) (next_job s).
Definition set_var (x : N) (v : option N) (s : state) : state :=
  mkState ((x, v) :: vars s) (ronly s) (funs s) (errexit s) (status s) (trace s) (exit_trap s) (jobs s) (last_async s) (next_job s).
Definition add_ronly (x : N) (s : state) : state :=
  mkState (vars s) (x :: ronly s) (funs s) (errexit s) (status s) (trace s) (exit_trap s) (jobs s) (last_async s) (next_job s).
Definition define_fun (nm : name) (body : cmd) (s : state) : state :=
  mkState (vars s) (ronly s) ((nm, body) :: funs s) (errexit s) (status s) (trace s) (exit_trap s) (jobs s) (last_async s) (next_job s).
Definition set_jobs (j : list (N * N)) (s : state) : state :=
  mkState (vars s) (ronly s) (funs s) (errexit s) (status s) (trace s) (exit_trap s) j
          (last_async s) (next_job s).
(* item.rs execute_async, the parent's side: the job is remembered, `$!` is set *)
Definition start_job (st : N) (s : state) : state :=
  mkState (vars s) (ronly s) (funs s) (errexit s) (status s) (trace s) (exit_trap s)
          ((next_job s, st) :: jobs s) (Some (next_job s)) (N.succ (next_job s)).

Fixpoint lookup_job (id : N) (l : list (N * N)) : option N :=
  match l with
  | [] => None
  | (i, st) :: l => if N.eqb id i then Some st else lookup_job id l
  end.

(* yash-builtin wait.rs / wait/status.rs: `wait` (args = []) waits for every
   job, forgets them and returns 0; `wait $!` (args = [_]) returns the status of
   the last asynchronous job and forgets it, 127 if it is not (any more) a job
   of this shell environment; without a `$!` the operand expands to nothing.
   In the model every asynchronous job has finished when it is waited for. *)
Definition job_wait (args : list N) (s : state) : N * state :=
  match (match args with [_] => last_async s | _ => None end) with
  | None => (0%N, set_jobs [] s)
  | Some id =>
      match lookup_job id (jobs s) with
      | Some st => (st, set_jobs (filter (fun j => negb (N.eqb (fst j) id)) (jobs s)) s)
      | None => (127%N, s)
      end
  end.

(* the end of a Volatile variable context (simple_command/builtin.rs,
   function.rs: push_context(Context::Volatile)): the variable [x] is again
   what it was in [old]; everything else stays as in [new] *)
Definition restore_var (x : N) (old new : state) : state :=
  mkState (filter (fun b => N.eqb (fst b) x) (vars old)
           ++ filter (fun b => negb (N.eqb (fst b) x)) (vars new))
          (ronly new) (funs new) (errexit new) (status new) (trace new) (exit_trap new)
          (jobs new) (last_async new) (next_job new).

Definition push_trace (k : N) (s : state) : state :=
  set_trace ((k, status s) :: trace s) s.

Fixpoint lookup_var (x : N) (l : list (N * option N)) : option (option N) :=
  match l with
  | [] => None
  | (y, v) :: l => if N.eqb x y then Some v else lookup_var x l
  end.

Fixpoint lookup_fun (nm : name) (l : list (name * cmd)) : option cmd :=
  match l with
  | [] => None
  | (n', b) :: l => if name_eqb nm n' then Some b else lookup_fun nm l
  end.

Definition is_ronly (x : N) (s : state) : bool := existsb (N.eqb x) (ronly s).

(* ------------------------------------------------------------------ *)
(* Small pieces of yash-env                                            *)
(* ------------------------------------------------------------------ *)

(* Env::errexit_is_applicable *)
Definition errexit_is_applicable (stk : list frame) (s : state) : bool :=
  errexit s && negb (existsb frame_is_condition stk).

(* Env::apply_errexit *)
Definition apply_errexit (stk : list frame) (s : state) : flow :=
  if negb (N.eqb (status s) 0) && errexit_is_applicable stk s
  then Brk (DExit None) else Cont.

(* Env::apply_result *)
Definition apply_result (r : flow) (s : state) : state :=
  match r with
  | Cont => s
  | Brk d => match divert_exit_status d with Some st => set_status st s | None => s end
  end.

(* command search: yash-env/src/semantics/command/search.rs classify *)
Inductive target := TBuiltin (special : bool) | TFunction (body : cmd) | TExternal.

Definition classify (nm : name) (s : state) : target :=
  if is_special nm then TBuiltin true
  else match lookup_fun nm (funs s) with
       | Some body => TFunction body
       | None => if is_regular_builtin nm then TBuiltin false else TExternal
       end.

(* The `command` built-in searches built-ins and external utilities only. *)
Definition classify_via_command (nm : name) : target :=
  if is_special nm then TBuiltin true
  else if is_regular_builtin nm then TBuiltin false else TExternal.

(* Word expansion of the word forms above: the fields, or an expansion error. *)
Definition expand_word (w : word) (s : state) : option (list N) :=
  match w with
  | WLit t => Some [t]
  | WVar x => match lookup_var x (vars s) with Some (Some v) => Some [v] | _ => Some [] end
  | WReq x => match lookup_var x (vars s) with
              | Some (Some v) => Some [v]
              | Some None => Some []
              | None => None
              end
  end.

Fixpoint expand_words (ws : list word) (s : state) : option (list N) :=
  match ws with
  | [] => Some []
  | w :: ws => match expand_word w s, expand_words ws s with
               | Some a, Some b => Some (a ++ b)
               | _, _ => None
               end
  end.

(* handle.rs: impl Handle for expansion::Error (also used for assignment errors) *)
Definition handle_expansion_error (stk : list frame) (s : state) : flow :=
  if errexit_is_applicable stk s then Brk (DExit (Some 2%N)) else Brk (DInterrupt (Some 2%N)).

Definition match_pat (subject : option N) (p : pat) : bool :=
  match p with
  | PStar => true
  | PLit t => match subject with Some v => N.eqb v t | None => false end
  end.

Definition clist_is_empty (l : clist) : bool := match l with LNil => true | _ => false end.

(* ------------------------------------------------------------------ *)
(* Built-ins                                                           *)
(* ------------------------------------------------------------------ *)

(* yash_env::builtin::Result: exit status + divert *)
Definition bres := (N * flow)%type.

(* common/report.rs: the divert of a built-in that reports an error *)
Definition error_divert (is_special_frame : bool) : flow :=
  if is_special_frame then Brk (DInterrupt None) else Cont.

(* break/syntax.rs parse: no operand = 1; one positive operand; else an error *)
Definition parse_count (args : list N) : option nat :=
  match args with
  | [] => Some 1%nat
  | [n] => if N.eqb n 0 then None else Some (N.to_nat n)
  | _ => None
  end.

(* break.rs / continue.rs main + semantics::run.  [stk] already has the
   Builtin frame on top. *)
Definition builtin_break (is_break : bool) (spf : bool) (stk : list frame) (args : list N) : bres :=
  match parse_count args with
  | None => (2%N, error_divert spf)                       (* report_error: ExitStatus::ERROR *)
  | Some max_count =>
      match loop_count stk max_count with
      | O => (1%N, error_divert spf)                      (* report_simple_failure: "not in a loop" *)
      | S c => (0%N, Brk (if is_break then DBreak c else DContinue c))
      end
  end.

(* return.rs / exit.rs main (without -n / -f) *)
Definition builtin_return (is_return : bool) (spf : bool) (s : state) (args : list N) : bres :=
  match args with
  | [] => (status s, Brk (if is_return then DReturn None else DExit None))
  | [n] => (status s, Brk (if is_return then DReturn (Some n) else DExit (Some n)))
  | _ => (2%N, error_divert spf)                          (* syntax_error "too many operands" *)
  end.

(* The built-ins of the model.  Returns the built-in's result and the state
   (the probe records a trace item, `set` changes the option). *)
Definition run_builtin (nm : name) (spf : bool) (stk : list frame) (args : list N) (s : state)
  : bres * state :=
  match nm with
  | NColon | NTrue => ((0%N, Cont), s)
  | NFalse => ((1%N, Cont), s)
  | NProbe =>
      let s' := push_trace (hd 0%N args) s in
      ((match args with [_; st] => st | _ => 0%N end, Cont), s')
  | NSet =>
      (* `set +e` / `set -e` (args = [0] / [1]); `set +m` / `set -m` (args =
         [2] / [3]): the monitor option does not take part in anything modelled *)
      ((0%N, Cont),
       set_errexit (match args with
                    | [b] => if N.ltb b 2 then negb (N.eqb b 0) else errexit s
                    | _ => errexit s
                    end) s)
  | NExec =>
      (* `exec` without a command (only its redirections matter) *)
      ((0%N, Cont), s)
  | NDot =>
      (* `. FILE` for a FILE that does not exist: source/semantics.rs
         report_find_and_open_file_failure: ExitStatus::FAILURE + the error divert *)
      ((1%N, error_divert spf), s)
  | NBreak => (builtin_break true spf stk args, s)
  | NContinue => (builtin_break false spf stk args, s)
  | NReturn => (builtin_return true spf s args, s)
  | NExit => (builtin_return false spf s args, s)
  | NWait => let '(st, s') := job_wait args s in ((st, Cont), s')
  | NUser _ => ((127%N, Cont), s)
  end.

(* simple_command/builtin.rs execute_builtin, for a built-in found under
   [nm] with type special?=[special]; [spf] is the is_special flag of the
   Builtin frame (false when run through `command`). *)
Definition execute_builtin (nm : name) (special spf : bool) (redir_fails : bool)
    (stk : list frame) (args : list N) (s : state) : flow * state :=
  if redir_fails then
    (* e.handle(env): exit status 2, Continue; then by type *)
    let s' := set_status 2 s in
    if special then (Brk (DInterrupt None), s') else (Cont, s')
  else
    let '((st, dv), s') := run_builtin nm spf (FBuiltin :: stk) args s in
    (dv, set_status st s').

(* ------------------------------------------------------------------ *)
(* The interpreter                                                     *)
(* ------------------------------------------------------------------ *)

Definition res := (flow * state)%type.

(* What the parent keeps of a finished subshell: its exit status and trace. *)
Definition absorb_child (parent child : state) : state :=
  set_trace (trace child) (set_status (status child) parent).

(* The state a subshell starts from (traps other than "ignore" are reset). *)
Definition child_state (s : state) : state := set_jobs [] (set_exit_trap None s).

Definition is_cont (r : flow) : bool := match r with Cont => true | _ => false end.

Fixpoint exec_cmd (n : nat) (stk : list frame) (c : cmd) (s : state) {struct n} : option res :=
  match n with O => None | S n =>
  match c with
  | CAssign x w =>
      (* simple_command.rs, absent.rs: no command word, no redirection *)
      match expand_word w s with
      | None => Some (handle_expansion_error stk s, s)
      | Some fields =>
          if is_ronly x s then
            (* assign.rs error: handled like an expansion error *)
            Some (handle_expansion_error stk s, s)
          else
            let s1 := set_var x (hd_error fields) s in
            let s2 := set_status 0 s1 in
            Some (apply_errexit stk s2, s2)
      end
  | CReadonly x =>
      let s1 := set_status 0 (add_ronly x s) in
      Some (apply_errexit stk s1, s1)
  | CAssignSub x body =>
      (* expansion/initial/command_subst.rs: the body runs like a subshell
         (apply_result, run_exit_trap); probes write nothing to its standard
         output, so the value is empty; absent.rs: the exit status of the
         command is that of the substitution *)
      match run_subshell n stk body s with
      | None => None
      | Some child =>
          if is_ronly x s then
            let s1 := set_trace (trace child) s in
            Some (handle_expansion_error stk s1, s1)
          else
            let s1 := set_var x None (absorb_child s child) in
            Some (apply_errexit stk s1, s1)
      end
  | CSubstArg body =>
      match run_subshell n stk body s with
      | None => None
      | Some child =>
          let s1 := set_status 0 (set_trace (trace child) s) in
          Some (apply_errexit stk s1, s1)
      end
  | CPrefixCall x w nm args =>
      (* assign.rs perform_assignment: the value is expanded, then the variable
         is assigned; Variable::assign fails for a read-only variable whatever
         the new value is (also the value it already has); the error is handled
         like an expansion error whatever the command is.  For a special
         built-in the assignment persists (Scope::Global), otherwise it lives
         in a Volatile context that ends with the command. *)
      match expand_word w s with
      | None => Some (handle_expansion_error stk s, s)
      | Some fields =>
          if is_ronly x s then Some (handle_expansion_error stk s, s)
          else
            match exec_cmd n stk (CCall plain nm args) (set_var x (hd_error fields) s) with
            | None => None
            | Some (r, s1) => Some (r, if is_special nm then s1 else restore_var x s s1)
            end
      end
  | CAsync a =>
      (* item.rs execute_async: the and-or list runs in a subshell (apply_result,
         run_exit_trap there); the parent remembers the job, `$?` is 0, and
         Item::execute does not apply errexit.  The body is run to its end here
         (the order of its probes relative to the parent's is not observed). *)
      match run_subshell n stk (LCons a LNil) s with
      | None => None
      | Some child =>
          Some (Cont, start_job (status child) (set_status 0 (set_trace (trace child) s)))
      end
  | CCall d nm args =>
      (* SimpleCommand::execute: classify, run the target, `?`, apply_errexit *)
      let r :=
        if via_command d then
          (* `command NAME ARGS`: `command` is a regular built-in; its target
             (built-ins and external utilities only) runs under a Builtin
             frame with is_special = false (yash-builtin command/invoke.rs) *)
          if bad_redir d then Some (Cont, set_status 2 s)
          else match classify_via_command nm with
               | TBuiltin _ =>
                   let '((st, dv), s') :=
                     run_builtin nm false (FBuiltin :: FBuiltin :: stk) args s in
                   Some (dv, set_status st s')
               | _ => Some (Cont, set_status 127 s)
               end
        else
          match classify nm s with
          | TBuiltin special =>
              Some (execute_builtin nm special special (bad_redir d) stk args s)
          | TFunction body =>
              if bad_redir d then Some (Cont, set_status 2 s)
              else
                (* function.rs execute_function_body *)
                match exec_cmd n stk body s with
                | None => None
                | Some (Brk (DReturn o), s1) =>
                    Some (Cont, match o with Some st => set_status st s1 | None => s1 end)
                | Some r => Some r
                end
          | TExternal =>
              (* not found (the simulated system has no external utilities) *)
              Some (Cont, set_status (if bad_redir d then 2 else 127) s)
          end in
      match r with
      | None => None
      | Some (Brk dv, s1) => Some (Brk dv, s1)
      | Some (Cont, s1) => Some (apply_errexit stk s1, s1)
      end
  | CBrace body => exec_list n stk body s
  | CSubshell body =>
      (* subshell.rs *)
      match run_subshell n stk body s with
      | None => None
      | Some child =>
          let s1 := absorb_child s child in
          Some (apply_errexit stk s1, s1)
      end
  | CIf cond body elifs has_else els =>
      (* if.rs *)
      match exec_list n (FCondition :: stk) cond s with
      | None => None
      | Some (Brk dv, s1) => Some (Brk dv, s1)
      | Some (Cont, s1) =>
          if N.eqb (status s1) 0 then exec_list n stk body s1
          else exec_elifs n stk elifs has_else els s1
      end
  | CWhile is_until cond body =>
      (* while_loop.rs execute_common *)
      match loop_execute n (FLoop :: stk) cond (negb is_until) body s 0%N with
      | None => None
      | Some (Brk dv, s1, _) => Some (Brk dv, s1)
      | Some (Cont, s1, reg) => Some (Cont, set_status reg s1)
      end
  | CFor x ws body =>
      (* for_loop.rs *)
      match expand_words ws s with
      | None => Some (handle_expansion_error stk s, s)
      | Some values =>
          match values with
          | [] => if negb (clist_is_empty body) then Some (Cont, set_status 0 s)
                  else Some (Cont, s)
          | _ => exec_for n (FLoop :: stk) x values body s
          end
      end
  | CCase w items =>
      (* case.rs *)
      match expand_word w s with
      | None => Some (handle_expansion_error stk s, s)
      | Some fields => exec_items n stk (hd_error fields) items false false s
      end
  | CFunDef nm body =>
      (* function_definition.rs *)
      let s1 := set_status 0 (define_fun nm body s) in
      Some (apply_errexit stk s1, s1)
  | CTrapExit action =>
      (* the trap built-in (special): sets the EXIT action *)
      let s1 := set_status 0 (set_exit_trap (Some action) s) in
      Some (apply_errexit stk s1, s1)
  | CRedirFail _ =>
      (* compound_command.rs FullCompoundCommand::execute, Err branch *)
      let s1 := set_status 2 s in
      Some (apply_errexit stk s1, s1)
  end end

(* subshell.rs subshell_main, run in the child; returns the child's final state *)
with run_subshell (n : nat) (stk : list frame) (body : clist) (s : state) {struct n}
  : option state :=
  match n with O => None | S n =>
  match exec_list n (FSubshell :: stk) body (child_state s) with
  | None => None
  | Some (r, c1) => run_exit_trap n (FSubshell :: stk) (apply_result r c1)
  end end

(* trap/exit.rs run_exit_trap + trap.rs run_trap *)
with run_exit_trap (n : nat) (stk : list frame) (s : state) {struct n} : option state :=
  match n with O => None | S n =>
  match exit_trap s with
  | None => Some s
  | Some action =>
      let saved := status s in
      match exec_list n (FTrap :: stk) action s with
      | None => None
      | Some (r, s1) =>
          (* run_trap: an Interrupt carrying a status makes that status the
             exit status; an Interrupt without one leaves the status of the
             action; otherwise the status from before the trap is restored.
             Then run_exit_trap applies the result. *)
          let '(r', s2) :=
            match r with
            | Brk (DInterrupt (Some v)) => (r, set_status v s1)
            | Brk (DInterrupt None) => (r, s1)
            | _ => (r, set_status saved s1)
            end in
          Some (apply_result r' s2)
      end
  end end

with exec_elifs (n : nat) (stk : list frame) (e : eliflist) (has_else : bool) (els : clist)
    (s : state) {struct n} : option res :=
  match n with O => None | S n =>
  match e with
  | ENil => if has_else then exec_list n stk els s else Some (Cont, set_status 0 s)
  | ECons cond body e' =>
      match exec_list n (FCondition :: stk) cond s with
      | None => None
      | Some (Brk dv, s1) => Some (Brk dv, s1)
      | Some (Cont, s1) =>
          if N.eqb (status s1) 0 then exec_list n stk body s1
          else exec_elifs n stk e' has_else els s1
      end
  end end

(* while_loop.rs Loop::iterate; [reg] is Loop::exit_status *)
with loop_iterate (n : nat) (stk : list frame) (cond : clist) (expected : bool) (body : clist)
    (s : state) (reg : N) {struct n} : option (flow * state * N) :=
  match n with O => None | S n =>
  match exec_list n (FCondition :: stk) cond s with
  | None => None
  | Some (Brk dv, s1) => Some (Brk dv, s1, reg)
  | Some (Cont, s1) =>
      if Bool.eqb (N.eqb (status s1) 0) expected then
        match exec_list n stk body s1 with
        | None => None
        | Some (r, s2) =>
            let reg' := match r with
                        | Cont | Brk (DContinue O) => status s2
                        | _ => reg
                        end in
            match r with
            | Cont => loop_iterate n stk cond expected body s2 reg'
            | Brk dv => Some (Brk dv, s2, reg')
            end
        end
      else Some (Cont, s1, reg)
  end end

(* while_loop.rs Loop::execute *)
with loop_execute (n : nat) (stk : list frame) (cond : clist) (expected : bool) (body : clist)
    (s : state) (reg : N) {struct n} : option (flow * state * N) :=
  match n with O => None | S n =>
  match loop_iterate n stk cond expected body s reg with
  | None => None
  | Some (Brk (DBreak O), s1, _) => Some (Cont, s1, status s1)
  | Some (Brk (DBreak (S c)), s1, reg1) => Some (Brk (DBreak c), s1, reg1)
  | Some (Brk (DContinue O), s1, reg1) => loop_execute n stk cond expected body s1 reg1
  | Some (Brk (DContinue (S c)), s1, reg1) => Some (Brk (DContinue c), s1, reg1)
  | Some other => Some other
  end end

(* for_loop.rs: the loop over the values *)
with exec_for (n : nat) (stk : list frame) (x : N) (values : list N) (body : clist) (s : state)
    {struct n} : option res :=
  match n with O => None | S n =>
  match values with
  | [] => Some (Cont, s)
  | v :: values' =>
      if is_ronly x s then Some (handle_expansion_error stk s, s)
      else
      match exec_list n stk body (set_var x (Some v) s) with
      | None => None
      | Some (Brk (DBreak O), s1) => Some (Cont, s1)
      | Some (Brk (DBreak (S c)), s1) => Some (Brk (DBreak c), s1)
      | Some (Brk (DContinue O), s1) => exec_for n stk x values' body s1
      | Some (Brk (DContinue (S c)), s1) => Some (Brk (DContinue c), s1)
      | Some (Brk dv, s1) => Some (Brk dv, s1)
      | Some (Cont, s1) => exec_for n stk x values' body s1
      end
  end end

(* case.rs: the loop over the items *)
with exec_items (n : nat) (stk : list frame) (subject : option N) (items : itemlist)
    (falling_through exit_status_updated : bool) (s : state) {struct n} : option res :=
  match n with O => None | S n =>
  match items with
  | INil => Some (Cont, if exit_status_updated then s else set_status 0 s)
  | ICons pats body k items' =>
      if falling_through || existsb (match_pat subject) pats then
        match exec_list n stk body s with
        | None => None
        | Some (Brk dv, s1) => Some (Brk dv, s1)
        | Some (Cont, s1) =>
            let upd := negb (clist_is_empty body) in
            match k with
            | KBreak => Some (Cont, if upd then s1 else set_status 0 s1)
            | KFall => exec_items n stk subject items' true upd s1
            | KCont => exec_items n stk subject items' false upd s1
            end
        end
      else exec_items n stk subject items' false exit_status_updated s
  end end

(* command.rs List::execute *)
with exec_list (n : nat) (stk : list frame) (l : clist) (s : state) {struct n} : option res :=
  match n with O => None | S n =>
  match l with
  | LNil => Some (Cont, s)
  | LCons a l' =>
      match exec_andor n stk a s with
      | None => None
      | Some (Brk dv, s1) => Some (Brk dv, s1)
      | Some (Cont, s1) => exec_list n stk l' s1
      end
  end end

(* and_or.rs AndOrList::execute *)
with exec_andor (n : nat) (stk : list frame) (a : andor) (s : state) {struct n} : option res :=
  match n with O => None | S n =>
  match a with
  | AndOr first RNil => exec_pipeline n stk first s
  | AndOr first rest =>
      match exec_pipeline n (FCondition :: stk) first s with
      | None => None
      | Some (Brk dv, s1) => Some (Brk dv, s1)
      | Some (Cont, s1) => exec_rest n stk rest s1
      end
  end end

(* and_or.rs: `rest` (non-empty): all but the last under the Condition frame *)
with exec_rest (n : nat) (stk : list frame) (r : aorest) (s : state) {struct n} : option res :=
  match n with O => None | S n =>
  match r with
  | RNil => Some (Cont, s)
  | RCons is_and p RNil =>
      (* execute_conditional_pipeline(env, last) *)
      if Bool.eqb (N.eqb (status s) 0) is_and then exec_pipeline n stk p s else Some (Cont, s)
  | RCons is_and p r' =>
      let step :=
        if Bool.eqb (N.eqb (status s) 0) is_and then exec_pipeline n (FCondition :: stk) p s
        else Some (Cont, s) in
      match step with
      | None => None
      | Some (Brk dv, s1) => Some (Brk dv, s1)
      | Some (Cont, s1) => exec_rest n stk r' s1
      end
  end end

(* pipeline.rs Pipeline::execute *)
with exec_pipeline (n : nat) (stk : list frame) (p : pipeline) (s : state) {struct n}
  : option res :=
  match n with O => None | S n =>
  match p with
  | Pipe false cs => exec_commands n stk cs s
  | Pipe true cs =>
      match exec_commands n (FCondition :: stk) cs s with
      | None => None
      | Some (Brk dv, s1) => Some (Brk dv, s1)
      | Some (Cont, s1) =>
          Some (Cont, set_status (if N.eqb (status s1) 0 then 1 else 0) s1)
      end
  end end

(* pipeline.rs execute_commands_in_pipeline *)
with exec_commands (n : nat) (stk : list frame) (cs : cmds) (s : state) {struct n}
  : option res :=
  match n with O => None | S n =>
  match cs with
  | CNil => Some (Cont, set_status 0 s)
  | CCons c CNil => exec_cmd n stk c s
  | _ =>
      match exec_multi n stk cs s s with
      | None => None
      | Some s1 => Some (apply_errexit stk s1, s1)
      end
  end end

(* pipeline.rs execute_multi_command_pipeline: every command runs in a
   subshell started from the parent's state [s0]; [acc] carries the trace and
   the status of the last command so far *)
with exec_multi (n : nat) (stk : list frame) (cs : cmds) (s0 acc : state) {struct n}
  : option state :=
  match n with O => None | S n =>
  match cs with
  | CNil => Some acc
  | CCons c cs' =>
      match exec_cmd n (FSubshell :: stk) c (child_state (set_trace (trace acc) s0)) with
      | None => None
      | Some (r, c1) =>
          match run_exit_trap n (FSubshell :: stk) (apply_result r c1) with
          | None => None
          | Some c2 => exec_multi n stk cs' s0 (absorb_child s0 c2)
          end
      end
  end end.

(* What is observed of a run: the probe trace in order, the final status. *)
Definition observation := (list (N * N) * N)%type.
Definition observe (s : state) : observation := (rev (trace s), status s).


(* ---- the model, run on a whole script (runner.rs read_eval_loop_impl +
        the shell's main: apply_result, run_exit_trap) ---- *)
Fixpoint run_lines (n : nat) (p : prog) (executed : bool) (s : state) : option res :=
  match p with
  | [] => Some (Cont, if executed then s else set_status 0 s)
  | LSyntaxError :: _ => Some (Brk (DInterrupt (Some 2%N)), s)
  | LCmd l :: p' =>
      match exec_list n [] l s with
      | None => None
      | Some (Brk dv, s1) => Some (Brk dv, s1)
      | Some (Cont, s1) => run_lines n p' true s1
      end
  end.

Definition model_run (n : nat) (p : prog) : option observation :=
  match run_lines n p false init_state with
  | None => None
  | Some (r, s1) =>
      let s2 := apply_result r s1 in
      match r with
      | Brk (DAbort _) => Some (observe s2)
      | _ => match run_exit_trap n [] s2 with
             | None => None
             | Some s3 => Some (observe s3)
             end
      end
  end.

Definition model_result (p : prog) (o : observation) : Prop := exists n, model_run n p = Some o.

