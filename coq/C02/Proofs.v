(* C02 — program-level theorems. *)
From Yv Require Import Common.Base C02.Model C02.Spec C02.ProofsMono C02.ProofsSim C02.ProofsRev.

(* ------------------------------------------------------------------ *)
(* exec_sound                                                          *)
(* ------------------------------------------------------------------ *)
Lemma state_ok_init : state_ok init_state.
Proof. split; cbn; intros; try discriminate; reflexivity. Qed.

Lemma set_status_zero s : status s = 0%N -> set_status 0 s = s.
Proof. intros E. rewrite <- E. apply set_status_same. Qed.

Lemma lines_sim n : forall p executed s r s1,
  run_lines n p executed s = Some (r, s1) ->
  forallb wf_line p = true -> state_ok s ->
  (executed = false -> status s = 0%N) ->
  state_ok s1 /\ (forall o, r <> Brk (DAbort o)) /\
  ok (fun k => sem_lines k p s) (abs None r s1).
Proof.
  induction p as [|l p IH]; intros executed s r s1 H Hw Hs Hex.
  - cbn in H. inversion H; subst r s1.
    assert (E : (if executed then s else set_status 0 s) = s).
    { destruct executed; [reflexivity|]. apply set_status_zero. auto. }
    rewrite E. split; [exact Hs|]. split; [intros; discriminate|].
    exists 0. intros k _. reflexivity.
  - cbn [forallb] in Hw. apply andb_true_iff in Hw as [Hwl Hwp].
    destruct l as [l|].
    + cbn [run_lines] in H. cbn [wf_line] in Hwl.
      destruct (exec_list n [] l s) as [[rl sl]|] eqn:El; [|discriminate].
      assert (Hc : ctx_ok [] 0 false false) by (split; cbn; auto).
      destruct (sa_list _ (sim_holds n) _ _ _ _ _ _ _ _ El Hc Hwl Hs) as (Hs1 & Hr1 & Hok1).
      specialize (Hok1 None).
      destruct rl as [|dv].
      * destruct (IH _ _ _ _ H Hwp Hs1) as (Hs2 & Hr2 & Hok2); [discriminate|].
        split; [exact Hs2|]. split; [exact Hr2|]. cbn [abs] in Hok1.
        ok_start. cbn [sem_lines]. ok_rw. reflexivity.
      * inversion H; subst r s1. split; [exact Hs1|]. split; [apply Hr1|].
        pose proof (abs_not_normal None dv sl) as Hne.
        destruct (abs None (Brk dv) sl) as [c s2]. cbn [fst] in Hne.
        ok_start. cbn [sem_lines]. ok_rw. destruct c; congruence.
    + cbn [run_lines] in H. inversion H; subst r s1.
      split; [exact Hs|]. split; [intros; discriminate|].
      exists 0. intros k _. reflexivity.
Qed.

Lemma exec_sound_strict p o :
  forallb wf_line p = true -> model_result p o -> spec_result p o.
Proof.
  intros Hw [n H]. unfold model_run in H.
  destruct (run_lines n p false init_state) as [[r s1]|] eqn:El; [|discriminate].
  destruct (lines_sim n _ _ _ _ _ El Hw state_ok_init) as (Hs1 & Hr1 & Hok1);
    [reflexivity|].
  assert (Hrun : exists s3, run_exit_trap n [] (apply_result r s1) = Some s3 /\ o = observe s3).
  { destruct r as [|[c|c|x|x|x|x]];
      try (destruct (run_exit_trap n [] _) as [s3|]; [|discriminate];
           inversion H; subst o; eexists; split; reflexivity).
    exfalso. eapply Hr1. reflexivity. }
  destruct Hrun as (s3 & Et & ->).
  pose proof (sa_trap _ (sim_holds n) _ _ _ false Et eq_refl
                (state_ok_apply_result r s1 Hs1)) as Hok2.
  rewrite <- abs_none_apply_result in Hok2.
  destruct (abs None r s1) as [c s2]. cbn [snd] in Hok2.
  apply ok_some. unfold spec_run. ok_start. ok_rw. reflexivity.
Qed.

Lemma exec_sound_lemma p o : wf_prog p = true -> model_result p o -> spec_result p o.
Proof.
  exact (exec_sound_strict p o).
Qed.

(* ------------------------------------------------------------------ *)
(* and-or lists                                                        *)
(* ------------------------------------------------------------------ *)
Fixpoint rest_snoc (r : aorest) (is_and : bool) (p : pipeline) : aorest :=
  match r with
  | RNil => RCons is_and p RNil
  | RCons a q r' => RCons a q (rest_snoc r' is_and p)
  end.

Lemma aotree_of_snoc r : forall t is_and p,
  aotree_of t (rest_snoc r is_and p) = AONode (aotree_of t r) is_and p.
Proof. induction r as [|a q r IH]; intros; cbn; [reflexivity | apply IH]. Qed.

Lemma andor_tree_left_nested_lemma first rest is_and p :
  andor_tree (AndOr first (rest_snoc rest is_and p))
  = AONode (andor_tree (AndOr first rest)) is_and p.
Proof. apply aotree_of_snoc. Qed.

Lemma andor_model_is_tree n stk a s r s' d infun ex :
  exec_andor n stk a s = Some (r, s') -> ctx_ok stk d infun ex ->
  wf_andor d infun a = true -> state_ok s ->
  forall sv, exists m,
    sem_tree (fun ex' p s0 => sem_pipeline m d ex' sv p s0) ex (andor_tree a) true s
    = Some (abs sv r s').
Proof.
  intros H Hc Hw Hs sv.
  destruct (sa_andor _ (sim_holds n) _ _ _ _ _ _ _ _ H Hc Hw Hs) as (_ & _ & Hok).
  destruct (Hok sv) as [m Hm]. exists m. specialize (Hm (S m) (Nat.le_succ_diag_r m)). exact Hm.
Qed.

(* ------------------------------------------------------------------ *)
(* negation                                                            *)
(* ------------------------------------------------------------------ *)
Lemma bang_lemma stk cs s r s' :
  (exists n, exec_pipeline n stk (Pipe true cs) s = Some (r, s')) <->
  (exists r1 s1, (exists n, exec_commands n (FCondition :: stk) cs s = Some (r1, s1)) /\
     match r1 with
     | Cont => r = Cont /\ s' = set_status (if N.eqb (status s1) 0 then 1%N else 0%N) s1
     | Brk dv => r = Brk dv /\ s' = s1
     end).
Proof.
  split.
  - intros [[|n] H]; [discriminate|]. cbn [exec_pipeline] in H.
    destruct (exec_commands n (FCondition :: stk) cs s) as [[r1 s1]|] eqn:E; [|discriminate].
    exists r1, s1. split; [exists n; exact E|]. destruct r1; inversion H; subst; auto.
  - intros (r1 & s1 & [n E] & H). exists (S n). cbn [exec_pipeline]. rewrite E.
    destruct r1; destruct H as [-> ->]; reflexivity.
Qed.

(* ------------------------------------------------------------------ *)
(* return                                                              *)
(* ------------------------------------------------------------------ *)
Lemma return_lemma n stk dc nm args s r s' body :
  exec_cmd n stk (CCall dc nm args) s = Some (r, s') ->
  via_command dc = false -> classify nm s = TFunction body ->
  (forall o, r <> Brk (DReturn o)) /\
  (bad_redir dc = false ->
   forall m o sb, exec_cmd m stk body s = Some (Brk (DReturn o), sb) ->
     let s1 := match o with Some st => set_status st sb | None => sb end in
     r = apply_errexit stk s1 /\ s' = s1).
Proof.
  intros H Ev Ec. destruct n as [|n]; [discriminate|]. cbn [exec_cmd] in H. rewrite Ev, Ec in H.
  split.
  - intros o E. subst r. destruct (bad_redir dc).
    + inversion H as [[H1 H2]]. unfold apply_errexit in H1. destruct (_ && _); discriminate.
    + destruct (exec_cmd n stk body s) as [[rb sb]|]; [|discriminate].
      destruct rb as [|[c|c|x|x|x|x]]; inversion H as [[H1 H2]];
        unfold apply_errexit in H1; try destruct (_ && _); discriminate.
  - intros Eb m o sb Hb. rewrite Eb in H.
    destruct (exec_cmd n stk body s) as [[rb sb']|] eqn:E; [|discriminate].
    assert (Hsame : rb = Brk (DReturn o) /\ sb' = sb).
    { (* both runs of the body are the same run (fuel monotonicity) *)
      clear H.
      destruct (Nat.le_ge_cases n m) as [L|L].
      - pose proof (exec_cmd_mono _ _ _ _ _ _ L E) as X. rewrite Hb in X. inversion X; auto.
      - pose proof (exec_cmd_mono _ _ _ _ _ _ L Hb) as X. rewrite E in X. inversion X; auto. }
    destruct Hsame as [-> ->]. cbv zeta. destruct o; inversion H; subst; auto.
Qed.

(* ------------------------------------------------------------------ *)
(* loop levels                                                         *)
(* ------------------------------------------------------------------ *)
Lemma loop_count_lemma stk d infun ex k :
  ctx_ok stk d infun ex -> (infun = true -> k <= d) ->
  loop_count (FBuiltin :: stk) k = Nat.min k d.
Proof.
  intros Hc Hk. rewrite loop_count_min.
  apply (min_depth _ d infun ex); [apply ctx_builtin; exact Hc | exact Hk].
Qed.

Lemma levels_lemma n stk c s r s' d infun ex :
  exec_cmd n stk c s = Some (r, s') -> ctx_ok stk d infun ex ->
  wf_cmd d infun c = true -> state_ok s ->
  (forall k, r = Brk (DBreak k) -> k < d) /\ (forall k, r = Brk (DContinue k) -> k < d).
Proof.
  intros H Hc Hw Hs.
  destruct (sa_cmd _ (sim_holds n) _ _ _ _ _ _ _ _ H Hc Hw Hs) as (_ & Hr & _).
  split; [apply (ro_break _ _ _ Hr) | apply (ro_continue _ _ _ Hr)].
Qed.

(* no break / continue escapes a function body or a whole script *)
Lemma function_body_consumes_loops n stk body s r s' ex :
  exec_cmd n stk body s = Some (r, s') -> ex = has_cond stk ->
  wf_cmd 0 true body = true -> state_ok s ->
  forall k, r <> Brk (DBreak k) /\ r <> Brk (DContinue k).
Proof.
  intros H He Hw Hs k.
  assert (Hc : ctx_ok stk 0 true ex) by (split; [exact He | lia | discriminate]).
  destruct (levels_lemma n stk body s r s' 0 true ex H Hc Hw Hs) as [A B].
  split; intros E; [specialize (A k E) | specialize (B k E)]; lia.
Qed.

(* ------------------------------------------------------------------ *)
(* command search                                                      *)
(* ------------------------------------------------------------------ *)
Lemma search_order_lemma nm s :
  classify nm s =
  match resolve nm s with
  | RSpecial => TBuiltin true
  | RFunction body => TFunction body
  | RRegular => TBuiltin false
  | RNotFound => TExternal
  end.
Proof.
  unfold classify, resolve.
  destruct (is_special nm), (lookup_fun nm (funs s)), (is_regular_builtin nm); reflexivity.
Qed.

(* the four-way priority as a finite table *)
Definition search_table (special : bool) (function : bool) (regular : bool) : N :=
  if special then 1 else if function then 2 else if regular then 3 else 4.

Definition target_rank (t : target) : N :=
  match t with
  | TBuiltin true => 1 | TFunction _ => 2 | TBuiltin false => 3 | TExternal => 4
  end.

Lemma search_table_lemma nm s :
  target_rank (classify nm s) =
  search_table (is_special nm)
    (match lookup_fun nm (funs s) with Some _ => true | None => false end)
    (is_regular_builtin nm).
Proof.
  unfold classify, search_table.
  destruct (is_special nm), (lookup_fun nm (funs s)), (is_regular_builtin nm); reflexivity.
Qed.

(* ------------------------------------------------------------------ *)
(* compound commands that run nothing have status zero                 *)
(* ------------------------------------------------------------------ *)
Lemma if_zero n stk cond body s sc :
  exec_list n (FCondition :: stk) cond s = Some (Cont, sc) -> N.eqb (status sc) 0 = false ->
  exec_cmd (S (S n)) stk (CIf cond body ENil false LNil) s = Some (Cont, set_status 0 sc).
Proof.
  intros H E. cbn [exec_cmd].
  rewrite (exec_list_mono n (S n) _ _ _ _ (Nat.le_succ_diag_r n) H), E. reflexivity.
Qed.

Lemma while_zero n stk u cond body s sc :
  exec_list n (FCondition :: FLoop :: stk) cond s = Some (Cont, sc) ->
  Bool.eqb (N.eqb (status sc) 0) (negb u) = false ->
  exec_cmd (S (S (S n))) stk (CWhile u cond body) s = Some (Cont, set_status 0 sc).
Proof.
  intros H E. cbn [exec_cmd loop_execute loop_iterate]. rewrite H, E. reflexivity.
Qed.

Lemma for_zero n stk x ws body s :
  expand_words ws s = Some [] -> clist_is_empty body = false ->
  exec_cmd (S n) stk (CFor x ws body) s = Some (Cont, set_status 0 s).
Proof. intros H E. cbn [exec_cmd]. rewrite H, E. reflexivity. Qed.

Fixpoint items_length (is : itemlist) : nat :=
  match is with INil => 0 | ICons _ _ _ is' => S (items_length is') end.

Lemma items_none stk subject s : forall items n, items_length items < n ->
  find_clause subject items = None ->
  exec_items n stk subject items false false s = Some (Cont, set_status 0 s).
Proof.
  induction items as [|pats body k items IH]; intros n Hn Hf; (destruct n as [|n]; [cbn in Hn; lia|]).
  - reflexivity.
  - cbn [find_clause] in Hf. cbn [exec_items]. cbn [orb].
    destruct (existsb (match_pat subject) pats); [discriminate|].
    apply IH; [cbn in Hn; lia | exact Hf].
Qed.

Lemma case_zero stk w items s fields :
  expand_word w s = Some fields -> find_clause (hd_error fields) items = None ->
  exec_cmd (S (S (items_length items))) stk (CCase w items) s = Some (Cont, set_status 0 s).
Proof.
  intros H E. cbn [exec_cmd]. rewrite H. apply items_none; [lia | exact E].
Qed.

(* ------------------------------------------------------------------ *)
(* the oracle never contradicts the model                              *)
(* ------------------------------------------------------------------ *)
Lemma sem_lines_mono n m : n <= m -> forall p s r, sem_lines n p s = Some r -> sem_lines m p s = Some r.
Proof.
  intros L. induction p as [|l p IH]; intros s r H; cbn [sem_lines] in *; [exact H|].
  destruct l as [l|]; [|exact H].
  destruct (sem_list n 0 false None l s) as [[c s1]|] eqn:E; [|discriminate].
  rewrite (sem_list_mono n m _ _ _ _ _ _ L E). destruct c; auto.
Qed.

Lemma spec_run_mono n m p o : n <= m -> spec_run n p = Some o -> spec_run m p = Some o.
Proof.
  intros L H. unfold spec_run in *.
  destruct (sem_lines n p init_state) as [[c s1]|] eqn:E; [|discriminate].
  rewrite (sem_lines_mono n m L _ _ _ E).
  destruct (sem_exit_trap n false s1) as [s2|] eqn:Et; [|discriminate].
  rewrite (sem_exit_trap_mono n m _ _ _ L Et). exact H.
Qed.

Lemma spec_deterministic_lemma p o1 o2 : spec_result p o1 -> spec_result p o2 -> o1 = o2.
Proof.
  intros [n1 H1] [n2 H2].
  pose proof (spec_run_mono n1 (n1 + n2) p o1 (Nat.le_add_r _ _) H1) as A.
  pose proof (spec_run_mono n2 (n1 + n2) p o2 ltac:(lia) H2) as B.
  congruence.
Qed.

Lemma oracle_sound_lemma p o n m e :
  wf_prog p = true -> model_run n p = Some o -> spec_run m p = Some e -> observation_eqb e o = true.
Proof.
  intros Hw Hm Hs.
  assert (E : e = o).
  { apply (spec_deterministic_lemma p); [exists m; exact Hs|].
    apply exec_sound_lemma; [exact Hw | exists n; exact Hm]. }
  subst e. unfold observation_eqb. apply andb_true_iff. split; [|apply N.eqb_refl].
  apply list_eqb_spec; [|reflexivity].
  intros [a b] [c d]. unfold pair_eqb. cbn. rewrite andb_true_iff, !N.eqb_eq.
  split; [intros [-> ->]; reflexivity | intros E; inversion E; auto].
Qed.

(* ------------------------------------------------------------------ *)
(* exec_complete: the converse of exec_sound                           *)
(* ------------------------------------------------------------------ *)
Lemma lines_rsim n : forall p executed s c s1',
  sem_lines n p s = Some (c, s1') ->
  forallb wf_line p = true -> state_ok s ->
  (executed = false -> status s = 0%N) ->
  exists r s1, ok (fun k => run_lines k p executed s) (r, s1) /\ abs None r s1 = (c, s1')
               /\ state_ok s1 /\ (forall o, r <> Brk (DAbort o)).
Proof.
  induction p as [|l p IH]; intros executed s c s1' H Hw Hs Hex.
  - cbn in H. inversion H; subst c s1'. exists Cont, s. split; [|split; [reflexivity|]].
    + exists 0. intros k _. cbn [run_lines].
      destruct executed; [reflexivity|]. rewrite set_status_zero; auto.
    + split; [exact Hs | intros; discriminate].
  - cbn [forallb] in Hw. apply andb_true_iff in Hw as [Hwl Hwp].
    destruct l as [l|].
    + cbn [sem_lines] in H. cbn [wf_line] in Hwl.
      destruct (sem_list n 0 false None l s) as [[c1 s1]|] eqn:El; [|discriminate].
      assert (Hc : ctx_ok [] 0 false false) by (split; cbn; auto).
      destruct (ra_list _ (rsim_holds n) [] _ _ _ _ _ _ _ El Hc Hwl Hs)
        as (rl & sl & Hokl & Habsl).
      destruct (fwd_list _ _ _ _ _ _ _ _ Hokl Hc Hwl Hs) as [Hsl Hrl].
      destruct (abs_split _ _ _ _ _ Habsl) as [(-> & -> & ->) | (Hne & dv & ->)].
      * destruct (IH true _ _ _ H Hwp Hsl) as (r & s2 & Hok & Habs & Hs2 & Hr2); [discriminate|].
        exists r, s2. split; [|auto].
        ok_start. cbn [run_lines]. ok_rw. reflexivity.
      * exists (Brk dv), sl. split; [ok_start; cbn [run_lines]; ok_rw; reflexivity|].
        split; [|split; [exact Hsl | apply (ro_abort _ _ _ Hrl)]].
        destruct c1 as [|kk|kk| |]; [congruence|..]; inversion H; subst; exact Habsl.
    + cbn [sem_lines] in H. inversion H; subst c s1'.
      exists (Brk (DInterrupt (Some 2%N))), s. split; [|split; [reflexivity|]].
      * exists 0. intros k _. reflexivity.
      * split; [exact Hs | intros; discriminate].
Qed.

Lemma exec_complete_strict p o :
  forallb wf_line p = true -> spec_result p o -> model_result p o.
Proof.
  intros Hw [n H]. unfold spec_run in H.
  destruct (sem_lines n p init_state) as [[c s1']|] eqn:El; [|discriminate].
  destruct (sem_exit_trap n false s1') as [s2|] eqn:Et; [|discriminate].
  inversion H; subst o.
  destruct (lines_rsim n _ false _ _ _ El Hw state_ok_init)
    as (r & s1 & Hok1 & Habs1 & Hs1 & Hr1); [reflexivity|].
  assert (E : s1' = apply_result r s1) by (rewrite <- abs_none_apply_result, Habs1; reflexivity).
  subst s1'.
  pose proof (ra_trap _ (rsim_holds n) [] _ _ false Et eq_refl
                (state_ok_apply_result r s1 Hs1)) as Hok2.
  apply ok_some. unfold model_run. ok_start. ok_rw.
  destruct r as [|[c0|c0|x|x|x|x]]; try reflexivity. exfalso. eapply Hr1. reflexivity.
Qed.

Lemma exec_complete_lemma p o : wf_prog p = true -> spec_result p o -> model_result p o.
Proof.
  exact (exec_complete_strict p o).
Qed.

Lemma model_eq_spec_lemma p o : wf_prog p = true -> (model_result p o <-> spec_result p o).
Proof. intros H; split; [apply exec_sound_lemma | apply exec_complete_lemma]; exact H. Qed.
