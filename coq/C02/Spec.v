(* C02 / C10 — SPEC: the meaning of the core command language written from
   POSIX XCU 2.8.1 (consequences of shell errors), 2.9.1-2.9.5 (commands),
   2.15 (special built-ins break, continue, return, exit, set -e, trap EXIT)
   as a definitional big-step interpreter, independently of the
   implementation's algorithm:

     * there is no runtime context stack: `break n` / `continue n` are
       resolved against the number [d] of loops that lexically enclose the
       command in the same execution environment and function body, and
       "-e is being ignored" is a flag [ex] that is switched on by the
       constructs POSIX lists and inherited by everything executed inside;
     * there are no divert values carrying optional statuses: a command
       completes normally, or by breaking / continuing [k >= 1] loops, or by
       returning, or by exiting; `$?` has already been given its final value;
     * an and-or list is evaluated as the left-nested tree ((p1 op p2) op p3);
     * the status of a while/until loop is "the status of the last body run,
       else zero" (the status of `break` itself when the loop is left by
       `break`: POSIX is unclear, yash documents this choice and bash agrees);
     * a case command selects clauses ("first clause with a matching
       pattern", `;&` = the next clause, `;;&` = the next matching clause) and
       its status is that of the last clause run (zero if it was empty or if
       no clause ran);
     * shell errors are a finite table ([error_consequence]).

   [ORACLE]: [spec_run] evaluated on the program of a case, compared with
   what the implementation printed (probe trace, final exit status). *)
From Yv Require Import Common.Base C02.Model.

Inductive completion :=
| Normal
| Breaking (k : nat)       (* k >= 1 more enclosing loops to leave *)
| Continuing (k : nat)     (* k >= 1: continue the k-th enclosing loop *)
| Returning
| Exiting.

Definition sres := (completion * state)%type.

Definition fails (s : state) : bool := negb (N.eqb (status s) 0).

(* `set -e`: a failing simple command, multi-command pipeline or subshell
   makes the shell exit "as if by exit with no operand" unless -e is being
   ignored. *)
Definition errexit_applies (ex : bool) (s : state) : bool :=
  fails s && errexit s && negb ex.

(* `exit` / errexit without an operand: the current `$?`, except at the end
   of a trap action, where it is the `$?` from before the action. *)
Definition exit_no_operand (saved : option N) (s : state) : state :=
  match saved with Some st => set_status st s | None => s end.

(* completion of a command that is subject to errexit *)
Definition done (ex : bool) (saved : option N) (s : state) : (completion * state) :=
  if errexit_applies ex s then (Exiting, exit_no_operand saved s) else (Normal, s).

(* ---- Consequences of shell errors (XCU 2.8.1; docs/src/termination.md) ---- *)

Inductive error_kind :=
| ErrSyntax               (* command syntax error *)
| ErrSpecialBuiltin       (* error of a special built-in utility *)
| ErrSpecialRedirection   (* redirection error with a special built-in *)
| ErrAssignment           (* variable assignment error (read-only variable) *)
| ErrExpansion            (* expansion error *)
| ErrOtherRedirection     (* redirection error with anything else *)
| ErrNotFound.            (* command not found *)

(* For a non-interactive shell: does the error make the shell exit by itself
   (independently of errexit)? *)
Definition error_exits (k : error_kind) : bool :=
  match k with
  | ErrSyntax | ErrSpecialBuiltin | ErrSpecialRedirection | ErrAssignment | ErrExpansion => true
  | ErrOtherRedirection | ErrNotFound => false
  end.

(* The exit status the error leaves in `$?`; [st] is the status reported by
   the failing special built-in. *)
Definition error_status (k : error_kind) (st : N) : N :=
  match k with
  | ErrSpecialBuiltin => st
  | ErrNotFound => 127
  | _ => 2
  end.

(* A shell error at a command that is otherwise subject to errexit. *)
Definition shell_error (k : error_kind) (st : N) (ex : bool) (saved : option N) (s : state) : sres :=
  let s1 := set_status (error_status k st) s in
  if error_exits k then (Exiting, s1) else done ex saved s1.

(* ---- command search (XCU 2.9.1.4): special built-in, function, other
        built-in, PATH (empty here) ---- *)
Inductive resolved := RSpecial | RFunction (body : cmd) | RRegular | RNotFound.

Definition resolve (nm : name) (s : state) : resolved :=
  match is_special nm, lookup_fun nm (funs s), is_regular_builtin nm with
  | true, _, _ => RSpecial
  | false, Some body, _ => RFunction body
  | false, None, true => RRegular
  | false, None, false => RNotFound
  end.

(* ---- operands of break/continue/return/exit ---- *)
Definition loop_operand (args : list N) : option nat :=
  match args with
  | [] => Some 1%nat
  | [n] => if N.eqb n 0 then None else Some (N.to_nat n)
  | _ => None
  end.

(* What a utility of the model does once found; [special] says whether an
   error of the utility is an error of a special built-in (false for regular
   built-ins and for anything run through `command`). *)
Definition utility_error (special : bool) (st : N) (ex : bool) (saved : option N) (s : state) : sres :=
  if special then shell_error ErrSpecialBuiltin st ex saved s
  else done ex saved (set_status st s).

Definition run_utility (nm : name) (special : bool) (d : nat) (ex : bool) (saved : option N)
    (args : list N) (s : state) : sres :=
  match nm with
  | NColon | NTrue => done ex saved (set_status 0 s)
  | NFalse => done ex saved (set_status 1 s)
  | NProbe =>
      let s1 := push_trace (hd 0%N args) s in
      done ex saved (set_status (match args with [_; st] => st | _ => 0%N end) s1)
  | NSet =>
      (* `set +e`/`-e` = [0]/[1]; `set +m`/`-m` = [2]/[3]: job control does not
         change when the shell exits *)
      done ex saved (set_status 0
                 (set_errexit (match args with
                               | [b] => if N.ltb b 2 then negb (N.eqb b 0) else errexit s
                               | _ => errexit s
                               end) s))
  | NExec => done ex saved (set_status 0 s)
  | NDot => utility_error special 1 ex saved s          (* the file does not exist *)
  | NBreak | NContinue =>
      match loop_operand args with
      | None => utility_error special 2 ex saved s
      | Some k =>
          match Nat.min k d with
          | O => utility_error special 1 ex saved s            (* no enclosing loop *)
          | S j => ((match nm with NBreak => Breaking | _ => Continuing end) (S j),
                    set_status 0 s)
          end
      end
  | NReturn =>
      match args with
      | [] => (Returning, s)
      | [st] => (Returning, set_status st s)
      | _ => utility_error special 2 ex saved s
      end
  | NExit =>
      match args with
      | [] => (Exiting, exit_no_operand saved s)
      | [st] => (Exiting, set_status st s)
      | _ => utility_error special 2 ex saved s
      end
  | NWait => let '(st, s') := job_wait args s in done ex saved (set_status st s')
  | NUser _ => shell_error ErrNotFound 0 ex saved s
  end.

(* ---- and-or lists as left-nested trees ---- *)
Inductive aotree := AOLeaf (p : pipeline) | AONode (t : aotree) (is_and : bool) (p : pipeline).

Fixpoint aotree_of (t : aotree) (r : aorest) : aotree :=
  match r with
  | RNil => t
  | RCons is_and p r' => aotree_of (AONode t is_and p) r'
  end.

Definition andor_tree (a : andor) : aotree :=
  match a with AndOr first rest => aotree_of (AOLeaf first) rest end.

(* Evaluation of the tree, given the meaning [P ex' p s] of a pipeline (with
   its own "-e ignored" flag): every pipeline but the last one of the whole
   list is evaluated with -e ignored; `&&` runs its right operand iff the left
   one succeeded, `||` iff it failed. *)
Fixpoint sem_tree (P : bool -> pipeline -> state -> option (completion * state))
    (ex : bool) (t : aotree) (is_last : bool) (s : state) : option (completion * state) :=
  match t with
  | AOLeaf p => P (ex || negb is_last) p s
  | AONode t' is_and p =>
      match sem_tree P ex t' false s with
      | None => None
      | Some (Normal, s1) =>
          if Bool.eqb (negb (N.eqb (status s1) 0)) is_and then Some (Normal, s1)
          else P (ex || negb is_last) p s1
      | Some other => Some other
      end
  end.

(* ---- case clauses ---- *)
Fixpoint find_clause (subject : option N) (items : itemlist) : option (clist * cont * itemlist) :=
  match items with
  | INil => None
  | ICons pats body k rest =>
      if existsb (match_pat subject) pats then Some (body, k, rest)
      else find_clause subject rest
  end.

Definition next_clause (items : itemlist) : option (clist * cont * itemlist) :=
  match items with
  | INil => None
  | ICons _ body k rest => Some (body, k, rest)
  end.

(* status of a clause that was the last to run *)
Definition clause_status (body : clist) (s : state) : state :=
  if clist_is_empty body then set_status 0 s else s.

(* what survives of a subshell environment: exit status and probe trace *)
Definition join_subshell (parent child : state) : state :=
  set_trace (trace child) (set_status (status child) parent).

(* how a loop reacts to the completion of (part of) an iteration *)
Inductive loop_step := LoopNext | LoopStop (c : completion).

Definition loop_react (c : completion) : loop_step :=
  match c with
  | Normal => LoopNext
  | Continuing 1 => LoopNext
  | Continuing (S k) => LoopStop (Continuing k)
  | Continuing O => LoopNext                    (* never produced *)
  | Breaking 1 => LoopStop Normal
  | Breaking (S k) => LoopStop (Breaking k)
  | Breaking O => LoopStop Normal               (* never produced *)
  | Returning => LoopStop Returning
  | Exiting => LoopStop Exiting
  end.

(* ------------------------------------------------------------------ *)
(* The semantics.  [d]: number of lexically enclosing loops; [ex]: -e is
   being ignored; [saved]: `$?` from before the trap action, inside one.  *)
(* ------------------------------------------------------------------ *)
Fixpoint sem_cmd (n : nat) (d : nat) (ex : bool) (saved : option N) (c : cmd) (s : state)
    {struct n} : option sres :=
  match n with O => None | S n =>
  match c with
  | CAssign x w =>
      match expand_word w s with
      | None => Some (shell_error ErrExpansion 0 ex saved s)
      | Some fields =>
          if is_ronly x s then Some (shell_error ErrAssignment 0 ex saved s)
          else Some (Normal, set_status 0 (set_var x (hd_error fields) s))
      end
  | CReadonly x => Some (Normal, set_status 0 (add_ronly x s))
  | CAssignSub x body =>
      (* XCU 2.9.1: a command without a command name completes with the status
         of the last command substitution performed; the substitution runs in
         a subshell environment *)
      match sem_subshell n ex body s with
      | None => None
      | Some child =>
          if is_ronly x s then Some (shell_error ErrAssignment 0 ex saved (set_trace (trace child) s))
          else Some (done ex saved (set_var x None (join_subshell s child)))
      end
  | CSubstArg body =>
      match sem_subshell n ex body s with
      | None => None
      | Some child => Some (Normal, set_status 0 (set_trace (trace child) s))
      end
  | CPrefixCall x w nm args =>
      (* XCU 2.9.1: variable assignments before a command name affect the
         current environment for a special built-in and only the execution of
         the command otherwise; XCU 2.8.1: a variable assignment error (the
         variable is read-only: the value does not matter) makes a
         non-interactive shell exit *)
      match expand_word w s with
      | None => Some (shell_error ErrExpansion 0 ex saved s)
      | Some fields =>
          if is_ronly x s then Some (shell_error ErrAssignment 0 ex saved s)
          else
            match sem_cmd n d ex saved (CCall plain nm args) (set_var x (hd_error fields) s) with
            | None => None
            | Some (c, s1) => Some (c, if is_special nm then s1 else restore_var x s s1)
            end
      end
  | CAsync a =>
      (* XCU 2.9.3 asynchronous lists: run in a subshell environment; the exit
         status of the list itself is zero; -e does not apply to it *)
      match sem_subshell n ex (LCons a LNil) s with
      | None => None
      | Some child =>
          Some (Normal, start_job (status child) (set_status 0 (set_trace (trace child) s)))
      end
  | CCall dc nm args =>
      if via_command dc then
        if bad_redir dc then Some (shell_error ErrOtherRedirection 0 ex saved s)
        else if is_special nm || is_regular_builtin nm
             then Some (run_utility nm false d ex saved args s)
             else Some (shell_error ErrNotFound 0 ex saved s)
      else
        match resolve nm s with
        | RSpecial =>
            if bad_redir dc then Some (shell_error ErrSpecialRedirection 0 ex saved s)
            else Some (run_utility nm true d ex saved args s)
        | RRegular =>
            if bad_redir dc then Some (shell_error ErrOtherRedirection 0 ex saved s)
            else Some (run_utility nm false d ex saved args s)
        | RNotFound =>
            if bad_redir dc then Some (shell_error ErrOtherRedirection 0 ex saved s)
            else Some (shell_error ErrNotFound 0 ex saved s)
        | RFunction body =>
            if bad_redir dc then Some (shell_error ErrOtherRedirection 0 ex saved s)
            else
              (* the body is not enclosed by the caller's loops *)
              match sem_cmd n 0 ex saved body s with
              | None => None
              | Some (Normal, s1) | Some (Returning, s1) => Some (done ex saved s1)
              | Some other => Some other
              end
        end
  | CBrace body => sem_list n d ex saved body s
  | CSubshell body =>
      match sem_subshell n ex body s with
      | None => None
      | Some child => Some (done ex saved (join_subshell s child))
      end
  | CIf cond body elifs has_else els =>
      match sem_list n d true saved cond s with
      | None => None
      | Some (Normal, s1) =>
          if fails s1 then
            match elifs with
            | ENil => if has_else then sem_list n d ex saved els s1
                      else Some (Normal, set_status 0 s1)
            | ECons cond' body' elifs' =>
                sem_cmd n d ex saved (CIf cond' body' elifs' has_else els) s1
            end
          else sem_list n d ex saved body s1
      | Some other => Some other
      end
  | CWhile is_until cond body => sem_loop n d ex saved is_until cond body 0%N s
  | CFor x ws body =>
      match expand_words ws s with
      | None => Some (shell_error ErrExpansion 0 ex saved s)
      | Some [] => Some (Normal, set_status 0 s)
      | Some values => sem_for n d ex saved x values body s
      end
  | CCase w items =>
      match expand_word w s with
      | None => Some (shell_error ErrExpansion 0 ex saved s)
      | Some fields =>
          match find_clause (hd_error fields) items with
          | None => Some (Normal, set_status 0 s)
          | Some (body, k, rest) => sem_clause n d ex saved (hd_error fields) body k rest s
          end
      end
  | CFunDef nm body => Some (Normal, set_status 0 (define_fun nm body s))
  | CTrapExit action => Some (Normal, set_status 0 (set_exit_trap (Some action) s))
  | CRedirFail _ => Some (shell_error ErrOtherRedirection 0 ex saved s)
  end end

(* A subshell environment: a copy of the state in which no loop encloses the
   body, traps are reset, and whose EXIT trap (if it sets one) runs when it
   ends, however it ends.  Returns the final state of the copy. *)
with sem_subshell (n : nat) (ex : bool) (body : clist) (s : state) {struct n} : option state :=
  match n with O => None | S n =>
  match sem_list n 0 ex None body (child_state s) with
  | None => None
  | Some (_, c1) => sem_exit_trap n ex c1
  end end

(* The EXIT trap: runs once, when the environment ends; `$?` is preserved
   unless the action itself exits. *)
with sem_exit_trap (n : nat) (ex : bool) (s : state) {struct n} : option state :=
  match n with O => None | S n =>
  match exit_trap s with
  | None => Some s
  | Some action =>
      match sem_list n 0 ex (Some (status s)) action s with
      | None => None
      | Some (Exiting, s1) => Some s1
      | Some (_, s1) => Some (set_status (status s) s1)
      end
  end end

(* while / until: [last] is the status of the last body run (0 if none) *)
with sem_loop (n : nat) (d : nat) (ex : bool) (saved : option N) (is_until : bool)
    (cond body : clist) (last : N) (s : state) {struct n} : option sres :=
  match n with O => None | S n =>
  match sem_list n (S d) true saved cond s with
  | None => None
  | Some (c1, s1) =>
      match loop_react c1 with
      | LoopStop c => Some (c, s1)
      | LoopNext =>
          match c1 with
          | Normal =>
              if Bool.eqb (fails s1) is_until then
                match sem_list n (S d) ex saved body s1 with
                | None => None
                | Some (c2, s2) =>
                    match loop_react c2 with
                    | LoopStop c => Some (c, s2)
                    | LoopNext => sem_loop n d ex saved is_until cond body (status s2) s2
                    end
                end
              else Some (Normal, set_status last s1)
          | _ => (* `continue` in the condition: next iteration *)
              sem_loop n d ex saved is_until cond body last s1
          end
      end
  end end

with sem_for (n : nat) (d : nat) (ex : bool) (saved : option N) (x : N) (values : list N)
    (body : clist) (s : state) {struct n} : option sres :=
  match n with O => None | S n =>
  match values with
  | [] => Some (Normal, s)
  | v :: values' =>
      if is_ronly x s then Some (shell_error ErrAssignment 0 ex saved s)
      else
      match sem_list n (S d) ex saved body (set_var x (Some v) s) with
      | None => None
      | Some (c1, s1) =>
          match loop_react c1 with
          | LoopStop c => Some (c, s1)
          | LoopNext => sem_for n d ex saved x values' body s1
          end
      end
  end end

with sem_clause (n : nat) (d : nat) (ex : bool) (saved : option N) (subject : option N)
    (body : clist) (k : cont) (rest : itemlist) (s : state) {struct n} : option sres :=
  match n with O => None | S n =>
  match sem_list n d ex saved body s with
  | None => None
  | Some (Normal, s1) =>
      match (match k with
             | KBreak => None
             | KFall => next_clause rest
             | KCont => find_clause subject rest
             end) with
      | None => Some (Normal, clause_status body s1)
      | Some (body', k', rest') => sem_clause n d ex saved subject body' k' rest' s1
      end
  | Some other => Some other
  end end

with sem_list (n : nat) (d : nat) (ex : bool) (saved : option N) (l : clist) (s : state)
    {struct n} : option sres :=
  match n with O => None | S n =>
  match l with
  | LNil => Some (Normal, s)
  | LCons a l' =>
      match sem_andor n d ex saved a s with
      | None => None
      | Some (Normal, s1) => sem_list n d ex saved l' s1
      | Some other => Some other
      end
  end end

with sem_andor (n : nat) (d : nat) (ex : bool) (saved : option N) (a : andor) (s : state)
    {struct n} : option sres :=
  match n with O => None | S n =>
  sem_tree (fun ex' p s' => sem_pipeline n d ex' saved p s') ex (andor_tree a) true s
  end

with sem_pipeline (n : nat) (d : nat) (ex : bool) (saved : option N) (p : pipeline) (s : state)
    {struct n} : option sres :=
  match n with O => None | S n =>
  match p with
  | Pipe neg cs =>
      let ex' := ex || neg in
      match (match cs with
             | CNil => Some (Normal, set_status 0 s)
             | CCons c CNil => sem_cmd n d ex' saved c s
             | _ =>
                 match sem_multi n ex' cs s s with
                 | None => None
                 | Some s1 => Some (done ex' saved s1)
                 end
             end) with
      | None => None
      | Some (Normal, s1) =>
          Some (Normal, if neg then set_status (if fails s1 then 0 else 1) s1 else s1)
      | Some other => Some other
      end
  end end

(* the commands of a multi-command pipeline: each in its own subshell
   environment started from [s0]; [acc] = the parent after the commands so far *)
with sem_multi (n : nat) (ex : bool) (cs : cmds) (s0 acc : state) {struct n} : option state :=
  match n with O => None | S n =>
  match cs with
  | CNil => Some acc
  | CCons c cs' =>
      match sem_cmd n 0 ex None c (child_state (set_trace (trace acc) s0)) with
      | None => None
      | Some (_, c1) =>
          match sem_exit_trap n ex c1 with
          | None => None
          | Some c2 => sem_multi n ex cs' s0 (join_subshell s0 c2)
          end
      end
  end end.

(* ------------------------------------------------------------------ *)
(* The programs whose behaviour this specification fixes.  POSIX leaves two
   things unspecified that the grammar admits: `break n`/`continue n` inside a
   function body reaching past the loops of the body into loops of the caller
   (XCU 2.15 break: "it is unspecified whether that loop shall be exited"),
   and `return` outside a function (here: not lexically inside a function
   body).  [d] = loops lexically enclosing the command in its environment and
   function body; [infun] = lexically inside a function body.
 *)

(* ------------------------------------------------------------------ *)
Fixpoint wf_cmd (d : nat) (infun : bool) (c : cmd) {struct c} : bool :=
  match c with
  | CAssign _ _ | CReadonly _ => true
  | CAssignSub _ body | CSubstArg body => negb (clist_is_empty body) && wf_list 0 infun body
  | CAsync a => wf_andor 0 infun a
  | CPrefixCall _ _ nm args =>
      match nm with
      | NBreak | NContinue =>
          if infun then match loop_operand args with Some k => Nat.leb k d | None => true end
          else true
      | NReturn => infun
      | _ => true
      end
  | CCall dc nm args =>
      match nm with
      | NBreak | NContinue =>
          if infun && negb (bad_redir dc) then
            match loop_operand args with
            | Some k => Nat.leb k d
            | None => true
            end
          else true
      | NReturn => infun || bad_redir dc
      | _ => true
      end
  | CBrace body => wf_list d infun body
  | CSubshell body => wf_list 0 infun body
  | CIf cond body elifs _ els =>
      wf_list d infun cond && wf_list d infun body && wf_elifs d infun elifs && wf_list d infun els
  | CWhile _ cond body => wf_list (S d) infun cond && wf_list (S d) infun body
  | CFor _ _ body => negb (clist_is_empty body) && wf_list (S d) infun body
  | CCase _ items => wf_items d infun items
  | CFunDef _ body => wf_cmd 0 true body
  | CTrapExit action => wf_list 0 false action
  | CRedirFail c => wf_cmd d infun c
  end
with wf_list (d : nat) (infun : bool) (l : clist) {struct l} : bool :=
  match l with
  | LNil => true
  | LCons a l' => wf_andor d infun a && wf_list d infun l'
  end
with wf_andor (d : nat) (infun : bool) (a : andor) {struct a} : bool :=
  match a with AndOr first rest => wf_pipeline d infun first && wf_rest d infun rest end
with wf_rest (d : nat) (infun : bool) (r : aorest) {struct r} : bool :=
  match r with
  | RNil => true
  | RCons _ p r' => wf_pipeline d infun p && wf_rest d infun r'
  end
with wf_pipeline (d : nat) (infun : bool) (p : pipeline) {struct p} : bool :=
  match p with
  | Pipe _ CNil => true
  | Pipe _ (CCons c CNil) => wf_cmd d infun c
  | Pipe _ cs => wf_cmds infun cs
  end
with wf_cmds (infun : bool) (cs : cmds) {struct cs} : bool :=
  match cs with
  | CNil => true
  | CCons c cs' => wf_cmd 0 infun c && wf_cmds infun cs'
  end
with wf_elifs (d : nat) (infun : bool) (e : eliflist) {struct e} : bool :=
  match e with
  | ENil => true
  | ECons cond body e' => wf_list d infun cond && wf_list d infun body && wf_elifs d infun e'
  end
with wf_items (d : nat) (infun : bool) (is : itemlist) {struct is} : bool :=
  match is with
  | INil => true
  | ICons _ body _ is' => wf_list d infun body && wf_items d infun is'
  end.

Definition wf_line (l : line) : bool :=
  match l with LCmd c => wf_list 0 false c | LSyntaxError => true end.
Definition wf_prog (p : prog) : bool := forallb wf_line p.

(* ---- whole scripts ---- *)
Fixpoint sem_lines (n : nat) (p : prog) (s : state) : option sres :=
  match p with
  | [] => Some (Normal, s)
  | LSyntaxError :: _ => Some (shell_error ErrSyntax 0 false None s)
  | LCmd l :: p' =>
      match sem_list n 0 false None l s with
      | None => None
      | Some (Normal, s1) => sem_lines n p' s1
      | Some other => Some other
      end
  end.

Definition spec_run (n : nat) (p : prog) : option observation :=
  match sem_lines n p init_state with
  | None => None
  | Some (_, s1) =>
      match sem_exit_trap n false s1 with
      | None => None
      | Some s2 => Some (observe s2)
      end
  end.

Definition spec_result (p : prog) (o : observation) : Prop := exists n, spec_run n p = Some o.

Definition observation_eqb (a b : observation) : bool :=
  list_eqb (pair_eqb N.eqb N.eqb) (fst a) (fst b) && N.eqb (snd a) (snd b).

(* Unordered comparison (scripts with asynchronous lists, and the stream run
   by the real binary): traces as sorted multisets. *)
Definition item_leb (a b : N * N) : bool :=
  N.ltb (fst a) (fst b) || (N.eqb (fst a) (fst b) && N.leb (snd a) (snd b)).

Fixpoint insert_item (x : N * N) (l : list (N * N)) : list (N * N) :=
  match l with
  | [] => [x]
  | y :: l' => if item_leb x y then x :: l else y :: insert_item x l'
  end.

Definition sort_trace (l : list (N * N)) : list (N * N) := fold_right insert_item [] l.

Definition observation_eqb_unordered (a b : observation) : bool :=
  list_eqb (pair_eqb N.eqb N.eqb) (sort_trace (fst a)) (sort_trace (fst b)) && N.eqb (snd a) (snd b).
