(* C02 — what the correspondence check evaluates on every case. *)
From Yv Require Export Common.Base C02.Model C02.Spec.

(* What the harness saw: the canonicalised probe trace and the final exit
   status, or a crash / hang of the shell. *)
Inductive impl_out := IOk (o : observation) | ICrash.

(* a case: the script (as an AST; the harness rendered it to shell text with
   random surface syntax and ran the real shell on the text), whether POSIX
   defines its behaviour (the harness's claim, re-checked here), and the
   implementation's output *)
(* [unordered]: the script has asynchronous lists, whose probes are not ordered
   relative to the parent's: traces are compared as multisets *)
Definition case := (prog * bool * impl_out)%type.

Definition fuel : nat := 3000.

Definition run_case (c : case) : verdict :=
  let '(p, unordered, out) := c in
  let eqb := if unordered then observation_eqb_unordered else observation_eqb in
  match out with
  | ICrash => 3%N
  | IOk o =>
      (* oracle first, on the implementation's output only *)
      let oracle :=
        if wf_prog p then
          match spec_run fuel p with
          | Some e => if eqb e o then 0%N else 2%N
          | None => 99%N
          end
        else 0%N in
      match oracle with
      | 0%N =>
          match model_run fuel p with
          | Some m => if eqb m o then 0%N else 1%N
          | None => 99%N
          end
      | v => v
      end
  end.

Definition run_cases := run_cases_with run_case.
