(* C02 — property theorems only.  Each is closed by [exact] of a lemma from
   Proofs*.v; the driver pins the statements with [Check] and prints the
   assumptions on every run.  [Example]s show that the hypotheses of the
   implication-shaped theorems are satisfiable by non-trivial data. *)
From Yv Require Import Common.Base C02.Model C02.Spec C02.ProofsMono C02.ProofsSim C02.ProofsRev C02.Proofs.

(* Every terminating run of the model (runtime context stack, divert values,
   the loop's status register, the case flags, the flat and-or loop) is a run
   of the POSIX semantics of Spec.v with the same probe trace and the same
   final exit status: for every script whose behaviour POSIX fixes ([wf_prog]),
   without any bound on the size of the script or the length of the run. *)
Theorem exec_sound : forall p o, wf_prog p = true -> model_result p o -> spec_result p o.
Proof. exact exec_sound_lemma. Qed.

(* Conversely, every terminating run of the specification is matched by a
   terminating run of the model with the same observation: on well-formed
   scripts, model and specification are the same partial function. *)
Theorem exec_complete : forall p o, wf_prog p = true -> spec_result p o -> model_result p o.
Proof. exact exec_complete_lemma. Qed.

Theorem model_eq_spec : forall p o, wf_prog p = true -> (model_result p o <-> spec_result p o).
Proof. exact model_eq_spec_lemma. Qed.

(* The specification is a function: a script has at most one behaviour. *)
Theorem spec_deterministic : forall p o1 o2, spec_result p o1 -> spec_result p o2 -> o1 = o2.
Proof. exact spec_deterministic_lemma. Qed.

(* Oracle soundness: whatever fuel the oracle is run with, it accepts the
   output of the model (so a rejection is never a false alarm about a program
   on which model and implementation agree). *)
Theorem oracle_sound : forall p o n m e,
  wf_prog p = true -> model_run n p = Some o -> spec_run m p = Some e ->
  observation_eqb e o = true.
Proof. exact oracle_sound_lemma. Qed.

(* `&&` / `||`: the implementation's loop over the flat list with a single
   Condition frame computes the evaluation of the left-nested tree
   ((p1 op p2) op p3) ... in which both operators have the same precedence and
   the right operand runs iff the left one succeeded (&&) / failed (||). *)
Theorem andor_short_circuit_left_assoc : forall n stk a s r s' d infun ex,
  exec_andor n stk a s = Some (r, s') -> ctx_ok stk d infun ex ->
  wf_andor d infun a = true -> state_ok s ->
  forall sv, exists m,
    sem_tree (fun ex' p s0 => sem_pipeline m d ex' sv p s0) ex (andor_tree a) true s
    = Some (abs sv r s').
Proof. exact andor_model_is_tree. Qed.

Theorem andor_tree_left_nested : forall first rest is_and p,
  andor_tree (AndOr first (rest_snoc rest is_and p))
  = AONode (andor_tree (AndOr first rest)) is_and p.
Proof. exact andor_tree_left_nested_lemma. Qed.

(* `!` changes nothing but the exit status of a pipeline that completes, and
   does not touch a divert (break, continue, return, exit) passing through. *)
Theorem bang_inverts_only_status : forall stk cs s r s',
  (exists n, exec_pipeline n stk (Pipe true cs) s = Some (r, s')) <->
  (exists r1 s1, (exists n, exec_commands n (FCondition :: stk) cs s = Some (r1, s1)) /\
     match r1 with
     | Cont => r = Cont /\ s' = set_status (if N.eqb (status s1) 0 then 1%N else 0%N) s1
     | Brk dv => r = Brk dv /\ s' = s1
     end).
Proof. exact bang_lemma. Qed.

(* Stack::loop_count (frames of the runtime stack, cut at subshell / trap
   frames, capped) is the number of lexically enclosing loops, capped. *)
Theorem loop_count_eq_syntactic_depth : forall stk d infun ex k,
  ctx_ok stk d infun ex -> (infun = true -> k <= d) ->
  loop_count (FBuiltin :: stk) k = Nat.min k d.
Proof. exact loop_count_lemma. Qed.

(* Loops honour the levels: a command at lexical loop depth [d] never
   completes by breaking / continuing more than [d] loops ... *)
Theorem loop_break_continue_levels : forall n stk c s r s' d infun ex,
  exec_cmd n stk c s = Some (r, s') -> ctx_ok stk d infun ex ->
  wf_cmd d infun c = true -> state_ok s ->
  (forall k, r = Brk (DBreak k) -> k < d) /\ (forall k, r = Brk (DContinue k) -> k < d).
Proof. exact levels_lemma. Qed.

(* ... in particular none escapes a function body. *)
Theorem function_body_consumes_break_continue : forall n stk body s r s' ex,
  exec_cmd n stk body s = Some (r, s') -> ex = has_cond stk ->
  wf_cmd 0 true body = true -> state_ok s ->
  forall k, r <> Brk (DBreak k) /\ r <> Brk (DContinue k).
Proof. exact function_body_consumes_loops. Qed.

(* `return` leaves exactly the innermost function: the call of a function
   never completes with a Return divert, and when the body returned the call
   completes normally (subject to errexit) with the returned status. *)
Theorem return_leaves_innermost_function : forall n stk dc nm args s r s' body,
  exec_cmd n stk (CCall dc nm args) s = Some (r, s') ->
  via_command dc = false -> classify nm s = TFunction body ->
  (forall o, r <> Brk (DReturn o)) /\
  (bad_redir dc = false ->
   forall m o sb, exec_cmd m stk body s = Some (Brk (DReturn o), sb) ->
     let s1 := match o with Some st => set_status st sb | None => sb end in
     r = apply_errexit stk s1 /\ s' = s1).
Proof. exact return_lemma. Qed.

(* A compound command that runs none of its bodies has status zero. *)
Theorem compound_status_zero_if_none :
  (forall n stk cond body s sc,
     exec_list n (FCondition :: stk) cond s = Some (Cont, sc) -> N.eqb (status sc) 0 = false ->
     exec_cmd (S (S n)) stk (CIf cond body ENil false LNil) s = Some (Cont, set_status 0 sc))
  /\ (forall n stk u cond body s sc,
     exec_list n (FCondition :: FLoop :: stk) cond s = Some (Cont, sc) ->
     Bool.eqb (N.eqb (status sc) 0) (negb u) = false ->
     exec_cmd (S (S (S n))) stk (CWhile u cond body) s = Some (Cont, set_status 0 sc))
  /\ (forall n stk x ws body s,
     expand_words ws s = Some [] -> clist_is_empty body = false ->
     exec_cmd (S n) stk (CFor x ws body) s = Some (Cont, set_status 0 s))
  /\ (forall stk w items s fields,
     expand_word w s = Some fields -> find_clause (hd_error fields) items = None ->
     exec_cmd (S (S (items_length items))) stk (CCase w items) s = Some (Cont, set_status 0 s)).
Proof. exact (conj if_zero (conj while_zero (conj for_zero case_zero))). Qed.

(* Command search: special built-in, then function, then other built-in,
   then PATH (empty in the simulated system): the implementation's classify is
   the four-way priority, also as a finite table. *)
Theorem search_order : forall nm s,
  classify nm s =
  match resolve nm s with
  | RSpecial => TBuiltin true
  | RFunction body => TFunction body
  | RRegular => TBuiltin false
  | RNotFound => TExternal
  end.
Proof. exact search_order_lemma. Qed.

Theorem search_order_table : forall nm s,
  target_rank (classify nm s) =
  search_table (is_special nm)
    (match lookup_fun nm (funs s) with Some _ => true | None => false end)
    (is_regular_builtin nm).
Proof. exact search_table_lemma. Qed.

(* More fuel never changes a result of the model. *)
Theorem model_fuel_monotone : forall n m stk c s res,
  n <= m -> exec_cmd n stk c s = Some res -> exec_cmd m stk c s = Some res.
Proof. exact exec_cmd_mono. Qed.

(* ---- non-vacuity ---- *)

(* f0() { probe 1; return 3; probe 2; }
   for v0 in a b; do f0 && break 2; probe 4 5; done   -- two loop iterations,
   a function call that returns, an and-or list, a break past the depth *)
Definition ex_prog : prog :=
  [ LCmd (LCons (AndOr (Pipe false (CCons
      (CFunDef (NUser 0) (CBrace
         (LCons (AndOr (Pipe false (CCons (CCall plain NProbe [1%N]) CNil)) RNil)
         (LCons (AndOr (Pipe false (CCons (CCall plain NReturn [3%N]) CNil)) RNil)
         (LCons (AndOr (Pipe false (CCons (CCall plain NProbe [2%N]) CNil)) RNil) LNil)))))
      CNil)) RNil) LNil);
    LCmd (LCons (AndOr (Pipe false (CCons
      (CFor 0 [WLit 0; WLit 1]
         (LCons (AndOr (Pipe false (CCons (CCall plain (NUser 0) []) CNil))
                   (RCons true (Pipe false (CCons (CCall plain NBreak [2%N]) CNil)) RNil))
         (LCons (AndOr (Pipe false (CCons (CCall plain NProbe [4%N; 5%N]) CNil)) RNil) LNil)))
      CNil)) RNil) LNil) ].

Example exec_sound_not_vacuous :
  wf_prog ex_prog = true /\
  model_result ex_prog ([(1, 0); (4, 3); (1, 5); (4, 3)]%N, 5%N).
Proof. split; [reflexivity | exists 40; reflexivity]. Qed.

Example ctx_ok_not_vacuous :
  ctx_ok [FCondition; FLoop; FBuiltin; FLoop; FSubshell; FLoop] 2 false true
  /\ loop_count (FBuiltin :: [FCondition; FLoop; FBuiltin; FLoop; FSubshell; FLoop]) 5 = 2.
Proof. split; [split; cbn; auto | reflexivity]. Qed.

Example state_ok_not_vacuous :
  state_ok
    (define_fun (NUser 0) (CBrace (LCons (AndOr (Pipe false (CCons (CCall plain NReturn []) CNil)) RNil) LNil))
       (add_ronly 1 init_state)).
Proof.
  split; cbn; try discriminate.
  intros nm b. destruct (name_eqb nm (NUser 0)); [intros E; inversion E; reflexivity | discriminate].
Qed.

Print Assumptions exec_sound.
Print Assumptions exec_complete.
Print Assumptions model_eq_spec.
Print Assumptions spec_deterministic.
Print Assumptions oracle_sound.
Print Assumptions andor_short_circuit_left_assoc.
Print Assumptions andor_tree_left_nested.
Print Assumptions bang_inverts_only_status.
Print Assumptions loop_count_eq_syntactic_depth.
Print Assumptions loop_break_continue_levels.
Print Assumptions function_body_consumes_break_continue.
Print Assumptions return_leaves_innermost_function.
Print Assumptions compound_status_zero_if_none.
Print Assumptions search_order.
Print Assumptions search_order_table.
Print Assumptions model_fuel_monotone.
