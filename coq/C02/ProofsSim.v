(* C02 — the model refines the specification: every terminating run of the
   model interpreter ([exec_*], runtime context stack, divert values) is a run
   of the specification interpreter ([sem_*], lexical depth / "-e ignored"
   flag, completions) with the corresponding result. *)
From Yv Require Import Common.Base C02.Model C02.Spec.

(* ------------------------------------------------------------------ *)
(* "eventually always": the form in which results of [sem_*] are carried *)
(* ------------------------------------------------------------------ *)
Definition ok {A} (f : nat -> option A) (res : A) : Prop :=
  exists m, forall k, m <= k -> f k = Some res.

Lemma ok_some {A} (f : nat -> option A) res : ok f res -> exists m, f m = Some res.
Proof. intros [m H]. exists m. apply H. lia. Qed.

(* sum of the bounds of all "eventually" hypotheses in the context *)
Ltac fuel_sum :=
  let rec go acc :=
    match goal with
    | H : forall k, ?m <= k -> _ |- _ =>
        lazymatch acc with
        | context [m] => fail
        | _ => go (m + acc)
        end
    | _ => acc
    end in
  go 0.

Ltac ok_open :=
  repeat match goal with
         | H : ok _ _ |- _ => let m := fresh "m" in destruct H as [m H]
         end.

(* goal [ok (fun k => f k ...) res]: choose the bound, expose one step *)
Ltac ok_start :=
  ok_open;
  let t := fuel_sum in
  exists (S t); intros [|k] Hk; [exfalso; lia|]; cbv beta.

Ltac ok_rw :=
  repeat match goal with
         | H : forall k, _ <= k -> _ = Some _ |- _ => rewrite H by lia
         end.

(* ------------------------------------------------------------------ *)
(* small facts about the state record                                  *)
(* ------------------------------------------------------------------ *)
Lemma set_status_same s : set_status (status s) s = s.
Proof. destruct s; reflexivity. Qed.

Lemma set_status_twice a b s : set_status a (set_status b s) = set_status a s.
Proof. reflexivity. Qed.

(* ------------------------------------------------------------------ *)
(* the runtime context stack versus the lexical context                *)
(* ------------------------------------------------------------------ *)
Definition ld (stk : list frame) : nat :=
  length (filter frame_is_loop (take_while retains_context stk)).
Definition has_cond (stk : list frame) : bool := existsb frame_is_condition stk.

Record ctx_ok (stk : list frame) (d : nat) (infun ex : bool) : Prop := {
  co_ex : ex = has_cond stk;
  co_le : d <= ld stk;
  co_eq : infun = false -> d = ld stk
}.

Lemma loop_count_min stk k : loop_count stk k = Nat.min k (ld stk).
Proof. unfold loop_count, ld. apply firstn_length. Qed.

Lemma ctx_cond stk d infun ex : ctx_ok stk d infun ex -> ctx_ok (FCondition :: stk) d infun true.
Proof. intros [A B C]; split; auto. Qed.

Lemma ctx_loop stk d infun ex : ctx_ok stk d infun ex -> ctx_ok (FLoop :: stk) (S d) infun ex.
Proof.
  intros [A B C]; split.
  - exact A.
  - unfold ld in *; cbn; lia.
  - intros E. specialize (C E). unfold ld in *; cbn; lia.
Qed.

Lemma ctx_builtin stk d infun ex : ctx_ok stk d infun ex -> ctx_ok (FBuiltin :: stk) d infun ex.
Proof. intros [A B C]; split; auto. Qed.

Lemma ctx_subshell stk d infun infun' ex :
  ctx_ok stk d infun ex -> ctx_ok (FSubshell :: stk) 0 infun' ex.
Proof. intros [A B C]; split; cbn; auto. Qed.

Lemma ctx_trap stk ex infun : ex = has_cond stk -> ctx_ok (FTrap :: stk) 0 infun ex.
Proof. intros A; split; cbn; auto. Qed.

Lemma ctx_fun stk d infun ex : ctx_ok stk d infun ex -> ctx_ok stk 0 true ex.
Proof. intros [A B C]; split; auto; [lia | discriminate]. Qed.

(* ------------------------------------------------------------------ *)
(* results                                                             *)
(* ------------------------------------------------------------------ *)
Definition abs (saved : option N) (r : flow) (s : state) : sres :=
  match r with
  | Cont => (Normal, s)
  | Brk (DContinue k) => (Continuing (S k), s)
  | Brk (DBreak k) => (Breaking (S k), s)
  | Brk (DReturn None) => (Returning, s)
  | Brk (DReturn (Some v)) => (Returning, set_status v s)
  | Brk (DExit None) => (Exiting, exit_no_operand saved s)
  | Brk (DExit (Some v)) => (Exiting, set_status v s)
  | Brk (DInterrupt None) => (Exiting, s)
  | Brk (DInterrupt (Some v)) => (Exiting, set_status v s)
  | Brk (DAbort None) => (Exiting, s)
  | Brk (DAbort (Some v)) => (Exiting, set_status v s)
  end.

Lemma abs_none_apply_result r s : snd (abs None r s) = apply_result r s.
Proof. destruct r as [|[k|k|[v|]|[v|]|[v|]|[v|]]]; reflexivity. Qed.

Lemma abs_apply_errexit stk ex sv s :
  ex = has_cond stk -> abs sv (apply_errexit stk s) s = done ex sv s.
Proof.
  intros ->. unfold apply_errexit, done, errexit_applies, errexit_is_applicable, fails, has_cond.
  destruct (N.eqb (status s) 0), (errexit s), (existsb frame_is_condition stk); reflexivity.
Qed.

Lemma abs_expansion_error stk sv s k :
  error_exits k = true -> error_status k 0 = 2%N ->
  forall ex, abs sv (handle_expansion_error stk s) s = shell_error k 0 ex sv s.
Proof.
  intros E1 E2 ex. unfold handle_expansion_error, shell_error. rewrite E1, E2.
  destruct (errexit_is_applicable stk s); reflexivity.
Qed.

(* what the simulation guarantees about a model result *)
Record res_ok (infun : bool) (d : nat) (r : flow) : Prop := {
  ro_return : infun = false -> forall o, r <> Brk (DReturn o);
  ro_abort : forall o, r <> Brk (DAbort o);
  (* break / continue never reach past the lexically enclosing loops *)
  ro_break : forall c, r = Brk (DBreak c) -> c < d;
  ro_continue : forall c, r = Brk (DContinue c) -> c < d
}.

Lemma res_ok_cont infun d : res_ok infun d Cont.
Proof. split; intros; discriminate. Qed.

Lemma res_ok_errexit infun d stk s : res_ok infun d (apply_errexit stk s).
Proof. unfold apply_errexit. destruct (_ && _); split; intros; discriminate. Qed.

(* the result of a function body (depth 0) seen by the caller *)
Lemma res_ok_weaken infun d r : res_ok true 0 r -> (forall o, r <> Brk (DReturn o)) ->
  res_ok infun d r.
Proof. intros [A C D E] H; split; auto; intros c Ec; [specialize (D c Ec) | specialize (E c Ec)]; lia. Qed.

Lemma res_ok_other infun d d' r : res_ok infun d r ->
  (forall c, r <> Brk (DBreak c)) -> (forall c, r <> Brk (DContinue c)) -> res_ok infun d' r.
Proof. intros [A C D E] H1 H2; split; auto; intros c Ec; exfalso; [eapply H1 | eapply H2]; exact Ec. Qed.

(* invariant of the state: the stored function bodies and trap action are
   well-formed *)
Record state_ok (s : state) : Prop := {
  so_funs : forall nm b, lookup_fun nm (funs s) = Some b -> wf_cmd 0 true b = true;
  so_trap : forall a, exit_trap s = Some a -> wf_list 0 false a = true
}.

Lemma state_ok_same s s' :
  funs s' = funs s -> exit_trap s' = exit_trap s -> ronly s' = ronly s ->
  state_ok s -> state_ok s'.
Proof. intros A B C [F T]; split; rewrite ?A, ?B; auto. Qed.

Lemma state_ok_child s : state_ok s -> state_ok (child_state s).
Proof. intros [F T]; split; cbn; auto. discriminate. Qed.

(* ------------------------------------------------------------------ *)
(* built-in utilities                                                  *)
(* ------------------------------------------------------------------ *)
Definition wf_call (d : nat) (infun : bool) (nm : name) (args : list N) : bool :=
  match nm with
  | NBreak | NContinue =>
      if infun then match loop_operand args with Some k => Nat.leb k d | None => true end
      else true
  | NReturn => infun
  | _ => true
  end.

Lemma apply_errexit_builtin stk s : apply_errexit (FBuiltin :: stk) s = apply_errexit stk s.
Proof. reflexivity. Qed.

Lemma min_depth stk d infun ex k :
  ctx_ok stk d infun ex -> (infun = true -> k <= d) -> Nat.min k (ld stk) = Nat.min k d.
Proof.
  intros [A B C] H. destruct infun.
  - specialize (H eq_refl). lia.
  - rewrite (C eq_refl). reflexivity.
Qed.

Ltac bs_cont stk :=
  cbn [error_divert]; cbv zeta iota beta; cbn [run_utility utility_error shell_error error_exits error_status];
  rewrite (abs_apply_errexit stk (has_cond stk)) by reflexivity;
  split; [reflexivity | split; [apply res_ok_errexit | repeat split; reflexivity]].
Ltac bs_brk :=
  cbn [error_divert]; cbv zeta iota beta; cbn [run_utility utility_error shell_error error_exits error_status abs];
  split; [reflexivity | split; [split; intros;
    first [congruence | match goal with H : Brk _ = Brk _ |- _ => inversion H; subst end; lia]
    | repeat split; reflexivity]].

Lemma builtin_sim nm spf stk d infun ex sv args s st dv s' :
  ctx_ok stk d infun ex -> wf_call d infun nm args = true ->
  run_builtin nm spf (FBuiltin :: stk) args s = ((st, dv), s') ->
  let s1 := set_status st s' in
  let r := match dv with Cont => apply_errexit stk s1 | _ => dv end in
  abs sv r s1 = run_utility nm spf d ex sv args s
  /\ res_ok infun d r
  /\ funs s1 = funs s /\ exit_trap s1 = exit_trap s /\ ronly s1 = ronly s.
Proof.
  intros Hc Hw Hr.
  pose proof (co_ex _ _ _ _ Hc) as Hex. subst ex.
  destruct nm; cbn [run_builtin] in Hr.
  - (* : *) inversion Hr; subst st dv s'. bs_cont stk.
  - (* break *)
    unfold builtin_break in Hr.
    change (parse_count args) with (loop_operand args) in Hr.
    cbn [run_utility].
    destruct (loop_operand args) as [k|] eqn:Ek.
    + rewrite loop_count_min in Hr.
      assert (Hm : Nat.min k (ld (FBuiltin :: stk)) = Nat.min k d).
      { apply (min_depth _ d infun (has_cond stk)); [apply ctx_builtin; exact Hc|].
        intros E; cbn in Hw; rewrite E, Ek in Hw. apply Nat.leb_le; exact Hw. }
      rewrite Hm in Hr. destruct (Nat.min k d) as [|j] eqn:Emin; inversion Hr; subst st dv s'.
      * destruct spf; [bs_brk | bs_cont stk].
      * bs_brk.
    + inversion Hr; subst st dv s'. destruct spf; [bs_brk | bs_cont stk].
  - (* continue *)
    unfold builtin_break in Hr.
    change (parse_count args) with (loop_operand args) in Hr.
    cbn [run_utility].
    destruct (loop_operand args) as [k|] eqn:Ek.
    + rewrite loop_count_min in Hr.
      assert (Hm : Nat.min k (ld (FBuiltin :: stk)) = Nat.min k d).
      { apply (min_depth _ d infun (has_cond stk)); [apply ctx_builtin; exact Hc|].
        intros E; cbn in Hw; rewrite E, Ek in Hw. apply Nat.leb_le; exact Hw. }
      rewrite Hm in Hr. destruct (Nat.min k d) as [|j] eqn:Emin; inversion Hr; subst st dv s'.
      * destruct spf; [bs_brk | bs_cont stk].
      * bs_brk.
    + inversion Hr; subst st dv s'. destruct spf; [bs_brk | bs_cont stk].
  - (* return *)
    cbn in Hw. subst infun. unfold builtin_return in Hr.
    destruct args as [|a [|b args]]; inversion Hr; subst st dv s'.
    + rewrite set_status_same. bs_brk.
    + bs_brk.
    + destruct spf; [bs_brk | bs_cont stk].
  - (* exit *)
    unfold builtin_return in Hr.
    destruct args as [|a [|b args]]; inversion Hr; subst st dv s'.
    + rewrite set_status_same. bs_brk.
    + bs_brk.
    + destruct spf; [bs_brk | bs_cont stk].
  - (* set *) inversion Hr; subst st dv s'. bs_cont stk.
  - (* exec *) inversion Hr; subst st dv s'. bs_cont stk.
  - (* . of a missing file *) inversion Hr; subst st dv s'. destruct spf; [bs_brk | bs_cont stk].
  - (* probe *) inversion Hr; subst st dv s'. bs_cont stk.
  - (* true *) inversion Hr; subst st dv s'. bs_cont stk.
  - (* false *) inversion Hr; subst st dv s'. bs_cont stk.
  - (* wait *) destruct (job_wait args s) as [stw sw] eqn:Ew. inversion Hr; subst st dv s'.
    cbn [error_divert]; cbv zeta iota beta; cbn [run_utility]. rewrite Ew.
    rewrite (abs_apply_errexit stk (has_cond stk)) by reflexivity.
    assert (Hsame : funs sw = funs s /\ exit_trap sw = exit_trap s /\ ronly sw = ronly s).
    { unfold job_wait in Ew. destruct (match args with [_] => last_async s | _ => None end);
        [destruct (lookup_job n (jobs s))|]; inversion Ew; subst; repeat split; reflexivity. }
    split; [reflexivity | split; [apply res_ok_errexit | exact Hsame]].
  - (* a user name never names a built-in; the model answers 127 *)
    inversion Hr; subst st dv s'. bs_cont stk.
Qed.

(* ------------------------------------------------------------------ *)
(* The simulation claims, one per function of the model               *)
(* ------------------------------------------------------------------ *)

(* the part of [sem_pipeline] below the negation *)
Definition sem_commands (k : nat) (d : nat) (ex : bool) (sv : option N) (cs : cmds) (s : state)
  : option sres :=
  match cs with
  | CNil => Some (Normal, set_status 0 s)
  | CCons c CNil => sem_cmd k d ex sv c s
  | _ => match sem_multi k ex cs s s with
         | None => None
         | Some s1 => Some (done ex sv s1)
         end
  end.

(* the part of [sem_cmd (CIf ..)] after a failed condition *)
Definition sem_else (k : nat) (d : nat) (ex : bool) (sv : option N) (e : eliflist)
    (has_else : bool) (els : clist) (s : state) : option sres :=
  match e with
  | ENil => if has_else then sem_list k d ex sv els s else Some (Normal, set_status 0 s)
  | ECons c b e' => sem_cmd k d ex sv (CIf c b e' has_else els) s
  end.

Definition tree_P (k d : nat) (sv : option N) : bool -> pipeline -> state -> option sres :=
  fun ex' p s' => sem_pipeline k d ex' sv p s'.

Section Claims.

Definition post (infun : bool) (d : nat) (r : flow) (s' : state)
    (f : option N -> nat -> option sres) : Prop :=
  state_ok s' /\ res_ok infun d r /\ forall sv, ok (f sv) (abs sv r s').

Definition sim_cmd (n : nat) : Prop := forall stk c s r s' d infun ex,
  exec_cmd n stk c s = Some (r, s') -> ctx_ok stk d infun ex ->
  wf_cmd d infun c = true -> state_ok s ->
  post infun d r s' (fun sv k => sem_cmd k d ex sv c s).

Definition sim_list (n : nat) : Prop := forall stk l s r s' d infun ex,
  exec_list n stk l s = Some (r, s') -> ctx_ok stk d infun ex ->
  wf_list d infun l = true -> state_ok s ->
  post infun d r s' (fun sv k => sem_list k d ex sv l s).

Definition sim_andor (n : nat) : Prop := forall stk a s r s' d infun ex,
  exec_andor n stk a s = Some (r, s') -> ctx_ok stk d infun ex ->
  wf_andor d infun a = true -> state_ok s ->
  post infun d r s' (fun sv k => sem_andor k d ex sv a s).

Definition sim_rest (n : nat) : Prop := forall stk rs s1 r s' d infun ex,
  exec_rest n stk rs s1 = Some (r, s') -> rs <> RNil -> ctx_ok stk d infun ex ->
  wf_rest d infun rs = true -> state_ok s1 ->
  state_ok s' /\ res_ok infun d r /\
  forall sv t s0,
    ok (fun k => sem_tree (tree_P k d sv) ex t false s0) (Normal, s1) ->
    ok (fun k => sem_tree (tree_P k d sv) ex (aotree_of t rs) true s0) (abs sv r s').

Definition sim_pipeline (n : nat) : Prop := forall stk p s r s' d infun ex,
  exec_pipeline n stk p s = Some (r, s') -> ctx_ok stk d infun ex ->
  wf_pipeline d infun p = true -> state_ok s ->
  post infun d r s' (fun sv k => sem_pipeline k d ex sv p s).

Definition sim_commands (n : nat) : Prop := forall stk cs s r s' d infun ex,
  exec_commands n stk cs s = Some (r, s') -> ctx_ok stk d infun ex ->
  wf_pipeline d infun (Pipe false cs) = true -> state_ok s ->
  post infun d r s' (fun sv k => sem_commands k d ex sv cs s).

Definition sim_multi (n : nat) : Prop := forall stk cs s0 acc acc' infun ex,
  exec_multi n stk cs s0 acc = Some acc' -> ex = has_cond stk ->
  wf_cmds infun cs = true -> state_ok s0 ->
  ok (fun k => sem_multi k ex cs s0 acc) acc'.

Definition sim_subshell (n : nat) : Prop := forall stk body s c' infun ex,
  run_subshell n stk body s = Some c' -> ex = has_cond stk ->
  wf_list 0 infun body = true -> state_ok s ->
  ok (fun k => sem_subshell k ex body s) c'.

Definition sim_trap (n : nat) : Prop := forall stk s s' ex,
  run_exit_trap n stk s = Some s' -> ex = has_cond stk -> state_ok s ->
  ok (fun k => sem_exit_trap k ex s) s'.

Definition sim_elifs (n : nat) : Prop := forall stk e has_else els s r s' d infun ex,
  exec_elifs n stk e has_else els s = Some (r, s') -> ctx_ok stk d infun ex ->
  wf_elifs d infun e = true -> wf_list d infun els = true -> state_ok s ->
  post infun d r s' (fun sv k => sem_else k d ex sv e has_else els s).

(* what [sem_loop] does, given how one run of Loop::iterate ended *)
Definition iter_spec (sv : option N) (Q : sres -> Prop) (QN : N -> state -> sres -> Prop)
    (r : flow) (s1 : state) (reg1 : N) : Prop :=
  match r with
  | Cont => Q (Normal, set_status reg1 s1)
  | Brk (DContinue O) => forall res, QN reg1 s1 res -> Q res
  | Brk (DBreak O) => Q (Normal, s1)
  | Brk (DBreak (S c)) => Q (Breaking (S c), s1)
  | Brk (DContinue (S c)) => Q (Continuing (S c), s1)
  | Brk dv => Q (abs sv (Brk dv) s1)
  end.

Definition ok_loop d ex sv u cond body (last : N) (s : state) (res : sres) : Prop :=
  ok (fun k => sem_loop k d ex sv u cond body last s) res.

Definition sim_iter (n : nat) : Prop := forall stk cond u body s reg r s1 reg1 d infun ex,
  loop_iterate n stk cond (negb u) body s reg = Some (r, s1, reg1) ->
  ctx_ok stk (S d) infun ex ->
  wf_list (S d) infun cond = true -> wf_list (S d) infun body = true ->
  state_ok s ->
  state_ok s1 /\ res_ok infun (S d) r /\
  forall sv, iter_spec sv (ok_loop d ex sv u cond body reg s) (ok_loop d ex sv u cond body) r s1 reg1.

Definition sim_exec (n : nat) : Prop := forall stk cond u body s reg r s1 reg1 d infun ex,
  loop_execute n stk cond (negb u) body s reg = Some (r, s1, reg1) ->
  ctx_ok stk (S d) infun ex ->
  wf_list (S d) infun cond = true -> wf_list (S d) infun body = true ->
  state_ok s ->
  state_ok s1 /\ res_ok infun d r /\
  forall sv, ok_loop d ex sv u cond body reg s
               (match r with Cont => (Normal, set_status reg1 s1) | _ => abs sv r s1 end).

Definition sim_for (n : nat) : Prop := forall stk x values body s r s' d infun ex,
  exec_for n stk x values body s = Some (r, s') -> ctx_ok stk (S d) infun ex ->
  wf_list (S d) infun body = true -> state_ok s ->
  post infun d r s' (fun sv k => sem_for k d ex sv x values body s).

Definition pick (ft : bool) (subject : option N) (items : itemlist) :=
  if ft then next_clause items else find_clause subject items.

Definition sim_items (n : nat) : Prop := forall stk subject items ft upd s r s' d infun ex,
  exec_items n stk subject items ft upd s = Some (r, s') -> ctx_ok stk d infun ex ->
  wf_items d infun items = true -> state_ok s ->
  state_ok s' /\ res_ok infun d r /\
  forall sv,
    match pick ft subject items with
    | None => abs sv r s' = (Normal, if upd then s else set_status 0 s)
    | Some (b, k, rest) => ok (fun m => sem_clause m d ex sv subject b k rest s) (abs sv r s')
    end.

Record sim_all (n : nat) : Prop := {
  sa_cmd : sim_cmd n; sa_list : sim_list n; sa_andor : sim_andor n; sa_rest : sim_rest n;
  sa_pipeline : sim_pipeline n; sa_commands : sim_commands n; sa_multi : sim_multi n;
  sa_subshell : sim_subshell n; sa_trap : sim_trap n; sa_elifs : sim_elifs n;
  sa_iter : sim_iter n; sa_exec : sim_exec n; sa_for : sim_for n; sa_items : sim_items n
}.

(* ---- generic helpers ---- *)
Lemma ok_ext {A} (f g : nat -> option A) res :
  (forall k, f k = Some res -> g k = Some res) -> ok f res -> ok g res.
Proof. intros H [m Hm]. exists m. intros k Hk. apply H, Hm, Hk. Qed.

Lemma eqb_negb1 (a b : bool) : Bool.eqb (negb a) b = negb (Bool.eqb a b).
Proof. destruct a, b; reflexivity. Qed.

Lemma eqb_negb2 (a b : bool) : Bool.eqb a (negb b) = Bool.eqb (negb a) b.
Proof. destruct a, b; reflexivity. Qed.

(* ---- lists ---- *)
Lemma step_list n : sim_andor n -> sim_list n -> sim_list (S n).
Proof.
  intros Iandor Ilist stk l s r s' d infun ex H Hc Hw Hs.
  cbn [exec_list] in H. destruct l as [|a l'].
  - inversion H; subst r s'. split; [exact Hs|]. split; [apply res_ok_cont|].
    intros sv. exists 1. intros [|k] Hk; [lia|]. reflexivity.
  - cbn [wf_list] in Hw. apply andb_true_iff in Hw as [Hwa Hwl].
    destruct (exec_andor n stk a s) as [[ra sa]|] eqn:Ea; [|discriminate].
    destruct (Iandor _ _ _ _ _ _ _ _ Ea Hc Hwa Hs) as (Hs1 & Hr1 & Hok1).
    destruct ra as [|dv].
    + destruct (Ilist _ _ _ _ _ _ _ _ H Hc Hwl Hs1) as (Hs2 & Hr2 & Hok2).
      split; [exact Hs2|]. split; [exact Hr2|]. intros sv.
      specialize (Hok1 sv). specialize (Hok2 sv). cbn [abs] in Hok1.
      ok_start. cbn [sem_list]. ok_rw. reflexivity.
    + inversion H; subst r s'. split; [exact Hs1|]. split; [exact Hr1|]. intros sv.
      specialize (Hok1 sv).
      ok_start. cbn [sem_list]. ok_rw.
      destruct dv as [c|c|[v|]|[v|]|[v|]|[v|]]; reflexivity.
Qed.

Ltac post_split := split; [| split].

(* the result of a command that the specification completes by [done] *)
Lemma post_done infun d stk s1 ex (f : option N -> nat -> option sres) :
  ex = has_cond stk -> state_ok s1 ->
  (forall sv, ok (f sv) (done ex sv s1)) ->
  post infun d (apply_errexit stk s1) s1 f.
Proof.
  intros He Hs H. post_split; [exact Hs | apply res_ok_errexit |].
  intros sv. rewrite (abs_apply_errexit stk ex) by exact He. apply H.
Qed.

(* ---- and-or lists ---- *)
Lemma tree_stop P ex c s2 s0 : c <> Normal ->
  forall rs t, rs <> RNil -> sem_tree P ex t false s0 = Some (c, s2) ->
  sem_tree P ex (aotree_of t rs) true s0 = Some (c, s2).
Proof.
  intros Hc rs; induction rs as [|op p rs IH]; intros t Hn H; [congruence|].
  cbn [aotree_of]. destruct rs as [|op' p' rs'].
  - cbn [aotree_of sem_tree]. rewrite H. destruct c; congruence.
  - apply IH; [discriminate|]. cbn [sem_tree]. rewrite H. destruct c; congruence.
Qed.

Lemma step_rest n : sim_pipeline n -> sim_rest n -> sim_rest (S n).
Proof.
  intros Ipipe Irest stk rs s1 r s' d infun ex H Hn Hc Hw Hs.
  cbn [exec_rest] in H. destruct rs as [|op p rs']; [congruence|].
  cbn [wf_rest] in Hw. apply andb_true_iff in Hw as [Hwp Hwr].
  destruct rs' as [|op' p' rs''].
  - (* the last pipeline *)
    destruct (Bool.eqb (N.eqb (status s1) 0) op) eqn:Erun.
    + destruct (Ipipe _ _ _ _ _ _ _ _ H Hc Hwp Hs) as (Hs2 & Hr2 & Hok2).
      post_split; [exact Hs2 | exact Hr2 |]. intros sv t s0 Ht. specialize (Hok2 sv).
      cbn [aotree_of].
      ok_start. cbn [sem_tree]. ok_rw.
      rewrite eqb_negb1, Erun. cbn [negb]. rewrite orb_false_r.
      unfold tree_P. ok_rw. reflexivity.
    + inversion H; subst r s'. post_split; [exact Hs | apply res_ok_cont |].
      intros sv t s0 Ht. cbn [aotree_of abs].
      ok_start. cbn [sem_tree]. ok_rw. rewrite eqb_negb1, Erun. reflexivity.
  - (* an inner pipeline: under the Condition frame *)
    remember (RCons op' p' rs'') as rs' eqn:Ers.
    assert (Hn' : rs' <> RNil) by (subst rs'; discriminate).
    destruct (Bool.eqb (N.eqb (status s1) 0) op) eqn:Erun.
    + destruct (exec_pipeline n (FCondition :: stk) p s1) as [[rp sp]|] eqn:Ep; [|discriminate].
      destruct (Ipipe _ _ _ _ _ _ _ _ Ep (ctx_cond _ _ _ _ Hc) Hwp Hs) as (Hs2 & Hr2 & Hok2).
      destruct rp as [|dv].
      * destruct (Irest _ _ _ _ _ _ _ _ H Hn' Hc Hwr Hs2) as (Hs3 & Hr3 & Hok3).
        post_split; [exact Hs3 | exact Hr3 |]. intros sv t s0 Ht.
        cbn [aotree_of]. apply Hok3. specialize (Hok2 sv). cbn [abs] in Hok2.
        ok_start. cbn [sem_tree]. ok_rw. rewrite eqb_negb1, Erun. cbn [negb].
        rewrite orb_true_r. unfold tree_P. ok_rw. reflexivity.
      * inversion H; subst r s'. post_split; [exact Hs2 | exact Hr2 |]. intros sv t s0 Ht.
        cbn [aotree_of]. specialize (Hok2 sv).
        assert (Hne : fst (abs sv (Brk dv) sp) <> Normal)
          by (destruct dv as [c|c|[v|]|[v|]|[v|]|[v|]]; discriminate).
        destruct (abs sv (Brk dv) sp) as [c s2] eqn:Eabs. cbn [fst] in Hne.
        ok_start. apply tree_stop; [exact Hne | exact Hn' |].
        cbn [sem_tree]. ok_rw. rewrite eqb_negb1, Erun. cbn [negb].
        rewrite orb_true_r. unfold tree_P. ok_rw. reflexivity.
    + destruct (Irest _ _ _ _ _ _ _ _ H Hn' Hc Hwr Hs) as (Hs3 & Hr3 & Hok3).
      post_split; [exact Hs3 | exact Hr3 |]. intros sv t s0 Ht.
      cbn [aotree_of]. apply Hok3.
      ok_start. cbn [sem_tree]. ok_rw. rewrite eqb_negb1, Erun. reflexivity.
Qed.

Lemma step_andor n : sim_pipeline n -> sim_rest n -> sim_andor (S n).
Proof.
  intros Ipipe Irest stk a s r s' d infun ex H Hc Hw Hs.
  cbn [exec_andor] in H. destruct a as [first rest].
  cbn [wf_andor] in Hw. apply andb_true_iff in Hw as [Hwf Hwr].
  destruct rest as [|op p rest'].
  - destruct (Ipipe _ _ _ _ _ _ _ _ H Hc Hwf Hs) as (Hs2 & Hr2 & Hok2).
    post_split; [exact Hs2 | exact Hr2 |]. intros sv. specialize (Hok2 sv).
    ok_start. cbn [sem_andor andor_tree aotree_of sem_tree negb]. rewrite orb_false_r.
    ok_rw. reflexivity.
  - remember (RCons op p rest') as rest eqn:Er.
    assert (Hn : rest <> RNil) by (subst rest; discriminate).
    destruct (exec_pipeline n (FCondition :: stk) first s) as [[rp sp]|] eqn:Ep; [|discriminate].
    destruct (Ipipe _ _ _ _ _ _ _ _ Ep (ctx_cond _ _ _ _ Hc) Hwf Hs) as (Hs2 & Hr2 & Hok2).
    destruct rp as [|dv].
    + destruct (Irest _ _ _ _ _ _ _ _ H Hn Hc Hwr Hs2) as (Hs3 & Hr3 & Hok3).
      post_split; [exact Hs3 | exact Hr3 |]. intros sv.
      specialize (Hok3 sv (AOLeaf first) s). specialize (Hok2 sv). cbn [abs] in Hok2.
      assert (Hleaf : ok (fun k => sem_tree (tree_P k d sv) ex (AOLeaf first) false s) (Normal, sp)).
      { ok_start. cbn [sem_tree negb]. rewrite orb_true_r. unfold tree_P. ok_rw. reflexivity. }
      specialize (Hok3 Hleaf). clear Hleaf Hok2.
      ok_start. cbn [sem_andor andor_tree]. fold (tree_P k d sv). ok_rw. reflexivity.
    + inversion H; subst r s'. post_split; [exact Hs2 | exact Hr2 |]. intros sv.
      specialize (Hok2 sv).
      assert (Hne : fst (abs sv (Brk dv) sp) <> Normal)
        by (destruct dv as [c|c|[v|]|[v|]|[v|]|[v|]]; discriminate).
      destruct (abs sv (Brk dv) sp) as [c s2] eqn:Eabs. cbn [fst] in Hne.
      ok_start. cbn [sem_andor andor_tree]. apply tree_stop; [exact Hne | exact Hn |].
      cbn [sem_tree negb]. rewrite orb_true_r. ok_rw. reflexivity.
Qed.

(* ---- pipelines ---- *)
Lemma abs_not_normal sv dv s : fst (abs sv (Brk dv) s) <> Normal.
Proof. destruct dv as [c|c|[v|]|[v|]|[v|]|[v|]]; discriminate. Qed.

Lemma sem_pipeline_eq k d ex sv neg cs s :
  sem_pipeline (S k) d ex sv (Pipe neg cs) s =
  match sem_commands k d (ex || neg) sv cs s with
  | None => None
  | Some (Normal, s1) =>
      Some (Normal, if neg then set_status (if fails s1 then 0%N else 1%N) s1 else s1)
  | Some other => Some other
  end.
Proof. reflexivity. Qed.

Lemma step_pipeline n : sim_commands n -> sim_pipeline (S n).
Proof.
  intros Icmds stk p s r s' d infun ex H Hc Hw Hs.
  cbn [exec_pipeline] in H. destruct p as [neg cs].
  assert (Hw' : wf_pipeline d infun (Pipe false cs) = true) by exact Hw.
  destruct neg.
  - destruct (exec_commands n (FCondition :: stk) cs s) as [[rc sc]|] eqn:Ec; [|discriminate].
    destruct (Icmds _ _ _ _ _ _ _ _ Ec (ctx_cond _ _ _ _ Hc) Hw' Hs) as (Hs2 & Hr2 & Hok2).
    destruct rc as [|dv]; inversion H; subst r s'.
    + post_split; [eapply state_ok_same; [..|exact Hs2]; reflexivity | apply res_ok_cont |].
      intros sv. specialize (Hok2 sv). cbn [abs] in Hok2.
      ok_start. rewrite sem_pipeline_eq, orb_true_r.
      ok_rw. unfold fails. destruct (N.eqb (status sc) 0); reflexivity.
    + post_split; [exact Hs2 | exact Hr2 |].
      intros sv. specialize (Hok2 sv). pose proof (abs_not_normal sv dv sc) as Hne.
      destruct (abs sv (Brk dv) sc) as [c s2]. cbn [fst] in Hne.
      ok_start. rewrite sem_pipeline_eq, orb_true_r.
      ok_rw. destruct c; congruence.
  - destruct (Icmds _ _ _ _ _ _ _ _ H Hc Hw' Hs) as (Hs2 & Hr2 & Hok2).
    post_split; [exact Hs2 | exact Hr2 |].
    intros sv. specialize (Hok2 sv).
    destruct (abs sv r s') as [c s2].
    ok_start. rewrite sem_pipeline_eq, orb_false_r.
    ok_rw. destruct c; reflexivity.
Qed.

Lemma multi_same m : forall stk cs s0 acc acc',
  exec_multi m stk cs s0 acc = Some acc' ->
  funs acc = funs s0 /\ exit_trap acc = exit_trap s0 /\ ronly acc = ronly s0 ->
  funs acc' = funs s0 /\ exit_trap acc' = exit_trap s0 /\ ronly acc' = ronly s0.
Proof.
  induction m as [|m IHm]; intros stk cs s0 acc acc' E Hsame; [discriminate|].
  cbn [exec_multi] in E. destruct cs as [|c0 cs']; [inversion E; subst; exact Hsame|].
  destruct (exec_cmd m _ c0 _) as [[r0 c1]|]; [|discriminate].
  destruct (run_exit_trap m _ _) as [c2|]; [|discriminate].
  eapply IHm; [exact E|]. repeat split; reflexivity.
Qed.

Lemma step_commands n : sim_cmd n -> sim_multi n -> sim_commands (S n).
Proof.
  intros Icmd Imulti stk cs s r s' d infun ex H Hc Hw Hs.
  cbn [exec_commands] in H. destruct cs as [|c [|c2 cs2]].
  - inversion H; subst r s'.
    post_split; [eapply state_ok_same; [..|exact Hs]; reflexivity | apply res_ok_cont |].
    intros sv. exists 0. intros k Hk. reflexivity.
  - cbn [wf_pipeline] in Hw.
    destruct (Icmd _ _ _ _ _ _ _ _ H Hc Hw Hs) as (Hs2 & Hr2 & Hok2).
    post_split; [exact Hs2 | exact Hr2 |]. intros sv. exact (Hok2 sv).
  - remember (CCons c (CCons c2 cs2)) as cs eqn:Ecs.
    destruct (exec_multi n stk cs s s) as [s1|] eqn:Em; [|discriminate].
    inversion H; subst r s'.
    assert (Hwm : wf_cmds infun cs = true) by (subst cs; exact Hw).
    pose proof (Imulti _ _ _ _ _ infun ex Em (co_ex _ _ _ _ Hc) Hwm Hs) as Hok.
    assert (Hs1 : state_ok s1).
    { destruct (multi_same _ _ _ _ _ _ Em) as (A & B & C); [repeat split; reflexivity|].
      eapply state_ok_same; [exact A | exact B | exact C | exact Hs]. }
    apply (post_done infun d stk s1 ex); [exact (co_ex _ _ _ _ Hc) | exact Hs1 |].
    intros sv. ok_start. unfold sem_commands. rewrite Ecs. rewrite <- Ecs. ok_rw. reflexivity.
Qed.

Lemma step_multi n : sim_cmd n -> sim_trap n -> sim_multi n -> sim_multi (S n).
Proof.
  intros Icmd Itrap Imulti stk cs s0 acc acc' infun ex H He Hw Hs.
  cbn [exec_multi] in H. destruct cs as [|c cs'].
  - inversion H; subst acc'. exists 1. intros [|k] Hk; [lia|]. reflexivity.
  - cbn [wf_cmds] in Hw. apply andb_true_iff in Hw as [Hwc Hwr].
    destruct (exec_cmd n (FSubshell :: stk) c (child_state (set_trace (trace acc) s0)))
      as [[r c1]|] eqn:Ec; [|discriminate].
    destruct (run_exit_trap n (FSubshell :: stk) (apply_result r c1)) as [c2|] eqn:Et; [|discriminate].
    assert (Hctx : ctx_ok (FSubshell :: stk) 0 infun ex) by (split; cbn; auto).
    assert (Hs0 : state_ok (child_state (set_trace (trace acc) s0))).
    { apply state_ok_child. eapply state_ok_same; [..|exact Hs]; reflexivity. }
    destruct (Icmd _ _ _ _ _ _ _ _ Ec Hctx Hwc Hs0) as (Hs1 & Hr1 & Hok1).
    specialize (Hok1 None).
    assert (Hs1' : state_ok (apply_result r c1)).
    { destruct r as [|dv]; [exact Hs1|]. cbn [apply_result].
      destruct (divert_exit_status dv); [eapply state_ok_same; [..|exact Hs1]; reflexivity | exact Hs1]. }
    pose proof (Itrap _ _ _ ex Et He Hs1') as Hok2.
    pose proof (Imulti _ _ _ _ _ infun ex H He Hwr Hs) as Hok3.
    rewrite <- abs_none_apply_result in Hok2.
    destruct (abs None r c1) as [cc c1'] eqn:Eabs. cbn [snd] in Hok2.
    ok_start. cbn [sem_multi]. ok_rw. reflexivity.
Qed.

(* ---- the EXIT trap and subshells ---- *)
Lemma state_ok_apply_result r s : state_ok s -> state_ok (apply_result r s).
Proof.
  intros Hs. destruct r as [|dv]; [exact Hs|]. cbn [apply_result].
  destruct (divert_exit_status dv); [eapply state_ok_same; [..|exact Hs]; reflexivity | exact Hs].
Qed.

Lemma step_trap n : sim_list n -> sim_trap (S n).
Proof.
  intros Ilist stk s s' ex H He Hs.
  cbn [run_exit_trap] in H. destruct (exit_trap s) as [action|] eqn:Etrap.
  - destruct (exec_list n (FTrap :: stk) action s) as [[r s1]|] eqn:El; [|discriminate].
    pose proof (so_trap _ Hs _ Etrap) as Hwa.
    destruct (Ilist _ _ _ _ _ _ _ _ El (ctx_trap stk ex false He) Hwa Hs) as (Hs1 & Hr1 & Hok1).
    specialize (Hok1 (Some (status s))).
    destruct Hr1 as [R1 R3 _ _]. specialize (R1 eq_refl).
    destruct r as [|[c|c|o|[v|]|[v|]|o]];
      try (exfalso; eapply R1; reflexivity); try (exfalso; eapply R3; reflexivity);
      inversion H; subst s'; cbn [abs exit_no_operand] in Hok1;
      (ok_start; cbn [sem_exit_trap]; rewrite Etrap; ok_rw; reflexivity).
  - inversion H; subst s'. exists 1. intros [|k] Hk; [lia|]. cbn [sem_exit_trap]. rewrite Etrap.
    reflexivity.
Qed.

Lemma step_subshell n : sim_list n -> sim_trap n -> sim_subshell (S n).
Proof.
  intros Ilist Itrap stk body s c' infun ex H He Hw Hs.
  cbn [run_subshell] in H.
  destruct (exec_list n (FSubshell :: stk) body (child_state s)) as [[r c1]|] eqn:El; [|discriminate].
  assert (Hctx : ctx_ok (FSubshell :: stk) 0 infun ex) by (split; cbn; auto).
  destruct (Ilist _ _ _ _ _ _ _ _ El Hctx Hw (state_ok_child _ Hs)) as (Hs1 & Hr1 & Hok1).
  specialize (Hok1 None).
  pose proof (Itrap _ _ _ ex H He (state_ok_apply_result r _ Hs1)) as Hok2.
  rewrite <- abs_none_apply_result in Hok2.
  destruct (abs None r c1) as [cc c1'] eqn:Eabs. cbn [snd] in Hok2.
  ok_start. cbn [sem_subshell]. ok_rw. reflexivity.
Qed.

(* ---- if ---- *)
Lemma step_elifs n : sim_list n -> sim_elifs n -> sim_elifs (S n).
Proof.
  intros Ilist Ielifs stk e has_else els s r s' d infun ex H Hc Hwe Hwl Hs.
  cbn [exec_elifs] in H. destruct e as [|cond body e'].
  - destruct has_else.
    + destruct (Ilist _ _ _ _ _ _ _ _ H Hc Hwl Hs) as (Hs2 & Hr2 & Hok2).
      post_split; [exact Hs2 | exact Hr2 |]. intros sv. exact (Hok2 sv).
    + inversion H; subst r s'.
      post_split; [eapply state_ok_same; [..|exact Hs]; reflexivity | apply res_ok_cont |].
      intros sv. exists 0. intros k Hk. reflexivity.
  - cbn [wf_elifs] in Hwe. apply andb_true_iff in Hwe as [Hwe Hwe'].
    apply andb_true_iff in Hwe as [Hwc Hwb].
    destruct (exec_list n (FCondition :: stk) cond s) as [[rc sc]|] eqn:Ec; [|discriminate].
    destruct (Ilist _ _ _ _ _ _ _ _ Ec (ctx_cond _ _ _ _ Hc) Hwc Hs) as (Hs1 & Hr1 & Hok1).
    destruct rc as [|dv].
    + destruct (N.eqb (status sc) 0) eqn:Est.
      * destruct (Ilist _ _ _ _ _ _ _ _ H Hc Hwb Hs1) as (Hs2 & Hr2 & Hok2).
        post_split; [exact Hs2 | exact Hr2 |]. intros sv.
        specialize (Hok1 sv). specialize (Hok2 sv). cbn [abs] in Hok1.
        ok_start. cbn [sem_else sem_cmd]. ok_rw. unfold fails. rewrite Est. cbn [negb].
        ok_rw. reflexivity.
      * destruct (Ielifs _ _ _ _ _ _ _ _ _ _ H Hc Hwe' Hwl Hs1) as (Hs2 & Hr2 & Hok2).
        post_split; [exact Hs2 | exact Hr2 |]. intros sv.
        specialize (Hok1 sv). specialize (Hok2 sv). cbn [abs] in Hok1.
        ok_start. cbn [sem_else sem_cmd]. ok_rw. unfold fails. rewrite Est. cbn [negb].
        fold (sem_else k d ex sv e' has_else els sc). ok_rw. reflexivity.
    + inversion H; subst r s'. post_split; [exact Hs1 | exact Hr1 |]. intros sv.
      specialize (Hok1 sv). pose proof (abs_not_normal sv dv sc) as Hne.
      destruct (abs sv (Brk dv) sc) as [c s2]. cbn [fst] in Hne.
      ok_start. cbn [sem_else sem_cmd]. ok_rw. destruct c; congruence.
Qed.

(* ---- while / until ---- *)
Lemma iter_spec_mono sv (Q Q' : sres -> Prop) QN r s1 reg1 :
  (forall res, Q' res -> Q res) -> iter_spec sv Q' QN r s1 reg1 -> iter_spec sv Q QN r s1 reg1.
Proof.
  intros HQ. unfold iter_spec.
  destruct r as [|[[|c]|[|c]|o|o|o|o]]; auto.
Qed.

Lemma test_eq x u : Bool.eqb x (negb u) = Bool.eqb (negb x) u.
Proof. destruct x, u; reflexivity. Qed.

(* the body of the loop ended with [rb] in [sb]; what the whole loop does *)
Lemma body_ended d ex sv u cond body reg s sc rb sb :
  ok (fun k => sem_list k (S d) true sv cond s) (Normal, sc) ->
  Bool.eqb (fails sc) u = true ->
  ok (fun k => sem_list k (S d) ex sv body sc) (abs sv rb sb) ->
  iter_spec sv (ok_loop d ex sv u cond body reg s) (ok_loop d ex sv u cond body)
    (match rb with Cont => Brk (DContinue 0) | _ => rb end) sb (status sb).
Proof.
  intros Hc Ht Hb. unfold iter_spec, ok_loop.
  destruct rb as [|[[|c]|[|c]|[v|]|[v|]|[v|]|[v|]]]; cbn [abs] in Hb;
    try (intros res Hres); ok_start; cbn [sem_loop]; ok_rw; cbn [loop_react]; rewrite Ht;
    ok_rw; cbn [loop_react]; ok_rw; reflexivity.
Qed.

Lemma cond_ended d ex sv u cond body reg s dv sc :
  ok (fun k => sem_list k (S d) true sv cond s) (abs sv (Brk dv) sc) ->
  iter_spec sv (ok_loop d ex sv u cond body reg s) (ok_loop d ex sv u cond body) (Brk dv) sc reg.
Proof.
  intros Hc. unfold iter_spec, ok_loop.
  destruct dv as [[|c]|[|c]|[v|]|[v|]|[v|]|[v|]]; cbn [abs] in Hc;
    try (intros res Hres); ok_start; cbn [sem_loop]; ok_rw; cbn [loop_react]; ok_rw; reflexivity.
Qed.

Lemma step_iter n : sim_list n -> sim_iter n -> sim_iter (S n).
Proof.
  intros Ilist Iiter stk cond u body s reg r s1 reg1 d infun ex H Hc Hwc Hwb Hs.
  cbn [loop_iterate] in H.
  destruct (exec_list n (FCondition :: stk) cond s) as [[rc sc]|] eqn:Ec; [|discriminate].
  destruct (Ilist _ _ _ _ _ _ _ _ Ec (ctx_cond _ _ _ _ Hc) Hwc Hs) as (Hs1 & Hr1 & Hok1).
  destruct rc as [|dv].
  - destruct (Bool.eqb (N.eqb (status sc) 0) (negb u)) eqn:Et.
    + assert (Ht : Bool.eqb (fails sc) u = true) by (unfold fails; rewrite <- test_eq; exact Et).
      destruct (exec_list n stk body sc) as [[rb sb]|] eqn:Eb; [|discriminate].
      destruct (Ilist _ _ _ _ _ _ _ _ Eb Hc Hwb Hs1) as (Hs2 & Hr2 & Hok2).
      destruct rb as [|dvb].
      * destruct (Iiter _ _ _ _ _ _ _ _ _ _ _ _ H Hc Hwc Hwb Hs2) as (Hs3 & Hr3 & Hok3).
        post_split; [exact Hs3 | exact Hr3 |]. intros sv.
        eapply iter_spec_mono; [| exact (Hok3 sv)].
        intros res Hres.
        exact (body_ended d ex sv u cond body reg s sc Cont sb (Hok1 sv) Ht (Hok2 sv) res Hres).
      * inversion H; subst r s1 reg1. post_split; [exact Hs2 | exact Hr2 |]. intros sv.
        pose proof (body_ended d ex sv u cond body reg s sc (Brk dvb) sb (Hok1 sv) Ht (Hok2 sv)) as B.
        destruct dvb as [[|c]|[|c]|o|o|o|o]; exact B.
    + inversion H; subst r s1 reg1. post_split; [exact Hs1 | apply res_ok_cont |]. intros sv.
      specialize (Hok1 sv). cbn [abs] in Hok1. unfold iter_spec, ok_loop.
      assert (Ht : Bool.eqb (fails sc) u = false) by (unfold fails; rewrite <- test_eq; exact Et).
      ok_start. cbn [sem_loop]. ok_rw. cbn [loop_react]. rewrite Ht. reflexivity.
  - inversion H; subst r s1 reg1. post_split; [exact Hs1 | exact Hr1 |]. intros sv.
    apply cond_ended. exact (Hok1 sv).
Qed.

Lemma res_ok_dec_break infun d c :
  res_ok infun (S d) (Brk (DBreak (S c))) -> res_ok infun d (Brk (DBreak c)).
Proof.
  intros [A C D E]. split; intros; try congruence.
  - inversion H; subst. specialize (D (S c0) eq_refl). lia.
Qed.

Lemma res_ok_dec_continue infun d c :
  res_ok infun (S d) (Brk (DContinue (S c))) -> res_ok infun d (Brk (DContinue c)).
Proof.
  intros [A C D E]. split; intros; try congruence.
  - inversion H; subst. specialize (E (S c0) eq_refl). lia.
Qed.

Lemma step_exec n : sim_iter n -> sim_exec n -> sim_exec (S n).
Proof.
  intros Iiter Iexec stk cond u body s reg r s1 reg1 d infun ex H Hc Hwc Hwb Hs.
  cbn [loop_execute] in H.
  destruct (loop_iterate n stk cond (negb u) body s reg) as [[[ri si] regi]|] eqn:Ei; [|discriminate].
  destruct (Iiter _ _ _ _ _ _ _ _ _ _ _ _ Ei Hc Hwc Hwb Hs) as (Hs1 & Hr1 & Hok1).
  destruct ri as [|[[|c]|[|c]|o|o|o|o]].
  - inversion H; subst r s1 reg1. post_split; [exact Hs1 | apply res_ok_cont |].
    intros sv. exact (Hok1 sv).
  - (* continue: run the loop again *)
    destruct (Iexec _ _ _ _ _ _ _ _ _ _ _ _ H Hc Hwc Hwb Hs1) as (Hs2 & Hr2 & Hok2).
    post_split; [exact Hs2 | exact Hr2 |]. intros sv. apply (Hok1 sv). exact (Hok2 sv).
  - inversion H; subst r s1 reg1. post_split; [exact Hs1 | apply res_ok_dec_continue; exact Hr1 |].
    intros sv. exact (Hok1 sv).
  - inversion H; subst r s1 reg1. post_split; [exact Hs1 | apply res_ok_cont |].
    intros sv. rewrite set_status_same. exact (Hok1 sv).
  - inversion H; subst r s1 reg1. post_split; [exact Hs1 | apply res_ok_dec_break; exact Hr1 |].
    intros sv. exact (Hok1 sv).
  - inversion H; subst r s1 reg1.
    post_split; [exact Hs1 | eapply res_ok_other; [exact Hr1 | intros; congruence ..] |].
    intros sv. exact (Hok1 sv).
  - inversion H; subst r s1 reg1.
    post_split; [exact Hs1 | eapply res_ok_other; [exact Hr1 | intros; congruence ..] |].
    intros sv. exact (Hok1 sv).
  - inversion H; subst r s1 reg1.
    post_split; [exact Hs1 | eapply res_ok_other; [exact Hr1 | intros; congruence ..] |].
    intros sv. exact (Hok1 sv).
  - inversion H; subst r s1 reg1.
    post_split; [exact Hs1 | eapply res_ok_other; [exact Hr1 | intros; congruence ..] |].
    intros sv. exact (Hok1 sv).
Qed.

(* ---- for ---- *)
Lemma res_ok_expansion infun d stk s : res_ok infun d (handle_expansion_error stk s).
Proof.
  unfold handle_expansion_error.
  destruct (errexit_is_applicable stk s); split; intros; congruence.
Qed.

Lemma step_for n : sim_list n -> sim_for n -> sim_for (S n).
Proof.
  intros Ilist Ifor stk x values body s r s' d infun ex H Hc Hw Hs.
  cbn [exec_for] in H. destruct values as [|v values'].
  - inversion H; subst r s'. post_split; [exact Hs | apply res_ok_cont |].
    intros sv. exists 1. intros [|k] Hk; [lia|]. reflexivity.
  - destruct (is_ronly x s) eqn:Ero.
    + inversion H; subst r s'.
      post_split; [exact Hs | apply res_ok_expansion |]. intros sv.
      rewrite (abs_expansion_error stk sv s ErrAssignment eq_refl eq_refl ex).
      exists 1. intros [|k] Hk; [lia|]. cbn [sem_for]. rewrite Ero. reflexivity.
    + destruct (exec_list n stk body (set_var x (Some v) s)) as [[rb sb]|] eqn:Eb; [|discriminate].
      assert (Hsv : state_ok (set_var x (Some v) s))
        by (eapply state_ok_same; [..|exact Hs]; reflexivity).
      destruct (Ilist _ _ _ _ _ _ _ _ Eb Hc Hw Hsv) as (Hs2 & Hr2 & Hok2).
      destruct rb as [|[[|c]|[|c]|o|o|o|o]].
      * destruct (Ifor _ _ _ _ _ _ _ _ _ _ H Hc Hw Hs2) as (Hs3 & Hr3 & Hok3).
        post_split; [exact Hs3 | exact Hr3 |]. intros sv.
        specialize (Hok2 sv). specialize (Hok3 sv). cbn [abs] in Hok2.
        ok_start. cbn [sem_for]. rewrite Ero. ok_rw. cbn [loop_react]. ok_rw. reflexivity.
      * destruct (Ifor _ _ _ _ _ _ _ _ _ _ H Hc Hw Hs2) as (Hs3 & Hr3 & Hok3).
        post_split; [exact Hs3 | exact Hr3 |]. intros sv.
        specialize (Hok2 sv). specialize (Hok3 sv). cbn [abs] in Hok2.
        ok_start. cbn [sem_for]. rewrite Ero. ok_rw. cbn [loop_react]. ok_rw. reflexivity.
      * inversion H; subst r s'.
        post_split; [exact Hs2 | apply res_ok_dec_continue; exact Hr2 |].
        intros sv. specialize (Hok2 sv). cbn [abs] in Hok2 |- *.
        ok_start. cbn [sem_for]. rewrite Ero. ok_rw. reflexivity.
      * inversion H; subst r s'. post_split; [exact Hs2 | apply res_ok_cont |].
        intros sv. specialize (Hok2 sv). cbn [abs] in Hok2 |- *.
        ok_start. cbn [sem_for]. rewrite Ero. ok_rw. reflexivity.
      * inversion H; subst r s'.
        post_split; [exact Hs2 | apply res_ok_dec_break; exact Hr2 |].
        intros sv. specialize (Hok2 sv). cbn [abs] in Hok2 |- *.
        ok_start. cbn [sem_for]. rewrite Ero. ok_rw. reflexivity.
      * inversion H; subst r s'.
        post_split; [exact Hs2 | eapply res_ok_other; [exact Hr2 | intros; congruence ..] |].
        intros sv. specialize (Hok2 sv). destruct o; cbn [abs] in Hok2 |- *;
        (ok_start; cbn [sem_for]; rewrite Ero; ok_rw; reflexivity).
      * inversion H; subst r s'.
        post_split; [exact Hs2 | eapply res_ok_other; [exact Hr2 | intros; congruence ..] |].
        intros sv. specialize (Hok2 sv). destruct o; cbn [abs] in Hok2 |- *;
        (ok_start; cbn [sem_for]; rewrite Ero; ok_rw; reflexivity).
      * inversion H; subst r s'.
        post_split; [exact Hs2 | eapply res_ok_other; [exact Hr2 | intros; congruence ..] |].
        intros sv. specialize (Hok2 sv). destruct o; cbn [abs] in Hok2 |- *;
        (ok_start; cbn [sem_for]; rewrite Ero; ok_rw; reflexivity).
      * inversion H; subst r s'.
        post_split; [exact Hs2 | eapply res_ok_other; [exact Hr2 | intros; congruence ..] |].
        intros sv. specialize (Hok2 sv). destruct o; cbn [abs] in Hok2 |- *;
        (ok_start; cbn [sem_for]; rewrite Ero; ok_rw; reflexivity).
Qed.

(* ---- case ---- *)
Lemma step_items n : sim_list n -> sim_items n -> sim_items (S n).
Proof.
  intros Ilist Iitems stk subject items ft upd s r s' d infun ex H Hc Hw Hs.
  cbn [exec_items] in H. destruct items as [|pats body kc items'].
  - inversion H; subst r s'.
    post_split; [destruct upd; [exact Hs | eapply state_ok_same; [..|exact Hs]; reflexivity]
                | apply res_ok_cont |].
    intros sv. unfold pick. destruct ft; reflexivity.
  - cbn [wf_items] in Hw. apply andb_true_iff in Hw as [Hwb Hwi].
    destruct (ft || existsb (match_pat subject) pats) eqn:Esel.
    + assert (Hpick : pick ft subject (ICons pats body kc items') = Some (body, kc, items')).
      { unfold pick. destruct ft; [reflexivity|]. cbn [find_clause]. cbn [orb] in Esel.
        rewrite Esel. reflexivity. }
      destruct (exec_list n stk body s) as [[rb sb]|] eqn:Eb; [|discriminate].
      destruct (Ilist _ _ _ _ _ _ _ _ Eb Hc Hwb Hs) as (Hs2 & Hr2 & Hok2).
      destruct rb as [|dv].
      * destruct kc.
        -- inversion H; subst r s'.
           post_split; [destruct (negb (clist_is_empty body));
                          [exact Hs2 | eapply state_ok_same; [..|exact Hs2]; reflexivity]
                       | apply res_ok_cont |].
           intros sv. rewrite Hpick. specialize (Hok2 sv). cbn [abs] in Hok2 |- *.
           ok_start. cbn [sem_clause]. ok_rw. unfold clause_status.
           destruct (clist_is_empty body); reflexivity.
        -- destruct (Iitems _ _ _ _ _ _ _ _ _ _ _ H Hc Hwi Hs2) as (Hs3 & Hr3 & Hok3).
           post_split; [exact Hs3 | exact Hr3 |].
           intros sv. rewrite Hpick. specialize (Hok2 sv). specialize (Hok3 sv).
           cbn [abs] in Hok2. unfold pick in Hok3.
           destruct (next_clause items') as [[[b' k'] rest']|] eqn:En.
           ++ ok_start. cbn [sem_clause]. ok_rw. rewrite En. ok_rw. reflexivity.
           ++ rewrite Hok3. ok_start. cbn [sem_clause]. ok_rw. rewrite En. unfold clause_status.
              destruct (clist_is_empty body); reflexivity.
        -- destruct (Iitems _ _ _ _ _ _ _ _ _ _ _ H Hc Hwi Hs2) as (Hs3 & Hr3 & Hok3).
           post_split; [exact Hs3 | exact Hr3 |].
           intros sv. rewrite Hpick. specialize (Hok2 sv). specialize (Hok3 sv).
           cbn [abs] in Hok2. unfold pick in Hok3.
           destruct (find_clause subject items') as [[[b' k'] rest']|] eqn:En.
           ++ ok_start. cbn [sem_clause]. ok_rw. rewrite En. ok_rw. reflexivity.
           ++ rewrite Hok3. ok_start. cbn [sem_clause]. ok_rw. rewrite En. unfold clause_status.
              destruct (clist_is_empty body); reflexivity.
      * inversion H; subst r s'. post_split; [exact Hs2 | exact Hr2 |].
        intros sv. rewrite Hpick. specialize (Hok2 sv).
        pose proof (abs_not_normal sv dv sb) as Hne.
        destruct (abs sv (Brk dv) sb) as [c s2]. cbn [fst] in Hne.
        ok_start. cbn [sem_clause]. ok_rw. destruct c; congruence.
    + apply orb_false_iff in Esel as [Eft Ematch]. subst ft.
      destruct (Iitems _ _ _ _ _ _ _ _ _ _ _ H Hc Hwi Hs) as (Hs3 & Hr3 & Hok3).
      post_split; [exact Hs3 | exact Hr3 |].
      intros sv. specialize (Hok3 sv). unfold pick in *. cbn [find_clause]. rewrite Ematch.
      exact Hok3.
Qed.

(* ---- simple commands ---- *)
Lemma apply_errexit_zero stk s : status s = 0%N -> apply_errexit stk s = Cont.
Proof. intros E. unfold apply_errexit. rewrite E. reflexivity. Qed.

Lemma wf_call_of_cmd d infun dc nm args :
  wf_cmd d infun (CCall dc nm args) = true -> bad_redir dc = false ->
  wf_call d infun nm args = true.
Proof.
  intros H E. cbn [wf_cmd] in H. rewrite E in H. unfold wf_call.
  destruct nm; try reflexivity; rewrite ?andb_true_r, ?orb_false_r in H; exact H.
Qed.

Lemma post_status infun d stk s st ex (f : option N -> nat -> option sres) :
  ex = has_cond stk -> state_ok s ->
  (forall sv, ok (f sv) (done ex sv (set_status st s))) ->
  post infun d (apply_errexit stk (set_status st s)) (set_status st s) f.
Proof.
  intros He Hs H. apply (post_done infun d stk _ ex); [exact He | | exact H].
  eapply state_ok_same; [..|exact Hs]; reflexivity.
Qed.

Ltac ok_now := let k := fresh "k" in let Hk := fresh "Hk" in
  exists 1; intros [|k] Hk; [lia|].

Lemma step_call n : sim_cmd n -> forall stk dc nm args s r s' d infun ex,
  exec_cmd (S n) stk (CCall dc nm args) s = Some (r, s') -> ctx_ok stk d infun ex ->
  wf_cmd d infun (CCall dc nm args) = true -> state_ok s ->
  post infun d r s' (fun sv k => sem_cmd k d ex sv (CCall dc nm args) s).
Proof.
  intros Icmd stk dc nm args s r s' d infun ex H Hc Hw Hs.
  pose proof (co_ex _ _ _ _ Hc) as Hex.
  cbn [exec_cmd] in H.
  destruct (via_command dc) eqn:Evia.
  - (* through `command` *)
    destruct (bad_redir dc) eqn:Ebad.
    + inversion H; subst r s'. apply (post_status infun d stk s 2 ex _ Hex Hs).
      intros sv. ok_now. cbn [sem_cmd]. rewrite Evia, Ebad. reflexivity.
    + unfold classify_via_command in H.
      destruct (is_special nm) eqn:Esp; [|destruct (is_regular_builtin nm) eqn:Ereg].
      * destruct (run_builtin nm false (FBuiltin :: FBuiltin :: stk) args s) as [[st dv] sb] eqn:Eb.
        destruct (builtin_sim nm false (FBuiltin :: stk) d infun ex None args s st dv sb
                    (ctx_builtin _ _ _ _ Hc) (wf_call_of_cmd _ _ _ _ _ Hw Ebad) Eb)
          as (_ & Hr & A & B & C).
        assert (Hsb : state_ok (set_status st sb))
          by (eapply state_ok_same; [exact A | exact B | exact C | exact Hs]).
        assert (Hr' : r = match dv with Cont => apply_errexit stk (set_status st sb) | _ => dv end
                      /\ s' = set_status st sb).
        { destruct dv; inversion H; subst; split; reflexivity. }
        destruct Hr' as [-> ->].
        post_split; [exact Hsb | exact Hr |]. intros sv.
        destruct (builtin_sim nm false (FBuiltin :: stk) d infun ex sv args s st dv sb
                    (ctx_builtin _ _ _ _ Hc) (wf_call_of_cmd _ _ _ _ _ Hw Ebad) Eb) as (Habs & _).
        cbv zeta in Habs. rewrite apply_errexit_builtin in Habs. rewrite Habs.
        ok_now. cbn [sem_cmd]. rewrite Evia, Ebad, Esp. reflexivity.
      * destruct (run_builtin nm false (FBuiltin :: FBuiltin :: stk) args s) as [[st dv] sb] eqn:Eb.
        destruct (builtin_sim nm false (FBuiltin :: stk) d infun ex None args s st dv sb
                    (ctx_builtin _ _ _ _ Hc) (wf_call_of_cmd _ _ _ _ _ Hw Ebad) Eb)
          as (_ & Hr & A & B & C).
        assert (Hsb : state_ok (set_status st sb))
          by (eapply state_ok_same; [exact A | exact B | exact C | exact Hs]).
        assert (Hr' : r = match dv with Cont => apply_errexit stk (set_status st sb) | _ => dv end
                      /\ s' = set_status st sb).
        { destruct dv; inversion H; subst; split; reflexivity. }
        destruct Hr' as [-> ->].
        post_split; [exact Hsb | exact Hr |]. intros sv.
        destruct (builtin_sim nm false (FBuiltin :: stk) d infun ex sv args s st dv sb
                    (ctx_builtin _ _ _ _ Hc) (wf_call_of_cmd _ _ _ _ _ Hw Ebad) Eb) as (Habs & _).
        cbv zeta in Habs. rewrite apply_errexit_builtin in Habs. rewrite Habs.
        ok_now. cbn [sem_cmd]. rewrite Evia, Ebad, Esp, Ereg. reflexivity.
      * inversion H; subst r s'. apply (post_status infun d stk s 127 ex _ Hex Hs).
        intros sv. ok_now. cbn [sem_cmd]. rewrite Evia, Ebad, Esp, Ereg. reflexivity.
  - (* ordinary command search *)
    unfold classify in H.
    destruct (is_special nm) eqn:Esp.
    + (* special built-in *)
      unfold execute_builtin in H. destruct (bad_redir dc) eqn:Ebad.
      * inversion H; subst r s'.
        post_split; [eapply state_ok_same; [..|exact Hs]; reflexivity
                    | split; intros; congruence |].
        intros sv. ok_now. cbn [sem_cmd]. rewrite Evia. unfold resolve. rewrite Esp, Ebad. reflexivity.
      * destruct (run_builtin nm true (FBuiltin :: stk) args s) as [[st dv] sb] eqn:Eb.
        destruct (builtin_sim nm true stk d infun ex None args s st dv sb
                    Hc (wf_call_of_cmd _ _ _ _ _ Hw Ebad) Eb) as (_ & Hr & A & B & C).
        assert (Hsb : state_ok (set_status st sb))
          by (eapply state_ok_same; [exact A | exact B | exact C | exact Hs]).
        assert (Hr' : r = match dv with Cont => apply_errexit stk (set_status st sb) | _ => dv end
                      /\ s' = set_status st sb).
        { destruct dv; inversion H; subst; split; reflexivity. }
        destruct Hr' as [-> ->].
        post_split; [exact Hsb | exact Hr |]. intros sv.
        destruct (builtin_sim nm true stk d infun ex sv args s st dv sb
                    Hc (wf_call_of_cmd _ _ _ _ _ Hw Ebad) Eb) as (Habs & _).
        cbv zeta in Habs. rewrite Habs.
        ok_now. cbn [sem_cmd]. rewrite Evia. unfold resolve. rewrite Esp, Ebad. reflexivity.
    + destruct (lookup_fun nm (funs s)) as [body|] eqn:Efun.
      * (* function *)
        destruct (bad_redir dc) eqn:Ebad.
        -- inversion H; subst r s'. apply (post_status infun d stk s 2 ex _ Hex Hs).
           intros sv. ok_now. cbn [sem_cmd]. rewrite Evia. unfold resolve. rewrite Esp, Efun, Ebad.
           reflexivity.
        -- destruct (exec_cmd n stk body s) as [[rb sb]|] eqn:Eb; [|discriminate].
           destruct (Icmd _ _ _ _ _ _ _ _ Eb (ctx_fun _ _ _ _ Hc) (so_funs _ Hs _ _ Efun) Hs)
             as (Hs1 & Hr1 & Hok1).
           assert (Hspec : forall sv res,
                     (match abs sv rb sb with
                      | (Normal, s1) | (Returning, s1) => done ex sv s1
                      | other => other end) = res ->
                     ok (fun k => sem_cmd k d ex sv (CCall dc nm args) s) res).
           { intros sv res <-. specialize (Hok1 sv). destruct (abs sv rb sb) as [c s1].
             ok_start. cbn [sem_cmd]. rewrite Evia. unfold resolve. rewrite Esp, Efun, Ebad.
             ok_rw. destruct c; reflexivity. }
           destruct rb as [|[c|c|[v|]|o|o|o]].
           ++ inversion H; subst r s'. apply (post_done infun d stk sb ex _ Hex Hs1).
              intros sv. apply Hspec. reflexivity.
           ++ inversion H; subst r s'. post_split; [exact Hs1 | |].
              ** apply res_ok_weaken; [exact Hr1 | intros; congruence].
              ** intros sv. apply Hspec. reflexivity.
           ++ inversion H; subst r s'. post_split; [exact Hs1 | |].
              ** apply res_ok_weaken; [exact Hr1 | intros; congruence].
              ** intros sv. apply Hspec. reflexivity.
           ++ inversion H; subst r s'. apply (post_status infun d stk sb v ex _ Hex Hs1).
              intros sv. apply Hspec. reflexivity.
           ++ inversion H; subst r s'. apply (post_done infun d stk sb ex _ Hex Hs1).
              intros sv. apply Hspec. reflexivity.
           ++ inversion H; subst r s'. post_split; [exact Hs1 | |].
              ** apply res_ok_weaken; [exact Hr1 | intros; congruence].
              ** intros sv. apply Hspec. destruct o; reflexivity.
           ++ inversion H; subst r s'. post_split; [exact Hs1 | |].
              ** apply res_ok_weaken; [exact Hr1 | intros; congruence].
              ** intros sv. apply Hspec. destruct o; reflexivity.
           ++ inversion H; subst r s'. post_split; [exact Hs1 | |].
              ** apply res_ok_weaken; [exact Hr1 | intros; congruence].
              ** intros sv. apply Hspec. destruct o; reflexivity.
      * destruct (is_regular_builtin nm) eqn:Ereg.
        -- (* regular built-in *)
           unfold execute_builtin in H. destruct (bad_redir dc) eqn:Ebad.
           ++ inversion H; subst r s'. apply (post_status infun d stk s 2 ex _ Hex Hs).
              intros sv. ok_now. cbn [sem_cmd]. rewrite Evia. unfold resolve.
              rewrite Esp, Efun, Ereg, Ebad. reflexivity.
           ++ destruct (run_builtin nm false (FBuiltin :: stk) args s) as [[st dv] sb] eqn:Eb.
              destruct (builtin_sim nm false stk d infun ex None args s st dv sb
                          Hc (wf_call_of_cmd _ _ _ _ _ Hw Ebad) Eb) as (_ & Hr & A & B & C).
              assert (Hsb : state_ok (set_status st sb))
                by (eapply state_ok_same; [exact A | exact B | exact C | exact Hs]).
              assert (Hr' : r = match dv with Cont => apply_errexit stk (set_status st sb) | _ => dv end
                            /\ s' = set_status st sb).
              { destruct dv; inversion H; subst; split; reflexivity. }
              destruct Hr' as [-> ->].
              post_split; [exact Hsb | exact Hr |]. intros sv.
              destruct (builtin_sim nm false stk d infun ex sv args s st dv sb
                          Hc (wf_call_of_cmd _ _ _ _ _ Hw Ebad) Eb) as (Habs & _).
              cbv zeta in Habs. rewrite Habs.
              ok_now. cbn [sem_cmd]. rewrite Evia. unfold resolve. rewrite Esp, Efun, Ereg, Ebad.
              reflexivity.
        -- (* not found *)
           inversion H; subst r s'.
           apply (post_status infun d stk s (if bad_redir dc then 2%N else 127%N) ex _ Hex Hs).
           intros sv. ok_now. cbn [sem_cmd]. rewrite Evia. unfold resolve. rewrite Esp, Efun, Ereg.
           destruct (bad_redir dc); reflexivity.
Qed.

Lemma wf_prefix_call d infun x w nm args :
  wf_cmd d infun (CPrefixCall x w nm args) = wf_cmd d infun (CCall plain nm args).
Proof. cbn. destruct nm; try reflexivity; rewrite ?andb_true_r, ?orb_false_r; reflexivity. Qed.

Lemma abs_restore sv r x old s :
  abs sv r (restore_var x old s) = (fst (abs sv r s), restore_var x old (snd (abs sv r s))).
Proof. destruct r as [|[c|c|[v|]|[v|]|[v|]|[v|]]]; try reflexivity. destruct sv; reflexivity. Qed.

(* ---- commands ---- *)
Lemma step_cmd n : sim_all n -> sim_cmd (S n).
Proof.
  intros [Icmd Ilist Iandor Irest Ipipe Icmds Imulti Isub Itrap Ielifs Iiter Iexec Ifor Iitems].
  intros stk c s r s' d infun ex H Hc Hw Hs.
  pose proof (co_ex _ _ _ _ Hc) as Hex.
  destruct c.
  - (* assignment *)
    cbn [exec_cmd] in H. cbn [wf_cmd] in Hw.
    destruct (expand_word w s) as [fields|] eqn:Ew.
    + destruct (is_ronly x s) eqn:Ero.
      * inversion H; subst r s'.
        post_split; [exact Hs | apply res_ok_expansion |]. intros sv.
        rewrite (abs_expansion_error stk sv s ErrAssignment eq_refl eq_refl ex).
        ok_now. cbn [sem_cmd]. rewrite Ew, Ero. reflexivity.
      * inversion H; subst r s'. rewrite apply_errexit_zero by reflexivity.
        post_split; [eapply state_ok_same; [..|exact Hs]; reflexivity
                    | apply res_ok_cont |].
        intros sv. ok_now. cbn [sem_cmd]. rewrite Ew, Ero. reflexivity.
    + inversion H; subst r s'.
      post_split; [exact Hs | apply res_ok_expansion |]. intros sv.
      rewrite (abs_expansion_error stk sv s ErrExpansion eq_refl eq_refl ex).
      ok_now. cbn [sem_cmd]. rewrite Ew. reflexivity.
  - (* readonly *)
    cbn [exec_cmd] in H. cbn [wf_cmd] in Hw. inversion H; subst r s'.
    rewrite apply_errexit_zero by reflexivity.
    post_split; [| apply res_ok_cont |].
    + destruct Hs as [F T]. split; cbn; auto.
    + intros sv. ok_now. reflexivity.
  - (* x=$(body) *)
    cbn [exec_cmd] in H. cbn [wf_cmd] in Hw. apply andb_true_iff in Hw as [_ Hwb].
    destruct (run_subshell n stk body s) as [child|] eqn:Esub; [|discriminate].
    pose proof (Isub _ _ _ _ infun ex Esub Hex Hwb Hs) as Hok.
    destruct (is_ronly x s) eqn:Ero.
    + inversion H; subst r s'.
      post_split; [eapply state_ok_same; [..|exact Hs]; reflexivity | apply res_ok_expansion |].
      intros sv. rewrite (abs_expansion_error stk sv _ ErrAssignment eq_refl eq_refl ex).
      ok_start. cbn [sem_cmd]. ok_rw. rewrite Ero. reflexivity.
    + inversion H; subst r s'. apply (post_done infun d stk _ ex _ Hex).
      * eapply state_ok_same; [..|exact Hs]; reflexivity.
      * intros sv. ok_start. cbn [sem_cmd]. ok_rw. rewrite Ero. reflexivity.
  - (* : $(body) *)
    cbn [exec_cmd] in H. cbn [wf_cmd] in Hw. apply andb_true_iff in Hw as [_ Hwb].
    destruct (run_subshell n stk body s) as [child|] eqn:Esub; [|discriminate].
    pose proof (Isub _ _ _ _ infun ex Esub Hex Hwb Hs) as Hok.
    inversion H; subst r s'. rewrite apply_errexit_zero by reflexivity.
    post_split; [eapply state_ok_same; [..|exact Hs]; reflexivity | apply res_ok_cont |].
    intros sv. ok_start. cbn [sem_cmd]. ok_rw. reflexivity.
  - (* { a & } *)
    cbn [exec_cmd] in H. cbn [wf_cmd] in Hw.
    assert (Hwb : wf_list 0 infun (LCons a LNil) = true) by (cbn [wf_list]; rewrite Hw; reflexivity).
    destruct (run_subshell n stk (LCons a LNil) s) as [child|] eqn:Esub; [|discriminate].
    pose proof (Isub _ _ _ _ infun ex Esub Hex Hwb Hs) as Hok.
    inversion H; subst r s'.
    post_split; [eapply state_ok_same; [..|exact Hs]; reflexivity | apply res_ok_cont |].
    intros sv. ok_start. cbn [sem_cmd]. ok_rw. reflexivity.
  - (* x=w NAME ARGS *)
    cbn [exec_cmd] in H. rewrite wf_prefix_call in Hw.
    destruct (expand_word w s) as [fields|] eqn:Ew.
    + destruct (is_ronly x s) eqn:Ero.
      * inversion H; subst r s'. post_split; [exact Hs | apply res_ok_expansion |]. intros sv.
        rewrite (abs_expansion_error stk sv s ErrAssignment eq_refl eq_refl ex).
        ok_now. cbn [sem_cmd]. rewrite Ew, Ero. reflexivity.
      * destruct (exec_cmd n stk (CCall plain nm args) (set_var x (hd_error fields) s))
          as [[r1 s1]|] eqn:Ecall; [|discriminate].
        inversion H; subst r s'.
        assert (Hs0 : state_ok (set_var x (hd_error fields) s))
          by (eapply state_ok_same; [..|exact Hs]; reflexivity).
        destruct (Icmd _ _ _ _ _ _ _ _ Ecall Hc Hw Hs0) as (Hs1 & Hr1 & Hok1).
        post_split; [destruct (is_special nm); [exact Hs1 | eapply state_ok_same; [..|exact Hs1]; reflexivity]
                    | exact Hr1 |].
        intros sv. specialize (Hok1 sv).
        destruct (abs sv r1 s1) as [c1 t1] eqn:Eabs.
        assert (Hgoal : abs sv r1 (if is_special nm then s1 else restore_var x s s1)
                        = (c1, if is_special nm then t1 else restore_var x s t1)).
        { destruct (is_special nm); [exact Eabs|]. rewrite abs_restore, Eabs. reflexivity. }
        rewrite Hgoal. ok_start. cbn [sem_cmd]. rewrite Ew, Ero. ok_rw. reflexivity.
    + inversion H; subst r s'. post_split; [exact Hs | apply res_ok_expansion |]. intros sv.
      rewrite (abs_expansion_error stk sv s ErrExpansion eq_refl eq_refl ex).
      ok_now. cbn [sem_cmd]. rewrite Ew. reflexivity.
  - (* call *) exact (step_call n Icmd _ _ _ _ _ _ _ _ _ _ H Hc Hw Hs).
  - (* brace group *)
    cbn [exec_cmd] in H. cbn [wf_cmd] in Hw.
    destruct (Ilist _ _ _ _ _ _ _ _ H Hc Hw Hs) as (Hs2 & Hr2 & Hok2).
    post_split; [exact Hs2 | exact Hr2 |]. intros sv. specialize (Hok2 sv).
    ok_start. cbn [sem_cmd]. ok_rw. reflexivity.
  - (* subshell *)
    cbn [exec_cmd] in H. cbn [wf_cmd] in Hw.
    destruct (run_subshell n stk body s) as [child|] eqn:Esub; [|discriminate].
    inversion H; subst r s'.
    pose proof (Isub _ _ _ _ infun ex Esub Hex Hw Hs) as Hok.
    apply (post_done infun d stk _ ex _ Hex).
    + eapply state_ok_same; [..|exact Hs]; reflexivity.
    + intros sv. ok_start. cbn [sem_cmd]. ok_rw. reflexivity.
  - (* if *)
    cbn [exec_cmd] in H. cbn [wf_cmd] in Hw.
    apply andb_true_iff in Hw as [Hw Hwl]. apply andb_true_iff in Hw as [Hw Hwe].
    apply andb_true_iff in Hw as [Hwc Hwb].
    destruct (exec_list n (FCondition :: stk) cond s) as [[rc sc]|] eqn:Ec; [|discriminate].
    destruct (Ilist _ _ _ _ _ _ _ _ Ec (ctx_cond _ _ _ _ Hc) Hwc Hs) as (Hs1 & Hr1 & Hok1).
    destruct rc as [|dv].
    + destruct (N.eqb (status sc) 0) eqn:Est.
      * destruct (Ilist _ _ _ _ _ _ _ _ H Hc Hwb Hs1) as (Hs2 & Hr2 & Hok2).
        post_split; [exact Hs2 | exact Hr2 |]. intros sv.
        specialize (Hok1 sv). specialize (Hok2 sv). cbn [abs] in Hok1.
        ok_start. cbn [sem_cmd]. ok_rw. unfold fails. rewrite Est. cbn [negb]. ok_rw. reflexivity.
      * destruct (Ielifs _ _ _ _ _ _ _ _ _ _ H Hc Hwe Hwl Hs1) as (Hs2 & Hr2 & Hok2).
        post_split; [exact Hs2 | exact Hr2 |]. intros sv.
        specialize (Hok1 sv). specialize (Hok2 sv). cbn [abs] in Hok1.
        ok_start. cbn [sem_cmd]. ok_rw. unfold fails. rewrite Est. cbn [negb].
        fold (sem_else k d ex sv elifs has_else els sc). ok_rw. reflexivity.
    + inversion H; subst r s'. post_split; [exact Hs1 | exact Hr1 |]. intros sv.
      specialize (Hok1 sv). pose proof (abs_not_normal sv dv sc) as Hne.
      destruct (abs sv (Brk dv) sc) as [c s2]. cbn [fst] in Hne.
      ok_start. cbn [sem_cmd]. ok_rw. destruct c; congruence.
  - (* while / until *)
    cbn [exec_cmd] in H. cbn [wf_cmd] in Hw. apply andb_true_iff in Hw as [Hwc Hwb].
    destruct (loop_execute n (FLoop :: stk) cond (negb is_until) body s 0)
      as [[[rl sl] regl]|] eqn:El; [|discriminate].
    destruct (Iexec _ _ _ _ _ _ _ _ _ _ _ _ El (ctx_loop _ _ _ _ Hc) Hwc Hwb Hs) as (Hs1 & Hr1 & Hok1).
    destruct rl as [|dv]; inversion H; subst r s'.
    + post_split; [eapply state_ok_same; [..|exact Hs1]; reflexivity | apply res_ok_cont |].
      intros sv. specialize (Hok1 sv). unfold ok_loop in Hok1.
      ok_start. cbn [sem_cmd]. ok_rw. reflexivity.
    + post_split; [exact Hs1 | exact Hr1 |].
      intros sv. specialize (Hok1 sv). unfold ok_loop in Hok1.
      ok_start. cbn [sem_cmd]. ok_rw. reflexivity.
  - (* for *)
    cbn [exec_cmd] in H. cbn [wf_cmd] in Hw.
    apply andb_true_iff in Hw as [Hne Hwb].
    destruct (expand_words ws s) as [values|] eqn:Ew.
    + destruct values as [|v values'].
      * rewrite Hne in H. inversion H; subst r s'.
        post_split; [eapply state_ok_same; [..|exact Hs]; reflexivity | apply res_ok_cont |].
        intros sv. ok_now. cbn [sem_cmd]. rewrite Ew. reflexivity.
      * destruct (Ifor _ _ _ _ _ _ _ _ _ _ H (ctx_loop _ _ _ _ Hc) Hwb Hs) as (Hs2 & Hr2 & Hok2).
        post_split; [exact Hs2 | exact Hr2 |]. intros sv. specialize (Hok2 sv).
        ok_start. cbn [sem_cmd]. rewrite Ew. ok_rw. reflexivity.
    + inversion H; subst r s'.
      post_split; [exact Hs | apply res_ok_expansion |]. intros sv.
      rewrite (abs_expansion_error stk sv s ErrExpansion eq_refl eq_refl ex).
      ok_now. cbn [sem_cmd]. rewrite Ew. reflexivity.
  - (* case *)
    cbn [exec_cmd] in H. cbn [wf_cmd] in Hw. pose proof Hw as Hwi.
    destruct (expand_word w s) as [fields|] eqn:Ew.
    + destruct (Iitems _ _ _ _ _ _ _ _ _ _ _ H Hc Hwi Hs) as (Hs2 & Hr2 & Hok2).
      post_split; [exact Hs2 | exact Hr2 |]. intros sv. specialize (Hok2 sv).
      unfold pick in Hok2.
      destruct (find_clause (hd_error fields) items) as [[[b kc] rest]|] eqn:Ef.
      * ok_start. cbn [sem_cmd]. rewrite Ew, Ef. ok_rw. reflexivity.
      * rewrite Hok2. ok_now. cbn [sem_cmd]. rewrite Ew, Ef. reflexivity.
    + inversion H; subst r s'.
      post_split; [exact Hs | apply res_ok_expansion |]. intros sv.
      rewrite (abs_expansion_error stk sv s ErrExpansion eq_refl eq_refl ex).
      ok_now. cbn [sem_cmd]. rewrite Ew. reflexivity.
  - (* function definition *)
    cbn [exec_cmd] in H. cbn [wf_cmd] in Hw. inversion H; subst r s'.
    rewrite apply_errexit_zero by reflexivity.
    post_split; [| apply res_ok_cont |].
    + destruct Hs as [F T]. split; cbn; auto.
      intros nm' b. destruct (name_eqb nm' nm); [intros E; inversion E; subst; exact Hw | apply F].
    + intros sv. ok_now. reflexivity.
  - (* trap ... EXIT *)
    cbn [exec_cmd] in H. cbn [wf_cmd] in Hw. pose proof Hw as Hwa.
    inversion H; subst r s'. rewrite apply_errexit_zero by reflexivity.
    post_split; [| apply res_ok_cont |].
    + destruct Hs as [F T]. split; cbn; auto.
      intros a E; inversion E; subst; assumption.
    + intros sv. ok_now. reflexivity.
  - (* compound command with a failing redirection *)
    cbn [exec_cmd] in H. inversion H; subst r s'.
    apply (post_status infun d stk s 2 ex _ Hex Hs).
    intros sv. ok_now. reflexivity.
Qed.

Theorem sim_holds : forall n, sim_all n.
Proof.
  induction n as [|n IH].
  - split; repeat intro; discriminate.
  - pose proof IH as [Icmd Ilist Iandor Irest Ipipe Icmds Imulti Isub Itrap Ielifs Iiter Iexec Ifor Iitems].
    split.
    + apply step_cmd; exact IH.
    + apply step_list; assumption.
    + apply step_andor; assumption.
    + apply step_rest; assumption.
    + apply step_pipeline; assumption.
    + apply step_commands; assumption.
    + apply step_multi; assumption.
    + apply step_subshell; assumption.
    + apply step_trap; assumption.
    + apply step_elifs; assumption.
    + apply step_iter; assumption.
    + apply step_exec; assumption.
    + apply step_for; assumption.
    + apply step_items; assumption.
Qed.
End Claims.
