(* C02 — fuel monotonicity of the specification interpreter [sem_*]: more
   fuel never changes a result. *)
From Yv Require Import Common.Base C02.Model C02.Spec.

(* [le_opt a b]: if [a] is defined then [b] is the same *)
Definition le_opt {A} (a b : option A) : Prop :=
  match a with None => True | Some x => b = Some x end.

Lemma le_opt_refl {A} (a : option A) : le_opt a a.
Proof. destruct a; cbn; auto. Qed.

Lemma le_opt_elim {A} (a b : option A) x : le_opt a b -> a = Some x -> b = Some x.
Proof. intros H E; rewrite E in H; exact H. Qed.

Lemma le_opt_trans {A} (a b c : option A) : le_opt a b -> le_opt b c -> le_opt a c.
Proof. destruct a; cbn; auto. intros ->. cbn. auto. Qed.

Ltac le_triv :=
  match goal with
  | |- le_opt None _ => exact I
  | |- le_opt ?a ?a => apply le_opt_refl
  end.

(* the scrutinee is a call whose monotonicity is [J] *)
Ltac le_call J :=
  match goal with
  | |- le_opt (match (match ?e with _ => _ end) with _ => _ end) _ =>
      let H := fresh "H" in
      eassert (H : le_opt e _) by (apply J);
      revert H; destruct e; intro H; [cbn [le_opt] in H; rewrite H | exact I]
  | |- le_opt (match ?e with _ => _ end) _ =>
      let H := fresh "H" in
      eassert (H : le_opt e _) by (apply J);
      revert H; destruct e; intro H; [cbn [le_opt] in H; rewrite H | exact I]
  end.

(* the scrutinee is something both sides branch on *)
Ltac le_other :=
  match goal with
  | |- le_opt (match ?e with _ => _ end) _ => destruct e
  | |- le_opt (if ?e then _ else _) _ => destruct e
  | |- le_opt (let '(_, _) := ?e in _) _ => destruct e
  end.

Ltac le_auto J1 J2 J3 J4 J5 J6 J7 J8 J9 J10 :=
  repeat first
    [ le_triv
    | le_call J1
    | le_call J2
    | le_call J3
    | le_call J4
    | le_call J5
    | le_call J6
    | le_call J7
    | le_call J8
    | le_call J9
    | le_call J10
    | le_other ];
  try (first [ apply J1 | apply J2 | apply J3 | apply J4 | apply J5 | apply J6 | apply J7 | apply J8 | apply J9 | apply J10 ]).

Lemma sem_tree_le (P P' : bool -> pipeline -> state -> option (completion * state)) :
  (forall ex p s, le_opt (P ex p s) (P' ex p s)) ->
  forall ex t il s, le_opt (sem_tree P ex t il s) (sem_tree P' ex t il s).
Proof.
  intros HP ex t; induction t as [p | t IH is_and p]; intros il s; cbn [sem_tree].
  - apply HP.
  - specialize (IH false s).
    destruct (sem_tree P ex t false s) as [[c s1]|]; [cbn [le_opt] in IH; rewrite IH | exact I].
    destruct c; try apply le_opt_refl.
    destruct (Bool.eqb _ _); [apply le_opt_refl | apply HP].
Qed.

(* one step, for two arbitrary fuels [n], [m] *)
Lemma sem_mono_gen (n m : nat) :
  (forall d ex sv c s, le_opt (sem_cmd n d ex sv c s) (sem_cmd m d ex sv c s)) ->
  (forall ex b s, le_opt (sem_subshell n ex b s) (sem_subshell m ex b s)) ->
  (forall ex s, le_opt (sem_exit_trap n ex s) (sem_exit_trap m ex s)) ->
  (forall d ex sv u c b l s, le_opt (sem_loop n d ex sv u c b l s) (sem_loop m d ex sv u c b l s)) ->
  (forall d ex sv x vs b s, le_opt (sem_for n d ex sv x vs b s) (sem_for m d ex sv x vs b s)) ->
  (forall d ex sv sj b k rest s, le_opt (sem_clause n d ex sv sj b k rest s) (sem_clause m d ex sv sj b k rest s)) ->
  (forall d ex sv l s, le_opt (sem_list n d ex sv l s) (sem_list m d ex sv l s)) ->
  (forall d ex sv a s, le_opt (sem_andor n d ex sv a s) (sem_andor m d ex sv a s)) ->
  (forall d ex sv p s, le_opt (sem_pipeline n d ex sv p s) (sem_pipeline m d ex sv p s)) ->
  (forall ex cs s0 acc, le_opt (sem_multi n ex cs s0 acc) (sem_multi m ex cs s0 acc)) ->
  (forall d ex sv c s, le_opt (sem_cmd (S n) d ex sv c s) (sem_cmd (S m) d ex sv c s))
  /\ (forall ex b s, le_opt (sem_subshell (S n) ex b s) (sem_subshell (S m) ex b s))
  /\ (forall ex s, le_opt (sem_exit_trap (S n) ex s) (sem_exit_trap (S m) ex s))
  /\ (forall d ex sv u c b l s, le_opt (sem_loop (S n) d ex sv u c b l s) (sem_loop (S m) d ex sv u c b l s))
  /\ (forall d ex sv x vs b s, le_opt (sem_for (S n) d ex sv x vs b s) (sem_for (S m) d ex sv x vs b s))
  /\ (forall d ex sv sj b k rest s, le_opt (sem_clause (S n) d ex sv sj b k rest s) (sem_clause (S m) d ex sv sj b k rest s))
  /\ (forall d ex sv l s, le_opt (sem_list (S n) d ex sv l s) (sem_list (S m) d ex sv l s))
  /\ (forall d ex sv a s, le_opt (sem_andor (S n) d ex sv a s) (sem_andor (S m) d ex sv a s))
  /\ (forall d ex sv p s, le_opt (sem_pipeline (S n) d ex sv p s) (sem_pipeline (S m) d ex sv p s))
  /\ (forall ex cs s0 acc, le_opt (sem_multi (S n) ex cs s0 acc) (sem_multi (S m) ex cs s0 acc)).
Proof.
  intros Jcmd Jsub Jtrap Jloop Jfor Jclause Jlist Jandor Jpipe Jmulti.
  repeat split.
  - intros d ex sv c s. cbn [sem_cmd]. destruct c; le_auto Jcmd Jsub Jtrap Jloop Jfor Jclause Jlist Jandor Jpipe Jmulti.
  - intros ex b s. cbn [sem_subshell]. le_auto Jcmd Jsub Jtrap Jloop Jfor Jclause Jlist Jandor Jpipe Jmulti.
  - intros ex s. cbn [sem_exit_trap]. le_auto Jcmd Jsub Jtrap Jloop Jfor Jclause Jlist Jandor Jpipe Jmulti.
  - intros d ex sv u c b l s. cbn [sem_loop]. le_auto Jcmd Jsub Jtrap Jloop Jfor Jclause Jlist Jandor Jpipe Jmulti.
  - intros d ex sv x vs b s. cbn [sem_for]. le_auto Jcmd Jsub Jtrap Jloop Jfor Jclause Jlist Jandor Jpipe Jmulti.
  - intros d ex sv sj b k rest s. cbn [sem_clause]. le_auto Jcmd Jsub Jtrap Jloop Jfor Jclause Jlist Jandor Jpipe Jmulti.
  - intros d ex sv l s. cbn [sem_list]. le_auto Jcmd Jsub Jtrap Jloop Jfor Jclause Jlist Jandor Jpipe Jmulti.
  - intros d ex sv a s. cbn [sem_andor]. apply sem_tree_le. intros; apply Jpipe.
  - intros d ex sv p s. cbn [sem_pipeline]. destruct p as [neg cs]; destruct cs as [|c [|c2 cs2]]; cbv iota;
    le_auto Jcmd Jsub Jtrap Jloop Jfor Jclause Jlist Jandor Jpipe Jmulti.
  - intros ex cs s0 acc. cbn [sem_multi]. le_auto Jcmd Jsub Jtrap Jloop Jfor Jclause Jlist Jandor Jpipe Jmulti.
Qed.

Lemma sem_mono_step : forall n,
  (forall d ex sv c s, le_opt (sem_cmd n d ex sv c s) (sem_cmd (S n) d ex sv c s))
  /\ (forall ex b s, le_opt (sem_subshell n ex b s) (sem_subshell (S n) ex b s))
  /\ (forall ex s, le_opt (sem_exit_trap n ex s) (sem_exit_trap (S n) ex s))
  /\ (forall d ex sv u c b l s, le_opt (sem_loop n d ex sv u c b l s) (sem_loop (S n) d ex sv u c b l s))
  /\ (forall d ex sv x vs b s, le_opt (sem_for n d ex sv x vs b s) (sem_for (S n) d ex sv x vs b s))
  /\ (forall d ex sv sj b k rest s, le_opt (sem_clause n d ex sv sj b k rest s) (sem_clause (S n) d ex sv sj b k rest s))
  /\ (forall d ex sv l s, le_opt (sem_list n d ex sv l s) (sem_list (S n) d ex sv l s))
  /\ (forall d ex sv a s, le_opt (sem_andor n d ex sv a s) (sem_andor (S n) d ex sv a s))
  /\ (forall d ex sv p s, le_opt (sem_pipeline n d ex sv p s) (sem_pipeline (S n) d ex sv p s))
  /\ (forall ex cs s0 acc, le_opt (sem_multi n ex cs s0 acc) (sem_multi (S n) ex cs s0 acc)).
Proof.
  induction n as [|n IH].
  - repeat split; intros; exact I.
  - destruct IH as (Icmd & Isub & Itrap & Iloop & Ifor & Iclause & Ilist & Iandor & Ipipe & Imulti).
    apply sem_mono_gen; assumption.
Qed.

Lemma sem_cmd_mono n m d ex sv c s r : n <= m -> sem_cmd n d ex sv c s = Some r -> sem_cmd m d ex sv c s = Some r.
Proof.
  intros Hle; induction Hle as [|m Hle IH]; auto.
  intros H; specialize (IH H).
  pose proof (sem_mono_step m) as M.
  eapply le_opt_elim; [|exact IH]. apply M.
Qed.

Lemma sem_subshell_mono n m ex b s r : n <= m -> sem_subshell n ex b s = Some r -> sem_subshell m ex b s = Some r.
Proof.
  intros Hle; induction Hle as [|m Hle IH]; auto.
  intros H; specialize (IH H).
  pose proof (sem_mono_step m) as M.
  eapply le_opt_elim; [|exact IH]. apply M.
Qed.

Lemma sem_exit_trap_mono n m ex s r : n <= m -> sem_exit_trap n ex s = Some r -> sem_exit_trap m ex s = Some r.
Proof.
  intros Hle; induction Hle as [|m Hle IH]; auto.
  intros H; specialize (IH H).
  pose proof (sem_mono_step m) as M.
  eapply le_opt_elim; [|exact IH]. apply M.
Qed.

Lemma sem_loop_mono n m d ex sv u c b l s r : n <= m -> sem_loop n d ex sv u c b l s = Some r -> sem_loop m d ex sv u c b l s = Some r.
Proof.
  intros Hle; induction Hle as [|m Hle IH]; auto.
  intros H; specialize (IH H).
  pose proof (sem_mono_step m) as M.
  eapply le_opt_elim; [|exact IH]. apply M.
Qed.

Lemma sem_for_mono n m d ex sv x vs b s r : n <= m -> sem_for n d ex sv x vs b s = Some r -> sem_for m d ex sv x vs b s = Some r.
Proof.
  intros Hle; induction Hle as [|m Hle IH]; auto.
  intros H; specialize (IH H).
  pose proof (sem_mono_step m) as M.
  eapply le_opt_elim; [|exact IH]. apply M.
Qed.

Lemma sem_clause_mono n m d ex sv sj b k rest s r : n <= m -> sem_clause n d ex sv sj b k rest s = Some r -> sem_clause m d ex sv sj b k rest s = Some r.
Proof.
  intros Hle; induction Hle as [|m Hle IH]; auto.
  intros H; specialize (IH H).
  pose proof (sem_mono_step m) as M.
  eapply le_opt_elim; [|exact IH]. apply M.
Qed.

Lemma sem_list_mono n m d ex sv l s r : n <= m -> sem_list n d ex sv l s = Some r -> sem_list m d ex sv l s = Some r.
Proof.
  intros Hle; induction Hle as [|m Hle IH]; auto.
  intros H; specialize (IH H).
  pose proof (sem_mono_step m) as M.
  eapply le_opt_elim; [|exact IH]. apply M.
Qed.

Lemma sem_andor_mono n m d ex sv a s r : n <= m -> sem_andor n d ex sv a s = Some r -> sem_andor m d ex sv a s = Some r.
Proof.
  intros Hle; induction Hle as [|m Hle IH]; auto.
  intros H; specialize (IH H).
  pose proof (sem_mono_step m) as M.
  eapply le_opt_elim; [|exact IH]. apply M.
Qed.

Lemma sem_pipeline_mono n m d ex sv p s r : n <= m -> sem_pipeline n d ex sv p s = Some r -> sem_pipeline m d ex sv p s = Some r.
Proof.
  intros Hle; induction Hle as [|m Hle IH]; auto.
  intros H; specialize (IH H).
  pose proof (sem_mono_step m) as M.
  eapply le_opt_elim; [|exact IH]. apply M.
Qed.

Lemma sem_multi_mono n m ex cs s0 acc r : n <= m -> sem_multi n ex cs s0 acc = Some r -> sem_multi m ex cs s0 acc = Some r.
Proof.
  intros Hle; induction Hle as [|m Hle IH]; auto.
  intros H; specialize (IH H).
  pose proof (sem_mono_step m) as M.
  eapply le_opt_elim; [|exact IH]. apply M.
Qed.

(* ------------------------------------------------------------------ *)
(* exec (the model)                                                    *)
(* ------------------------------------------------------------------ *)
Ltac innermost e :=
  lazymatch e with
  | match ?e' with _ => _ end => innermost e'
  | _ => e
  end.

Ltac xle_step tacJ :=
  match goal with
  | |- le_opt None _ => exact I
  | |- le_opt ?a ?a => apply le_opt_refl
  | |- le_opt (match ?e with _ => _ end) _ =>
      let i := innermost e in
      first
        [ let H := fresh "H" in
          eassert (H : le_opt i _) by tacJ;
          revert H; destruct i; intro H; [cbn [le_opt] in H; rewrite H | exact I]
        | destruct i ]
  end.
Ltac xle_auto_with tacJ := repeat (xle_step tacJ); try tacJ.

Lemma exec_mono_gen (n m : nat) :
  (forall stk c s, le_opt (exec_cmd n stk c s) (exec_cmd m stk c s)) ->
  (forall stk b s, le_opt (run_subshell n stk b s) (run_subshell m stk b s)) ->
  (forall stk s, le_opt (run_exit_trap n stk s) (run_exit_trap m stk s)) ->
  (forall stk e he els s, le_opt (exec_elifs n stk e he els s) (exec_elifs m stk e he els s)) ->
  (forall stk c ex b s reg, le_opt (loop_iterate n stk c ex b s reg) (loop_iterate m stk c ex b s reg)) ->
  (forall stk c ex b s reg, le_opt (loop_execute n stk c ex b s reg) (loop_execute m stk c ex b s reg)) ->
  (forall stk x vs b s, le_opt (exec_for n stk x vs b s) (exec_for m stk x vs b s)) ->
  (forall stk sj it ft up s, le_opt (exec_items n stk sj it ft up s) (exec_items m stk sj it ft up s)) ->
  (forall stk l s, le_opt (exec_list n stk l s) (exec_list m stk l s)) ->
  (forall stk a s, le_opt (exec_andor n stk a s) (exec_andor m stk a s)) ->
  (forall stk r s, le_opt (exec_rest n stk r s) (exec_rest m stk r s)) ->
  (forall stk p s, le_opt (exec_pipeline n stk p s) (exec_pipeline m stk p s)) ->
  (forall stk cs s, le_opt (exec_commands n stk cs s) (exec_commands m stk cs s)) ->
  (forall stk cs s0 acc, le_opt (exec_multi n stk cs s0 acc) (exec_multi m stk cs s0 acc)) ->
  (forall stk c s, le_opt (exec_cmd (S n) stk c s) (exec_cmd (S m) stk c s))
  /\ (forall stk b s, le_opt (run_subshell (S n) stk b s) (run_subshell (S m) stk b s))
  /\ (forall stk s, le_opt (run_exit_trap (S n) stk s) (run_exit_trap (S m) stk s))
  /\ (forall stk e he els s, le_opt (exec_elifs (S n) stk e he els s) (exec_elifs (S m) stk e he els s))
  /\ (forall stk c ex b s reg, le_opt (loop_iterate (S n) stk c ex b s reg) (loop_iterate (S m) stk c ex b s reg))
  /\ (forall stk c ex b s reg, le_opt (loop_execute (S n) stk c ex b s reg) (loop_execute (S m) stk c ex b s reg))
  /\ (forall stk x vs b s, le_opt (exec_for (S n) stk x vs b s) (exec_for (S m) stk x vs b s))
  /\ (forall stk sj it ft up s, le_opt (exec_items (S n) stk sj it ft up s) (exec_items (S m) stk sj it ft up s))
  /\ (forall stk l s, le_opt (exec_list (S n) stk l s) (exec_list (S m) stk l s))
  /\ (forall stk a s, le_opt (exec_andor (S n) stk a s) (exec_andor (S m) stk a s))
  /\ (forall stk r s, le_opt (exec_rest (S n) stk r s) (exec_rest (S m) stk r s))
  /\ (forall stk p s, le_opt (exec_pipeline (S n) stk p s) (exec_pipeline (S m) stk p s))
  /\ (forall stk cs s, le_opt (exec_commands (S n) stk cs s) (exec_commands (S m) stk cs s))
  /\ (forall stk cs s0 acc, le_opt (exec_multi (S n) stk cs s0 acc) (exec_multi (S m) stk cs s0 acc)).
Proof.
  intros J1 J2 J3 J4 J5 J6 J7 J8 J9 J10 J11 J12 J13 J14.
  repeat split.
  - intros stk c s. cbn [exec_cmd]. xle_auto_with ltac:(first [ apply J1 | apply J2 | apply J3 | apply J4 | apply J5 | apply J6 | apply J7 | apply J8 | apply J9 | apply J10 | apply J11 | apply J12 | apply J13 | apply J14 ]).
  - intros stk b s. cbn [run_subshell]. xle_auto_with ltac:(first [ apply J1 | apply J2 | apply J3 | apply J4 | apply J5 | apply J6 | apply J7 | apply J8 | apply J9 | apply J10 | apply J11 | apply J12 | apply J13 | apply J14 ]).
  - intros stk s. cbn [run_exit_trap]. xle_auto_with ltac:(first [ apply J1 | apply J2 | apply J3 | apply J4 | apply J5 | apply J6 | apply J7 | apply J8 | apply J9 | apply J10 | apply J11 | apply J12 | apply J13 | apply J14 ]).
  - intros stk e he els s. cbn [exec_elifs]. xle_auto_with ltac:(first [ apply J1 | apply J2 | apply J3 | apply J4 | apply J5 | apply J6 | apply J7 | apply J8 | apply J9 | apply J10 | apply J11 | apply J12 | apply J13 | apply J14 ]).
  - intros stk c ex b s reg. cbn [loop_iterate]. xle_auto_with ltac:(first [ apply J1 | apply J2 | apply J3 | apply J4 | apply J5 | apply J6 | apply J7 | apply J8 | apply J9 | apply J10 | apply J11 | apply J12 | apply J13 | apply J14 ]).
  - intros stk c ex b s reg. cbn [loop_execute]. xle_auto_with ltac:(first [ apply J1 | apply J2 | apply J3 | apply J4 | apply J5 | apply J6 | apply J7 | apply J8 | apply J9 | apply J10 | apply J11 | apply J12 | apply J13 | apply J14 ]).
  - intros stk x vs b s. cbn [exec_for]. xle_auto_with ltac:(first [ apply J1 | apply J2 | apply J3 | apply J4 | apply J5 | apply J6 | apply J7 | apply J8 | apply J9 | apply J10 | apply J11 | apply J12 | apply J13 | apply J14 ]).
  - intros stk sj it ft up s. cbn [exec_items]. xle_auto_with ltac:(first [ apply J1 | apply J2 | apply J3 | apply J4 | apply J5 | apply J6 | apply J7 | apply J8 | apply J9 | apply J10 | apply J11 | apply J12 | apply J13 | apply J14 ]).
  - intros stk l s. cbn [exec_list]. xle_auto_with ltac:(first [ apply J1 | apply J2 | apply J3 | apply J4 | apply J5 | apply J6 | apply J7 | apply J8 | apply J9 | apply J10 | apply J11 | apply J12 | apply J13 | apply J14 ]).
  - intros stk a s. cbn [exec_andor]. xle_auto_with ltac:(first [ apply J1 | apply J2 | apply J3 | apply J4 | apply J5 | apply J6 | apply J7 | apply J8 | apply J9 | apply J10 | apply J11 | apply J12 | apply J13 | apply J14 ]).
  - intros stk r s. cbn [exec_rest]. xle_auto_with ltac:(first [ apply J1 | apply J2 | apply J3 | apply J4 | apply J5 | apply J6 | apply J7 | apply J8 | apply J9 | apply J10 | apply J11 | apply J12 | apply J13 | apply J14 ]).
  - intros stk p s. cbn [exec_pipeline]. xle_auto_with ltac:(first [ apply J1 | apply J2 | apply J3 | apply J4 | apply J5 | apply J6 | apply J7 | apply J8 | apply J9 | apply J10 | apply J11 | apply J12 | apply J13 | apply J14 ]).
  - intros stk cs s. cbn [exec_commands]. xle_auto_with ltac:(first [ apply J1 | apply J2 | apply J3 | apply J4 | apply J5 | apply J6 | apply J7 | apply J8 | apply J9 | apply J10 | apply J11 | apply J12 | apply J13 | apply J14 ]).
  - intros stk cs s0 acc. cbn [exec_multi]. xle_auto_with ltac:(first [ apply J1 | apply J2 | apply J3 | apply J4 | apply J5 | apply J6 | apply J7 | apply J8 | apply J9 | apply J10 | apply J11 | apply J12 | apply J13 | apply J14 ]).
Qed.

Lemma exec_mono_step : forall n,
  (forall stk c s, le_opt (exec_cmd n stk c s) (exec_cmd (S n) stk c s))
  /\ (forall stk b s, le_opt (run_subshell n stk b s) (run_subshell (S n) stk b s))
  /\ (forall stk s, le_opt (run_exit_trap n stk s) (run_exit_trap (S n) stk s))
  /\ (forall stk e he els s, le_opt (exec_elifs n stk e he els s) (exec_elifs (S n) stk e he els s))
  /\ (forall stk c ex b s reg, le_opt (loop_iterate n stk c ex b s reg) (loop_iterate (S n) stk c ex b s reg))
  /\ (forall stk c ex b s reg, le_opt (loop_execute n stk c ex b s reg) (loop_execute (S n) stk c ex b s reg))
  /\ (forall stk x vs b s, le_opt (exec_for n stk x vs b s) (exec_for (S n) stk x vs b s))
  /\ (forall stk sj it ft up s, le_opt (exec_items n stk sj it ft up s) (exec_items (S n) stk sj it ft up s))
  /\ (forall stk l s, le_opt (exec_list n stk l s) (exec_list (S n) stk l s))
  /\ (forall stk a s, le_opt (exec_andor n stk a s) (exec_andor (S n) stk a s))
  /\ (forall stk r s, le_opt (exec_rest n stk r s) (exec_rest (S n) stk r s))
  /\ (forall stk p s, le_opt (exec_pipeline n stk p s) (exec_pipeline (S n) stk p s))
  /\ (forall stk cs s, le_opt (exec_commands n stk cs s) (exec_commands (S n) stk cs s))
  /\ (forall stk cs s0 acc, le_opt (exec_multi n stk cs s0 acc) (exec_multi (S n) stk cs s0 acc)).
Proof.
  induction n as [|n IH].
  - repeat split; intros; exact I.
  - destruct IH as (I1 & I2 & I3 & I4 & I5 & I6 & I7 & I8 & I9 & I10 & I11 & I12 & I13 & I14).
    apply exec_mono_gen; assumption.
Qed.

Lemma exec_cmd_mono n m stk c s res : n <= m -> exec_cmd n stk c s = Some res -> exec_cmd m stk c s = Some res.
Proof.
  intros Hle; induction Hle as [|m Hle IH]; auto.
  intros H; specialize (IH H).
  pose proof (exec_mono_step m) as M.
  eapply le_opt_elim; [|exact IH]. apply M.
Qed.

Lemma run_subshell_mono n m stk b s res : n <= m -> run_subshell n stk b s = Some res -> run_subshell m stk b s = Some res.
Proof.
  intros Hle; induction Hle as [|m Hle IH]; auto.
  intros H; specialize (IH H).
  pose proof (exec_mono_step m) as M.
  eapply le_opt_elim; [|exact IH]. apply M.
Qed.

Lemma run_exit_trap_mono n m stk s res : n <= m -> run_exit_trap n stk s = Some res -> run_exit_trap m stk s = Some res.
Proof.
  intros Hle; induction Hle as [|m Hle IH]; auto.
  intros H; specialize (IH H).
  pose proof (exec_mono_step m) as M.
  eapply le_opt_elim; [|exact IH]. apply M.
Qed.

Lemma exec_elifs_mono n m stk e he els s res : n <= m -> exec_elifs n stk e he els s = Some res -> exec_elifs m stk e he els s = Some res.
Proof.
  intros Hle; induction Hle as [|m Hle IH]; auto.
  intros H; specialize (IH H).
  pose proof (exec_mono_step m) as M.
  eapply le_opt_elim; [|exact IH]. apply M.
Qed.

Lemma loop_iterate_mono n m stk c ex b s reg res : n <= m -> loop_iterate n stk c ex b s reg = Some res -> loop_iterate m stk c ex b s reg = Some res.
Proof.
  intros Hle; induction Hle as [|m Hle IH]; auto.
  intros H; specialize (IH H).
  pose proof (exec_mono_step m) as M.
  eapply le_opt_elim; [|exact IH]. apply M.
Qed.

Lemma loop_execute_mono n m stk c ex b s reg res : n <= m -> loop_execute n stk c ex b s reg = Some res -> loop_execute m stk c ex b s reg = Some res.
Proof.
  intros Hle; induction Hle as [|m Hle IH]; auto.
  intros H; specialize (IH H).
  pose proof (exec_mono_step m) as M.
  eapply le_opt_elim; [|exact IH]. apply M.
Qed.

Lemma exec_for_mono n m stk x vs b s res : n <= m -> exec_for n stk x vs b s = Some res -> exec_for m stk x vs b s = Some res.
Proof.
  intros Hle; induction Hle as [|m Hle IH]; auto.
  intros H; specialize (IH H).
  pose proof (exec_mono_step m) as M.
  eapply le_opt_elim; [|exact IH]. apply M.
Qed.

Lemma exec_items_mono n m stk sj it ft up s res : n <= m -> exec_items n stk sj it ft up s = Some res -> exec_items m stk sj it ft up s = Some res.
Proof.
  intros Hle; induction Hle as [|m Hle IH]; auto.
  intros H; specialize (IH H).
  pose proof (exec_mono_step m) as M.
  eapply le_opt_elim; [|exact IH]. apply M.
Qed.

Lemma exec_list_mono n m stk l s res : n <= m -> exec_list n stk l s = Some res -> exec_list m stk l s = Some res.
Proof.
  intros Hle; induction Hle as [|m Hle IH]; auto.
  intros H; specialize (IH H).
  pose proof (exec_mono_step m) as M.
  eapply le_opt_elim; [|exact IH]. apply M.
Qed.

Lemma exec_andor_mono n m stk a s res : n <= m -> exec_andor n stk a s = Some res -> exec_andor m stk a s = Some res.
Proof.
  intros Hle; induction Hle as [|m Hle IH]; auto.
  intros H; specialize (IH H).
  pose proof (exec_mono_step m) as M.
  eapply le_opt_elim; [|exact IH]. apply M.
Qed.

Lemma exec_rest_mono n m stk r s res : n <= m -> exec_rest n stk r s = Some res -> exec_rest m stk r s = Some res.
Proof.
  intros Hle; induction Hle as [|m Hle IH]; auto.
  intros H; specialize (IH H).
  pose proof (exec_mono_step m) as M.
  eapply le_opt_elim; [|exact IH]. apply M.
Qed.

Lemma exec_pipeline_mono n m stk p s res : n <= m -> exec_pipeline n stk p s = Some res -> exec_pipeline m stk p s = Some res.
Proof.
  intros Hle; induction Hle as [|m Hle IH]; auto.
  intros H; specialize (IH H).
  pose proof (exec_mono_step m) as M.
  eapply le_opt_elim; [|exact IH]. apply M.
Qed.

Lemma exec_commands_mono n m stk cs s res : n <= m -> exec_commands n stk cs s = Some res -> exec_commands m stk cs s = Some res.
Proof.
  intros Hle; induction Hle as [|m Hle IH]; auto.
  intros H; specialize (IH H).
  pose proof (exec_mono_step m) as M.
  eapply le_opt_elim; [|exact IH]. apply M.
Qed.

Lemma exec_multi_mono n m stk cs s0 acc res : n <= m -> exec_multi n stk cs s0 acc = Some res -> exec_multi m stk cs s0 acc = Some res.
Proof.
  intros Hle; induction Hle as [|m Hle IH]; auto.
  intros H; specialize (IH H).
  pose proof (exec_mono_step m) as M.
  eapply le_opt_elim; [|exact IH]. apply M.
Qed.
