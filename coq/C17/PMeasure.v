(* C17 — termination of the model by an explicit measure, and the invariant
   "every chain of origins is duplicate free and names defined aliases".

   Weight of a character whose chain of origins is [c]:  W ^ (N - |c|)  with
   W = 1 + the length of the longest alias value and N = the number of aliases.
   The measure is the sum of the weights of the characters at and behind the
   lexer's index.  Consuming a token removes at least one character; a
   substitution removes a character of weight W^(N-|c|) and adds at most W-1
   characters of weight W^(N-|c|-1). *)
From Yv Require Import Common.Base C17.Model C17.PList C17.PLoop C17.PLex.
From Coq Require Import Lia PeanoNat.

(* ---------- strings and chains ---------- *)

Lemma mem_str_In s l : mem_str s l = true <-> In s l.
Proof.
  unfold mem_str. rewrite existsb_exists. split.
  - intros (x & Hx & He). apply str_eqb_eq in He. subst; auto.
  - intros H. exists s. split; auto. apply str_eqb_eq; reflexivity.
Qed.

Lemma mem_str_false s l : mem_str s l = false <-> ~ In s l.
Proof. rewrite <- mem_str_In. destruct (mem_str s l); split; congruence. Qed.

Definition tnames (t : table) : list str := map a_name t.

Lemma lookup_some t n a : lookup t n = Some a -> In a t /\ a_name a = n.
Proof.
  induction t as [|b t IH]; cbn; [discriminate|].
  destruct (str_eqb (a_name b) n) eqn:E.
  - intros H; inversion H; subst. apply str_eqb_eq in E. auto.
  - intros H. destruct (IH H); auto.
Qed.

Lemma value_len_le t a : In a t -> (length (a_value a) <= max_value_len t)%nat.
Proof.
  induction t as [|b t IH]; [contradiction|].
  unfold max_value_len; cbn [fold_right]; fold (max_value_len t).
  intros [->|H]; [apply Nat.le_max_l|].
  specialize (IH H). eapply Nat.le_trans; [exact IH|apply Nat.le_max_r].
Qed.

Definition chain_ok (t : table) (c : chain) : Prop := NoDup c /\ incl c (tnames t).

Lemma chain_ok_nil t : chain_ok t [].
Proof. split; [constructor|intros x []]. Qed.

Lemma chain_ok_len t c : chain_ok t c -> (length c <= length t)%nat.
Proof.
  intros [H1 H2]. rewrite <- (map_length a_name t). apply NoDup_incl_length; auto.
Qed.

Lemma chain_ok_cons t a c : In a t -> ~ In (a_name a) c -> chain_ok t c -> chain_ok t (a_name a :: c).
Proof.
  intros Ha Hn [H1 H2]. split; [constructor; auto|].
  intros x [<-|Hx]; [apply in_map; auto|auto].
Qed.

(* ---------- weights ---------- *)

Definition W (t : table) : nat := S (max_value_len t).
Definition wt (t : table) (c : chain) : nat := W t ^ (length t - length c).
Definition wsum (t : table) (l : list bchar) : nat := list_sum (map (fun x => wt t (b_chain x)) l).

Lemma pow_pos b e : (1 <= b -> 1 <= b ^ e)%nat.
Proof. intros H. induction e; cbn; nia. Qed.

Lemma wt_pos t c : (1 <= wt t c)%nat.
Proof. apply pow_pos. unfold W; lia. Qed.

Lemma wsum_app t l1 l2 : wsum t (l1 ++ l2) = (wsum t l1 + wsum t l2)%nat.
Proof. unfold wsum. rewrite map_app, list_sum_app. reflexivity. Qed.

Lemma wsum_cons t x l : wsum t (x :: l) = (wt t (b_chain x) + wsum t l)%nat.
Proof. reflexivity. Qed.

Lemma wsum_tag t ch v : wsum t (tag ch v) = (length v * wt t ch)%nat.
Proof.
  induction v as [|c v IH]; [reflexivity|].
  change (tag ch (c :: v)) with (mkB c false ch :: tag ch v).
  rewrite wsum_cons, IH. reflexivity.
Qed.

Lemma wsum_skipn_le t n l : (wsum t (skipn n l) <= wsum t l)%nat.
Proof.
  rewrite <- (firstn_skipn n l) at 2. rewrite wsum_app. lia.
Qed.

Lemma wsum_skipn_lt t n l : (1 <= n)%nat -> l <> [] -> (wsum t (skipn n l) < wsum t l)%nat.
Proof.
  intros Hn Hl. destruct l as [|x l]; [contradiction|]. destruct n; [lia|].
  cbn [skipn]. pose proof (wsum_skipn_le t n l). rewrite wsum_cons.
  pose proof (wt_pos t (b_chain x)). lia.
Qed.

(* substitution strictly decreases the weight *)
Lemma subst_weight t a c :
  In a t -> chain_ok t (a_name a :: c) ->
  (length (a_value a) * wt t (a_name a :: c) < wt t c)%nat.
Proof.
  intros Ha Hc. pose proof (chain_ok_len _ _ Hc) as Hl. cbn [length] in Hl.
  pose proof (value_len_le _ _ Ha) as Hv.
  unfold wt. cbn [length].
  replace (length t - length c)%nat with (S (length t - S (length c))) by lia.
  cbn [Nat.pow]. pose proof (pow_pos (W t) (length t - S (length c)) ltac:(unfold W; lia)).
  unfold W in *. nia.
Qed.

(* ---------- shift ---------- *)

Lemma shift_suf marks : forall pre suf, snd (shift marks pre suf) = skipn (length marks) suf.
Proof.
  induction marks as [|m marks IH]; intros pre suf; [reflexivity|].
  destruct suf as [|x suf]; [reflexivity|]. cbn [shift length skipn]. apply IH.
Qed.

Lemma shift_pre_forall (P : chain -> Prop) marks : forall pre suf,
  Forall (fun x => P (b_chain x)) pre -> Forall (fun x => P (b_chain x)) suf ->
  Forall (fun x => P (b_chain x)) (fst (shift marks pre suf)).
Proof.
  induction marks as [|m marks IH]; intros pre suf Hp Hs; [exact Hp|].
  destruct suf as [|x suf]; [exact Hp|]. cbn [shift]. inversion Hs; subst.
  apply IH; auto.
Qed.

Lemma Forall_skipn {A} (P : A -> Prop) n l : Forall P l -> Forall P (skipn n l).
Proof.
  revert l; induction n; intros l H; [exact H|]. destruct l; [constructor|]. inversion H; subst. cbn. auto.
Qed.

(* ---------- the parser automaton stops at the end of input ---------- *)

Lemma decide_eof ps a g : decide ps TEof a g = AStop.
Proof. destruct ps; reflexivity. Qed.

Lemma decide_lx_cont_not_eof ps lx :
  (forall c n, decide_lx ps lx <> ATry c n) \/ lx_kind lx <> TEof ->
  (forall n, decide_lx ps lx <> ATake n) \/ lx_kind lx <> TEof -> True.
Proof. auto. Qed.

Lemma decide_lx_eof ps lx : lx_kind lx = TEof -> decide_lx ps lx = AStop.
Proof. unfold decide_lx. intros ->. apply decide_eof. Qed.

(* ---------- the step ---------- *)

Definition chains_inv (t : table) (s : mstate) : Prop :=
  Forall (fun x => chain_ok t (b_chain x)) (m_pre s) /\
  Forall (fun x => chain_ok t (b_chain x)) (m_suf s).

Definition mu (t : table) (s : mstate) : nat := wsum t (m_suf s).

Lemma applicable_some t pre suf lit cmd a :
  applicable t pre suf lit cmd = Some a ->
  exists nm, lit = Some nm /\ in_chain nm (head_chain suf) = false /\ lookup t nm = Some a
             /\ (cmd || a_global a || after_blank_alias t pre (head_chain suf) = true).
Proof.
  unfold applicable. destruct lit as [nm|]; [|discriminate].
  destruct (in_chain nm (head_chain suf)) eqn:Ec; [discriminate|].
  destruct (lookup t nm) as [a'|] eqn:El; [|discriminate].
  destruct (cmd || a_global a' || after_blank_alias t pre (head_chain suf)) eqn:Ee; [|discriminate].
  intros E; inversion E; subst. exists nm; auto.
Qed.

Lemma Forall_tag (P : chain -> Prop) ch v : P ch -> Forall (fun x => P (b_chain x)) (tag ch v).
Proof. intros H. unfold tag. apply Forall_forall. intros x Hx. apply in_map_iff in Hx. destruct Hx as (c & <- & _). exact H. Qed.

Lemma mstep_decreases t s s' :
  chains_inv t s -> mstep t s = Cont s' -> chains_inv t s' /\ (mu t s' < mu t s)%nat.
Proof.
  intros [Hpre Hsuf]. unfold mstep.
  destruct (lex (map b_ch (m_suf s))) as [lx|[]] eqn:El; try discriminate.
  pose proof (lex_len _ _ El) as Hlen. rewrite map_length in Hlen.
  destruct (shift (lx_gap lx) (m_pre s) (m_suf s)) as [pre1 suf1] eqn:Es1.
  assert (Hsuf1 : suf1 = skipn (length (lx_gap lx)) (m_suf s)).
  { rewrite <- (shift_suf (lx_gap lx) (m_pre s) (m_suf s)), Es1. reflexivity. }
  assert (Hpre1 : Forall (fun x => chain_ok t (b_chain x)) pre1).
  { replace pre1 with (fst (shift (lx_gap lx) (m_pre s) (m_suf s))) by (rewrite Es1; reflexivity).
    apply shift_pre_forall; auto. }
  assert (Hsuf1F : Forall (fun x => chain_ok t (b_chain x)) suf1) by (rewrite Hsuf1; apply Forall_skipn; auto).
  assert (Hle1 : (wsum t suf1 <= wsum t (m_suf s))%nat) by (rewrite Hsuf1; apply wsum_skipn_le).
  (* consuming the token *)
  assert (Take : forall ps', lx_kind lx <> TEof ->
     let '(pre2, suf2) := shift (lx_tok lx) pre1 suf1 in
     chains_inv t (mkM pre2 suf2 ps') /\ (mu t (mkM pre2 suf2 ps') < mu t s)%nat).
  { intros ps' Hk. destruct (shift (lx_tok lx) pre1 suf1) as [pre2 suf2] eqn:Es2.
    assert (Hsuf2 : suf2 = skipn (length (lx_tok lx)) suf1).
    { rewrite <- (shift_suf (lx_tok lx) pre1 suf1), Es2. reflexivity. }
    pose proof (lex_tok_nonempty _ _ El Hk) as Hn.
    assert (Hne : suf1 <> []).
    { intros H. rewrite Hsuf1 in H. apply (f_equal (@length bchar)) in H. rewrite skipn_length in H. cbn in H. lia. }
    split.
    - split; cbn [m_pre m_suf].
      + replace pre2 with (fst (shift (lx_tok lx) pre1 suf1)) by (rewrite Es2; reflexivity).
        apply shift_pre_forall; auto.
      + rewrite Hsuf2. apply Forall_skipn; auto.
    - unfold mu; cbn [m_suf]. rewrite Hsuf2.
      pose proof (wsum_skipn_lt t _ _ Hn Hne). lia. }
  destruct (decide_lx (m_ps s) lx) as [cmd ps'|ps'| |] eqn:Ed; try discriminate.
  - (* ATry *)
    assert (Hk : lx_kind lx <> TEof).
    { intros H. rewrite (decide_lx_eof _ _ H) in Ed. discriminate. }
    destruct (applicable t pre1 suf1 (lx_lit lx) cmd) as [a|] eqn:Ea.
    + intros E; inversion E; subst s'; clear E.
      destruct (applicable_some _ _ _ _ _ _ Ea) as (nm & Hlit & Hin & Hlk & _).
      destruct (lookup_some _ _ _ Hlk) as [Hat Hnm].
      pose proof (lex_tok_nonempty _ _ El Hk) as Hn.
      destruct suf1 as [|x suf1'] eqn:Esuf1.
      { exfalso. apply (f_equal (@length bchar)) in Hsuf1. rewrite skipn_length in Hsuf1. cbn in Hsuf1. lia. }
      cbn [head_chain] in *.
      pose proof (Forall_inv Hsuf1F) as Hx. pose proof (Forall_inv_tail Hsuf1F) as Hrest.
      assert (Hnew : chain_ok t (a_name a :: b_chain x)).
      { apply chain_ok_cons; auto. rewrite Hnm. cbn [in_chain] in Hin. apply mem_str_false; auto. }
      split.
      * split; cbn [m_pre m_suf]; auto.
        apply Forall_app. split; [apply Forall_tag; auto|apply Forall_skipn; constructor; auto].
      * unfold mu; cbn [m_suf]. rewrite wsum_app, wsum_tag.
        pose proof (subst_weight _ _ _ Hat Hnew) as Hw.
        destruct (lx_tok lx) as [|m0 tk]; [cbn in Hn; lia|]. cbn [length skipn].
        pose proof (wsum_skipn_le t (length tk) suf1').
        assert (wsum t (x :: suf1') = wt t (b_chain x) + wsum t suf1')%nat by reflexivity.
        lia.
    + specialize (Take ps' Hk). destruct (shift (lx_tok lx) pre1 suf1) as [pre2 suf2].
      intros E; inversion E; subst; auto.
  - (* ATake *)
    assert (Hk : lx_kind lx <> TEof).
    { intros H. rewrite (decide_lx_eof _ _ H) in Ed. discriminate. }
    specialize (Take ps' Hk). destruct (shift (lx_tok lx) pre1 suf1) as [pre2 suf2].
    intros E; inversion E; subst; auto.
Qed.

(* ---------- termination ---------- *)

Lemma chains_inv_init t line : chains_inv t (m_init line).
Proof. split; cbn; [constructor|]. apply Forall_tag. apply chain_ok_nil. Qed.

Lemma mu_init t line : mu t (m_init line) = (length line * W t ^ length t)%nat.
Proof. unfold mu, m_init; cbn [m_suf]. rewrite wsum_tag. unfold wt. cbn [length]. rewrite Nat.sub_0_r. reflexivity. Qed.

Lemma fuel_of_nat t line :
  Pos.to_nat (fuel_of t line) = S (S (length line) * W t ^ length t).
Proof.
  unfold fuel_of, W.
  set (n := (N.of_nat (S (length line)) * N.of_nat (S (max_value_len t)) ^ N.of_nat (length t))%N).
  assert (H : N.to_nat (N.pos (N.succ_pos n)) = S (N.to_nat n)) by (rewrite N.succ_pos_spec; lia).
  cbn [N.to_nat] in H. rewrite H. f_equal. subst n.
  rewrite N2Nat.inj_mul, N2Nat.inj_pow, !Nat2N.id. reflexivity.
Qed.

Lemma fuel_of_enough t line : (mu t (m_init line) < Pos.to_nat (fuel_of t line))%nat.
Proof.
  rewrite mu_init, fuel_of_nat.
  pose proof (pow_pos (W t) (length t) ltac:(unfold W; lia)). nia.
Qed.

Theorem model_terminates t line : model_run t line <> ROutOfFuel.
Proof.
  unfold model_run.
  apply (run_enough_fuel (mstep t) (chains_inv t) (mu t)).
  - intros s s'. apply mstep_decreases.
  - apply chains_inv_init.
  - apply fuel_of_enough.
Qed.

(* every chain of origins in the final buffer is duplicate free and names defined aliases *)
Lemma mstep_fin_chains t s b :
  chains_inv t s -> mstep t s = Fin b -> Forall (fun x => chain_ok t (b_chain x)) b.
Proof.
  intros [Hpre Hsuf]. unfold mstep.
  assert (H0 : Forall (fun x => chain_ok t (b_chain x)) (rev (m_pre s) ++ m_suf s)).
  { apply Forall_app; split; auto. apply Forall_rev; auto. }
  destruct (lex (map b_ch (m_suf s))) as [lx|[]] eqn:El; try discriminate.
  2:{ intros E; inversion E; subst; auto. }
  destruct (shift (lx_gap lx) (m_pre s) (m_suf s)) as [pre1 suf1] eqn:Es1.
  assert (Hsuf1 : suf1 = skipn (length (lx_gap lx)) (m_suf s)).
  { rewrite <- (shift_suf (lx_gap lx) (m_pre s) (m_suf s)), Es1. reflexivity. }
  assert (Hpre1 : Forall (fun x => chain_ok t (b_chain x)) pre1).
  { replace pre1 with (fst (shift (lx_gap lx) (m_pre s) (m_suf s))) by (rewrite Es1; reflexivity).
    apply shift_pre_forall; auto. }
  destruct (decide_lx (m_ps s) lx) as [cmd ps'|ps'| |]; try discriminate.
  - destruct (applicable t pre1 suf1 (lx_lit lx) cmd); [discriminate|].
    destruct (shift (lx_tok lx) pre1 suf1); discriminate.
  - destruct (shift (lx_tok lx) pre1 suf1); discriminate.
  - intros E; inversion E; subst. apply Forall_app; split; [apply Forall_rev; auto|apply Forall_skipn; auto].
Qed.

Theorem model_chains_ok t line b :
  model_run t line = RFin b -> Forall (fun x => chain_ok t (b_chain x)) b.
Proof.
  unfold model_run, run. rewrite loop_iter.
  destruct (iter (mstep t) (Pos.to_nat (fuel_of t line)) (m_init line)) as [s'|r|] eqn:E; try discriminate.
  intros H; inversion H; subst.
  eapply (iter_fin_inv (mstep t) (chains_inv t)); eauto.
  - intros a b' Ha Hs. apply (mstep_decreases _ _ _ Ha Hs).
  - intros a r Ha Hs. eapply mstep_fin_chains; eauto.
  - apply chains_inv_init.
Qed.
