(* C17 — the reserved words of the model are those of the source.

   Gen/Gen_Keywords.v is regenerated from yash-syntax/src/parser/lex/keyword.rs
   on every run by translator/keywords.py (variants of enum Keyword in
   declaration order, the arms of FromStr, as_str and is_clause_delimiter).
   [keyword_index] numbers the model's constructors in the same order; the
   model's table, read as (text, index), is literally the table of FromStr, and
   the source's two tables are inverse to each other, so the word the alias
   substitution must leave alone because it is a reserved word is the same set
   of words in model and code. *)
From Coq Require Import NArith List Bool Lia.
From Yv Require Import Common.Base C17.Model Gen.Gen_Keywords.
Import ListNotations.
Local Open Scope N_scope.

Definition keyword_index (k : keyword) : N :=
  match k with
  | KBang => 0 | KDBrOpen => 1 | KDBrClose => 2 | KCase => 3 | KDo => 4 | KDone => 5
  | KElif => 6 | KElse => 7 | KEsac => 8 | KFi => 9 | KFor => 10 | KFunction => 11
  | KIf => 12 | KIn => 13 | KNamespace => 14 | KSelect => 15 | KThen => 16
  | KUntil => 17 | KWhile => 18 | KBraceOpen => 19 | KBraceClose => 20
  end.

Lemma keyword_index_injective : forall a b, keyword_index a = keyword_index b -> a = b.
Proof. intros a b; destruct a, b; cbn; intros H; try reflexivity; discriminate H. Qed.

Lemma keyword_index_covers : forall n, n < gen_keyword_count -> exists k, keyword_index k = n.
Proof.
  intros n Hn.
  assert (H : existsb (fun k => N.eqb (keyword_index k) n)
               [KBang; KDBrOpen; KDBrClose; KCase; KDo; KDone; KElif; KElse; KEsac; KFi; KFor;
                KFunction; KIf; KIn; KNamespace; KSelect; KThen; KUntil; KWhile; KBraceOpen; KBraceClose] = true).
  { unfold gen_keyword_count in Hn.
    assert (Hc : In n (map N.of_nat (seq 0 21))).
    { apply in_map_iff. exists (N.to_nat n). split; [apply N2Nat.id|]. apply in_seq. 
      lia. }
    cbn in Hc. repeat (destruct Hc as [<-|Hc]; [reflexivity|]). destruct Hc. }
  apply existsb_exists in H. destruct H as [k [_ Hk]]. exists k. apply N.eqb_eq. exact Hk.
Qed.

(* the model's table is the table of FromStr *)
Lemma keyword_table_is_source_table :
  map (fun p => (fst p, keyword_index (snd p))) keyword_table = gen_keyword_from_str.
Proof. reflexivity. Qed.

(* so recognising a reserved word is looking it up in the source's table *)
Fixpoint assoc_gen (l : list (list N * N)) (s : str) : option N :=
  match l with
  | [] => None
  | (k, v) :: l' => if str_eqb k s then Some v else assoc_gen l' s
  end.

Lemma assoc_map_index : forall (l : list (str * keyword)) s,
  assoc_gen (map (fun p => (fst p, keyword_index (snd p))) l) s = option_map keyword_index (assoc_str l s).
Proof.
  induction l as [|[k v] l IH]; intros s; cbn; [reflexivity|].
  destruct (str_eqb k s); [reflexivity|apply IH].
Qed.

Lemma keyword_of_is_source_lookup : forall s,
  option_map keyword_index (keyword_of s) = assoc_gen gen_keyword_from_str s.
Proof.
  intros s. unfold keyword_of. rewrite <- keyword_table_is_source_table. symmetry. apply assoc_map_index.
Qed.

(* the source's tables are inverse to each other: every arm of FromStr has its
   mirror in as_str and vice versa, and no text or variant occurs twice *)
Definition pair_eqb (a b : list N * N) : bool := str_eqb (fst a) (fst b) && N.eqb (snd a) (snd b).
Definition swap (p : N * list N) : list N * N := (snd p, fst p).

Lemma source_tables_inverse :
  forallb (fun p => existsb (pair_eqb p) (map swap gen_keyword_as_str)) gen_keyword_from_str = true
  /\ forallb (fun p => existsb (pair_eqb p) gen_keyword_from_str) (map swap gen_keyword_as_str) = true
  /\ N.of_nat (length gen_keyword_from_str) = gen_keyword_count
  /\ N.of_nat (length gen_keyword_as_str) = gen_keyword_count
  /\ NoDup (map snd gen_keyword_from_str).
Proof.
  repeat split; try (vm_compute; reflexivity).
  cbn. repeat (constructor; [cbn; intros H; repeat (destruct H as [H|H]; [discriminate H|]); exact H|]).
  constructor.
Qed.
