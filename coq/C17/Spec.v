(* C17 — SPEC: alias substitution "by hand", and the ORACLE.

   The specification never edits text that has been read and keeps no origin
   information on characters.  It reads the command line through a stack of
   pending texts, the way one substitutes on paper (POSIX XCU 2.3.1):

     * the input is the original line [s_base]; on top of it lie the values of
       the aliases whose substitution is in progress ([s_stack], innermost
       first), each with what is still unread of it;
     * a word that is a candidate (command position, or the name of a global
       alias, or the first word after the value of an alias that ended in a
       blank) and names an alias that is *not in progress* is removed and the
       alias value is put on top of the stack;
     * when the value of an alias has been read completely it is no longer in
       progress; if the value ended in a blank, [s_flag] is raised: the next
       word is a candidate whatever its position.  Reading anything but a
       blank (or a line continuation) lowers the flag again.

   The token structure (where words start and end, which are reserved words,
   operators, IO numbers) and the position automaton ("is this word in command
   position?") are shared with the model: the property is not about them.

   The result is the text that was read, i.e. the command line with all
   substitutions carried out, each character with the aliases in progress when
   it was read.  The ORACLE compares it with the buffer of the real lexer. *)
From Yv Require Import Common.Base C17.Model.
Local Open Scope N_scope.

Record frame := mkF { f_name : str; f_rest : list N; f_blank : bool }.

Record sstate := mkS {
  s_out : list (N * chain);   (* what has been read, in reverse *)
  s_stack : list frame;
  s_base : list N;
  s_flag : bool;
  s_ps : pstate
}.

Definition names (st : list frame) : chain := map f_name st.

(* the unread input *)
Definition flat (st : list frame) (base : list N) : list N :=
  concat (map f_rest st) ++ base.

(* values that have been read completely are no longer in progress *)
Fixpoint pop_done (st : list frame) (flag : bool) : list frame * bool :=
  match st with
  | f :: st' =>
      match f_rest f with
      | [] => pop_done st' (flag || f_blank f)
      | _ :: _ => (st, flag)
      end
  | [] => ([], flag)
  end.

Definition keeps_flag (lc : bool) (c : N) : bool := lc || is_blank c.

(* read one character ([lc]: it is part of a line continuation) *)
Definition read1 (lc : bool) (s : sstate) : sstate :=
  match s_stack s with
  | f :: st' =>
      match f_rest f with
      | c :: r =>
          let flag := if keeps_flag lc c then s_flag s else false in
          let '(st2, flag2) := pop_done (mkF (f_name f) r (f_blank f) :: st') flag in
          mkS ((c, names (s_stack s)) :: s_out s) st2 (s_base s) flag2 (s_ps s)
      | [] => s   (* not reachable: finished values are popped at once *)
      end
  | [] =>
      match s_base s with
      | c :: r =>
          mkS ((c, []) :: s_out s) [] r (if keeps_flag lc c then s_flag s else false) (s_ps s)
      | [] => s
      end
  end.

Fixpoint read (marks : list bool) (s : sstate) : sstate :=
  match marks with
  | [] => s
  | m :: marks' => read marks' (read1 m s)
  end.

(* remove [n] characters of the unread input (the word being replaced);
   values stay in progress even if nothing is left of them *)
Fixpoint drop_input (n : nat) (st : list frame) (base : list N) : list frame * list N :=
  match st with
  | [] => ([], skipn n base)
  | f :: st' =>
      let k := length (f_rest f) in
      if Nat.leb n k then (mkF (f_name f) (skipn n (f_rest f)) (f_blank f) :: st', base)
      else let '(st2, base2) := drop_input (n - k) st' base in
           (mkF (f_name f) [] (f_blank f) :: st2, base2)
  end.

(* the unread input with the aliases in progress for each character *)
Fixpoint flat_obs (st : list frame) (base : list N) : list (N * chain) :=
  match st with
  | [] => map (fun c => (c, [])) base
  | f :: st' => map (fun c => (c, names st)) (f_rest f) ++ flat_obs st' base
  end.

Definition eligible (t : table) (s : sstate) (lit : option str) (is_cmd : bool) : option alias :=
  match lit with
  | None => None
  | Some nm =>
      if mem_str nm (names (s_stack s)) then None      (* not within its own replacement *)
      else match lookup t nm with
           | None => None
           | Some a => if is_cmd || a_global a || s_flag s then Some a else None
           end
  end.

Definition set_ps (ps : pstate) (s : sstate) : sstate :=
  mkS (s_out s) (s_stack s) (s_base s) (s_flag s) ps.

Definition sstep (t : table) (s : sstate) : outcome sstate (list (N * chain)) :=
  match lex (flat (s_stack s) (s_base s)) with
  | inr LexOutside => Outside
  | inr LexError => Fin (rev (s_out s) ++ flat_obs (s_stack s) (s_base s))
  | inl lx =>
      let s1 := read (lx_gap lx) s in
      match decide_lx (s_ps s) lx with
      | AOutside => Outside
      | AStop => Fin (rev (s_out s1) ++ flat_obs (s_stack s1) (s_base s1))
      | ATake ps' => Cont (set_ps ps' (read (lx_tok lx) s1))
      | ATry is_cmd ps' =>
          match eligible t s1 (lx_lit lx) is_cmd with
          | Some a =>
              let '(st2, base2) := drop_input (length (lx_tok lx)) (s_stack s1) (s_base s1) in
              let '(st3, flag3) :=
                pop_done (mkF (a_name a) (a_value a) (ends_blank (a_value a)) :: st2) (s_flag s1) in
              Cont (mkS (s_out s1) st3 base2 flag3 (s_ps s))
          | None => Cont (set_ps ps' (read (lx_tok lx) s1))
          end
      end
  end.

Definition s_init (line : str) : sstate := mkS [] [] line false PCmd.

Definition spec_run (t : table) (line : str) : result (list (N * chain)) :=
  run (sstep t) (fuel_of t line) (s_init line).

(* ------------------------------------------------------------------ *)
(** * Direct requirements on an observed buffer (independent of the stack machine) *)

Fixpoint nodup_str (l : list str) : bool :=
  match l with
  | [] => true
  | x :: l' => negb (mem_str x l') && nodup_str l'
  end.

(* every character's chain of origins names defined aliases, each at most once:
   no alias was substituted within its own replacement, and the nesting depth
   is at most the number of aliases *)
Definition chains_ok (t : table) (b : list (N * chain)) : bool :=
  forallb (fun x => nodup_str (snd x) && forallb (fun n => match lookup t n with Some _ => true | None => false end) (snd x)) b.

Definition chain_eqb (a b : chain) : bool := list_eqb str_eqb a b.
Definition obs_eqb (a b : list (N * chain)) : bool :=
  list_eqb (fun x y => N.eqb (fst x) (fst y) && chain_eqb (snd x) (snd y)) a b.
Definition text_of (b : list (N * chain)) : str := map fst b.
