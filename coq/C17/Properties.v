(* C17 — property theorems only.  Each is closed by [exact] of a lemma from
   the proof files; the driver pins the statements with [Check] and prints the
   assumptions on every run.  (Generated together with props/C17.json.) *)
From Yv Require Import Common.Base C17.Model C17.Spec C17.PLex C17.PMeasure C17.PSim C17.Proofs C17.PChain C17.PTok C17.Examples.
From Yv Require Import C17.GenTie Gen.Gen_Keywords.

(* alias substitution in the model terminates for every alias table (self- and mutually recursive included) and every command text: the fuel computed from the input never runs out *)
Theorem alias_terminates : forall (t : table) (line : str), model_run t line <> ROutOfFuel.
Proof. exact model_terminates. Qed.

(* the explicit measure (sum of W^(N-|chain|) over the unread characters) strictly decreases with every step, substitution or not, and the chain invariant is kept *)
Theorem measure_decreases : forall (t : table) (s s' : mstate), chains_inv t s -> mstep t s = Cont s' -> chains_inv t s' /\ (mu t s' < mu t s)%nat.
Proof. exact measure_decreases. Qed.

(* the initial state satisfies the invariant and its measure is below the fuel *)
Theorem measure_initial : forall (t : table) (line : str), chains_inv t (m_init line) /\ (mu t (m_init line) < Pos.to_nat (fuel_of t line))%nat.
Proof. exact measure_initial. Qed.

(* hand substitution terminates as well *)
Theorem spec_terminates : forall (t : table) (line : str), spec_run t line <> ROutOfFuel.
Proof. exact spec_terminates. Qed.

(* a token is only replaced by the alias of its name, and only if that name is not among the alias origins of the token *)
Theorem substitution_guarded : forall t pre suf nm c a, applicable t pre suf (Some nm) c = Some a -> in_chain nm (head_chain suf) = false /\ lookup t nm = Some a.
Proof. exact applicable_guard. Qed.

(* in the final buffer no character has an alias twice in its chain of origins, and all origins are defined aliases: nothing was substituted within its own replacement *)
Theorem not_within_own_expansion : forall (t : table) (line : str) (b : list bchar), model_run t line = RFin b -> chains_ok t (observe b) = true.
Proof. exact model_chains_bool. Qed.

(* substitutions nest at most as deep as there are aliases *)
Theorem nesting_depth_bounded : forall (t : table) (line : str) (b : list bchar) (x : bchar), model_run t line = RFin b -> In x b -> (length (b_chain x) <= length t)%nat.
Proof. exact model_depth_bound. Qed.

(* for every alias table and command text the lexer buffer the model ends with (characters and origins) is exactly the text obtained by substituting by hand (stack of pending values, forward flag); both fail to cover the input in the same cases *)
Theorem parse_with_aliases_eq_parse_of_substituted : forall (t : table) (line : str), result_map observe (model_run t line) = spec_run t line.
Proof. exact model_refines_spec. Qed.

(* exactly the literal words that name an alias not in progress and are in command position, or name a global alias, or follow a blank-ending alias value are replaced *)
Theorem eligible_iff : forall t s lit cmd a, eligible t s lit cmd = Some a <-> exists nm, lit = Some nm /\ ~ In nm (names (s_stack s)) /\ lookup t nm = Some a /\ (cmd = true \/ a_global a = true \/ s_flag s = true).
Proof. exact eligible_iff. Qed.

(* a global alias is substituted wherever the parser takes a word *)
Theorem global_alias_any_position : forall t s nm a cmd, lookup t nm = Some a -> a_global a = true -> ~ In nm (names (s_stack s)) -> eligible t s (Some nm) cmd = Some a.
Proof. exact global_alias_any_position. Qed.

(* a name is never substituted while its own replacement is being read *)
Theorem in_progress_not_eligible : forall t s nm cmd, In nm (names (s_stack s)) -> eligible t s (Some nm) cmd = None.
Proof. exact in_progress_not_eligible. Qed.

(* reading the last character of an alias value that ends in a blank makes the next word a candidate *)
Theorem flag_raised_at_end_of_value : forall f st s lc c, s_stack s = f :: st -> f_rest f = [c] -> f_blank f = true -> s_flag (read1 lc s) = true.
Proof. exact flag_raised_at_end_of_value. Qed.

(* the candidate status survives blanks, line continuations and the ends of further alias values: the blank-ending rule chains *)
Theorem flag_survives_blank : forall s lc c, s_flag s = true -> keeps_flag lc c = true -> (match s_stack s with f :: _ => exists r, f_rest f = c :: r | [] => exists r, s_base s = c :: r end) -> s_flag (read1 lc s) = true.
Proof. exact flag_survives_blank. Qed.

(* a candidate word in argument position is replaced *)
Theorem flag_makes_eligible : forall t s nm a, s_flag s = true -> lookup t nm = Some a -> ~ In nm (names (s_stack s)) -> eligible t s (Some nm) false = Some a.
Proof. exact flag_makes_eligible. Qed.

(* for every n: a command line naming n aliases one after the other, each with a value `word<blank>` (plain words that are not aliases), is substituted completely: the blank-ending rule chains through any number of aliases *)
Theorem blank_continuation_chain : forall (t : table) (ws : list (str * str)), Forall (link_ok t) ws -> exists b, spec_run t (chain_line ws) = RFin b /\ text_of b = chain_out ws.
Proof. exact chain_substituted. Qed.

(* the same for the model of the lexer buffer *)
Theorem blank_continuation_chain_model : forall (t : table) (ws : list (str * str)), Forall (link_ok t) ws -> exists mb, model_run t (chain_line ws) = RFin mb /\ map b_ch mb = chain_out ws.
Proof. exact chain_substituted_model. Qed.

(* operators, IO numbers (redirections) and the end of input are never alias candidates in any parser position, whether they come from the line or from a replacement *)
Theorem only_words_are_candidates : forall ps k a g c n, decide ps k a g = ATry c n -> k = TWord \/ exists kw, k = TKey kw.
Proof. exact only_words_are_candidates. Qed.

(* a reserved word at the beginning of a command is recognised as such and never replaced *)
Theorem reserved_word_first_not_candidate : forall kw a g c n, decide PCmd (TKey kw) a g <> ATry c n.
Proof. exact reserved_word_first_not_candidate. Qed.

(* the first word of a command, also behind assignments and redirections, is a candidate as command name; later words only as arguments *)
Theorem command_word_is_candidate : forall a g, (exists n, decide PCmd TWord a g = ATry true n) /\ (forall fn arr, exists n, decide (PSimple true fn arr) TWord a g = ATry true n) /\ (forall fn arr, exists n, decide (PSimple false fn arr) TWord a g = ATry false n).
Proof. exact command_word_is_candidate. Qed.

(* reading a text with no alias defined reproduces the text: the token sequence `tokens [] text` of Run.v is the plain lexing of the text, nothing is replaced *)
Theorem plain_run_identity : forall (text : str) (b : list (N * chain)), spec_run [] text = RFin b -> text_of b = text.
Proof. exact plain_run_identity. Qed.

(* reading the hand-substituted text again (without aliases) changes nothing *)
Theorem substituted_text_is_stable : forall (t : table) (line : str) (b b' : list (N * chain)), spec_run t line = RFin b -> spec_run [] (text_of b) = RFin b' -> text_of b' = text_of b.
Proof. exact substituted_text_is_stable. Qed.

(* oracle soundness: the run-time oracle (clauses 2, 3, 4) accepts the model's own output *)
Theorem oracle_accepts_model : forall t line mb sb, model_run t line = RFin mb -> spec_run t line = RFin sb -> chains_ok t (observe mb) = true /\ str_eqb (text_of (observe mb)) (text_of sb) = true /\ obs_eqb (observe mb) sb = true.
Proof. exact oracle_accepts_model. Qed.

(* lexer fact used by the equivalence: behind a word comes a blank, an operator character or the end *)
Theorem word_followed_by_delimiter : forall l lx, lex l = inl lx -> is_word_kind (lx_kind lx) = true -> match nth_error l (length (lx_gap lx) + length (lx_tok lx)) with Some d => is_delim d = true | None => True end.
Proof. exact lex_word_end. Qed.

(* lexer fact: a word does not start with a blank or operator character *)
Theorem word_starts_with_nondelimiter : forall l lx, lex l = inl lx -> is_word_kind (lx_kind lx) = true -> exists c, nth_error l (length (lx_gap lx)) = Some c /\ is_delim c = false.
Proof. exact lex_word_start. Qed.

(* lexer fact: a literal word contains no blank *)
Theorem literal_word_has_no_blank : forall l lx nm, lex l = inl lx -> lx_lit lx = Some nm -> forall i c, (i < length (lx_tok lx))%nat -> nth_error l (length (lx_gap lx) + i) = Some c -> is_blank c = false.
Proof. exact lex_lit_nonblank. Qed.

(* TIE BY TRANSLATION: the reserved words of the model are those of
   yash-syntax/src/parser/lex/keyword.rs as it is now (translator/keywords.py) *)
Theorem keyword_table_is_source_table :
  map (fun p => (fst p, keyword_index (snd p))) keyword_table = gen_keyword_from_str.
Proof. exact keyword_table_is_source_table. Qed.
Theorem keyword_of_is_source_lookup : forall s,
  option_map keyword_index (keyword_of s) = assoc_gen gen_keyword_from_str s.
Proof. exact keyword_of_is_source_lookup. Qed.
Theorem keyword_index_injective : forall a b, keyword_index a = keyword_index b -> a = b.
Proof. exact keyword_index_injective. Qed.
Theorem keyword_index_covers : forall n, (n < gen_keyword_count)%N -> exists k, keyword_index k = n.
Proof. exact keyword_index_covers. Qed.

Print Assumptions alias_terminates.
Print Assumptions measure_decreases.
Print Assumptions measure_initial.
Print Assumptions spec_terminates.
Print Assumptions substitution_guarded.
Print Assumptions not_within_own_expansion.
Print Assumptions nesting_depth_bounded.
Print Assumptions parse_with_aliases_eq_parse_of_substituted.
Print Assumptions eligible_iff.
Print Assumptions global_alias_any_position.
Print Assumptions in_progress_not_eligible.
Print Assumptions flag_raised_at_end_of_value.
Print Assumptions flag_survives_blank.
Print Assumptions flag_makes_eligible.
Print Assumptions blank_continuation_chain.
Print Assumptions blank_continuation_chain_model.
Print Assumptions only_words_are_candidates.
Print Assumptions reserved_word_first_not_candidate.
Print Assumptions command_word_is_candidate.
Print Assumptions plain_run_identity.
Print Assumptions substituted_text_is_stable.
Print Assumptions oracle_accepts_model.
Print Assumptions word_followed_by_delimiter.
Print Assumptions word_starts_with_nondelimiter.
Print Assumptions literal_word_has_no_blank.
Print Assumptions keyword_table_is_source_table.
Print Assumptions keyword_of_is_source_lookup.
Print Assumptions keyword_index_injective.
Print Assumptions keyword_index_covers.
