(* C17 — the facts about the lexer that the substitution proofs use:
     lex_len          a token and the gap before it lie inside the input
     lex_tok_nonempty every token but the end of input has at least one character
     lex_word_start   a word does not start with a blank or an operator character
     lex_word_end     behind a word comes a blank, an operator character or nothing
     lex_lit_nonblank a literal word contains no blank *)
From Yv Require Import Common.Base C17.Model.
From Coq Require Import Lia.
From Yv Require Import C17.PList.
Local Open Scope N_scope.

Definition is_word_kind (k : tkind) : bool :=
  match k with TWord | TKey _ => true | _ => false end.

(* ---------- skip_blanks ---------- *)

Lemma skip_blanks_split l : forall m l1, skip_blanks l = (m, l1) -> l1 = skipn (length m) l /\ (length m + length l1 = length l)%nat.
Proof.
  induction l as [l IH] using (well_founded_induction (Wf_nat.well_founded_ltof _ (@length N))).
  intros m l1. destruct l as [|c r]; cbn [skip_blanks].
  - intros E; inversion E; subst; cbn; auto.
  - destruct r as [|d r2].
    + destruct (is_blank c); intros E; inversion E; subst; cbn; auto.
    + destruct (is_lc c d).
      * destruct (skip_blanks r2) as [m' r'] eqn:E2. intros E; inversion E; subst.
        destruct (IH r2 ltac:(unfold ltof; cbn; lia) _ _ E2) as [H1 H2]. cbn [length skipn]. split; [exact H1|cbn in *; lia].
      * destruct (is_blank c).
        -- destruct (skip_blanks (d :: r2)) as [m' r'] eqn:E2. intros E; inversion E; subst.
           destruct (IH (d :: r2) ltac:(unfold ltof; cbn; lia) _ _ E2) as [H1 H2]. cbn [length skipn]. split; [exact H1|cbn in *; lia].
        -- intros E; inversion E; subst; cbn; auto.
Qed.

Lemma skip_blanks_head l m l1 : skip_blanks l = (m, l1) ->
  match l1 with c :: _ => is_blank c = false | [] => True end.
Proof.
  revert m l1.
  induction l as [l IH] using (well_founded_induction (Wf_nat.well_founded_ltof _ (@length N))).
  intros m l1. destruct l as [|c r]; cbn [skip_blanks].
  - intros E; inversion E; subst; auto.
  - destruct r as [|d r2].
    + destruct (is_blank c) eqn:Eb; intros E; inversion E; subst; auto.
    + destruct (is_lc c d).
      * destruct (skip_blanks r2) as [m' r'] eqn:E2. intros E; inversion E; subst.
        apply (IH r2 ltac:(unfold ltof; cbn; lia) _ _ E2).
      * destruct (is_blank c) eqn:Eb.
        -- destruct (skip_blanks (d :: r2)) as [m' r'] eqn:E2. intros E; inversion E; subst.
           apply (IH (d :: r2) ltac:(unfold ltof; cbn; lia) _ _ E2).
        -- intros E; inversion E; subst; auto.
Qed.

Lemma skip_comment_split l : forall m l1, skip_comment l = (m, l1) ->
  l1 = skipn (length m) l /\ (length m + length l1 = length l)%nat
  /\ match l1 with c :: _ => c = 10 | [] => True end.
Proof.
  induction l as [|c r IH]; intros m l1; cbn [skip_comment].
  - intros E; inversion E; subst; cbn; auto.
  - destruct (c =? 10) eqn:Ec.
    + intros E; inversion E; subst; cbn. apply N.eqb_eq in Ec. auto.
    + destruct (skip_comment r) as [m' r'] eqn:E2. intros E; inversion E; subst.
      destruct (IH _ _ eq_refl) as (A & B & C). cbn [length skipn]. repeat split; auto; lia.
Qed.

Lemma skip_gap_split l m l1 : skip_gap l = (m, l1) ->
  l1 = skipn (length m) l /\ (length m + length l1 = length l)%nat
  /\ match l1 with c :: _ => is_blank c = false | [] => True end.
Proof.
  unfold skip_gap. destruct (skip_blanks l) as [gm l0] eqn:Eg.
  destruct (skip_blanks_split _ _ _ Eg) as [A B]. pose proof (skip_blanks_head _ _ _ Eg) as Hh.
  destruct l0 as [|c r].
  - intros E; inversion E; subst. auto.
  - destruct (c =? 35).
    + destruct (skip_comment (c :: r)) as [cm l2] eqn:Ec. intros E; inversion E; subst.
      destruct (skip_comment_split _ _ _ Ec) as (A2 & B2 & C2).
      rewrite app_length. repeat split.
      * rewrite A2, A, skipn_skipn. f_equal; lia.
      * cbn [length] in *. lia.
      * destruct l1; auto. subst. reflexivity.
    + intros E; inversion E; subst. auto.
Qed.

(* ---------- quotations ---------- *)

Lemma sq_body_split l n r : sq_body l = Some (n, r) -> r = skipn n l /\ (n + length r = length l)%nat /\ (1 <= n)%nat.
Proof.
  revert n r; induction l as [|c l IH]; intros n r; cbn [sq_body]; [discriminate|].
  destruct (c =? 39).
  - intros E; inversion E; subst; cbn; auto with arith.
  - destruct (sq_body l) as [[n' r']|]; [|discriminate].
    intros E; inversion E; subst. destruct (IH _ _ eq_refl) as (H1 & H2 & H3).
    cbn [skipn length]. repeat split; auto; lia.
Qed.

Lemma dq_body_split fuel : forall l m r, dq_body fuel l = inl (m, r) ->
  r = skipn (length m) l /\ (length m + length r = length l)%nat /\ (1 <= length m)%nat.
Proof.
  induction fuel as [|fuel IH]; intros l m r; cbn [dq_body]; [discriminate|].
  assert (K : forall m0 l0, (1 <= length m0)%nat -> (length m0 <= length l)%nat -> l0 = skipn (length m0) l ->
              match dq_body fuel l0 with inl (m1, r') => inl (m0 ++ m1, r') | inr e => inr e end = inl (m, r) ->
              r = skipn (length m) l /\ (length m + length r = length l)%nat /\ (1 <= length m)%nat).
  { intros m0 l0 H1 Hle -> E. destruct (dq_body fuel (skipn (length m0) l)) as [[m1 r']|] eqn:E1; [|discriminate].
    inversion E; subst. destruct (IH _ _ _ E1) as (A & B & C).
    rewrite app_length. rewrite skipn_length in B. repeat split; try lia.
    rewrite A. rewrite skipn_skipn. f_equal. lia. }
  destruct l as [|c r0]; [discriminate|].
  destruct (c =? 92).
  - destruct r0 as [|d r2].
    + apply K; cbn; auto.
    + destruct (d =? 10); [apply K; cbn; auto; lia|].
      destruct (dq_escapable d); apply K; cbn; auto; lia.
  - destruct (c =? 34).
    + intros E; inversion E; subst; cbn; auto.
    + destruct ((c =? 36) || (c =? 96)); [discriminate|]. apply K; cbn; auto; lia.
Qed.

(* ---------- words ---------- *)

Definition lit_none (w : winfo) : Prop := w_lit w = None.

Lemma w_quoted_none w : lit_none (w_quoted w).
Proof. reflexivity. Qed.
Lemma w_literal_none c w : lit_none w -> lit_none (w_literal c w).
Proof. unfold lit_none, w_literal; cbn. intros ->; reflexivity. Qed.

(* all characters of [firstn n l] satisfy [P] *)
Definition all_first (P : N -> Prop) (n : nat) (l : list N) : Prop :=
  forall i c, (i < n)%nat -> nth_error l i = Some c -> P c.

Lemma all_first_app P n1 n2 l :
  all_first P n1 l -> all_first P n2 (skipn n1 l) -> all_first P (n1 + n2) l.
Proof.
  intros H1 H2 i c Hi Hn. destruct (Nat.lt_ge_cases i n1) as [Hlt|Hge]; [eapply H1; eauto|].
  apply (H2 (i - n1)%nat c); [lia|]. rewrite nth_error_skipn. rewrite <- Hn. f_equal. lia.
Qed.

Definition nonblank (c : N) : Prop := is_blank c = false.

Lemma not_delim_nonblank c : is_delim c = false -> nonblank c.
Proof. unfold is_delim, nonblank. destruct (is_op_char c); cbn; [discriminate|auto]. Qed.

Lemma nonblank_92 : nonblank 92. Proof. reflexivity. Qed.
Lemma nonblank_10 : nonblank 10. Proof. reflexivity. Qed.

Lemma word_body_spec fuel : forall l w m r w',
  word_body fuel l w = inl (m, r, w') ->
  r = skipn (length m) l /\ (length m + length r = length l)%nat
  /\ match r with d :: _ => is_delim d = true | [] => True end
  /\ (lit_none w -> lit_none w')
  /\ (w_lit w' <> None -> all_first nonblank (length m) l).
Proof.
  induction fuel as [|fuel IH]; intros l w m r w'; cbn [word_body]; [discriminate|].
  assert (K : forall m0 k l0 w0, length m0 = k -> (k <= length l)%nat -> l0 = skipn k l ->
              (lit_none w -> lit_none w0) ->
              (w_lit w0 <> None -> all_first nonblank k l) ->
              match word_body fuel l0 w0 with inl (m1, r', w2) => inl (m0 ++ m1, r', w2) | inr e => inr e end = inl (m, r, w') ->
              r = skipn (length m) l /\ (length m + length r = length l)%nat
              /\ match r with d :: _ => is_delim d = true | [] => True end
              /\ (lit_none w -> lit_none w')
              /\ (w_lit w' <> None -> all_first nonblank (length m) l)).
  { intros m0 k l0 w0 <- Hle -> Hn Hb E.
    destruct (word_body fuel (skipn (length m0) l) w0) as [[[m1 r'] w2]|] eqn:E1; [|discriminate].
    inversion E; subst. destruct (IH _ _ _ _ _ E1) as (A & B & C & D & F).
    rewrite app_length. rewrite skipn_length in B. repeat split; try lia; auto.
    - rewrite A, skipn_skipn. f_equal; lia.
    - intros Hw'. apply all_first_app; [|apply F; auto].
      apply Hb. intros Hw0. apply Hw'. apply D. exact Hw0. }
  assert (Q : forall w1 k, w_lit (w_quoted w1) <> None -> all_first nonblank k l).
  { intros w1 k H; exfalso; apply H; reflexivity. }
  destruct l as [|c r0].
  - intros E; inversion E; subst; cbn. repeat split; auto. intros _ i c Hi; lia.
  - destruct (c =? 92) eqn:E92.
    + apply N.eqb_eq in E92; subst c. destruct r0 as [|d r2].
      * apply (K _ 1%nat); [reflexivity|cbn; lia|reflexivity|apply w_literal_none|].
        intros _ i c Hi Hn. destruct i; [|lia]. cbn in Hn; inversion Hn; subst. exact nonblank_92.
      * destruct (d =? 10) eqn:E10.
        -- apply N.eqb_eq in E10; subst d.
           apply (K _ 2%nat); [reflexivity|cbn; lia|reflexivity|auto|].
           intros _ i c Hi Hn. destruct i as [|[|i]]; cbn in Hn; try lia; inversion Hn; subst;
             [exact nonblank_92|exact nonblank_10].
        -- apply (K _ 2%nat); [reflexivity|cbn; lia|reflexivity|intros _; apply w_quoted_none|apply Q].
    + destruct (c =? 39).
      * destruct (sq_body r0) as [[n r']|] eqn:Esq; [|discriminate].
        destruct (sq_body_split _ _ _ Esq) as (A & B & C).
        apply (K _ (S n)); [unfold falses; apply repeat_length|cbn; lia|cbn; exact A|intros _; apply w_quoted_none|apply Q].
      * destruct (c =? 34).
        -- destruct (dq_body (S (length r0)) r0) as [[md r']|] eqn:Edq; [|discriminate].
           destruct (dq_body_split _ _ _ _ Edq) as (A & B & C).
           apply (K _ (S (length md))); [reflexivity|cbn; lia|cbn; exact A|intros _; apply w_quoted_none|apply Q].
        -- destruct ((c =? 36) || (c =? 96)); [discriminate|].
           destruct (is_delim c) eqn:Ed.
           ++ intros E; inversion E; subst; cbn. repeat split; auto. intros _ i c' Hi; lia.
           ++ apply (K _ 1%nat); [reflexivity|cbn; lia|reflexivity|apply w_literal_none|].
              intros _ i c' Hi Hn. destruct i; [|lia]. cbn in Hn; inversion Hn; subst.
              apply not_delim_nonblank; auto.
Qed.

(* ---------- operators ---------- *)

Lemma skip_lc_split l : forall m r, skip_lc l = (m, r) -> r = skipn (length m) l /\ (length m + length r = length l)%nat.
Proof.
  induction l as [l IH] using (well_founded_induction (Wf_nat.well_founded_ltof _ (@length N))).
  intros m r. destruct l as [|c [|d r2]]; cbn [skip_lc]; try (intros E; inversion E; subst; cbn; auto; fail).
  destruct (is_lc c d).
  - destruct (skip_lc r2) as [m' r'] eqn:E2. intros E; inversion E; subst.
    destruct (IH r2 ltac:(unfold ltof; cbn; lia) _ _ E2) as [H1 H2]. cbn [length skipn]. split; [exact H1|cbn in *; lia].
  - intros E; inversion E; subst; cbn; auto.
Qed.

Lemma op_tail_len fuel : forall o l o' m r, op_tail fuel o l = (o', m, r) -> (length m <= length l)%nat.
Proof.
  induction fuel as [|fuel IH]; intros o l o' m r; cbn [op_tail].
  - intros E; inversion E; subst; cbn; lia.
  - destruct (op_has_next o); [|intros E; inversion E; subst; cbn; lia].
    destruct (skip_lc l) as [m1 l1] eqn:E1. destruct (skip_lc_split _ _ _ E1) as [A B].
    destruct l1 as [|c r1]; [intros E; inversion E; subst; lia|].
    destruct (ext_op o c).
    + destruct (op_tail fuel o0 r1) as [[o2 m2] r2] eqn:E2. intros E; inversion E; subst.
      specialize (IH _ _ _ _ _ E2). rewrite app_length. cbn in *. lia.
    + intros E; inversion E; subst. lia.
Qed.

(* ---------- lex ---------- *)

Lemma first_op_none_not_op c : first_op c = None -> is_op_char c = false.
Proof.
  unfold first_op, is_op_char.
  destruct (c =? 10); [discriminate|]. destruct (c =? 38); [discriminate|].
  destruct (c =? 40); [discriminate|]. destruct (c =? 41); [discriminate|].
  destruct (c =? 59); [discriminate|]. destruct (c =? 60); [discriminate|].
  destruct (c =? 62); [discriminate|]. destruct (c =? 124); [discriminate|]. reflexivity.
Qed.

(* the shape of a successful [lex] *)
Lemma lex_inv l lx : lex l = inl lx ->
  exists l1, l1 = skipn (length (lx_gap lx)) l /\
  (length (lx_gap lx) + length l1 = length l)%nat /\
  ( (l1 = [] /\ lx_kind lx = TEof /\ lx_tok lx = [])
    \/ (exists c r o m, l1 = c :: r /\ first_op c <> None /\ lx_kind lx = TOp o /\ lx_lit lx = None
                             /\ lx_tok lx = false :: m /\ (length m <= length r)%nat)
    \/ (exists c r m rest w, l1 = c :: r /\ first_op c = None /\ is_blank c = false
                           /\ word_body (S (length l1)) l1 w0 = inl (m, rest, w) /\ lx_tok lx = m
                           /\ lx_lit lx = match w_lit w with Some s => Some (rev s) | None => None end
                           /\ (is_word_kind (lx_kind lx) = true \/ lx_kind lx = TIoNum)) ).
Proof.
  unfold lex. destruct (skip_gap l) as [gm l1] eqn:Eg.
  destruct (skip_gap_split _ _ _ Eg) as (A & B & Hh).
  destruct l1 as [|c r].
  - intros E; inversion E; subst; cbn [lx_gap lx_kind lx_tok]. exists []. split; [exact A|]. split; [cbn in *; lia|]. left; auto.
  - destruct (c =? 126); [discriminate|].
    destruct (first_op c) as [o|] eqn:Ef.
    + destruct (op_tail 3 o r) as [[o' m] rr] eqn:Eo. intros E; inversion E; subst; cbn [lx_gap lx_kind lx_tok lx_lit].
      exists (c :: r). split; [exact A|]. split; [exact B|]. right; left.
      exists c, r, o', m. repeat split; auto; try congruence. eapply op_tail_len; eauto.
    + destruct (word_body (S (length (c :: r))) (c :: r) w0) as [[[m rest] w]|] eqn:Ew; [|discriminate].
      match goal with |- context [if ?b then _ else _] => destruct b end; [discriminate|].
      intros E; inversion E; subst; cbn [lx_gap lx_kind lx_tok lx_lit]. exists (c :: r). split; [exact A|]. split; [exact B|]. right; right.
      exists c, r, m, rest, w. repeat split; auto.
      destruct (w_lit w) as [s|]; [|left; reflexivity].
      destruct (keyword_of (rev s)); [left; reflexivity|].
      destruct (all_digits (rev s) && head_is_redir rest); [right|left]; reflexivity.
Qed.

Lemma word_body_nonempty c r m rest w :
  first_op c = None -> is_blank c = false ->
  word_body (S (length (c :: r))) (c :: r) w0 = inl (m, rest, w) -> (1 <= length m)%nat.
Proof.
  intros Hf Hb. cbn [word_body].
  assert (K : forall m0 l0 w1, (1 <= length m0)%nat ->
     match word_body (length (c :: r)) l0 w1 with inl (m1, r', w2) => inl (m0 ++ m1, r', w2) | inr e => inr e end = inl (m, rest, w) ->
     (1 <= length m)%nat).
  { intros m0 l0 w1 H1 E. destruct (word_body (length (c :: r)) l0 w1) as [[[m1 r'] w2]|]; [|discriminate].
    inversion E; subst. rewrite app_length; lia. }
  destruct (c =? 92).
  - destruct r as [|d r2]; [apply K; cbn; lia|]. destruct (d =? 10); apply K; cbn; lia.
  - destruct (c =? 39).
    + destruct (sq_body r) as [[n r']|]; [|discriminate]. apply K; cbn; lia.
    + destruct (c =? 34).
      * destruct (dq_body (S (length r)) r) as [[md r']|]; [|discriminate]. apply K; cbn; lia.
      * destruct ((c =? 36) || (c =? 96)); [discriminate|].
        assert (Hd : is_delim c = false).
        { unfold is_delim. rewrite (first_op_none_not_op _ Hf), Hb. reflexivity. }
        rewrite Hd. apply K; cbn; lia.
Qed.

Lemma lex_len l lx : lex l = inl lx -> (length (lx_gap lx) + length (lx_tok lx) <= length l)%nat.
Proof.
  intros E. destruct (lex_inv _ _ E) as (l1 & HL & HB & [(H1 & H2 & H3)|[(c & r & o & m & H1 & H2 & H3 & H4 & H5 & H6)|(c & r & m & rest & w & H1 & H2 & H3 & H4 & H5 & H6 & H7)]]).
  - rewrite H3; cbn; lia.
  - rewrite H1 in HB. rewrite H5. cbn in *. lia.
  - rewrite H1 in HB. destruct (word_body_spec _ _ _ _ _ _ H4) as (A & B & _). rewrite H1 in B. rewrite H5. lia.
Qed.

Lemma lex_tok_nonempty l lx : lex l = inl lx -> lx_kind lx <> TEof -> (1 <= length (lx_tok lx))%nat.
Proof.
  intros E Hk. destruct (lex_inv _ _ E) as (l1 & HL & HB & [(H1 & H2 & H3)|[(c & r & o & m & H1 & H2 & H3 & H4 & H5 & H6)|(c & r & m & rest & w & H1 & H2 & H3 & H4 & H5 & H6 & H7)]]).
  - contradiction.
  - rewrite H5; cbn; lia.
  - rewrite H5. rewrite H1 in H4. eapply word_body_nonempty; eauto.
Qed.

Lemma lex_word_start l lx : lex l = inl lx -> is_word_kind (lx_kind lx) = true ->
  exists c, nth_error l (length (lx_gap lx)) = Some c /\ is_delim c = false.
Proof.
  intros E Hk. destruct (lex_inv _ _ E) as (l1 & HL & HB & [(H1 & H2 & H3)|[(c & r & o & m & H1 & H2 & H3 & H4 & H5 & H6)|(c & r & m & rest & w & H1 & H2 & H3 & H4 & H5 & H6 & H7)]]).
  - rewrite H2 in Hk; discriminate.
  - rewrite H3 in Hk; discriminate.
  - exists c. split.
    + rewrite <- (Nat.add_0_r (length (lx_gap lx))), <- nth_error_skipn, <- HL, H1. reflexivity.
    + unfold is_delim. rewrite (first_op_none_not_op _ H2), H3. reflexivity.
Qed.

Lemma lex_word_end l lx : lex l = inl lx -> is_word_kind (lx_kind lx) = true ->
  match nth_error l (length (lx_gap lx) + length (lx_tok lx)) with
  | Some d => is_delim d = true
  | None => True
  end.
Proof.
  intros E Hk. destruct (lex_inv _ _ E) as (l1 & HL & HB & [(H1 & H2 & H3)|[(c & r & o & m & H1 & H2 & H3 & H4 & H5 & H6)|(c & r & m & rest & w & H1 & H2 & H3 & H4 & H5 & H6 & H7)]]).
  - rewrite H2 in Hk; discriminate.
  - rewrite H3 in Hk; discriminate.
  - destruct (word_body_spec _ _ _ _ _ _ H4) as (A & B & C & _).
    rewrite <- nth_error_skipn, <- HL, H5.
    rewrite <- (Nat.add_0_r (length m)), <- nth_error_skipn, <- A.
    destruct rest; cbn; auto.
Qed.

Lemma lex_lit_nonblank l lx nm : lex l = inl lx -> lx_lit lx = Some nm ->
  forall i c, (i < length (lx_tok lx))%nat -> nth_error l (length (lx_gap lx) + i) = Some c -> is_blank c = false.
Proof.
  intros E Hl. destruct (lex_inv _ _ E) as (l1 & HL & HB & [(H1 & H2 & H3)|[(c & r & o & m & H1 & H2 & H3 & H4 & H5 & H6)|(c & r & m & rest & w & H1 & H2 & H3 & H4 & H5 & H6 & H7)]]).
  - rewrite H3; cbn; intros; lia.
  - rewrite H4 in Hl; discriminate.
  - destruct (word_body_spec _ _ _ _ _ _ H4) as (A & B & C & D & F).
    intros i c' Hi Hn. rewrite H5 in Hi. rewrite <- nth_error_skipn, <- HL in Hn.
    apply (F ltac:(rewrite H6 in Hl; destruct (w_lit w); congruence) i c' Hi Hn).
Qed.
